# Emulated epoll of the shim kernel (overlay/pkg/verifsys/epoll.go, component `wake`, property C04):
# readWriteLoop's epoll_wait goes through verifsys.EpollWait. Real epoll descriptors (< verifsys.SimBase) pass straight
# to syscall.EpollWait (plus one atomic counter increment, read by the idle-spin oracle of cmd/wake), so real engines and
# every other harness behave as before; only descriptors created by verifsys.NewEpoll are served by the emulation.
# (epoll_ctl is already routed by rules_sys.py; the import of verifsys into poller_epoll.go is requested there too.)
rule("poller_epoll.go", r"\bsyscall\.EpollWait\(", "verifsys.EpollWait(", minimum=1)
need_import("poller_epoll.go", "github.com/lesismal/nbio/verifsys")
