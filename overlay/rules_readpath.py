# Overlay rewrite rules of component `readpath` (property C02; see DESIGN.md 1.3, 4/C02).
# `rule` and `need_import` are provided by lib/mkoverlay.py. Every rule states its minimum number of matches.
#
# The atomic operations on Conn.readEvents / Conn.readEOF and the read(2) of stream connections go through small
# functions added by overlay/add/zz_verif_readpath.go: a scheduling point of the cooperative scheduler in front of the
# operation (verifsched.*: a no-op for every goroutine that is not a managed thread of an active scheduler run, i.e. in
# all real engines and all other harnesses) and an optional observer hook behind it (nil unless the readpath harness's
# gate tier installs one).  The operations themselves are unchanged.

_C = "conn_unix.go"
rule(_C, r"atomic\.LoadInt32\(&c\.readEvents\)", "verifREvLoad(c)", minimum=1)
rule(_C, r"atomic\.CompareAndSwapInt32\(&c\.readEvents, cnt, cnt\+1\)", "verifREvCAS(c, cnt, cnt+1)", minimum=1)
rule(_C, r"atomic\.AddInt32\(&c\.readEvents, -1\)", "verifREvAdd(c, -1)", minimum=1)
rule(_C, r"atomic\.LoadInt32\(&c\.readEOF\)", "verifEOFLoad(c)", minimum=1)
# the re-arm of a one-shot descriptor by the read task that lowered the counter to 0
rule(_C, r"(?m)^(\s+)if g\.isOneshot \{\n\s+c\.ResetPollerEvent\(\)\n", r"\1if g.isOneshot {\n\1\tverifRearm(c)\n", minimum=1)
# doRead's call of readStream (the syscall inside readStream stays where rules_sys.py expects it)
rule(_C, r"return c\.readStream\(b\)", "return c.verifReadStream(b)", minimum=1)
# keep the file's "sync/atomic" import used whatever else the file does with it
rule(_C, r"\Z", "\nvar _ = atomic.LoadInt32\n", minimum=1)

_P = "poller_epoll.go"
rule(_P, r"atomic\.StoreInt32\(&c\.readEOF, 1\)", "verifEOFStore(c)", minimum=1)
rule(_P, r"\Z", "\nvar _ = atomic.LoadInt32\n", minimum=1)
