# Shim kernel (overlay/pkg/verifsys): route the syscalls of package nbio's unix files through verifsys.
# Descriptors below verifsys.SimBase fall straight through to the real syscall.
_V = "github.com/lesismal/nbio/verifsys"

# conn_unix.go: write (writeStream, writeUDPClientFromDial, flush), read (readStream), close (releaseToWrite,
# closeWithErrorWithoutLock, udpConn.Close), sendfile (flush)
rule("conn_unix.go", r"\bsyscall\.Write\(", "verifsys.Write(", minimum=3)
rule("conn_unix.go", r"\bsyscall\.Read\(", "verifsys.Read(", minimum=1)
rule("conn_unix.go", r"\bsyscall\.Close\(", "verifsys.Close(", minimum=2)
rule("conn_unix.go", r"\bsyscall\.Sendfile\(", "verifsys.Sendfile(", minimum=1)
need_import("conn_unix.go", _V)

# sendfile_unix.go: dup (queued / EAGAIN), sendfile (inline loop)
rule("sendfile_unix.go", r"\bsyscall\.Dup\(", "verifsys.Dup(", minimum=2)
rule("sendfile_unix.go", r"\bsyscall\.Sendfile\(", "verifsys.Sendfile(", minimum=1)
need_import("sendfile_unix.go", _V)

# writev_linux.go: the SYS_WRITEV system call
rule("writev_linux.go", r"\bsyscall\.Syscall\(\s*syscall\.SYS_WRITEV\s*,", "verifsys.SyscallWritev(syscall.SYS_WRITEV,", minimum=1)
need_import("writev_linux.go", _V)

# poller_epoll.go: epoll_ctl of setRead / setReadWrite (the eventfd registration in newPoller passes through)
rule("poller_epoll.go", r"\bsyscall\.EpollCtl\(", "verifsys.EpollCtl(", minimum=6)
need_import("poller_epoll.go", _V)
