package nbio

import "fmt"

// Overlay-only: a read-only dump of the connection table for stall diagnostics in the harnesses.
func VerifDumpConns(g *Engine) []string {
	var out []string
	for fd, c := range g.connsUnix {
		if c == nil {
			continue
		}
		c.mux.Lock()
		out = append(out, fmt.Sprintf("fd=%d closed=%v left=%d queued=%d isWAdded=%v readEvents=%d jobs=%d remote=%v",
			fd, c.closed, c.left, len(c.writeList), c.isWAdded, c.readEvents, len(c.jobList), c.rAddr))
		c.mux.Unlock()
	}
	return out
}
