//go:build linux || darwin || netbsd || freebsd || openbsd || dragonfly
// +build linux darwin netbsd freebsd openbsd dragonfly

package nbio

// Overlay-only accessor (never part of /repo): read-only view of the deadline state for the C16 harness.
// rArmed / wArmed: the read / write timer pointer is set; backlog: queued write buffers; closed: c.closed.
func VerifDeadlineState(c *Conn) (rArmed, wArmed bool, backlog int, closed bool) {
	c.mux.Lock()
	defer c.mux.Unlock()
	return c.rTimer != nil, c.wTimer != nil, len(c.writeList), c.closed
}
