//go:build linux
// +build linux

package nbio

// Overlay-only additions for the lifecycle harness (component `lifecycle`, property C03). Never part of /repo.
// Constructors for connections on simulated descriptors of the shim kernel (package verifsys) that go through the REAL
// registration code (poller.addConn / poller.addDialer), an entry point for the poller's takeOnConnected, and
// read-only views. Nothing here changes what the library does.

import (
	"github.com/lesismal/nbio/verifsys"
)

// VerifLifeNewDialer builds the connection DialAsyncTimeout builds for a connect(2) that returned EINPROGRESS (the
// callback pending in Conn.onConnected) on the simulated socket and registers it through the real poller.addDialer.
// The connection is returned even when the registration fails.
func (v *VerifSimEngine) VerifLifeNewDialer(s *verifsys.Sock, cb func(*Conn, error)) (*Conn, error) {
	c := &Conn{fd: s.Fd, typ: ConnTypeTCP}
	c.onConnected = cb
	_, err := v.G.addDialer(c)
	return c, err
}

// VerifLifeNewConn is NewConn (poller.addConn on a fresh Conn) that also returns the Conn when addConn fails.
func (v *VerifSimEngine) VerifLifeNewConn(s *verifsys.Sock, typ ConnType) (*Conn, error) {
	c := &Conn{fd: s.Fd, typ: typ}
	if typ == ConnTypeUDPClientFromDial {
		// what dupStdConn / DialAsyncTimeout give a UDP client: it is its own udpConn parent (udpConn.Close closes its descriptor)
		c.connUDP = &udpConn{parent: c}
	}
	err := v.G.pollers[0].addConn(c)
	return c, err
}

// VerifLifeSetTable replaces the connection table by one of n entries (n below verifsys.SimBase makes every simulated
// descriptor "too big", the branch of addConn / addDialer taken when fd >= MaxOpenFiles) and returns the old table.
func (v *VerifSimEngine) VerifLifeSetTable(n int) []*Conn {
	old := v.G.connsUnix
	v.G.connsUnix = make([]*Conn, n)
	return old
}

// VerifLifeRestoreTable puts a table returned by VerifLifeSetTable back.
func (v *VerifSimEngine) VerifLifeRestoreTable(t []*Conn) { v.G.connsUnix = t }

// VerifLifeInTable reports whether the engine's table still maps c's descriptor to c.
func (v *VerifSimEngine) VerifLifeInTable(c *Conn) bool {
	return c.fd >= 0 && c.fd < len(v.G.connsUnix) && v.G.connsUnix[c.fd] == c
}

// VerifLifeTake is the poller's Conn.takeOnConnected(events).
func VerifLifeTake(c *Conn, events uint32) (func(*Conn, error), error) { return c.takeOnConnected(events) }

// VerifLifeAfterDialSuccess is what the poller does after a successful dial callback (poller_epoll.go readWriteLoop):
// drop the writing event unless the callback left a backlog, under the connection's mutex.
func VerifLifeAfterDialSuccess(c *Conn) {
	c.mux.Lock()
	if len(c.writeList) == 0 {
		c.resetRead()
	}
	c.mux.Unlock()
}

// VerifLifePending reports whether a dial callback is still stored in the Conn.
func VerifLifePending(c *Conn) bool { return c.onConnected != nil }

// VerifLifeEventBits returns the poller's event masks (write, error).
func VerifLifeEventBits() (write uint32, errs uint32) { return epollEventsWrite, epollEventsError }

// VerifLifeTimers reports whether the read / write deadline timers are set.
func VerifLifeTimers(c *Conn) (r, w bool) {
	c.mux.Lock()
	defer c.mux.Unlock()
	return c.rTimer != nil, c.wTimer != nil
}
