package mempool

// Read-only accessors for the verification harness (added through the build overlay, never part of /repo).

// VerifAlignedIndexes returns a copy of the size -> bucket table filled by init().
func VerifAlignedIndexes() []byte {
	out := make([]byte, len(alignedIndexes))
	copy(out, alignedIndexes[:])
	return out
}

// VerifAlignedConsts returns maxAlignedBufferSize, minAlignedBufferSizeMask and the number of buckets.
func VerifAlignedConsts() (maxSize, mask, buckets int) {
	return maxAlignedBufferSize, minAlignedBufferSizeMask, len(alignedPools)
}

// VerifAlignedNew returns len and cap of what alignedPools[i].New() builds.
func VerifAlignedNew(i int) (int, int) {
	p := alignedPools[i].New().(*[]byte)
	return len(*p), cap(*p)
}
