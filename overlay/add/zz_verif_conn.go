//go:build linux
// +build linux

package nbio

// Overlay-only accessors (never part of /repo): connections on simulated descriptors of the shim kernel
// (package verifsys) and read-only views of the write-path state, for the connio harness (C01, C17).

import (
	"github.com/lesismal/nbio/mempool"
	"github.com/lesismal/nbio/verifsys"
)

// VerifSimEngine is an Engine that is never started: one poller without an epoll instance, a connection table
// large enough for simulated descriptors, synchronous open/close notifications.
type VerifSimEngine struct {
	G        *Engine
	OnClose  func(c *Conn, err error)
	OnOpen   func(c *Conn)
	Written  func(c *Conn, b []byte, n int)
	nWritten int
}

// VerifNewSimEngine builds the engine; conf is passed through NewEngine (defaults as in production).
func VerifNewSimEngine(conf Config) *VerifSimEngine {
	g := NewEngine(conf)
	g.connsUnix = make([]*Conn, verifsys.SimBase+verifsys.MaxSim) // MaxOpenFiles may be lowered to RLIMIT_NOFILE
	g.isOneshot = (g.EpollMod == EPOLLET && g.EPOLLONESHOT == EPOLLONESHOT)
	p := &poller{g: g, epfd: -1, evtfd: -1, index: 0, pollType: "POLLER"}
	g.pollers = []*poller{p}
	v := &VerifSimEngine{G: g}
	g.onOpen = func(c *Conn) {
		if v.OnOpen != nil {
			v.OnOpen(c)
		}
	}
	g.onClose = func(c *Conn, err error) {
		if v.OnClose != nil {
			v.OnClose(c, err)
		}
	}
	return v
}

// SetBodyAllocator changes Engine.BodyAllocator (read by newToWriteBuf / releaseToWrite on every call through c.p.g);
// only between connections: buffers must be freed by the allocator they came from.
func (v *VerifSimEngine) SetBodyAllocator(a mempool.Allocator) { v.G.BodyAllocator = a }

// SetMaxWriteBufferSize changes Engine.MaxWriteBufferSize (read by Conn.overflow on every write).
func (v *VerifSimEngine) SetMaxWriteBufferSize(n int) { v.G.MaxWriteBufferSize = n }

// CountWritten installs (or removes) an OnWrittenSize hook.
func (v *VerifSimEngine) CountWritten(h func(c *Conn, b []byte, n int)) {
	v.Written = h
	if h == nil {
		v.G.onWrittenSize = nil
		return
	}
	v.G.onWrittenSize = func(c *Conn, b []byte, n int) { h(c, b, n) }
}

// NewConn creates a stream connection of the given type on the simulated socket and registers it with the
// poller exactly as an accepted connection (poller.addConn).
func (v *VerifSimEngine) NewConn(s *verifsys.Sock, typ ConnType) (*Conn, error) {
	c := &Conn{fd: s.Fd, typ: typ}
	err := v.G.pollers[0].addConn(c)
	return c, err
}

// VerifFlush runs the poller's reaction to a writability event: Conn.flush.
func VerifFlush(c *Conn) error { return c.flush() }

// VerifLeft is Conn.left.
func VerifLeft(c *Conn) int { return c.left }

// VerifQueued is len(Conn.writeList).
func VerifQueued(c *Conn) int { return len(c.writeList) }

// VerifWAdded is Conn.isWAdded.
func VerifWAdded(c *Conn) bool { return c.isWAdded }

// VerifClosed is Conn.closed.
func VerifClosed(c *Conn) bool { return c.closed }

// VerifCloseErr is Conn.closeErr.
func VerifCloseErr(c *Conn) error { return c.closeErr }

// VerifQueueShape describes the write queue: per item 'b' (buffer) or 'f' (file range), and the number of
// items that have nothing left to send (flush would never get past such an item).
func VerifQueueShape(c *Conn) (shape string, empty int) {
	b := make([]byte, 0, len(c.writeList))
	for _, t := range c.writeList {
		if t == nil {
			b = append(b, '?')
			continue
		}
		if t.fd == 0 {
			b = append(b, 'b')
			if t.buf == nil || int64(len(*t.buf))-t.offset <= 0 {
				empty++
			}
		} else {
			b = append(b, 'f')
			if t.remain <= 0 {
				empty++
			}
		}
	}
	return string(b), empty
}

// VerifBufferedBytes sums the unsent bytes of the queued buffers (the quantity Conn.left stands for).
func VerifBufferedBytes(c *Conn) int {
	n := 0
	for _, t := range c.writeList {
		if t != nil && t.fd == 0 && t.buf != nil {
			n += len(*t.buf) - int(t.offset)
		}
	}
	return n
}

// VerifConstants returns maxWriteCacheOrFlushSize and maxSendfileSize.
func VerifConstants() (writeCacheOrFlushSize int, sendfileSize int) {
	return maxWriteCacheOrFlushSize, maxSendfileSize
}
