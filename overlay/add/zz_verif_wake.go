//go:build linux
// +build linux

package nbio

// Overlay-only additions for the wake harness (component `wake`, property C04). Never part of /repo.
// An engine whose single IO poller waits on an EMULATED epoll instance (verifsys.NewEpoll) and whose connections live
// on simulated sockets with an emulated kernel (verifsys.NewKSock): the real readWriteLoop / addConn / addDialer /
// Write / Writev / Sendfile / flush / ResetPollerEvent run unchanged; the harness runs the poller loop on a goroutine of
// its choice (a managed thread of the cooperative scheduler).

import (
	"github.com/lesismal/nbio/verifsys"
)

var verifWakeTable []*Conn

// VerifWakeEngine is an Engine that is never Start()ed.
type VerifWakeEngine struct {
	G *Engine
	P *poller
}

// VerifNewWakeEngine builds the engine; conf is passed through NewEngine. Open / close notifications are delivered
// synchronously on the goroutine that causes them (the engine's Async queue is property C19's business).
func VerifNewWakeEngine(conf Config, ep *verifsys.Epoll, onOpen func(c *Conn), onClose func(c *Conn, err error)) *VerifWakeEngine {
	g := NewEngine(conf)
	// one connection table for all engines of the process (8 MiB of pointers: allocating and scanning a fresh one per
	// case dominated the harness's run time); only the simulated descriptors' slots are ever used
	if verifWakeTable == nil {
		verifWakeTable = make([]*Conn, verifsys.SimBase+verifsys.MaxSim)
	}
	for i := verifsys.SimBase; i < len(verifWakeTable); i++ {
		verifWakeTable[i] = nil
	}
	g.connsUnix = verifWakeTable
	g.isOneshot = (g.EpollMod == EPOLLET && g.EPOLLONESHOT == EPOLLONESHOT)
	p := &poller{g: g, epfd: ep.Fd, evtfd: -1, index: 0, pollType: "POLLER"}
	p.ReadBuffer = make([]byte, g.ReadBufferSize)
	g.pollers = []*poller{p}
	g.onOpen = func(c *Conn) {
		if onOpen != nil {
			onOpen(c)
		}
	}
	g.onClose = func(c *Conn, err error) {
		if onClose != nil {
			onClose(c, err)
		}
	}
	return &VerifWakeEngine{G: g, P: p}
}

// RunPoller is the poller goroutine's body: poller.readWriteLoop until Shutdown.
func (v *VerifWakeEngine) RunPoller() { v.P.readWriteLoop() }

// Shutdown makes readWriteLoop return after its current epoll_wait (the harness also stops the emulated epoll).
func (v *VerifWakeEngine) Shutdown() { v.P.shutdown = true }

// AddConn attaches a connection on the simulated socket exactly as an accepted / AddConn'ed one (poller.addConn).
func (v *VerifWakeEngine) AddConn(s *verifsys.Sock, typ ConnType) (*Conn, error) {
	c := &Conn{fd: s.Fd, typ: typ}
	err := v.P.addConn(c)
	return c, err
}

// AddDialer attaches a connection as DialAsync does (poller.addDialer); pending = connect(2) answered EINPROGRESS,
// the callback is then called by the poller on the first writability event.
func (v *VerifWakeEngine) AddDialer(s *verifsys.Sock, typ ConnType, pending bool, onConnected func(c *Conn, err error)) (*Conn, error) {
	c := &Conn{fd: s.Fd, typ: typ}
	if pending {
		c.onConnected = onConnected
	}
	err := v.P.addDialer(c)
	return c, err
}

// VerifDialPending reports whether the dial callback is still pending.
func VerifDialPending(c *Conn) bool { return c.onConnected != nil }

// VerifPendingBytes is the number of unsent bytes in the write queue (buffers and file ranges).
func VerifPendingBytes(c *Conn) int {
	n := 0
	for _, t := range c.writeList {
		if t == nil {
			continue
		}
		if t.fd == 0 {
			if t.buf != nil {
				n += len(*t.buf) - int(t.offset)
			}
		} else {
			n += int(t.remain)
		}
	}
	return n
}
