package timer

// Overlay-only accessors for the serializer / taskpool harnesses (component `sched`, C19). Never part of /repo.

import "github.com/lesismal/nbio/verifsched"

// VerifAsyncMutex identifies t.asyncMux in the scheduler's acquisition hooks.
func VerifAsyncMutex(t *Timer) *verifsched.Mutex { return &t.asyncMux }

// VerifAsyncList returns len and cap of the async list; to be called by the thread that owns t.asyncMux
// (from the scheduler's release hook) or at quiescence.
func VerifAsyncList(t *Timer) (int, int) { return len(t.asyncList), cap(t.asyncList) }

// VerifAsyncListLocked is VerifAsyncList under the mutex (for unmanaged callers).
func VerifAsyncListLocked(t *Timer) (int, int) {
	t.asyncMux.Lock()
	defer t.asyncMux.Unlock()
	return len(t.asyncList), cap(t.asyncList)
}
