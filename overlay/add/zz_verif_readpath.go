//go:build linux
// +build linux

package nbio

// Overlay-only additions for the readpath harness (component `readpath`, property C02). Never part of /repo.

import (
	"io"
	"sync/atomic"

	"github.com/lesismal/nbio/verifsched"
)

// VerifReadHook, when set, is called right behind every linearisation point of the asynchronous read path:
//
//	"load"     a = value of readEvents loaded by the gate
//	"cas"      a = old, b = new, ok = the compare-and-swap succeeded
//	"add"      a = value of readEvents after the decrement
//	"eofload"  a = value of readEOF loaded by the read task
//	"eofstore" the poller has stored readEOF = 1
//	"read"     a = len of the buffer offered to read(2), b = its result n, ok = no error
//	"rearm"    the read task has re-armed the one-shot descriptor (ResetPollerEvent returned)
//
// It is nil except while the gate tier of the readpath harness runs (no engine is running then).
var VerifReadHook func(c *Conn, op string, a, b int, ok bool)

func verifREvLoad(c *Conn) int32 {
	v := verifsched.LoadInt32(&c.readEvents)
	if h := VerifReadHook; h != nil {
		h(c, "load", int(v), 0, true)
	}
	return v
}

func verifREvCAS(c *Conn, o, n int32) bool {
	ok := verifsched.CompareAndSwapInt32(&c.readEvents, o, n)
	if h := VerifReadHook; h != nil {
		h(c, "cas", int(o), int(n), ok)
	}
	return ok
}

func verifREvAdd(c *Conn, d int32) int32 {
	v := verifsched.AddInt32(&c.readEvents, d)
	if h := VerifReadHook; h != nil {
		h(c, "add", int(v), 0, true)
	}
	return v
}

func verifEOFLoad(c *Conn) int32 {
	v := verifsched.LoadInt32(&c.readEOF)
	if h := VerifReadHook; h != nil {
		h(c, "eofload", int(v), 0, true)
	}
	return v
}

func verifEOFStore(c *Conn) {
	verifsched.StoreInt32(&c.readEOF, 1)
	if h := VerifReadHook; h != nil {
		h(c, "eofstore", 1, 0, true)
	}
}

func verifRearm(c *Conn) {
	c.ResetPollerEvent()
	if h := VerifReadHook; h != nil {
		h(c, "rearm", 0, 0, true)
	}
}

func (c *Conn) verifReadStream(b []byte) (*Conn, int, error) {
	rc, n, err := c.readStream(b)
	if h := VerifReadHook; h != nil {
		h(c, "read", len(b), n, err == nil)
	}
	return rc, n, err
}

// VerifReadEvents is Conn.readEvents.
func VerifReadEvents(c *Conn) int32 { return atomic.LoadInt32(&c.readEvents) }

// VerifRPPrepareEngine settles, for an engine that is NOT started, what Engine.Start and poller.readWriteLoop settle
// before the first event is dispatched: the oneshot flag, the read limit of edge-triggered engines, a connection table.
func VerifRPPrepareEngine(g *Engine, tableSize int) {
	g.connsUnix = make([]*Conn, tableSize)
	g.isOneshot = (g.EpollMod == EPOLLET && g.EPOLLONESHOT == EPOLLONESHOT)
	if g.onRead == nil && g.EpollMod == EPOLLET {
		g.MaxConnReadTimesPerEventLoop = 1<<31 - 1
	}
}

// VerifRPNewConn returns a stream Conn of engine g on the descriptor fd (one end of a non-blocking socket pair),
// attached the way poller.addConn attaches an accepted connection - open handler, connection table - except that it
// is not registered with epoll: no poller goroutine exists; the harness delivers the readiness events.
func VerifRPNewConn(g *Engine, fd int) *Conn {
	if fd >= len(g.connsUnix) {
		n := make([]*Conn, fd+64)
		copy(n, g.connsUnix)
		g.connsUnix = n
	}
	p := &poller{g: g, epfd: -1, evtfd: -1, pollType: "POLLER"}
	c := &Conn{fd: fd, typ: ConnTypeUnix}
	c.p = p
	g.onOpen(c)
	g.connsUnix[fd] = c
	return c
}

// VerifRPAsyncEvent is the part of poller.readWriteLoop (poller_epoll.go) that dispatches one event of a stream
// connection when asynchronous reading is enabled (ET + AsyncReadInPoller, no OnRead handler): in = the event carries
// EPOLLIN, rdhup = it carries EPOLLRDHUP without EPOLLERR / EPOLLHUP.  It has to be kept in step with that loop (the
// real-socket tier of the harness exercises the loop itself).
func VerifRPAsyncEvent(c *Conn, in, rdhup bool) {
	halfClosed := rdhup && c.p.g.onRead == nil && (c.typ == ConnTypeTCP || c.typ == ConnTypeUnix)
	if halfClosed {
		verifEOFStore(c)
	}
	if in {
		c.AsyncRead()
	}
	if rdhup {
		if halfClosed {
			if !in {
				c.AsyncRead()
			}
			return
		}
		_ = c.closeWithError(io.EOF)
	}
}
