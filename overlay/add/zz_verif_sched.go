//go:build linux

package nbio

// Overlay-only additions for the serializer harness (component `sched`, C05/C19). Never part of /repo.

import (
	"syscall"

	"github.com/lesismal/nbio/verifsched"
)

// VerifSchedNewConn returns a Conn of engine g on a real descriptor (one end of a Unix socket pair; the other
// end is returned so that the harness keeps it open) that is attached the way poller.addConn attaches an
// accepted connection - open handler, connection table - except that it is not registered with epoll: no
// poller goroutine ever touches it, so only the harness's threads act on it. Close() takes the real path
// (closeWithError -> deleteConn -> engine.onClose -> Timer.Async -> user handler).
func VerifSchedNewConn(g *Engine) (*Conn, int, error) {
	fds, err := syscall.Socketpair(syscall.AF_UNIX, syscall.SOCK_STREAM|syscall.SOCK_CLOEXEC, 0)
	if err != nil {
		return nil, -1, err
	}
	fd := fds[0]
	if fd >= len(g.connsUnix) {
		n := make([]*Conn, fd+64)
		copy(n, g.connsUnix)
		g.connsUnix = n
	}
	p := &poller{g: g}
	c := &Conn{fd: fd, typ: ConnTypeUnix}
	c.p = p
	g.onOpen(c)
	g.connsUnix[fd] = c
	return c, fds[1], nil
}

// VerifSchedConnMutex identifies c.mux in the scheduler's acquisition hooks.
func VerifSchedConnMutex(c *Conn) *verifsched.Mutex { return &c.mux }

// VerifSchedJobList returns len and cap of the job list; to be called by the thread that owns c.mux
// (from the scheduler's release hook) or at quiescence.
func VerifSchedJobList(c *Conn) (int, int) { return len(c.jobList), cap(c.jobList) }
