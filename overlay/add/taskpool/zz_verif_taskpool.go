package taskpool

// Overlay-only read-only accessors for the taskpool harness (component `sched`, C19). Never part of /repo.

import "sync/atomic"

// VerifConcurrent returns the running-worker counter.
func VerifConcurrent(tp *TaskPool) int64 { return atomic.LoadInt64(&tp.concurrent) }

// VerifMaxConcurrent returns the field maxConcurrent (= configured bound - 1).
func VerifMaxConcurrent(tp *TaskPool) int64 { return tp.maxConcurrent }

// VerifQueueLen returns the number of queued tasks.
func VerifQueueLen(tp *TaskPool) int { return len(tp.chQqueue) }

// VerifTaskPool returns the TaskPool inside an IOTaskPool.
func VerifTaskPool(tp *IOTaskPool) *TaskPool { return tp.task }
