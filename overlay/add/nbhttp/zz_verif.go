package nbhttp

// Overlay-only accessors (never part of /repo): read-only views for the correspondence harness.

// VerifCached returns the number of bytes the parser retains between Parse calls.
func VerifCached(p *Parser) int {
	if p.bytesCached == nil {
		return 0
	}
	return len(*p.bytesCached)
}
