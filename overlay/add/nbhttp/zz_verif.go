package nbhttp

// Overlay-only accessors (never part of /repo): read-only views for the correspondence harness.

// VerifCached returns the number of bytes the parser retains between Parse calls.
func VerifCached(p *Parser) int {
	if p.bytesCached == nil {
		return 0
	}
	return len(*p.bytesCached)
}

// VerifGenTables prints the finite tables and constants of this package the Coq models depend on, as Gallina
// definitions (the translator half of the tie between model and code: regenerated on every run, the theorems
// of coq/http/GenAgree.v and coq/httpresp/GenAgreeResp.v are re-checked against what the code says now).
func VerifGenTables() string {
	tab := func(name string, f func(byte) bool) string {
		s := "Definition " + name + " : list bool := ["
		for i := 0; i < 256; i++ {
			if i > 0 {
				s += ";"
			}
			if f(byte(i)) {
				s += "true"
			} else {
				s += "false"
			}
		}
		return s + "].\n"
	}
	out := "(* GENERATED from /repo/nbhttp (table.go, response.go, parser.go) by VerifGenTables - do not edit *)\n"
	out += "From Coq Require Import List NArith Bool.\nImport ListNotations.\nOpen Scope N_scope.\n"
	out += tab("gen_token", isToken)
	out += tab("gen_num", isNum)
	out += tab("gen_hex", isHex)
	out += tab("gen_alpha", isAlpha)
	out += tab("gen_method_char", func(c byte) bool { return validMethodCharMap[c] })
	// the methods, sorted for a deterministic file
	var ms []string
	for m := range validMethods {
		ms = append(ms, m)
	}
	for i := range ms {
		for j := i + 1; j < len(ms); j++ {
			if ms[j] < ms[i] {
				ms[i], ms[j] = ms[j], ms[i]
			}
		}
	}
	out += "Definition gen_methods : list (list N) := ["
	for i, m := range ms {
		if i > 0 {
			out += "; "
		}
		out += "["
		for k := 0; k < len(m); k++ {
			if k > 0 {
				out += ";"
			}
			out += itoa(int(m[k]))
		}
		out += "]"
	}
	out += "].\n"
	out += "Definition gen_max_packet_size : N := " + itoa(maxPacketSize) + ".\n"
	return out
}

func itoa(n int) string {
	if n == 0 {
		return "0"
	}
	s := ""
	for n > 0 {
		s = string(rune('0'+n%10)) + s
		n /= 10
	}
	return s
}
