package websocket

// Overlay-only accessors (never part of /repo): read-only views and thin wrappers of unexported
// functions for the correspondence harness cmd/wscodec and the GenWs.v dumper.

import (
	"io"
	"reflect"
	"unsafe"
)

// VerifValidFrame calls the real validFrame of a Conn whose enableCompression flag is as given.
func VerifValidFrame(enableCompression bool, opcode int, fin, res1, res2, res3, expectingFragments bool) error {
	c := &Conn{enableCompression: enableCompression}
	return c.validFrame(MessageType(opcode), fin, res1, res2, res3, expectingFragments)
}

// VerifValidCloseCode is the real close-code predicate.
func VerifValidCloseCode(code int) bool { return validCloseCode(code) }

// VerifMaskXOR is the real (unrolled) masking loop.
func VerifMaskXOR(b, key []byte) { maskXOR(b, key) }

// VerifCompressWriter / VerifDecompressReader are the library's own deflate plumbing, so that the harness can
// install recording WebsocketCompressor / WebsocketDecompressor hooks that behave like the default path.
func VerifCompressWriter(w io.WriteCloser, level int) io.WriteCloser { return compressWriter(w, level) }
func VerifDecompressReader(r io.Reader) io.ReadCloser                { return decompressReader(r) }

// VerifFlateTail is what Parse appends to a compressed message before inflating it.
func VerifFlateTail() string { return flateReaderTail }

// VerifWrapHandlers wraps the ping/pong/close handlers currently installed in the upgrader (the defaults of
// NewUpgrader unless the caller replaced them) with recorders that run BEFORE the wrapped handler.
func VerifWrapHandlers(u *Upgrader, ping, pong func(string), cls func(int, string)) {
	p0, q0, c0 := u.pingMessageHandler, u.pongMessageHandler, u.closeMessageHandler
	u.pingMessageHandler = func(c *Conn, s string) { ping(s); p0(c, s) }
	u.pongMessageHandler = func(c *Conn, s string) { pong(s); q0(c, s) }
	u.closeMessageHandler = func(c *Conn, code int, s string) { cls(code, s); c0(c, code, s) }
}

// VerifState is the receiver state the model tracks. The fields are read by NAME through reflection, so that a change
// that renames or removes one of them does not stop the harness from building: it is reported in Missing (the state
// comparison with the model is then a disagreement) and the implementation-side oracles keep running.
type VerifState struct {
	Cached     int
	MessageNil bool
	MessageLen int
	MsgType    int
	Compress   bool
	Expecting  bool
	Closed     bool
	Missing    []string
}

func verifField(c *Conn, name string) (reflect.Value, bool) {
	f := reflect.ValueOf(c).Elem().FieldByName(name)
	if !f.IsValid() {
		return f, false
	}
	return reflect.NewAt(f.Type(), unsafe.Pointer(f.UnsafeAddr())).Elem(), true
}

func VerifGetState(c *Conn) VerifState {
	c.mux.Lock()
	defer c.mux.Unlock()
	s := VerifState{MessageNil: true}
	miss := func(n string) { s.Missing = append(s.Missing, n) }
	pbuf := func(n string) (int, bool) { // a *[]byte field: (len, is nil)
		f, ok := verifField(c, n)
		if !ok || f.Kind() != reflect.Ptr {
			miss(n)
			return 0, true
		}
		if f.IsNil() {
			return 0, true
		}
		return f.Elem().Len(), false
	}
	boolf := func(n string) bool {
		f, ok := verifField(c, n)
		if !ok || f.Kind() != reflect.Bool {
			miss(n)
			return false
		}
		return f.Bool()
	}
	s.MessageLen, s.MessageNil = pbuf("message")
	s.Cached, _ = pbuf("bytesCached")
	if f, ok := verifField(c, "msgType"); ok && f.CanInt() {
		s.MsgType = int(f.Int())
	} else {
		miss("msgType")
	}
	s.Compress = boolf("compress")
	s.Expecting = boolf("expectingFragments")
	s.Closed = boolf("closed")
	return s
}

// VerifReadAll runs the real bounded inflate loop over an arbitrary reader.
func VerifReadAll(c *Conn, r io.Reader, size int) ([]byte, error) {
	p, err := c.readAll(r, size)
	if p == nil {
		return nil, err
	}
	out := append([]byte{}, (*p)...)
	c.Engine.BodyAllocator.Free(p)
	return out, err
}
