package websocket

// Overlay-only accessors (never part of /repo): read-only views and thin wrappers of unexported
// functions for the correspondence harness cmd/wscodec and the GenWs.v dumper.

import "io"

// VerifValidFrame calls the real validFrame of a Conn whose enableCompression flag is as given.
func VerifValidFrame(enableCompression bool, opcode int, fin, res1, res2, res3, expectingFragments bool) error {
	c := &Conn{enableCompression: enableCompression}
	return c.validFrame(MessageType(opcode), fin, res1, res2, res3, expectingFragments)
}

// VerifValidCloseCode is the real close-code predicate.
func VerifValidCloseCode(code int) bool { return validCloseCode(code) }

// VerifMaskXOR is the real (unrolled) masking loop.
func VerifMaskXOR(b, key []byte) { maskXOR(b, key) }

// VerifCompressWriter / VerifDecompressReader are the library's own deflate plumbing, so that the harness can
// install recording WebsocketCompressor / WebsocketDecompressor hooks that behave like the default path.
func VerifCompressWriter(w io.WriteCloser, level int) io.WriteCloser { return compressWriter(w, level) }
func VerifDecompressReader(r io.Reader) io.ReadCloser                { return decompressReader(r) }

// VerifFlateTail is what Parse appends to a compressed message before inflating it.
func VerifFlateTail() string { return flateReaderTail }

// VerifWrapHandlers wraps the ping/pong/close handlers currently installed in the upgrader (the defaults of
// NewUpgrader unless the caller replaced them) with recorders that run BEFORE the wrapped handler.
func VerifWrapHandlers(u *Upgrader, ping, pong func(string), cls func(int, string)) {
	p0, q0, c0 := u.pingMessageHandler, u.pongMessageHandler, u.closeMessageHandler
	u.pingMessageHandler = func(c *Conn, s string) { ping(s); p0(c, s) }
	u.pongMessageHandler = func(c *Conn, s string) { pong(s); q0(c, s) }
	u.closeMessageHandler = func(c *Conn, code int, s string) { cls(code, s); c0(c, code, s) }
}

// VerifState is the receiver state the model tracks.
type VerifState struct {
	Cached     int
	MessageNil bool
	MessageLen int
	MsgType    int
	Compress   bool
	Expecting  bool
	Closed     bool
}

func VerifGetState(c *Conn) VerifState {
	c.mux.Lock()
	defer c.mux.Unlock()
	s := VerifState{MessageNil: c.message == nil, MsgType: int(c.msgType), Compress: c.compress,
		Expecting: c.expectingFragments, Closed: c.closed}
	if c.bytesCached != nil {
		s.Cached = len(*c.bytesCached)
	}
	if c.message != nil {
		s.MessageLen = len(*c.message)
	}
	return s
}

// VerifReadAll runs the real bounded inflate loop over an arbitrary reader.
func VerifReadAll(c *Conn, r io.Reader, size int) ([]byte, error) {
	p, err := c.readAll(r, size)
	if p == nil {
		return nil, err
	}
	out := append([]byte{}, (*p)...)
	c.Engine.BodyAllocator.Free(p)
	return out, err
}
