package websocket

// Overlay-only accessor (never part of /repo), owned by component bufown (C11).

// VerifSetReleasePayload sets Conn.releasePayload (Upgrade derives it from Upgrader.ReleasePayload /
// Engine.ReleaseWebsocketPayload; a connection made with NewClientConn has no public way to turn it on).
func VerifSetReleasePayload(c *Conn, on bool) { c.releasePayload = on }
