package nbhttp

// Overlay-only accessor (never part of /repo), owned by component bufown (C11): the parser's way of handing a body
// chunk to a BodyReader, so that the harness can drive append / Read / Close in every order.

// VerifBodyAppend is BodyReader.append.
func VerifBodyAppend(br *BodyReader, data []byte) error { return br.append(data) }
