package nbhttp

import (
	"crypto"

	"github.com/lesismal/llib/std/crypto/tls"
)

// Overlay-only constructors (never part of /repo) for the C10 end-to-end harness: the library's TLS configuration type
// lives in a module the harness does not require directly.

// VerifServerTLS returns a server configuration with one certificate (DER) and its private key.
func VerifServerTLS(der []byte, key crypto.PrivateKey) *tls.Config {
	return &tls.Config{Certificates: []tls.Certificate{{Certificate: [][]byte{der}, PrivateKey: key}}}
}

// VerifClientTLS returns a client configuration that accepts the harness's self-signed certificate; max12 caps the
// protocol version at TLS 1.2.
func VerifClientTLS(max12 bool) *tls.Config {
	c := &tls.Config{InsecureSkipVerify: true}
	if max12 {
		c.MaxVersion = tls.VersionTLS12
	}
	return c
}
