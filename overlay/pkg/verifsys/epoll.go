package verifsys

// Emulated kernel for the write wake-up protocol (component `wake`, property C04; never part of /repo).
//
// A KSock sits behind a simulated socket (Sock.Kern, see sys.go) and gives it
//   - a bounded send buffer: room = Cap - (bytes accepted - bytes the peer has read); a send takes min(offered, room);
//     a short count or EAGAIN sets NoSpace (SOCK_NOSPACE), and only then does the peer's next read raise a
//     writability edge (assumption K4 of DESIGN.md);
//   - a receive queue filled by PeerSend / PeerClose and drained by read(2);
//   - one entry in an emulated epoll instance (Epoll): interest mask, ONESHOT armed bit, pending ET reports.
// The epoll_ctl calls themselves are answered by sys.go (EpollCtl records them in Sock.Epoll); the KSock applies the
// recorded calls the next time it is asked anything (nothing it depends on can change in between): a successful
// ADD/MOD replaces the mask, re-arms a ONESHOT entry and re-evaluates readiness (a ready bit is reported once more).
// EpollWait serves SIMULATED epoll descriptors only (>= EpollBase); every real epoll descriptor goes straight to
// syscall.EpollWait, so real engines behave exactly as without the overlay.
//
// This is the kernel of the Coq model coq/wake/WakeModel.v (kctl, kadd, ksend, kpeer, deliverable_out), extended by
// the read side; the harness cmd/wake compares the two after every step.

import (
	"sync"
	"sync/atomic"
	"syscall"
	"time"
)

// EpollBase is the first simulated epoll descriptor number.
const EpollBase = SimBase + MaxSim

const (
	epollET      = 1 << 31
	epollOneshot = syscall.EPOLLONESHOT
	epollIn      = syscall.EPOLLIN
	epollOut     = syscall.EPOLLOUT
	epollRdhup   = syscall.EPOLLRDHUP
)

// RealWaits counts the EpollWait calls that were passed to the real kernel (idle-spin oracle of cmd/wake).
var RealWaits int64

// Delivered is one event handed to the poller by an emulated EpollWait.
type Delivered struct {
	Fd     int
	Events uint32
	Spur   bool // the OUT bit was level-ready and reported together with an IN edge (Epoll.Merge), not an edge of its own
}

// Epoll is one emulated epoll instance.
type Epoll struct {
	Fd       int
	Socks    []*KSock // attached sockets, in attach order (the order of the reported events)
	Stopping bool     // EpollWait returns 0 events at once
	Waiting  bool     // the poller is parked in EpollWait
	Waits    int      // EpollWait calls
	// Block waits until cond holds (the harness installs verifsched.WaitUntil); nil: poll every 200 microseconds.
	Block func(cond func() bool)
	// Merge: report a level-ready OUT together with an IN edge of the same descriptor, as Linux does (one ready-list
	// entry per descriptor); the model's Deliver action has the matching `spur` input.
	Merge bool
	// OnDeliver is called for every event handed to the poller, before EpollWait returns.
	OnDeliver func(d Delivered)
}

var (
	epMu   sync.Mutex
	epolls = map[int]*Epoll{}
	epNext = EpollBase
)

// NewEpoll creates an emulated epoll instance.
func NewEpoll() *Epoll {
	epMu.Lock()
	defer epMu.Unlock()
	ep := &Epoll{Fd: epNext}
	epNext++
	epolls[ep.Fd] = ep
	return ep
}

// Release forgets the instance.
func (ep *Epoll) Release() {
	epMu.Lock()
	delete(epolls, ep.Fd)
	epMu.Unlock()
}

func lookupEpoll(fd int) *Epoll {
	epMu.Lock()
	ep := epolls[fd]
	epMu.Unlock()
	return ep
}

// KSock is the emulated kernel state of one simulated stream socket.
type KSock struct {
	S          *Sock
	Cap        int    // capacity of the send buffer
	PeerGot    int    // bytes of S.Wire the peer has read
	NoSpace    bool   // a send came back short / EAGAIN since the peer last made room
	Rcv        []byte // inbound bytes not yet read by the connection
	PeerClosed bool   // the peer has closed its end
	Mask       uint32 // registered interest (with the ET / ONESHOT flags)
	Armed      bool   // ONESHOT: not disarmed
	EdgeOut    bool   // ET: a writability report is pending
	EdgeIn     bool   // ET: a readability report is pending
	Sends      int    // write/writev/sendfile calls answered
	Recvs      int    // read calls answered
	Ctls       int    // successful epoll_ctl ADD/MOD calls applied
	seen       int    // entries of S.Epoll applied
}

// NewKSock creates a simulated socket with an emulated kernel and attaches it to ep.
func NewKSock(ep *Epoll, sndcap int) *KSock {
	s := NewSock()
	k := &KSock{S: s, Cap: sndcap}
	s.Kern = k
	ep.Socks = append(ep.Socks, k)
	return k
}

// Release detaches the socket from ep and frees its descriptor number.
func (k *KSock) Release(ep *Epoll) {
	for i, x := range ep.Socks {
		if x == k {
			ep.Socks = append(ep.Socks[:i:i], ep.Socks[i+1:]...)
			break
		}
	}
	k.S.Kern = nil
	k.S.Release()
}

// Sync applies the epoll_ctl calls recorded since the last question.
func (k *KSock) Sync() {
	for ; k.seen < len(k.S.Epoll); k.seen++ {
		op := k.S.Epoll[k.seen]
		if op.Err != 0 || op.Op == syscall.EPOLL_CTL_DEL {
			continue
		}
		k.Ctls++
		k.Mask = op.Events
		k.Armed = true
		if op.Events&epollOut != 0 && k.room() > 0 {
			k.EdgeOut = true
		}
		if op.Events&epollIn != 0 && (len(k.Rcv) > 0 || k.PeerClosed) {
			k.EdgeIn = true
		}
	}
}

func (k *KSock) room() int { return k.Cap - (len(k.S.Wire) - k.PeerGot) }

// Room is the free space of the send buffer.
func (k *KSock) Room() int { k.Sync(); return k.room() }

// InFlight is the number of bytes accepted and not yet read by the peer.
func (k *KSock) InFlight() int { return len(k.S.Wire) - k.PeerGot }

// Registered reports whether the descriptor is in the interest list (and not closed).
func (k *KSock) Registered() bool { return k.S.Registered && k.S.Closed == 0 }

// Send implements Kern: one write/writev/sendfile offering `offered` bytes.
func (k *KSock) Send(s *Sock, offered int) Ans {
	k.Sync()
	k.Sends++
	r := k.room()
	if r <= 0 {
		k.NoSpace = true
		return Ans{Kind: EAgain}
	}
	if offered > r {
		k.NoSpace = true
	}
	return Ans{Kind: Took, N: r}
}

// Recv implements Kern: one read(2).
func (k *KSock) Recv(s *Sock, b []byte) (int, error) {
	k.Sync()
	k.Recvs++
	if len(k.Rcv) > 0 {
		n := copy(b, k.Rcv)
		k.Rcv = k.Rcv[n:]
		return n, nil
	}
	if k.PeerClosed {
		return 0, nil
	}
	return -1, syscall.EAGAIN
}

// PeerRead lets the peer consume up to n bytes; it returns how many it got.
func (k *KSock) PeerRead(n int) int {
	k.Sync()
	if f := k.InFlight(); n > f {
		n = f
	}
	if n <= 0 {
		return 0
	}
	k.PeerGot += n
	if k.NoSpace {
		k.EdgeOut = true
	}
	k.NoSpace = false
	return n
}

// PeerSend queues inbound bytes.
func (k *KSock) PeerSend(b []byte) {
	k.Sync()
	if len(b) == 0 {
		return
	}
	k.Rcv = append(k.Rcv, b...)
	k.EdgeIn = true
}

// PeerClose closes the peer's end: the descriptor becomes readable with EPOLLRDHUP.
func (k *KSock) PeerClose() {
	k.Sync()
	k.PeerClosed = true
	k.EdgeIn = true
}

// Ready returns the event bits epoll_wait would report for the descriptor now (0: none) and whether the OUT bit is
// a merged level report.
func (k *KSock) Ready(merge bool) (uint32, bool) {
	k.Sync()
	if !k.Registered() {
		return 0, false
	}
	m := k.Mask
	et := m&epollET != 0
	if m&epollOneshot != 0 && !k.Armed {
		return 0, false
	}
	var ev uint32
	if m&epollOut != 0 && k.room() > 0 && (!et || k.EdgeOut) {
		ev |= epollOut
	}
	if !et || k.EdgeIn {
		if m&epollIn != 0 && len(k.Rcv) > 0 {
			ev |= epollIn
		}
		if k.PeerClosed {
			if m&epollIn != 0 {
				ev |= epollIn
			}
			if m&epollRdhup != 0 {
				ev |= epollRdhup
			}
		}
	}
	spur := false
	if merge && et && ev != 0 && ev&epollOut == 0 && m&epollOut != 0 && k.room() > 0 {
		ev |= epollOut
		spur = true
	}
	return ev, spur
}

// OutReady reports whether a writability event is deliverable (the model's deliverable_out with spur = false).
func (k *KSock) OutReady() bool {
	ev, _ := k.Ready(false)
	return ev&epollOut != 0
}

func (k *KSock) consume(ev uint32) {
	if ev&epollOut != 0 {
		k.EdgeOut = false
	}
	if ev&(epollIn|epollRdhup) != 0 {
		k.EdgeIn = false
	}
	if k.Mask&epollOneshot != 0 {
		k.Armed = false
	}
}

// AnyReady reports whether EpollWait would return an event.
func (ep *Epoll) AnyReady() bool {
	for _, k := range ep.Socks {
		if ev, _ := k.Ready(ep.Merge); ev != 0 {
			return true
		}
	}
	return false
}

// Quiescent: the poller is parked in EpollWait and nothing is deliverable.
func (ep *Epoll) Quiescent() bool { return ep.Waiting && !ep.Stopping && !ep.AnyReady() }

// Stop makes the current and every later EpollWait return without events.
func (ep *Epoll) Stop() { ep.Stopping = true }

// EpollWait is syscall.EpollWait; simulated epoll descriptors are served by the emulation.
func EpollWait(epfd int, events []syscall.EpollEvent, msec int) (int, error) {
	if epfd < SimBase {
		atomic.AddInt64(&RealWaits, 1)
		return syscall.EpollWait(epfd, events, msec)
	}
	ep := lookupEpoll(epfd)
	if ep == nil {
		return -1, syscall.EBADF
	}
	ep.Waits++
	if msec != 0 {
		ep.Waiting = true
		cond := func() bool { return ep.Stopping || ep.AnyReady() }
		if ep.Block != nil {
			ep.Block(cond)
		}
		for !cond() { // unmanaged caller (Block returned at once) or no Block: poll
			time.Sleep(200 * time.Microsecond)
		}
		ep.Waiting = false
	}
	if ep.Stopping {
		return 0, nil
	}
	n := 0
	for _, k := range ep.Socks {
		if n == len(events) {
			break
		}
		ev, spur := k.Ready(ep.Merge)
		if ev == 0 {
			continue
		}
		k.consume(ev)
		events[n] = syscall.EpollEvent{Events: ev, Fd: int32(k.S.Fd)}
		n++
		if ep.OnDeliver != nil {
			ep.OnDeliver(Delivered{Fd: k.S.Fd, Events: ev, Spur: spur})
		}
	}
	return n, nil
}
