// Package verifsys is the shim kernel of the verification overlay (never part of /repo).
//
// The overlay rewrites the syscalls of package nbio (write, writev, read, close, dup, sendfile, epoll_ctl) to the
// same-named functions of this package.  A file descriptor >= SimBase is SIMULATED: its syscalls are answered from a
// script (accept k bytes / EAGAIN / EINTR / fatal errno) and every accepted byte is recorded, in order.  Every other
// descriptor goes straight to the real syscall, so real sockets behave exactly as without the overlay (the test on
// the descriptor number is the only added work on that path).
//
// No dependency on any scheduler package; simulated descriptors are meant to be driven by one goroutine at a time
// (the table itself is guarded by a mutex).
package verifsys

import (
	"sync"
	"sync/atomic"
	"syscall"
	"unsafe"
)

// SimBase is the first simulated descriptor number (engine tables have MaxOpenFiles = 2<<20 entries by default).
const SimBase = 1 << 20

// MaxSim bounds the simulated descriptors alive at the same time.
const MaxSim = 1 << 12

// Kinds of scripted answers.
const (
	Took   = iota // accept min(N, offered) bytes, N >= 1
	EAgain        // -1, EAGAIN
	EIntr         // -1, EINTR
	Fatal         // -1, errno N
)

// Ans is one scripted kernel answer.
type Ans struct {
	Kind int
	N    int
}

// EpollOp records one epoll_ctl on a simulated descriptor.
type EpollOp struct {
	Op     int
	Events uint32
	Err    syscall.Errno
}

// Sock is one simulated stream socket.
type Sock struct {
	Fd         int
	Script     []Ans     // answers not yet consumed; an exhausted script answers EAGAIN
	Wire       []byte    // every byte accepted, in order
	Closed     int       // number of close(2) calls
	Registered bool      // epoll: ADDed
	Events     uint32    // epoll: current interest
	Epoll      []EpollOp // epoll_ctl history
	Calls      int       // write/writev/sendfile calls answered
	ZeroWrites int       // write(2) calls with an empty buffer (a real kernel answers 0, nil: the caller's loop spins)
	Consumed   int       // script entries consumed
	Kern       Kern      // optional emulated kernel (epoll.go); nil = scripted answers
}

// Kern is an emulated kernel behind a simulated socket (see epoll.go). When set on a Sock it replaces the script:
//   - Send is asked for every write/writev/sendfile with the number of bytes the caller offers; the answer is
//     applied exactly like a scripted one (Took N accepts min(N, offered) bytes and appends them to Wire);
//   - Recv answers every read(2) (without a Kern a simulated socket never has data: EAGAIN).
// epoll_ctl and close need no hook: they are recorded in Sock.Epoll / Sock.Closed, which a Kern reads when it is
// next asked. A nil Kern (every harness that only scripts answers) leaves all paths as they were.
type Kern interface {
	Send(s *Sock, offered int) Ans
	Recv(s *Sock, b []byte) (int, error)
}

var (
	mu    sync.Mutex
	socks [MaxSim]*Sock
	nsim  int32 // number of live simulated sockets (fast path for Dup)

	dupPlan  = map[int]syscall.Errno{} // source fd -> errno of the next Dup
	dupTrack = map[int]bool{}          // source fds whose dups are tracked
	dupLive  = map[int]int{}           // dup'ed fd -> source fd
	ndup     int32
)

// NewSock registers a fresh simulated socket.
func NewSock() *Sock {
	mu.Lock()
	defer mu.Unlock()
	for i := range socks {
		if socks[i] == nil {
			s := &Sock{Fd: SimBase + i}
			socks[i] = s
			atomic.AddInt32(&nsim, 1)
			return s
		}
	}
	panic("verifsys: too many simulated sockets")
}

// Release forgets the socket; its descriptor number may be reused.
func (s *Sock) Release() {
	mu.Lock()
	defer mu.Unlock()
	i := s.Fd - SimBase
	if i >= 0 && i < MaxSim && socks[i] == s {
		socks[i] = nil
		atomic.AddInt32(&nsim, -1)
	}
}

// SetScript replaces the script of kernel answers.
func (s *Sock) SetScript(a []Ans) { s.Script = a; s.Consumed = 0 }

// IsSim reports whether fd is a simulated descriptor number.
func IsSim(fd int) bool { return fd >= SimBase }

func lookup(fd int) *Sock {
	i := fd - SimBase
	if i < 0 || i >= MaxSim {
		return nil
	}
	mu.Lock()
	s := socks[i]
	mu.Unlock()
	return s
}

func (s *Sock) next(offered int) Ans {
	s.Calls++
	if s.Kern != nil {
		return s.Kern.Send(s, offered)
	}
	if len(s.Script) == 0 {
		return Ans{Kind: EAgain}
	}
	a := s.Script[0]
	s.Script = s.Script[1:]
	s.Consumed++
	return a
}

func failure(a Ans) syscall.Errno {
	switch a.Kind {
	case EIntr:
		return syscall.EINTR
	case Fatal:
		return syscall.Errno(a.N)
	}
	return syscall.EAGAIN
}

// Write is syscall.Write.
func Write(fd int, b []byte) (int, error) {
	if fd < SimBase {
		return syscall.Write(fd, b)
	}
	s := lookup(fd)
	if s == nil || s.Closed > 0 {
		return -1, syscall.EBADF
	}
	if len(b) == 0 {
		// A real kernel returns (0, nil) and consumes nothing.  The caller's retry loop would spin; the shim
		// records the fact and answers EAGAIN so that the harness can report it instead of hanging.
		s.ZeroWrites++
		return -1, syscall.EAGAIN
	}
	a := s.next(len(b))
	if a.Kind != Took {
		return -1, failure(a)
	}
	n := a.N
	if n > len(b) {
		n = len(b)
	}
	s.Wire = append(s.Wire, b[:n]...)
	return n, nil
}

// SyscallWritev stands for syscall.Syscall(SYS_WRITEV, fd, &iovs[0], len(iovs)).
//
//go:nocheckptr
func SyscallWritev(trap, a1, a2, a3 uintptr) (uintptr, uintptr, syscall.Errno) {
	fd := int(a1)
	if fd < SimBase {
		return syscall.Syscall(trap, a1, a2, a3)
	}
	s := lookup(fd)
	if s == nil || s.Closed > 0 {
		return ^uintptr(0), 0, syscall.EBADF
	}
	cnt := int(a3)
	offered := 0
	for i := 0; i < cnt; i++ {
		iov := (*syscall.Iovec)(unsafe.Pointer(a2 + uintptr(i)*unsafe.Sizeof(syscall.Iovec{})))
		offered += int(iov.Len)
	}
	a := s.next(offered)
	if a.Kind != Took {
		return ^uintptr(0), 0, failure(a)
	}
	left := a.N
	total := 0
	for i := 0; i < cnt && left > 0; i++ {
		iov := (*syscall.Iovec)(unsafe.Pointer(a2 + uintptr(i)*unsafe.Sizeof(syscall.Iovec{})))
		l := int(iov.Len)
		if l == 0 {
			continue
		}
		b := (*[1 << 30]byte)(unsafe.Pointer(iov.Base))[:l:l]
		if l > left {
			l = left
		}
		s.Wire = append(s.Wire, b[:l]...)
		left -= l
		total += l
	}
	return uintptr(total), 0, 0
}

// Sendfile is syscall.Sendfile; on a simulated destination the source is read with pread(2).
func Sendfile(outfd int, infd int, offset *int64, count int) (int, error) {
	if outfd < SimBase {
		return syscall.Sendfile(outfd, infd, offset, count)
	}
	s := lookup(outfd)
	if s == nil || s.Closed > 0 {
		return -1, syscall.EBADF
	}
	a := s.next(count)
	if a.Kind != Took {
		return -1, failure(a)
	}
	n := a.N
	if n > count {
		n = count
	}
	if n <= 0 {
		return 0, nil
	}
	buf := make([]byte, n)
	off := int64(0)
	if offset != nil {
		off = *offset
	}
	m, err := syscall.Pread(infd, buf, off)
	if err != nil {
		return -1, err
	}
	s.Wire = append(s.Wire, buf[:m]...)
	if offset != nil {
		*offset += int64(m)
	}
	return m, nil
}

// Read is syscall.Read; a simulated socket never has data.
func Read(fd int, b []byte) (int, error) {
	if fd < SimBase {
		return syscall.Read(fd, b)
	}
	if s := lookup(fd); s != nil && s.Kern != nil {
		return s.Kern.Recv(s, b)
	}
	return -1, syscall.EAGAIN
}

// Close is syscall.Close.
func Close(fd int) error {
	if fd < SimBase {
		if atomic.LoadInt32(&ndup) != 0 {
			mu.Lock()
			if _, ok := dupLive[fd]; ok {
				delete(dupLive, fd)
				atomic.AddInt32(&ndup, -1)
			}
			mu.Unlock()
		}
		return syscall.Close(fd)
	}
	if s := lookup(fd); s != nil {
		s.Closed++
		s.Registered = false
		return nil
	}
	return syscall.EBADF
}

// TrackDup makes Dup(src) observable: PlanDupFailure scripts the next Dup of src, LiveDups counts the
// descriptors dup'ed from tracked sources that have not been closed yet.
func TrackDup(src int) {
	mu.Lock()
	dupTrack[src] = true
	mu.Unlock()
	atomic.AddInt32(&ndup, 1) // keeps the slow path enabled while anything is tracked
}

// UntrackDup undoes TrackDup.
func UntrackDup(src int) {
	mu.Lock()
	if dupTrack[src] {
		delete(dupTrack, src)
		delete(dupPlan, src)
		atomic.AddInt32(&ndup, -1)
	}
	mu.Unlock()
}

// PlanDupFailure makes the next Dup(src) fail with errno (0 cancels).
func PlanDupFailure(src int, errno syscall.Errno) {
	mu.Lock()
	if errno == 0 {
		delete(dupPlan, src)
	} else {
		dupPlan[src] = errno
	}
	mu.Unlock()
}

// LiveDups returns the number of not yet closed descriptors dup'ed from tracked sources.
func LiveDups() int {
	mu.Lock()
	defer mu.Unlock()
	return len(dupLive)
}

// Dup is syscall.Dup.
func Dup(fd int) (int, error) {
	if atomic.LoadInt32(&ndup) == 0 {
		return syscall.Dup(fd)
	}
	mu.Lock()
	tracked := dupTrack[fd]
	errno := dupPlan[fd]
	if errno != 0 {
		delete(dupPlan, fd)
	}
	mu.Unlock()
	if errno != 0 {
		return -1, errno
	}
	nfd, err := syscall.Dup(fd)
	if err == nil && tracked {
		mu.Lock()
		dupLive[nfd] = fd
		mu.Unlock()
		atomic.AddInt32(&ndup, 1)
	}
	return nfd, err
}

// EpollCtl is syscall.EpollCtl; simulated descriptors keep an emulated registration.
func EpollCtl(epfd int, op int, fd int, event *syscall.EpollEvent) error {
	if fd < SimBase {
		return syscall.EpollCtl(epfd, op, fd, event)
	}
	s := lookup(fd)
	if s == nil {
		return syscall.EBADF
	}
	var errno syscall.Errno
	switch op {
	case syscall.EPOLL_CTL_ADD:
		if s.Registered {
			errno = syscall.EEXIST
		} else {
			s.Registered = true
		}
	case syscall.EPOLL_CTL_MOD:
		if !s.Registered {
			errno = syscall.ENOENT
		}
	case syscall.EPOLL_CTL_DEL:
		if !s.Registered {
			errno = syscall.ENOENT
		} else {
			s.Registered = false
		}
	}
	var ev uint32
	if event != nil {
		ev = event.Events
	}
	if errno == 0 && op != syscall.EPOLL_CTL_DEL {
		s.Events = ev
	}
	s.Epoll = append(s.Epoll, EpollOp{Op: op, Events: ev, Err: errno})
	if errno != 0 {
		return errno
	}
	return nil
}
