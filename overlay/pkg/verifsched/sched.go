// Package verifsched is the cooperative scheduler of the verification overlay (never part of /repo).
//
// The overlay rewrites a few `sync.Mutex` fields of the library to `verifsched.Mutex` and a few `go`
// statements to `verifsched.Go`. For every goroutine that is NOT a managed thread of an active scheduler
// run (that is: always in production-like runs, in every other harness, in real engines) these are plain
// sync.Mutex / `go`: one atomic load, then the real operation. Only goroutines created through
// (*Sched).Go / verifsched.Go while a run is active are "managed": they run one at a time and hand the
// baton back to the scheduler before every mutex acquisition, at explicit Yield/WaitUntil points and when
// they end. The harness chooses who runs next (seeded or enumerated schedule), so an interleaving of the
// real code is a list of integers and can be replayed.
package verifsched

import (
	"fmt"
	"runtime"
	"sync"
	"sync/atomic"
)

// Thread is one managed goroutine.
type Thread struct {
	ID   int
	Name string

	resume  chan struct{}
	done    bool
	blocked *Mutex
	waiting func() bool
}

// Sched runs managed goroutines one at a time.
type Sched struct {
	// Pick chooses the index (into enabled, which holds thread ids) of the thread that runs next.
	// It must be fair (random or round-robin): a thread that spins through Yield must not starve the others.
	pick func(enabled []int) int

	// MaxSteps bounds the number of scheduling decisions of Run (0 = 100000).
	MaxSteps int
	Steps    int
	// Choices records, for every decision, the number of enabled threads and the index chosen
	// (what an enumerating driver needs to compute the next schedule).
	Choices []Choice
	// OnAcquire / OnRelease are called by the acquiring / releasing managed thread while it owns m.
	OnAcquire func(t *Thread, m *Mutex)
	OnRelease func(t *Thread, m *Mutex)
	// OnSpawn is called by a managed thread that creates another one through verifsched.Go.
	OnSpawn func(parent, child *Thread)
	// Exclusive is a promise of the harness: while Run is active, the overlay's mutexes, Go, Yield and WaitUntil are
	// only used by this scheduler's managed threads (no engine pollers, no other goroutines). The calling thread is
	// then the one that holds the baton and need not be looked up by goroutine id (much faster).
	Exclusive bool
	// KeepLog makes the scheduler append "L:<thread>" / "U:<thread>" / "G:<thread>" lines to Log.
	KeepLog bool
	Log     []string

	mu      sync.Mutex // guards threads, byGoid (looked up by unmanaged goroutines too)
	threads []*Thread
	byGoid  map[int64]*Thread
	cur     *Thread
	yielded chan *Thread
}

// Choice is one scheduling decision.
type Choice struct {
	Enabled int
	Index   int
	Thread  int
}

var active atomic.Value // holds *Sched (nil pointer when no run is active)

func current() *Sched {
	v := active.Load()
	if v == nil {
		return nil
	}
	return v.(*Sched)
}

// goid parses the goroutine id from the first line of the stack ("goroutine 123 [running]:").
// Only used while a scheduler run is active.
func goid() int64 {
	var buf [40]byte
	n := runtime.Stack(buf[:], false)
	var id int64
	for i := len("goroutine "); i < n; i++ {
		ch := buf[i]
		if ch < '0' || ch > '9' {
			break
		}
		id = id*10 + int64(ch-'0')
	}
	return id
}

// self returns the managed thread of the calling goroutine, or nil.
func (s *Sched) self() *Thread {
	id := goid()
	s.mu.Lock()
	t := s.byGoid[id]
	s.mu.Unlock()
	return t
}

// managed returns the active scheduler and the calling goroutine's thread, or (nil, nil).
func managed() (*Sched, *Thread) {
	s := current()
	if s == nil {
		return nil, nil
	}
	if s.Exclusive {
		if t := s.cur; t != nil {
			return s, t
		}
		return nil, nil
	}
	t := s.self()
	if t == nil {
		return nil, nil
	}
	return s, t
}

// Managed reports whether the calling goroutine is a managed thread of an active run.
func Managed() bool {
	_, t := managed()
	return t != nil
}

// Self returns the calling goroutine's managed thread (nil if unmanaged).
func Self() *Thread {
	_, t := managed()
	return t
}

// New creates a scheduler; pick(enabled) returns an index into enabled.
func New(pick func(enabled []int) int) *Sched {
	return &Sched{yielded: make(chan *Thread), pick: pick, byGoid: map[int64]*Thread{}}
}

// Go creates a managed thread (from the harness before Run, or from a managed thread during Run).
func (s *Sched) Go(name string, f func()) *Thread {
	s.mu.Lock()
	t := &Thread{ID: len(s.threads), Name: name, resume: make(chan struct{})}
	s.threads = append(s.threads, t)
	s.mu.Unlock()
	go func() {
		<-t.resume
		id := goid()
		s.mu.Lock()
		s.byGoid[id] = t
		s.mu.Unlock()
		defer func() {
			s.mu.Lock()
			delete(s.byGoid, id)
			s.mu.Unlock()
			t.done = true
			s.yielded <- t
		}()
		f()
	}()
	return t
}

// Go replaces a `go f()` statement of the library: a managed caller spawns a managed thread,
// everybody else gets a plain goroutine.
func Go(f func()) {
	s, t := managed()
	if t == nil {
		go f()
		return
	}
	nt := s.Go("", f)
	nt.Name = fmt.Sprintf("g%d", nt.ID)
	if s.KeepLog {
		s.Log = append(s.Log, "G:"+t.Name+">"+nt.Name)
	}
	if s.OnSpawn != nil {
		s.OnSpawn(t, nt)
	}
}

func (s *Sched) yield(t *Thread) {
	s.yielded <- t
	<-t.resume
}

// Yield is an explicit scheduling point (no-op for unmanaged goroutines).
func Yield() {
	if s, t := managed(); t != nil {
		s.yield(t)
	}
}

// WaitUntil blocks the calling managed thread until cond holds; cond is evaluated by the scheduler
// between steps and must only read state. Unmanaged callers return immediately.
func WaitUntil(cond func() bool) {
	s, t := managed()
	if t == nil {
		return
	}
	t.waiting = cond
	s.yield(t)
	t.waiting = nil
}

// Run schedules until every thread has ended. It returns false on deadlock (threads left, none enabled)
// or when MaxSteps is exceeded; the left-over goroutines then stay parked for ever.
func (s *Sched) Run() bool {
	active.Store(s)
	defer active.Store((*Sched)(nil))
	max := s.MaxSteps
	if max <= 0 {
		max = 100000
	}
	var enabled []int
	for {
		enabled = enabled[:0]
		s.mu.Lock()
		threads := s.threads
		s.mu.Unlock()
		live := 0
		for i, t := range threads {
			if t.done {
				continue
			}
			live++
			if t.blocked != nil && t.blocked.held {
				continue
			}
			if t.waiting != nil && !t.waiting() {
				continue
			}
			enabled = append(enabled, i)
		}
		if len(enabled) == 0 {
			return live == 0
		}
		s.Steps++
		if s.Steps > max {
			return false
		}
		k := s.pick(enabled)
		if k < 0 {
			k = -k
		}
		k %= len(enabled)
		t := threads[enabled[k]]
		s.Choices = append(s.Choices, Choice{Enabled: len(enabled), Index: k, Thread: t.ID})
		s.cur = t
		t.resume <- struct{}{}
		<-s.yielded
		s.cur = nil
	}
}

// Stuck names the threads that had not ended when Run returned false.
func (s *Sched) Stuck() []string {
	var out []string
	s.mu.Lock()
	defer s.mu.Unlock()
	for _, t := range s.threads {
		if !t.done {
			st := "runnable"
			if t.blocked != nil && t.blocked.held {
				st = "blocked on a mutex"
				if t.blocked.owner != nil {
					st += " owned by " + t.blocked.owner.Name
				}
			} else if t.waiting != nil {
				st = "waiting"
			}
			out = append(out, t.Name+": "+st)
		}
	}
	return out
}

// Live returns the number of threads that have not ended.
func (s *Sched) Live() int {
	s.mu.Lock()
	defer s.mu.Unlock()
	n := 0
	for _, t := range s.threads {
		if !t.done {
			n++
		}
	}
	return n
}

// NThreads returns the number of threads created so far.
func (s *Sched) NThreads() int {
	s.mu.Lock()
	defer s.mu.Unlock()
	return len(s.threads)
}

// Mutex is a drop-in for sync.Mutex. The zero value is an unlocked mutex.
type Mutex struct {
	real  sync.Mutex
	held  bool    // owned by a managed thread (only touched by managed threads and the scheduler, which alternate)
	owner *Thread // the managed owner
}

// Lock is sync.Mutex.Lock for unmanaged goroutines. A managed thread first hands the baton back to the
// scheduler and is resumed only when no managed thread owns the mutex.
func (m *Mutex) Lock() {
	s, t := managed()
	if t == nil {
		m.real.Lock()
		return
	}
	for {
		t.blocked = m
		s.yield(t)
		if !m.held {
			break
		}
	}
	t.blocked = nil
	m.held = true
	m.owner = t
	m.real.Lock() // free unless an unmanaged goroutine owns it (then: wait for it, keeping the baton)
	if s.KeepLog {
		s.Log = append(s.Log, "L:"+t.Name)
	}
	if s.OnAcquire != nil {
		s.OnAcquire(t, m)
	}
}

// TryLock is sync.Mutex.TryLock (a scheduling point for managed threads).
func (m *Mutex) TryLock() bool {
	s, t := managed()
	if t == nil {
		return m.real.TryLock()
	}
	s.yield(t)
	if m.held || !m.real.TryLock() {
		return false
	}
	m.held = true
	m.owner = t
	if s.OnAcquire != nil {
		s.OnAcquire(t, m)
	}
	return true
}

// Unlock is sync.Mutex.Unlock; a managed owner also clears the scheduler-level ownership.
func (m *Mutex) Unlock() {
	s, t := managed()
	if t == nil || !m.held {
		m.real.Unlock()
		return
	}
	if s.OnRelease != nil {
		s.OnRelease(t, m)
	}
	if s.KeepLog {
		s.Log = append(s.Log, "U:"+t.Name)
	}
	m.held = false
	m.owner = nil
	m.real.Unlock()
}

// Owner returns the managed thread that owns m (nil if none).
func (m *Mutex) Owner() *Thread { return m.owner }

// Atomics with a scheduling point in front (used by other rewrites of the overlay).
func AddInt32(addr *int32, delta int32) int32 { Yield(); return atomic.AddInt32(addr, delta) }
func LoadInt32(addr *int32) int32             { Yield(); return atomic.LoadInt32(addr) }
func StoreInt32(addr *int32, v int32)         { Yield(); atomic.StoreInt32(addr, v) }
func CompareAndSwapInt32(addr *int32, o, n int32) bool {
	Yield()
	return atomic.CompareAndSwapInt32(addr, o, n)
}
func AddInt64(addr *int64, delta int64) int64 { Yield(); return atomic.AddInt64(addr, delta) }
func LoadInt64(addr *int64) int64             { Yield(); return atomic.LoadInt64(addr) }
