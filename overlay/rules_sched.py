# Overlay rewrite rules of the cooperative scheduler (component `sched`, properties C05 / C19; see DESIGN.md 1.3).
# `rule` and `need_import` are provided by lib/mkoverlay.py. Every rule states its minimum number of matches.
#
# verifsched.Mutex / verifsched.Go behave exactly like sync.Mutex / `go` for every goroutine that is not a managed
# thread of an active scheduler run, so these rewrites are transparent for all other harnesses and for real engines.

SCHED = "github.com/lesismal/nbio/verifsched"

# nbio.Conn.mux (the one `sync.Mutex` field named mux in conn_unix.go; udpConn.mux is a sync.RWMutex and stays).
rule("conn_unix.go", r"(?m)^(\s+)mux(\s+)sync\.Mutex$", r"\1mux\2verifsched.Mutex", minimum=1)
need_import("conn_unix.go", SCHED)

# timer.Timer.asyncMux and the one `go` statement of Timer.Async (the drainer goroutine).
rule("timer/timer.go", r"(?m)^(\s+)asyncMux(\s+)sync\.Mutex$", r"\1asyncMux\2verifsched.Mutex", minimum=1)
rule("timer/timer.go", r"(?m)^(\t+)go func\(\) \{\n((?:.|\n)*?)\n\1\}\(\)$", r"\1verifsched.Go(func() {\n\2\n\1})", minimum=1)
# keep the file's "sync" import used whatever else the file does with it
rule("timer/timer.go", r"\Z", "\nvar _ sync.Locker\n", minimum=1)
need_import("timer/timer.go", SCHED)
