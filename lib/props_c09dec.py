"""Recipe plug-in: C09 with the decoding half proved (coq/respdec composes the response-writer model coq/httpresp with the
client-side parser model coq/http). Integrated: replaces the C09 recipe of props.py (plug-ins are merged after it)."""
import os

from props import EXTRACT_TB, RESP_MODEL, n


def c09(c):
    # the original recipe (lib/props.py: c09) ...
    c.coq(["httpresp"], "C09", "HttpRespC")
    # ... plus the decode theorems; coq/http imports the tables generated from the working tree (as c06/c07 do)
    c.gen("http", "http", "GenHttp.v")
    c.coq(["http", "httpresp", "respdec"], "C09Decode", "RespDecC")
    c.trusted += [EXTRACT_TB, "Go map iteration order of http.Header is canonicalised (header lines after Date sorted) before comparing",
                  "net/http's ReadResponse as the independent client decoder of the oracle",
                  "Go harness cmd/httpresp (real nbhttp.Response behind a recording net.Conn, driven through the real ServerProcessor)",
                  "decode theorems (coq/respdec): the decoder is nbio's own client parser MODEL (coq/http/HttpParser.v); its tie to nbhttp/parser.go is the "
                  "differential run of C06/C07/C08 (cmd/httpparse, cmd/httpref), the tie of the writer model to nbhttp/response.go is the differential run of this "
                  "check; the theorems connect the two models, not the two Go files",
                  "decode theorems: the Date value is a 29-byte placeholder in the model (the harness masks the real date); an empty header or trailer value "
                  "is rendered `Name: CRLF`, which the parser model reports as a one-space value (stated as such in the theorems: hv / tr_value)"]
    c.assumptions += ["c09_decode_*: decidable well-formedness hypotheses wf_head / small_write / cl_ok / wf_tkey / distinct_from / wf_tval (boolean, stated in "
                      "coq/respdec/C09Decode.v); identity framing without declared length and data after the first Flush is excluded (finding D9); "
                      "duplicate declared trailer keys are excluded (the parser's trailer set deduplicates, the writer model's list does not)"]
    c.harness("httpresp", ["-n", n(c, 220, 6000)], overlay=True, model=RESP_MODEL, timeout=3000)
    # the same clause end to end on real connections, plain and TLS (file-serving handlers: ReadFrom / Sendfile branch)
    c.trusted += ["end-to-end tier (cmd/httpe2e -part c09): net/http over TCP and over crypto/tls as the decoder; TLS itself is exercised, not modelled"]
    c.harness("httpe2e", ["-part", "c09"], overlay=True, timeout=3000)
    c.finish()


if True:
    CHECKS = {"C09": c09}
    MANIFEST = {
        "C09": dict(
            technique="Coq proof (stream invariant through every coalescing branch of the response writer, by induction over handler programs; composition with the "
                      "client-side parser model: the wire decodes to what the handler wrote) + differential run of the extracted model; net/http as independent decoder oracle",
            text="coq/httpresp (C09.v): nbhttp/response.go as a state machine over handler operations; for every request context, header operations and body program the wire is "
                 "head ++ chunks ++ last-chunk ++ trailers ++ CRLF (chunked) resp. head ++ written bytes (identity), nothing buffered, Write reports len(data), a refused Write writes nothing. "
                 "coq/respdec (C09Decode.v) composes this with nbio's own client parser model (coq/http): c09_head_wf (the head is exactly status line ++ header lines ++ CRLF, lines listed "
                 "explicitly: Content-Type, computed Content-Length, Connection: close, Date, declared Content-Length, Trailer lines, Transfer-Encoding, custom headers), "
                 "c09_chunked_wire_explicit / c09_identity_wire_explicit (the wire with the head and the trailer block made explicit), c09_run_hdrs_any / c09_run_lines_any (the parser over a header "
                 "block with lines of any names in any order, values possibly empty), c09_decode_chunked (with or without declared trailers; the trailer block runs through the parser's STrailer* "
                 "states), c09_decode_chunked_notrailers_partial (its instance without trailers) and c09_decode_identity: started in any client boundary state on wire ++ rest the parser emits "
                 "exactly EProto, EStatus, one EHeader per head line, EContentLength, the body events (one EBody per non-empty Write resp. one EBody with all bytes), one ETrailer per declared "
                 "trailer, EComplete, and continues on rest from a boundary state - exactly one well-formed response; corollaries c09_decoded_body_*: concatenated EBody payloads = written bytes, "
                 "announced Content-Length = body length, one EComplete, trailers = the handler's; c09_cl_ok_no_refusal (meeting the announced length implies no Write is refused); "
                 "c09_after_headers_fields (request context, custom headers, declared trailer keys of the state the theorems speak about). "
                 "The implementation-side oracle (net/http decodes the recorded wire) and the model correspondence run on generated programs aimed at the 64 KiB threshold.",
            note="Decode theorems hold under decidable well-formedness hypotheses (token header names other than the framing headers, values without CR/LF not starting with SP, status 100..999, "
                 "Writes and lengths below 2^62, distinct declared trailer keys); identity framing needs the announced length to be met (cl_ok: handler obligation for a declared Content-Length; "
                 "without one no data after the first Flush - finding D9). They connect the two MODELS; each model's tie to its Go file is the differential run (C09 harness, C06/C07 harness). "
                 "ReadFrom (io.Copy / io.CopyN / ServeContent into the response) is covered as the sequence of Writes of the <= 32 KiB pieces io.Copy reads (harness ops `via`; the limit of an io.LimitedReader over a longer source must be kept - D46); the Sendfile branch of ReadFrom (file range on a plain connection, and its absence under TLS) is exercised end to end (cmd/httpe2e -part c09: file-serving handlers on plain and TLS listeners, all IOMods), not modelled. Trusted: Coq kernel, extraction, OCaml driver, Go harness, net/http's client parser (oracle).",
            design="4/C09, Appendix O"),
    }
else:
    CHECKS = {}
    MANIFEST = {}
