"""Recipes of component `connio`: C01 (outbound stream integrity) and C17 (write-buffer bound).

Both share the model coq/connio/ConnIO.v (extracted at the rope instance, ocaml/connio/main.ml) and the harness
harness/cmd/connio (simulated-kernel tier against the model + property oracles + real-socket tier)."""
from props import EXTRACT_TB, n

MODEL = ("connio", "Extract.v", ["cmodel"], "main.ml")

COMMON_TB = [
    EXTRACT_TB,
    "the model is generic in the representation of byte strings; the extracted instance (ropes of position tags) is proved to "
    "satisfy the interface laws (c01_rope_laws), so the theorems apply to the very functions that are run against nbio",
    "overlay: package verifsys (shim kernel: scripted write/writev/sendfile/dup/epoll_ctl on descriptors >= 1<<20, everything else "
    "passes to the real syscall), rules_sys.py (identifier-level rewrites of syscall.X in conn_unix.go, sendfile_unix.go, "
    "writev_linux.go, poller_epoll.go), zz_verif_conn.go (a Conn on a simulated descriptor registered through poller.addConn, "
    "read-only views of left / writeList / isWAdded / closed, an entry point for flush)",
    "K1 (modelled, not verified): write/writev/sendfile returning k delivered exactly the first k bytes, in order; a non-blocking "
    "stream socket never accepts 0 bytes of a non-empty write; sendfile returns 0 only at end of file and queued files do not shrink",
    "atomicity: each of Write/Writev/Sendfile/flush/Close is one atomic step of the model because the code runs it in ONE critical "
    "section of Conn.mux. This is what the concurrent tier of cmd/connio checks on the real code under the cooperative scheduler "
    "(overlay verifsched; every Lock of Conn.mux and the OnWrittenSize handler are scheduling points): exactly one acquisition of "
    "Conn.mux per call, the observed results of 2-3 goroutines' calls equal the sequential model's for some order consistent with "
    "real time (linearizability), left = queued bytes <= MaxWriteBufferSize whenever the lock is released, and the received stream "
    "is a sequence of whole accepted calls. The theorems c01_concurrent_calls / c17_concurrent_calls lift the sequential theorems to "
    "every merge of the goroutines' programs under that assumption; schedules are sampled (seeded), not enumerated",
    "Go harness cmd/connio (generator, position-tagged payloads, the shim's record of accepted bytes, temp files read with pread by the "
    "shim's sendfile)",
]

MODELLED = [
    "modelled and proved for all operation sequences and all kernel scripts: write, writev (+ writev_linux.go), newToWriteBuf "
    "(64 KiB tail coalescing, empty buffers ignored), newToWriteFile, Sendfile (clipping, inline loop in maxSendfileSize slices, "
    "queued with a dup'ed descriptor, Dup failure), flush (writeBuffer/writeFile, EINTR retry, EAGAIN stop, fatal errno), overflow, "
    "Write/Writev tails (close on a fatal error, modWrite), Close, calls on a closed connection",
    "the model does not depend on the allocator behind the queued buffers (Config.BodyAllocator): it is a dimension of every tier of "
    "the harness - default MemPool, mempool.NewAligned() (relocates on growth), mempool.NewSTD(), and an always-moving allocator that "
    "returns a fresh buffer on every Append/Realloc and poisons the retired one - with the same oracles and the same model answers",
    "only tested (differential run + oracles), not modelled: the allocators themselves (C20/C11), deadlines/timers "
    "(C16), the epoll side of modWrite/resetRead (C04; the isWAdded flag is carried by the model and reported as a coverage figure), "
    "UDP connection types (outside C01 by its statement), Seek/Stat/SetNonblock failures inside Sendfile",
]


def _harness(c):
    args = ["-n", n(c, 3000, 150000), "-conc", n(c, 1500, 60000), "-real", n(c, 3, 24)]
    c.harness("connio", args, overlay=True, model=MODEL, timeout=3000)


def c01(c):
    c.coq(["connio"], "C01", "ConnIOC")
    c.trusted += COMMON_TB
    c.assumptions += MODELLED + [
        "c01_contiguous / c01_concurrent_calls: one call's bytes are contiguous between earlier and later calls for every merge of "
        "concurrent callers' programs; that real executions are such merges is the atomicity assumption above, checked by the concurrent tier",
    ]
    _harness(c)
    c.finish()


def c17(c):
    c.coq(["connio"], "C17", "ConnIOC")
    c.trusted += COMMON_TB
    c.assumptions += MODELLED + [
        "file ranges queued by Sendfile are not held in memory: they are not counted by Conn.left and not limited by "
        "MaxWriteBufferSize (c17_file_ranges_not_counted); after a close Conn.left keeps its last value (exactness is stated for open "
        "connections, the bound for all reachable states)",
    ]
    _harness(c)
    c.finish()


CHECKS = {"C01": c01, "C17": c17}
MODELS = [MODEL]
HARNESSES = [("connio", True)]

MANIFEST = {
    "C01": dict(
        technique="Coq theorems over an executable model of the write path (all op sequences x all kernel scripts) + differential run "
                  "against the real nbio.Conn on a scripted shim kernel + stream oracle + real-socket tier",
        text="wire ++ pending = concatenation of the ranges the calls reported as accepted (c01_stream, c01_integrity); a call without "
             "error accepted its whole input and reports its length (c01_report); failed calls (c01_failed_call); contiguity "
             "(c01_contiguous); no queued item is empty and flush never spins (c01_queue_items_nonempty, c01_flush_never_spins)",
        note="model generic in the byte-string representation, extracted at a rope instance whose laws are proved; atomicity of each "
             "operation under Conn.mux is assumed (read off the code); kernel contract K1 assumed",
        design="DESIGN.md section 4 C01, Appendix E, G.1, H.2, H.3"),
    "C17": dict(
        technique="Coq theorems over the same model + differential run (Conn.left after every operation) + counter oracle on the "
                  "implementation alone",
        text="left = sum of unsent bytes of queued buffers in every reachable open state (c17_left_exact); 0 <= left <= Max "
             "(c17_bound); Write/Writev fail with ErrOverflow iff left + n > Max and then close with that error "
             "(c17_overflow_iff_write/_writev); queue drained => left = 0 and the whole budget is available again "
             "(c17_budget_restored, c17_budget_available); file ranges are not counted (c17_file_ranges_not_counted)",
        note="shares model and harness with C01",
        design="DESIGN.md section 4 C17, Appendix G.3"),
}

READY = True
