"""Recipe of component `wsconc`: C14 (WebSocket callbacks ordered and exactly-once; concurrent writes stay whole).
Coq: coq/wsconc (SendQueue.v: the write side of websocket.Conn with the explicit connection mutex, both write modes;
Callbacks.v: the callback order as an instance of the serializer of coq/sched).  Harness: harness/cmd/wsconc:
(1) the real websocket.Conn over a socket whose writes the harness holds, in lock step with the extracted SendQueue model;
(2) implementation-only oracle on real servers in every upgrade path."""
import vlib  # noqa: F401
from props import EXTRACT_TB, NATINT_TB, n

MODEL = ("wsconc", "Extract.v", ["sqmodel"], "main.ml")


def c14(c):
    c.coq(["sched", "wsconc"], "C14", "WsConcC")
    c.trusted += [
        EXTRACT_TB, NATINT_TB,
        "the write-side model (coq/wsconc/SendQueue.v) is tied to nbhttp/websocket/conn.go at the granularity of whole calls: the correspondence part replays "
        "schedules of WriteMessage calls / returns of the held socket write (ok or error) / CloseAndClean on a real websocket.Conn and the model in lock step "
        "(call results incl. closed and queue-full, identity and moment of every frame handed to the socket, final wire, close callback). The finer interleaving "
        "the theorems quantify over - another goroutine between two writeFrame calls of one WriteMessage - is excluded in the code by c.mux being held from the "
        "closed check to the last fragment: read off the code; a mutant that drops the lock between fragments is caught by the end-to-end oracle, not by the proof. "
        "DEFLATE is not modelled: the deflated length of a payload is an oracle input of the model's begin_msg (the admission rule of a bounded queue counts the "
        "fragments of the bytes that actually go out). The harness computes the deflated form with compress/flate as permessage-deflate prescribes (sync flush, last "
        "four bytes dropped) and the wholeness oracle checks every accepted message's frames against it byte for byte, so a wrong reference shows up as message-lost. "
        "A drainer that has written its last frame exits asynchronously: before a bounded-queue length check the harness lets it settle and re-runs a disagreeing "
        "schedule with long settling times before reporting it",
        "the callback-side instantiation (coq/wsconc/Callbacks.v: upgrade job = job 0 containing the open handler, i-th message callback = job i+2 dispatched "
        "in wire order by the single reader through Execute, close = MustExecute after the closed flag) is stated explicitly and justified by inspection of "
        "upgrader.go / conn.go Parse / engine.go OnClose; the serializer itself is the model of property C05 (coq/sched), tied to conn.go by C05's own harness",
        "blocking upgrade paths (engine's parser loop, the connection's own HandleRead loop): open, message callbacks and CloseAndClean run in program order on one "
        "goroutine - no theorem, exercised by the harness",
        "Go harness cmd/wsconc (raw RFC 6455 client written in the harness, self-describing payloads, per-connection event log appended under a mutex); "
        "real sockets and the Go scheduler choose the interleavings: the run is a sample of schedules, the theorems quantify over all of them",
    ]
    c.assumptions += [
        "frames are ghost identities in the model; payload bytes, masking, compression are property C12's business",
        "c14_order assumes the submissions of one connection are ordered as [wf] says (upgrade job first, messages in wire order, one close job after the closed flag); "
        "it does NOT hold for connections transferred to the poller (BlockingModTrasferConnToPoller): there the open handler runs outside the connection's job queue and, "
        "under EPOLLONESHOT, message callbacks do too (wsc.Execute = SyncExecutor) - the harness reports those as *-transferred classes",
        "a bounded send queue (BlockingModSendQueueMaxSize > 0) refuses a WriteMessage as a whole before its first fragment is queued (c14_all_or_none; "
        "the defect that it could refuse half-way is fixed in /repo, the signature partial-message-queue-full stays armed: one bounded-queue cell per round)",
    ]
    args = ["-n", n(c, 3, 30), "-qn", n(c, 600, 10000), "-cn", n(c, 24, 480)]
    if c.tier == "thorough":
        args.append("-full")
    c.harness("wsconc", args, overlay=False, model=MODEL, timeout=3000)
    c.finish()


CHECKS = {"C14": c14}
MODELS = [MODEL]
HARNESSES = [("wsconc", False)]

MANIFEST = {
    "C14": dict(
        technique="Coq proof (invariant of the websocket write side as an LTS with the explicit connection mutex, both write modes, all schedules; callback order as an "
                  "explicit instance of the C05 serializer theorems, with a serial start/end trace) + the real websocket.Conn over a held socket in lock step with the "
                  "extracted write-side model + implementation-only oracle on real servers in every upgrade path x epoll mode x write mode with raw RFC 6455 clients",
        text="Theorems in coq/wsconc/C14.v. Write side (SendQueue.v: one action per writeFrame of the call that holds c.mux, the drainer's socket write outside the mutex, the "
             "drainer's critical section and CloseAndClean under it; Direct = Conn.Write under the mutex, Queued = BlockingModAsyncWrite's send queue with the head-starts-drainer "
             "hand-over; every queue bound, every answer of Conn.Write, every action sequence): c14_whole - each call's accepted frames are a prefix of its frames (all of them when it "
             "returned nil, none when refused as closed), what was handed to the socket is a prefix of the per-call accepted sequences concatenated in lock order, and without a socket "
             "error the wire is that prefix and the rest is exactly: frame in the drainer's hand, queued frames, frames freed by CloseAndClean - so no frame of another call can sit "
             "inside a message; c14_admission - on an open connection with a bounded queue a WriteMessage is refused as a whole exactly when queue length + k > bound, k = the "
             "number of fragments of the bytes that go out (the DEFLATED length when compression applies, an oracle input), and then nothing of it is queued; "
             "c14_all_or_none - a call that returned nil has all its frames accepted, a call refused as closed or because the bounded queue has no room for the "
             "whole message has none; c14_no_loss_no_dup - open, no socket error, no drainer alive: wire = accepted sequence, and the drainer's own steps always reach that state; "
             "c14_whole_messages - if moreover every call returned nil, the wire is the concatenation in lock order of the calls' whole frame sequences; "
             "c14_single_drainer - never a second drainer, none in direct mode, alive iff the queue is non-empty; c14_closed - a write after CloseAndClean is refused as a whole. "
             "Callback side (Callbacks.v): c14_order - for every websocket schedule (upgrade job, messages dispatched in wire order through Execute, closed flag, one MustExecute of "
             "the close job, later messages refused) compiled to the serializer LTS of coq/sched, every executor and interleaving: started jobs are a prefix without repetition of "
             "open; message 0..m-1; close, the start/end trace is serial (every job has ended before the next starts: open completes before the first message callback, message "
             "callbacks never overlap, close starts after the last one ended), and when the drainer has returned exactly that list has run - by c05_fifo_once, c05_mutex, c05_all_run. "
             "Every run, correspondence part: websocket.NewServerConn over a net.Conn whose Write the harness holds (frame limit 16), direct and queued mode, queue bound 0 or 1-8, "
             "write compression off / on at levels -2..9, payloads zeros / text / seeded random; random schedules of WriteMessage / socket write returns (ok, error) / CloseAndClean, and "
             "the admission grid of a bounded queue (bound x compression x payload class x lengths k*16-2..k*16+2 and lengths whose deflated size sits at a frame multiple x room left "
             "0..needed+1; sampled in the quick tier, swept completely in the thorough tier) replayed on the extracted model: call results, the bytes of every frame handed to the socket "
             "and when, final wire, close callback must agree; wholeness oracle on the same runs: a refused message leaves nothing on the wire, no message starts inside an unfinished "
             "one, every accepted message is there as one complete frame sequence; after a disagreement the schedule goes on implementation-only so that the oracle can produce a failing input. End-to-end part: real nbhttp engines (IOModNonBlocking, IOModBlocking, IOModMixed) and net/http servers with the real Upgrader in the paths poller-driven, blocking with the "
             "engine's parser loop, blocking with HandleRead, transferred to the poller (from a blocking engine and from net/http), epoll LT / ET / ET+ONESHOT, direct and queued writes, "
             "MaxWebsocketFramePayloadSize 64..4096; per connection up to 10 goroutines x up to 80 messages of up to 8 fragments through WriteMessage / WriteFrame, echoes and pongs "
             "written from callbacks, client messages in random fragments and TCP segments, slow handlers, on poller-driven connections a message handler that panics once (the callbacks behind it and the close callback must still run); endings: close frame, abrupt disconnect (idle / during a handler / during the "
             "writes), Close from another goroutine, Engine.Stop (idle / during a handler / during the open handler); in every cell two connections send the handshake request and their first frame(s) in one write (valid message, a frame that fails Parse - over MessageLengthLimit, reserved bit, reserved opcode -, unmasked frame, close frame, more messages behind) or break off around the hand-over from the HTTP parser (refused handshake, hang-up right after the request): a connection whose open callback ran must get its close callback exactly once (close-missing-after-early-parse-error-<path>), a refused handshake must not open. Client tier: a real websocket.Dialer on its own engine (synchronous Dial / asynchronous Dial with a result handler, client engine LT / ET / ET+ONESHOT, open handler fast or 50-200 ms) against a server that greets from its open handler (1-3 messages and possibly a ping right behind the 101 answer, a second batch, then server close / client close / close frame): the open callback of the client connection completes before any message / ping / close callback, callbacks never overlap, wire order, close once and last (signatures client-<class>/<sync|async>, also emitted for C05). Oracles: every message arrives as one uninterrupted frame sequence, once per writer and "
             "sequence number, in per-writer order, none lost before the end marker; open completed before the first message callback, callbacks one at a time in wire order, close "
             "exactly once and after the last message callback.",
        note="Partial: the differential run is at the granularity of whole write calls (the per-fragment interleaving is excluded by the mutex, by inspection); the callback-side "
             "instantiation is by inspection + end-to-end oracle. Findings on the unchanged tree, all on connections TRANSFERRED to the poller: "
             "message callbacks (and even the close callback) run before / while the open handler runs; under ET+ONESHOT the close callback runs while a message callback is still "
             "running and a message callback can start after it (signatures *-transferred, recorded as known). Found and fixed while building this check: with a bounded send "
             "queue a WriteMessage refused half-way left an unfinished message on the wire (partial-message-queue-full).",
        design="4/C14, 4/C05, Appendix D, F"),
}
