"""Per-property check recipes (what to build, which theorems, which harness, how many cases)."""
import vlib

EXTRACT_TB = ("extraction: Coq Extraction + ExtrOcamlBasic (Extract Inductive bool/option/unit/list/prod/sumbool -> OCaml), "
              "hand-written OCaml line-protocol driver")
NATINT_TB = "ExtrOcamlNatInt (nat -> OCaml int; used for sizes, ids and capacities only)"


def n(c, quick, thorough):
    return str(thorough if c.tier == "thorough" else quick)


def c20(c):
    c.coq(["mempool"], "C20", "MemPoolC")
    c.trusted += [EXTRACT_TB, NATINT_TB,
                  "oracle assumptions: sync.Pool.Get returns a previously Put pointer or a fresh one (R2); "
                  "append allocates a fresh array of capacity >= the needed length",
                  "Go harness cmd/mempool (derives the oracle answers from pointer identity and cap())"]
    c.assumptions += ["modelled and proved: mempool.MemPool (all op sequences, all oracle answers)",
                      "aligned and std allocators: property oracle on the implementation (length, content, disjointness, frame), not yet a theorem"]
    c.harness("mempool", ["-n", n(c, 300, 6000)], model=("mempool", "Extract.v", ["mmodel"], "main.ml"))
    c.finish()


MODELS = [
    ("mempool", "Extract.v", ["mmodel"], "main.ml"),
]
HARNESSES = [("mempool", False)]

CHECKS = {
    "C20": c20,
}
