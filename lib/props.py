"""Per-property check recipes (what to build, which theorems, which harness, how many cases)."""
import vlib

EXTRACT_TB = ("extraction: Coq Extraction + ExtrOcamlBasic (Extract Inductive bool/option/unit/list/prod/sumbool -> OCaml), "
              "hand-written OCaml line-protocol driver")
NATINT_TB = "ExtrOcamlNatInt (nat -> OCaml int; used for sizes, ids and capacities only)"


def n(c, quick, thorough):
    return str(thorough if c.tier == "thorough" else quick)


def c20(c):
    c.coq(["mempool"], "C20", "MemPoolC")
    c.trusted += [EXTRACT_TB, NATINT_TB,
                  "oracle assumptions: sync.Pool.Get returns a previously Put pointer or a fresh one (R2); "
                  "append allocates a fresh array of capacity >= the needed length",
                  "Go harness cmd/mempool (derives the oracle answers from pointer identity and cap())"]
    c.assumptions += ["modelled and proved: mempool.MemPool (all op sequences, all oracle answers)",
                      "aligned and std allocators: property oracle on the implementation (length, content, disjointness, frame), not yet a theorem"]
    c.harness("mempool", ["-n", n(c, 300, 6000)], model=("mempool", "Extract.v", ["mmodel"], "main.ml"))
    c.finish()


HTTP_MODEL = ("http", "Extract.v", ["model"], "main.ml")
PROC_MODEL = ("httpproc", "Extract.v", ["pmodel"], "main.ml")


def c06(c):
    c.gen("http", "http", "GenHttp.v")
    c.coq(["http"], "C06", "HttpC")
    c.trusted += [EXTRACT_TB,
                  "the per-byte model represents the whole-body look-ahead of the body states by accumulation (same events, same retained bytes); "
                  "this equivalence and the index arithmetic of resume/re-cache are tied to the code by the differential run, not proved",
                  "Go harness cmd/httpparse (recording Processor through the public interface; overlay accessor for the retained length)"]
    args = ["-n", n(c, 2500, 60000)]
    if c.tier == "thorough":
        args.append("-allcuts")
    c.harness("httpparse", args, overlay=True, model=HTTP_MODEL, timeout=3000)
    # segmentation independence through the real ServerProcessor with MaxHTTPBodySize set: bodies at the limit, a pipelined
    # successor behind them, reads that end inside the body (cmd/httpref, part bodylimit)
    c.harness("httpref", ["-n", "0"], overlay=True, timeout=3000)
    c.finish()


def c08(c):
    c.gen("http", "http", "GenHttp.v")
    c.coq(["http"], "C08", "HttpC")
    c.trusted += [EXTRACT_TB,
                  "absence of panics and hangs in the Go code (index arithmetic, slice bounds) is NOT a theorem: the model is total by construction; "
                  "it is covered by the differential run only (no recovered panic, no slow call on any generated input)",
                  "Go harness cmd/httpparse; cmd/httpe2e -part c08 (real nbhttp engines: the request behind malformed bytes never reaches the handler, the connection is closed - every IOMod, plain and TLS)"]
    c.assumptions += ["strconv.ParseInt re-modelled for bases 10/16 with 63-bit range; tested against the original by the differential run"]
    args = ["-n", n(c, 2500, 60000)]
    if c.tier == "thorough":
        args.append("-allcuts")
    c.harness("httpparse", args, overlay=True, model=HTTP_MODEL, timeout=3000)
    c.harness("httpref", ["-n", n(c, 300, 5000)], overlay=True, model=HTTP_MODEL, timeout=3000)
    # engine level: a parse error ends the connection in every read loop (IOMod x plain/TLS)
    c.harness("httpe2e", ["-part", "c08"], overlay=True, timeout=1200)
    c.finish()


def c07(c):
    c.gen("http", "http", "GenHttp.v")
    c.coq(["http"], "C07", "HttpC")
    # declared trailers and header blocks of arbitrary shape: proved in coq/respdec (the trailer-state lemmas of the C09 composition)
    c.coq(["http", "httpresp", "respdec"], "C07Trailers", "RespDecC")
    c.trusted += [EXTRACT_TB,
                  "net/http (http.ReadRequest / http.ReadResponse) is the reference; that the model's `meaning` coincides with what net/http extracts is tested on every generated message, not proved",
                  "url.ParseRequestURI and http.ParseHTTPVersion are shared stdlib calls",
                  "Go harness cmd/httpref (real ServerProcessor/ClientProcessor + handler)"]
    c.assumptions += ["theorems (c07_*_partial) cover requests and responses without a body, with Content-Length bodies, chunked bodies and declared trailers, and their pipelining; chunk extensions, trailer lines out of declaration order, HTAB and upper-case hex are decided by the differential run only"]
    # the processor behind the parser (what the handler sees): coq/httpproc, tied to nbhttp/processor.go by the same run
    c.coq(["http", "httpproc"], "C07Proc", "HttpProcC")
    pargs = []
    ok, ppath, plog = vlib.build_model(*PROC_MODEL)
    if ok:
        pargs = ["-pmodel", ppath]
    else:
        vlib.log(plog)
        c.proof_breaks.append({"component": "httpproc", "extraction": plog[-1500:]})
    c.trusted += ["processor model (coq/httpproc/Processor.v) transcribes ServerProcessor/ClientProcessor by hand; url.ParseRequestURI is an oracle argument of the model (the harness checks per request that it yields an empty host, the only case the parser lets through); strings.ToLower is modelled on ASCII"]
    c.harness("httpref", ["-n", n(c, 3000, 100000)] + pargs, overlay=True, model=HTTP_MODEL, timeout=3000)
    c.finish()


STOP_MODEL = ("stop", "Extract.v", ["stopmodel"], "main.ml")


def c18(c):
    c.coq(["stop"], "C18", "StopC")
    c.trusted += [EXTRACT_TB, NATINT_TB,
                  "goroutine and descriptor release, and that Stop returns on the real engine, are runtime facts: observed by the harness (watchdog, runtime.NumGoroutine, /proc/self/fd), not proved",
                  "the Async queue is FIFO with a single drainer (property C19) and the closed flag admits one teardown per connection (property C03): assumptions of the model",
                  "Go harness cmd/stop (real engines on loopback sockets)"]
    c.assumptions += ["nbhttp Stop/Shutdown hooks (listener mux, blocking-mode connections, executor pools) are covered by the harness oracle only"]
    c.harness("stop", ["-n", n(c, 25, 400)], overlay=True, model=STOP_MODEL, timeout=3000)
    c.finish()


def c10(c):
    c.gen("http", "http", "GenHttp.v")
    c.coq(["http", "httpresp", "server"], "C10", "ServerC")
    c.trusted += ["the composition theorem covers pipelined requests without a body, with Content-Length bodies and with chunked bodies (c07 msg theorems); chunk extensions, trailers, the close decision and the kernel are exercised by the harness, not proved",
                  "TLS is exercised end to end, not proved: every matrix cell runs a TLS listener next to the plain one on one engine (llib crypto/tls fork); the TLS record layer, handshake and certificate handling are trusted to the independent clients (Go crypto/tls 1.2 and 1.3, net/http) acting as the decoder of the oracle",
                  "nbhttp.Client over TLS runs with the full callback oracle over TLS 1.2; its TLS 1.3 handshake is probed by one request: with llib v1.2.4 it fails with an error callback (bad record MAC, dependency defect), which the property allows ('or an error'); exactly-once is still checked",
                  "overlay/add/nbhttp/zz_verif_tls.go only constructs tls.Config values (one certificate; InsecureSkipVerify; optional MaxVersion)",
                  "the ClientConn handler-queue model (coq/server/ClientFifo.v) is tied to the code only through the end-to-end oracle (callbacks exactly once with the matching response)",
                  "Go harness cmd/httpe2e (real nbhttp servers and clients on loopback)"]
    args = ["-n", n(c, 2, 20)]
    if c.tier == "thorough":
        args.append("-full")
    c.harness("httpe2e", args, overlay=True, timeout=3000)
    c.finish()


RESP_MODEL = ("httpresp", "Extract.v", ["rmodel"], "main.ml")


def c09(c):
    c.coq(["httpresp"], "C09", "HttpRespC")
    c.trusted += [EXTRACT_TB, "Go map iteration order of http.Header is canonicalised (header lines after Date sorted) before comparing",
                  "net/http's ReadResponse as the independent client decoder of the oracle",
                  "Go harness cmd/httpresp (real nbhttp.Response behind a recording net.Conn, driven through the real ServerProcessor)"]
    c.harness("httpresp", ["-n", n(c, 220, 6000)], overlay=True, model=RESP_MODEL, timeout=3000)
    # the same clause end to end on real connections, plain and TLS (file-serving handlers: ReadFrom / Sendfile branch)
    c.trusted += ["end-to-end tier (cmd/httpe2e -part c09): net/http over TCP and over crypto/tls as the decoder; TLS itself is exercised, not modelled"]
    c.harness("httpe2e", ["-part", "c09"], overlay=True, timeout=3000)
    c.finish()


MODELS = [
    RESP_MODEL,
    STOP_MODEL,
    HTTP_MODEL,
    ("mempool", "Extract.v", ["mmodel"], "main.ml"),
]
HARNESSES = [("httpparse", True), ("httpresp", True), ("httpref", True), ("stop", True), ("httpe2e", True), ("gendump", True)]

CHECKS = {
    "C06": c06,
    "C07": c07,
    "C08": c08,
    "C09": c09,
    "C10": c10,
    "C18": c18,
    "C20": c20,
}


# ---- plug-in recipes: every lib/props_<component>.py may define CHECKS, MODELS, HARNESSES (merged here)
import glob as _glob
import importlib as _importlib
import os as _os

for _f in sorted(_glob.glob(_os.path.join(_os.path.dirname(_os.path.abspath(__file__)), "props_*.py"))):
    try:
        _m = _importlib.import_module(_os.path.basename(_f)[:-3])
    except Exception as _e:  # a broken plug-in must not take the other checks down
        print("WARNING: recipe plug-in %s does not load: %s" % (_os.path.basename(_f), _e))
        continue
    CHECKS.update(getattr(_m, "CHECKS", {}))
    MODELS += [x for x in getattr(_m, "MODELS", []) if x not in MODELS]
    HARNESSES += [x for x in getattr(_m, "HARNESSES", []) if x not in HARNESSES]
