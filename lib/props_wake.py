"""Recipe of component `wake`: C04 (flush liveness: a backlog always drains when the peer makes room, wherever the write
was issued, in LT / ET / ET+ONESHOT)."""
from props import EXTRACT_TB, NATINT_TB, n

MODEL = ("wake", "Extract.v", ["wakemodel"], "main.ml")


def c04(c):
    c.coq(["wake"], "C04", "WakeC")
    c.trusted += [
        EXTRACT_TB, NATINT_TB,
        "kernel assumptions K3/K4 (modelled, not verified): a non-blocking send takes min(offered, room); a short count or EAGAIN sets "
        "SOCK_NOSPACE; the peer's read raises a writability edge iff NOSPACE was set; epoll_ctl ADD/MOD re-arms a ONESHOT entry and "
        "re-evaluates readiness; epoll_wait reports a descriptor's ready bits once per edge in ET mode. Linux reports more than that "
        "(level-ready bits are merged into another bit's edge: the `spur` input of the model's Deliver action covers it); the real-socket "
        "tier checks the end-to-end behaviour against the real kernel in the three modes on tcp and unix sockets",
        "atomicity: one action of the model = one critical section of Conn.mux (Write/Writev/Sendfile, flush, ResetPollerEvent, addConn's "
        "registration, the dial-completion section) or one kernel step; that the code holds the mutex around them is read off the code "
        "(conn_unix.go, poller_epoll.go); addDialer's registration is not under the mutex but precedes every other access to the connection",
        "liveness is proved as bounded progress under an explicit fairness notion (fair round = what is under way completes, the peer makes "
        "room, the poller handles what is deliverable, no application call), not for an arbitrary fair scheduler",
        "overlay: emulated kernel overlay/pkg/verifsys/epoll.go (bounded send buffer, receive queue, emulated epoll_wait for simulated epoll "
        "descriptors only; real epoll descriptors pass through with one counter increment), the Kern hook of sys.go, rules_epoll.py "
        "(syscall.EpollWait -> verifsys.EpollWait in poller_epoll.go), zz_verif_wake.go (an engine whose poller waits on the emulated epoll; "
        "connections attached through the real addConn / addDialer), the cooperative scheduler overlay/pkg/verifsched (rules_sched.py)",
        "the gate of Conn.AsyncRead is observed through nbio.VerifReadHook (overlay of component readpath: zz_verif_readpath.go, "
        "rules_readpath.py): a read event absorbed by the read task that is already running brings no ResetPollerEvent of its own (D40)",
        "Go harness cmd/wake: critical sections are attributed to library functions by the name of the first package-nbio frame on the "
        "acquiring goroutine's stack; the size of a write is the change of (queued + accepted) bytes across its critical section",
    ]
    c.assumptions += [
        "modelled and proved for all interleavings of the model's actions: the isWAdded / epoll-mask / ONESHOT / ET-report coupling of "
        "Write, Writev, Sendfile, modWrite, resetRead, flush, ResetPollerEvent, addConn (open handler before EPOLL_CTL_ADD), addDialer with a "
        "pending or an already completed connect, the poller's event handling (takeOnConnected, flush, dial callback, re-arm), peer reads, close",
        "application hooks (g.OnRead custom reader, OnReadBufferAlloc/Free, custom Execute) are a dimension of both harness tiers, not of the "
        "model: the model's flush sends min(queue, room) per writability event whatever is installed, so a configuration-dependent bound on "
        "flush (seeded C04-7) shows as a model disagreement and as a stall",
        "only tested: byte content and order of the stream (C01), the write-buffer bound (C17), deadlines, UDP, custom OnRead handlers, "
        "fatal write errors, kqueue / std pollers, more than one IO poller in the simulated tier",
    ]
    args = ["-n", n(c, 600, 12000), "-real", n(c, 12, -1), "-realmb", n(c, 16, 32)]
    c.harness("wake", args, overlay=True, model=MODEL, timeout=3000)
    c.finish()


CHECKS = {"C04": c04}
MODELS = [MODEL]
HARNESSES = [("wake", True)]

MANIFEST = {
    "C04": dict(
        technique="Coq proof (coupling invariant of the write wake-up protocol by induction over all action sequences, three epoll modes; "
                  "no-lost-wake-up, progress and bounded drain under fair rounds; refutation witnesses for the unrepaired code) + the real "
                  "poller / connection code on an emulated kernel under a cooperative scheduler, differential against the extracted model, "
                  "with a stall oracle + real-socket stall and spin detector in 3 modes x 4 application-hook configurations x tcp/unix x 7 write origins",
        text="Theorems in coq/wake/C04.v about the executable model WakeModel.v (connection: unsent bytes, isWAdded, closed, dial pending; "
             "kernel: send-buffer room, NOSPACE; epoll entry: registered, EPOLLOUT in the mask, ONESHOT armed, pending ET report; poller: what it "
             "owes for the delivered event): the coupling invariant holds in every reachable state, writes issued at any time from anywhere "
             "(c04_inv_reachable); backlog + registered + room + idle poller => a writability event is deliverable (c04_no_lost_wakeup); "
             "handling it strictly shrinks the backlog and hands the difference to the kernel (c04_progress); `backlog` fair rounds empty the "
             "queue, including writes issued before the registration (c04_drains); isWAdded = 'EPOLLOUT is registered' in LT and ONESHOT "
             "(c04_flag_agrees); no EPOLLOUT busy loop on an empty queue (c04_no_idle_spin); the code before 5ad1ef4 / fe8fd44 / 1f7888d / "
             "2094314 stalls (d3_refuted, d19_refuted, dial_callback_refuted, dialnow_oneshot_refuted). The model is tied to the code on every run: cmd/wake runs the real "
             "readWriteLoop, addConn, addDialer, Write, Writev, Sendfile, flush, ResetPollerEvent on simulated sockets with a bounded send "
             "buffer and an emulated epoll under the cooperative scheduler, feeds every critical section / event / peer read to the model "
             "and compares the states after every action; oracle: quiescent + backlog + room + nothing deliverable = stall.",
        note="kernel semantics K3/K4 are assumptions (probed on the running kernel with raw system calls and checked end to end by the "
             "real-socket tier); liveness relative to fair rounds",
        design="DESIGN.md section 4 C04, 1.3, Appendix E, H.2, H.4, N"),
}

READY = True
