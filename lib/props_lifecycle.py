"""Recipe of component `lifecycle`: property C03 (connection life cycle: exactly one close notification, never before the open,
first cause reported, Close idempotent, operations after Close fail without touching the descriptor, truthful dial exactly once)."""
from props import EXTRACT_TB, NATINT_TB, n

MODEL = ("lifecycle", "Extract.v", ["lifemodel"], "main.ml")


def c03(c):
    c.coq(["lifecycle"], "C03", "LifeC")
    c.trusted += [
        EXTRACT_TB, NATINT_TB,
        "cooperative scheduler of the overlay (overlay/pkg/verifsched, rules_sched.py: Conn.mux becomes verifsched.Mutex): managed goroutines "
        "switch only before a mutex acquisition, at explicit yields and when they end; the code between an Unlock and the next Lock of the same "
        "goroutine (closeWithErrorWithoutLock after Close / a failed Write) is therefore not interleaved by the simulated tier - the MODEL "
        "interleaves it (ATeardown is its own action) and the real-engine tier runs it under the Go scheduler",
        "shim kernel of the overlay (overlay/pkg/verifsys, rules_sys.py): scripted write/writev/sendfile answers (incl. fatal errno), "
        "close(2) and epoll_ctl bookkeeping on descriptors >= 1<<20; everything else passes to the real syscall",
        "overlay/add/zz_verif_lifecycle.go: a dialing Conn on a simulated descriptor registered through the real poller.addDialer, "
        "addConn that returns the Conn on failure, a smaller connection table, entry points for takeOnConnected / resetRead, read-only views",
        "the simulated tier's poller thread (cmd/lifecycle/sim.go doPoll) MIRRORS the dispatch of a writability event in "
        "poller_epoll.go readWriteLoop (real takeOnConnected, then callback + resetRead / closeWithError, or flush); the real dispatch "
        "is exercised by the real-engine tier only; SO_ERROR of a simulated descriptor cannot be read: a failed simulated connect carries EBADF",
        "the simulated engine delivers close notifications through the harness's FIFO (drained when the closing call returns) instead of "
        "Engine.OnClose's Async wrapper; the wrapper (engine.go OnOpen/OnClose, Timer.Async) is exercised by the real-engine tier",
        "close causes are equal as far as closeWithError is concerned: timers, the poller's EOF / read error and Stop's jobs call "
        "closeWithError(err) exactly as CloseWithError(err) does; the simulated tier uses CloseWithError with those errors, the "
        "real-engine tier real deadlines, real peer close / reset and Engine.Stop",
        "close-burst cells (cmd/lifecycle/burst.go): connections on simulated descriptors, but the engine's REAL OnOpen / OnClose wrappers and the "
        "real timer.Timer.Async queue; K close notifications (K around 1024 / 2048 and random in 1000..2100) queue behind a blocked first handler, "
        "then more connections are closed while the burst's last handler runs; exactly one notification per connection, no overlap of handlers; "
        "the cell in flight is recorded (hx.Current) so that a process death is reported with it",
        "real-engine mode ET+ASYNCREAD+SYNCEXEC: Config.IOExecute runs the read task synchronously in the poller goroutine (peer close / reset, "
        "write failure, Close in the data handler, racing closers)",
        "Go harness cmd/lifecycle (generator, per-connection event logs in real-time order, error identities, /proc/self/fd inspection, "
        "a listener with a full accept queue as the target of dials that must not complete)",
    ]
    c.assumptions += [
        "modelled and proved for all schedules: closeWithError / closeWithErrorWithoutLock, the closing paths of Write / Writev (teardown "
        "outside the lock) and Sendfile / flush (inside), Execute / Read / every operation on a closed connection, addConn (open before "
        "registration, descriptor beyond the table), addDialer (three outcomes), DialAsyncTimeout's tail for an immediate connect, "
        "takeOnConnected + callback, the failed-dial close, the close notification through the Async FIFO",
        "the kernel's verdict on a non-blocking connect (EPOLLOUT without / with an error condition, SO_ERROR) is an action of the environment: "
        "'really established' means the kernel reported it (c03_dial_truthful); the real-engine tier cross-checks with getpeername",
        "UDP: the listener's session table is modelled (UdpSessions.v: create on the first datagram of an address, same address -> same "
        "session until its teardown removes it, then a new one) and every session is proved to be a run of the per-connection model "
        "(c03_udp_session_is_connection), so at-most-once / open-before-close / first-cause hold per session; creation (map entry, open "
        "notification, idle timer) is ONE step of the model, matching readUDP's order since /repo 6bda07e (before it the timer was armed first and "
        "a 1 ns UDPReadTimeout let the close notification overtake the open notification: D38, oracle udp-session-close-before-open on a stress "
        "of thousands of one-datagram sessions with timeouts of 1 ns - 50 us); the listener's own "
        "teardown closing all sessions is not forced by the model (c03_udp_listener_close_partial). UDP client connections (net.DialUDP + "
        "AddConn, DialAsync(\"udp\")) are ordinary connections of the model; readUDP's use of Conn.closeErr as a scratch variable is not "
        "modelled - the model's notified error is the cause, and both tiers compare the implementation's notification AND IsClosed() with it",
        "the engine's descriptor table is shared by all connections; the model is about ONE connection, so the interplay of two connections "
        "through a reused descriptor number (scenario fd-reused-after-close-in-onopen) is checked by the oracle only",
        "a dial whose registration fails is reported once, by DialAsync's return value (c03_rejected_dial_reported_once; before /repo eae881e the "
        "callback was invoked as well: finding D35, oracle signature dial-rejected-callback-also-invoked stays armed)",
        "NOT guaranteed by the code and stated as a theorem about the model: a close that wins the flag while the poller holds a taken completion "
        "is notified before the success callback (c03_close_can_precede_success_callback; counted by the harness, not flagged: dialed connections "
        "have no open notification; never observed on a real engine)",
    ]
    args = ["-n", n(c, 3000, 100000), "-real", n(c, 1, 16)]
    c.harness("lifecycle", args, overlay=True, model=MODEL, timeout=3000)
    c.finish()


CHECKS = {"C03": c03}
MODELS = [MODEL]
HARNESSES = [("lifecycle", True)]

MANIFEST = {
    "C03": dict(
        technique="Coq proof (invariants of a per-connection LTS by induction over ALL schedules: closers of any cause, failing writers, "
                  "flushers, operations on the closed connection, kernel verdicts, poller completions, the Async drainer) + the real nbio.Conn on "
                  "simulated descriptors under a cooperative scheduler replayed through the extracted model + real engines whose per-connection event "
                  "logs go through the extracted, verified log checker + property oracle on the implementation alone",
        text="coq/lifecycle: Lifecycle.v (one Conn: closed flag flipped under the mutex, winners' lock-free teardowns, pending / taken dial callback, "
             "kernel state, Async FIFO, counters of notifications, callbacks, close(2) and descriptor syscalls). Theorems in C03.v for every schedule: "
             "c03_at_most_once (close notifications and close(2) <= 1), c03_exactly_once_at_quiescence (+ c03_settles: quiescence is reachable), "
             "c03_open_before_close, c03_notified_was_opened, c03_first_cause (the notified error is that of the action that flipped the flag), "
             "c03_idempotent, c03_after_close / c03_after_flag (closed indication, no syscall, nothing changes), c03_dial_once, c03_dial_truthful, "
             "c03_model_logs_are_legal / c03_model_logs_complete (the executable checker accepts every projection of a model run), "
             "c03_rejected_dial_reported_once, one documented non-guarantee (c03_close_can_precede_success_callback), and for UDP listeners "
             "(UdpSessions.v) c03_udp_session_is_connection, c03_udp_at_most_once, c03_udp_open_before_close, c03_udp_first_cause, "
             "c03_udp_data_after_open, c03_udp_one_session_per_address, c03_udp_datagram_routing, c03_udp_listener_close_partial. Every run: thousands of seeded schedules of the "
             "real code on simulated descriptors (registration ok / epoll failure / table overflow / closed by the open handler; backlog; armed timers; 2-7 threads) compared event by "
             "event and counter by counter with the model; ~200 real-engine connections per round (accepted / added / dialed x 13 terminations + 5 dial "
             "outcomes x LT / ET / ONESHOT / ET+AsyncRead, rejected registrations, a reused descriptor number; origins also UDP clients added with AddConn and dialed with DialAsync(udp), two "
             "thirds of all connections after a data exchange in both directions; UDP listener sessions incl. sequential table histories "
             "replayed through the extracted table model) checked by the oracle (exactly one OnClose after OnOpen, allowed cause, ops after Close, "
             "descriptor gone in /proc/self/fd, dial callback once and truthful by getpeername) and by the extracted checker.",
        note="Trusted: Coq kernel, extraction, OCaml driver, Go harness, overlay (scheduler, shim kernel, constructors), the mirror of the poller's "
             "writability dispatch in the simulated tier. The two-connection descriptor-reuse scenario is tested, not modelled. "
             "Not covered: conn_std.go, poller_kqueue.go. Found while building this check and fixed in /repo: D35 (rejected dial reported twice, double "
             "wgConn.Done), D36 (Close inside the open handler of a UDP session deadlocks the poller), D37 (a connection closed by its open handler "
             "knocks another connection with the same descriptor number out of the table), D38 (a UDP session's idle timer armed before its open "
             "notification).",
        design="DESIGN.md section 4 C03, Appendix E"),
}

READY = True
