#!/usr/bin/env python3
"""Writes MANIFEST.json from the table below (kept in one place so it stays valid)."""
import json
import os

ROOT = os.path.dirname(os.path.dirname(os.path.abspath(__file__)))
ALL = ["C%02d" % i for i in range(1, 21)]

CLAIMED = {
    "C06": dict(
        technique="Coq proof (fold/induction over segment lists) on the per-byte parser model + differential run of the extracted model over all segmentations",
        text="Theorems in coq/http/C06.v: for the executable model of nbhttp.Parser (one step function per parser state, client and server side), "
             "every segmentation of every byte stream yields the same events, error and final state as one piece; with a read limit the run equals the "
             "unlimited one or ends in ErrTooLong after a prefix of its events. The model is tied to the code on every run by feeding generated and mutated "
             "message streams in one piece, byte-wise, single cuts and multi-cuts to both and comparing events, error class and retained length; the "
             "implementation-only oracle (one piece vs. segmented) runs on the same cases.",
        note="Trusted: Coq kernel, extraction (ExtrOcamlBasic), OCaml driver, Go harness, overlay accessor. The model abstracts the index arithmetic of "
             "resume/re-cache (tok = data[start:i]); that abstraction is validated by the differential run on every segmentation, not proved.",
        design="4/C06, Appendix B, I"),
    "C07": dict(
        technique="Coq proof (round trip parse(render m) = meaning m by induction over the grammar; pipelining; decimal/hex length read-back) for body-less, Content-Length-framed and chunked requests and responses; processor model: the fold of the parser callbacks into the delivered request/response equals the reference's view field by field, the close decision equals net/http's rule) + differential runs: real parser vs parser model, real processor vs processor model, both vs net/http on the whole restricted grammar",
        text="coq/http/C07.v: for every well-formed request, and every well-formed response on the client side (status line with any code and a reason phrase of one or more words), without a body, framed by Content-Length or chunked without extensions/trailers (any method/target/protocol token/header list with OWS; any body of n < 2^62 arbitrary bytes; any list of non-empty chunks) the model parser, started in a boundary state, "
             "emits exactly meaning(msg) - the body extracted exactly - and ends in a boundary state with the rest of the stream untouched; lifted to pipelined sequences mixing the three kinds; the parser's integer reader reads back every decimal and hex length (c07_decimal_roundtrip, c07_hex_roundtrip). Chunk extensions on every size line incl. the last chunk (whitespace and ';'-introduced extension of arbitrary bytes): c07_request_chunked_ext_partial, c07_response_chunked_ext_partial. Declared trailers and header blocks of arbitrary shape (any names in any order, repeated, empty values) are covered by coq/respdec/C07Trailers.v: c07_response_chunked_trailers_partial, c07_request_chunked_trailers_partial. What the HANDLER sees is covered by coq/httpproc/C07Proc.v (model of nbhttp/processor.go, tied to it by the same run: 3000+ streams through the real Server/ClientProcessor and the extracted processor model, rendered field by field): c07_delivered_request_partial / c07_delivered_pipeline_partial (the events of one well-formed request, resp. of a pipeline, fold into exactly one delivered request per message with the message's method, target, version, header multimap - every lookup -, Content-Length, body bytes, Host, Transfer-Encoding and close decision), c07_close_decision_is_reference (the CONNECTION_VALUES loop with its break computes net/http's shouldClose: token lists, case, HTTP/1.0 keep-alive), c07_header_map_is_multimap, c07_delivered_response_partial / c07_delivered_responses_partial (client side). The rest of the property's grammar "
             "(trailers out of order, message boundaries) is decided on every run by the "
             "implementation-side oracle: nbio's real Server/ClientProcessor vs http.ReadRequest/ReadResponse on generated pipelined streams, field by field, one piece and "
             "byte-wise, plus the model/implementation correspondence on the same streams. Partial: see the _partial theorem names.",
        note="Partial: trailer lines out of declaration order, HTAB in header lines, upper-case hex, and extensions together with trailers in one message are not yet theorems; the response theorem says the reason phrase is cut at its first word (what the code does; the harness compares the status code); net/http itself is not modelled (trusted reference). Projection: reason phrase ignored, Host entry of the "
             "header map ignored (Request.Host compared), framing headers compared through ContentLength/body/Trailer; OWS is SP only (HTAB finding F1 is outside the restricted grammar).",
        design="4/C07, Appendix J"),
    "C08": dict(
        technique="Coq proof (invariants on the parser model: retained length, error finality, rejection lemmas) + differential run incl. malformed stream",
        text="Theorems in coq/http/C08.v: after an error nothing further is reported; retained bytes <= max(ReadLimit, longest read); a missing LF (8 places) or CR "
             "(2 places) is an error; Transfer-Encoding other than a single 'chunked', non-numeric/negative/overflowing Content-Length and chunk sizes are "
             "rejected. Panics/hangs in the Go code cannot be excluded by a theorem about a total model: they are covered by the differential run "
             "(no recovered panic, no slow call, on ~20k generated/mutated cases per quick run) - partial in that respect.",
        note="Partial: no-panic/no-hang is tested, not proved; the MaxHTTPBodySize bound is checked by the C07 harness on the real processors. Trusted: as C06.",
        design="4/C08"),
    "C09": dict(
        technique="Coq proof (stream invariant through every coalescing branch of the response writer, by induction over handler programs) + differential run of the extracted model; net/http as independent decoder oracle",
        text="coq/httpresp: nbhttp/response.go (as repaired) as a state machine over handler operations. Theorems (C09.v) for every request context, every sequence of header operations and every body "
             "program (Writes of any size, Flush anywhere, trailers set early or late): with chunked framing the wire is head ++ one `hex(len) CRLF data CRLF` chunk per non-empty Write in order ++ `0 CRLF` ++ trailer "
             "block ++ CRLF and nothing stays buffered (c09_chunked_wire); with identity framing the wire is head ++ exactly the bytes of the accepted Writes in order (c09_identity_wire); every successful Write reports "
             "len(data); a refused Write puts nothing on the wire. So the 64 KiB threshold logic only decides when bytes move, never which or in what order (the D7/D8 class). That `head` is a well-formed status line + header "
             "block with the right framing headers, and the decoding of the chunk syntax, are decided on every run by the implementation-side oracle (net/http decodes the recorded wire to the handler's status, headers, "
             "trailers, body) and the model correspondence (boundaries and bytes of every conn.Write) on generated programs aimed at the threshold.",
        note="Partial in one respect: the content of `head` (Content-Length value, Transfer-Encoding) and chunk-syntax decoding are oracle-checked, not theorems; c09_http10_flush_refuted is the known finding D9 as a witness on the model. "
             "ReadFrom (io.Copy / io.CopyN / ServeContent into the response) is covered as the sequence of Writes of the <= 32 KiB pieces io.Copy reads (harness ops `via`; the limit of an io.LimitedReader over a longer source must be kept - D46); the Sendfile branch of ReadFrom (file range on a plain connection) is exercised by the C10 end-to-end harness only. Trusted: Coq kernel, extraction, OCaml driver, Go harness, net/http's client parser.",
        design="4/C09, Appendix C, O"),
    "C10": dict(
        technique="Coq proof by composition (C06 segmentation + C07 round trip + response writer model) for the server; invariant over all histories for the client callback queue; end-to-end oracle on real servers/clients",
        text="coq/server/C10.v: (1) for every pipelined sequence of well-formed requests - body-less, Content-Length framed with arbitrary body bytes, or chunked, mixed in one stream (c10_one_answer_per_request_in_order_bodies_partial) -, every segmentation and every handler, the bytes a connection writes are the concatenation in request order "
             "of each request's own answer (one answer per request, in order); (2) for the client connection's pending-handler queue, in every history of Do / response / close / failed send / recycle: "
             "callbacks invoked so far ++ pending = submitted requests in submission order (never twice, FIFO), and after a close nothing is pending (exactly once). "
             "Decided on every run by the end-to-end oracle: real nbhttp server in IOMod x {plain, TLS} x epoll-mode cells (one engine serves both listeners; IOModMixed with MaxBlockingOnline 6), up to 24 plain + 24 TLS (crypto/tls 1.2/1.3, optionally chopped records) concurrent raw pipelining connections + net/http clients (plain and https) + nbhttp.Client (plain and https), "
             "responses identified per connection and request (sizes around 64 KiB), order, exactly-once, isolation, keep-alive/close behaviour.",
        note="Partial: requests with bodies, the close decision and cross-connection isolation are oracle-checked, not theorems (isolation in the model is by construction; shared state in the code = buffer pools, see C11/C20). "
             "TLS is exercised, not modelled (record layer/handshake trusted to the independent clients). Known finding D16 (Connection: close truncates a large response to a slow reader).",
        design="4/C10"),
    "C18": dict(
        technique="Coq proof (invariant over all histories of a transition system for Stop + wait group + Async queue; bounded-progress termination; refutation witness) + verified log checker run on real engines + watchdog/leak oracle",
        text="coq/stop: Engine.Stop, the open-connection wait group and the Async queue as a transition system over connection ids. Theorems for every history: the wait group equals "
             "(1 until Stop's Done) + connections whose close callback has not completed; when Stop's wait returns every connection has been notified; without an accept after the snapshot "
             "a fair Async drainer brings the wait group to zero within `measure` jobs (Stop returns); with such a late accept it can hang (refutation witness = finding D11). "
             "The accept hand-over of nbhttp racing with Stop (coq/stop/AcceptStop.v: listen loop, listener mux, AddConn*, closeAllConns as three goroutines over one connection, every interleaving): c18_accept_handover_closed (no final state forgets an accepted connection, with and without the mux) and the refutations c18_accept_handover_old_refuted / _half_refuted of the code before the repairs D52/D53 and between them. "
             "Tie to the code: an executable checker of observed event logs (open / close notification / Stop called / Stop returned), proved to accept every projection of a model run, is extracted "
             "and run on the logs of real engines in every history; the implementation-side oracle checks that Stop/Shutdown return under a watchdog, #OnClose = #OnOpen(+dial), every peer connection "
             "is closed, goroutines and descriptors return to their pre-Start level, for the core engine and nbhttp (3 epoll modes x IOMods x Stop/Shutdown, incl. an injected Accept error).",
        note="Partial: termination is proved relative to a fair Async drainer and the absence of a late accept on the core engine (D11; on the nbhttp engine the late accept was reproduced and repaired: D52/D53, and is now a theorem of the hand-over model, which is tied to the code by the harness histories only); goroutine/fd release and the "
             "nbhttp hooks are observed, not proved. Trusted: Coq kernel, extraction, harness.",
        design="4/C18"),
    "C20": dict(
        technique="Coq proof (invariant by induction over op sequences, all oracle answers) + differential run of the extracted model",
        text="Theorems in coq/mempool/C20.v about the executable model of mempool.MemPool: length, content preservation, "
             "no aliasing between live (and pooled) buffers in every reachable state, frame for every operation; for every "
             "operation sequence and every legal answer of sync.Pool/append. The model is tied to the code by running the "
             "extracted model and the real allocator on the same random programs on every run.",
        note="Trusted: Coq kernel, extraction (ExtrOcamlBasic, ExtrOcamlNatInt), OCaml driver, Go harness; sync.Pool and append "
             "growth are oracle inputs. The aligned and std allocators are checked by the implementation-side property oracle "
             "(contents/length/disjointness/frame), not by a theorem yet.",
        design="4/C20, Appendix Q"),
}

INTEGRATED = {"C01", "C17", "C16", "C11", "C05", "C19", "C12", "C13", "C15", "C02", "C03", "C04", "C14", "C09", "C20"}

NOT_YET = "check not built yet in this revision (planned, see DESIGN.md section 4)"


def load_plugins():
    import glob
    import importlib
    import sys
    sys.path.insert(0, os.path.join(ROOT, "lib"))
    for f in sorted(glob.glob(os.path.join(ROOT, "lib", "props_*.py"))):
        try:
            m = importlib.import_module(os.path.basename(f)[:-3])
        except Exception as e:
            print("WARNING: %s does not load: %s" % (f, e))
            continue
        for pid, entry in getattr(m, "MANIFEST", {}).items():
            if pid in INTEGRATED:  # components integrated by the lead and quiet on the unchanged tree
                CLAIMED[pid] = entry


def main():
    load_plugins()
    checks = []
    for pid in ALL:
        if pid not in CLAIMED:
            continue
        c = CLAIMED[pid]
        checks.append({
            "property_id": pid,
            "quick_cmd": "bin/check %s quick" % pid,
            "thorough_cmd": "bin/check %s thorough" % pid,
            "evidence_file": "/verif/evidence/%s.json" % pid,
            "replay_cmd_template": "bin/replay {path}",
            "engine": "coq+differential",
            "level_claimed": {"category": "proof", "text": c["text"], "design_ref": c["design"]},
            "level_note": c["note"],
            "technique": c["technique"],
        })
    man = {
        "version": 1,
        "setup_cmd": "bin/setup",
        "hooks": {
            "guard": "verif-overlay (no source commits: instrumentation is injected at build time with `go build -overlay`, nothing in /repo is guarded or changed)",
            "enable": "checks build /repo's working tree with `go build -overlay build/overlay/overlay.json` (added files zz_verif_*.go, shim packages verifsched/verifsys, identifier-level rewrites produced by lib/mkoverlay.py)",
            "baseline_off_cmd": "cd /repo && GOFLAGS=-mod=mod go test -vet=off -count=1 -timeout 25m ./...",
            "source_commits": [],
            "add_only": True,
        },
        "engines": [
            {"name": "coq+differential", "path": "/verif/coq, /verif/ocaml, /verif/harness, /verif/lib",
             "serves_properties": sorted(CLAIMED),
             "kind_free_text": "Coq 8.16 theorems about hand-written executable Gallina models; models extracted to OCaml and run against the implementation built from /repo's working tree on generated cases on every run"},
        ],
        "checks": checks,
        "notes": "See DESIGN.md. Known findings: known_findings.json.",
        "not_applicable": [{"property_id": p, "reason": NOT_YET} for p in ALL if p not in CLAIMED],
    }
    with open(os.path.join(ROOT, "MANIFEST.json"), "w") as f:
        json.dump(man, f, indent=1)
    print("MANIFEST.json: %d checks, %d not claimed" % (len(checks), len(man["not_applicable"])))


if __name__ == "__main__":
    main()
