"""Recipe for C11 (pooled-buffer ownership): component `bufown`.
coq/bufown: the discipline checker (sound + complete for every trace) and four instrumented models with their theorems:
the response writer (RespAlloc), the connection write queue (WqAlloc), the WebSocket receive path (WsRecvAlloc), the HTTP
BodyReader (BodyAlloc); ocaml/bufown: line-protocol driver of the extracted checker + models; harness/cmd/bufown:
instrumented allocator behind the public seams (mempool.DefaultMemPool, nbhttp/nbio Config.BodyAllocator), real code driven
through HTTP exchanges, WebSocket connections, the nbio.Conn write queue (real engine and scripted shim kernel), the
BodyReader and a real nbhttp engine."""
from props import EXTRACT_TB, NATINT_TB, n

MODEL = ("bufown", "Extract.v", ["bomodel"], "main.ml")


def c11(c):
    c.coq(["bufown"], "C11", "BufOwnC")
    c.trusted += [
        EXTRACT_TB, NATINT_TB,
        "Go harness cmd/bufown: the instrumented allocator (ids by *[]byte identity, live map, poison 0xDB on Free, fresh memory 0xCD, "
        "no recycling, runtime.Callers for the sites), the scripted net.Conn that reports which pooled buffer a payload lies in, "
        "the trace normalisation used for the model comparison (runs of Appends on one buffer count once, ids renamed by first appearance)",
        "the four instrumented models abstract buffer contents to lengths and are tied to the code by the differential run only, not proved: "
        "RespAlloc.v to nbhttp/response.go + releaseResponse (Write results, conn.Write boundaries and success, allocator trace); "
        "WqAlloc.v to conn_unix.go / sendfile_unix.go on a simulated descriptor of the shim kernel overlay/pkg/verifsys (per operation: error or not, "
        "closed, shape of the queue, Conn.left; allocator trace; the kernel's read of a queued buffer is observed through OnWrittenSize); "
        "WsRecvAlloc.v to websocket.Conn.Parse / CloseAndClean (per Parse: result class, cache length, message length, closed; number of buffers left "
        "to the application; allocator trace with the Appends that directly follow a buffer's Malloc merged into it; the outcome of every inflate "
        "is an oracle input taken from the generated data); BodyAlloc.v to nbhttp/body.go through the overlay accessor VerifBodyAppend (per operation: "
        "result, number of buffers, index, left; allocator trace without the model's Use events, which the real side cannot observe)",
        "wsrecv also covers handlers that panic (message, data frame, ping/pong/close handler) x ReleasePayload on/off x an executor that recovers "
        "(default task pool, job runner) or a plain call (application's own executor: the panic reaches Parse's recover) x blocking-mode SyncCall / "
        "Execute dispatch; a panic escaping Parse itself would be caught by the harness and the trace checked all the same",
        "overlay accessors owned by this component: overlay/add/nbhttp/zz_verif_bufown.go (BodyReader.append), "
        "overlay/add/nbhttp/websocket/zz_verif_bufown.go (Conn.releasePayload setter); used from other components: verifsys, zz_verif_conn.go, "
        "zz_verif_ws.go (VerifGetState)",
        "reads through stale pointers that never reach a connection or a handler are invisible (only Malloc/Append/Realloc/Free and "
        "the slices handed to conn.Write / OnMessage / OnDataFrame are observed; other stale reads show only as poison in outputs); "
        "sync.Pool internals and the three library allocators themselves are C20's subject",
        "nbconn and engine scenarios: real loopback TCP, the kernel's and the Go scheduler's interleavings (the discipline oracles must hold for "
        "every interleaving; the event order may differ between runs, the verdicts do not depend on it)",
    ]
    c.assumptions += [
        "theorems (models): checker soundness/completeness for every trace; response writer: discipline, distinctness, liveness, release for all handler "
        "programs / allocator behaviours / conn.Write failure patterns; write queue: for all op sequences x kernel scripts x allocator answers the queued "
        "buffers are exactly the live ones, a closed connection has returned everything; WebSocket receive path: for all frame streams x segmentations x "
        "inflate outcomes cache + message + what the application was given are exactly the live buffers, after close only the latter, with ReleasePayload "
        "nothing; BodyReader: for all append/Read/Close sequences the reader's buffers are exactly the live ones, Close returns all",
        "HTTP parser cache, WebSocket send path (writeFrame, send queue, WriteMessage's compression buffer), upgrader: decided by the oracles on the "
        "real code only (no instrumented model): c11_discipline is partial in that respect",
        "write-queue model: Sendfile's Dup failure is not modelled; K1 (a stream socket never accepts 0 bytes of a non-empty write) as in coq/connio",
        "HTTP client side (ClientProcessor), TLS buffers: not driven",
    ]
    args = ["-n", n(c, 120, 1500)]
    if c.tier == "thorough":
        args.append("-allk")
    c.harness("bufown", args, overlay=True, model=MODEL, timeout=3000)
    c.finish()


CHECKS = {"C11": c11}
MODELS = [MODEL]
HARNESSES = [("bufown", True)]

MANIFEST = {
    "C11": dict(
        technique="Coq proof (verified trace checker: sound and complete for the ownership discipline on every event trace; invariants by induction over ALL runs of four "
                  "instrumented models - response writer, connection write queue, WebSocket receive path, HTTP BodyReader - under all oracle answers: allocator moves and "
                  "capacities, kernel scripts, write failures, inflate outcomes) + instrumented allocator behind the public allocator seams recording the real code's event "
                  "trace, checked by the extracted checker and compared with the models, with poison / live-map oracles",
        text="coq/bufown/C11.v. Part 1: the ownership discipline over allocator events (Malloc, Append/Realloc with or without a new pointer, Free, Use) is specified "
             "index-wise (ids unique; everything freed/used/appended was handed out before and not released before) and check_trace is proved sound, complete and to report "
             "the first offending event, for every trace. Part 2: nbhttp/response.go + releaseResponse instrumented with its allocator events (every error branch of a failing "
             "conn.Write) obeys the discipline for ALL handler programs, Append answers and failure patterns; buffer and bodyBuffer are distinct live buffers at every step, "
             "nothing is held after flushResponse. Part 3: the connection write queue (conn_unix.go Write/Writev/Sendfile/flush/Close: copy into pooled buffers when a backlog "
             "forms, coalescing with re-allocation, release of each buffer exactly when its last byte was taken, release of the rest on close / fatal errno / overflow) for ALL "
             "operation sequences x kernel scripts (short writes, EAGAIN, EINTR, errors) x allocator answers: the queued buffers are EXACTLY the live buffers, each once; a "
             "closed connection has returned everything. Part 4: the WebSocket receive path (cache growth and in-place consumption, message growth across fragments incl. empty "
             "ones, frame and control payload copies, inflate into readAll's buffer with its failure branches, the recover path, hand-over to the handlers with ReleasePayload "
             "on/off incl. the empty-payload case of D24, the close frames the receive path sends, CloseAndClean also from inside a handler) for ALL frame streams x "
             "segmentations x inflate outcomes: cache + message + what the application was given are exactly the live buffers; after close only the latter; with ReleasePayload "
             "and an executor that recovers handler panics nothing (a handler panic that escapes into Parse's recover still releases the payload exactly once; a frame copy waiting for its own handler is dropped, not returned). Part 5: BodyReader for ALL append/Read/Close sequences: its buffers are exactly the live ones, Close returns all. Tie to the code: an allocator "
             "implementing mempool.Allocator is installed as mempool.DefaultMemPool and Config.BodyAllocator (nbhttp and nbio); it records the event trace of the REAL code with "
             "stable ids, keeps a live map, poisons on Free, never recycles. Every model is run on the same programs as the real code (response: handler programs x failing "
             "write at every k; write queue: real nbio.Conn on a simulated descriptor with scripted syscalls; receive path: real websocket.Conn in both roles fed frame streams "
             "in segments; BodyReader driven directly) and the per-operation observations and the allocator traces must agree; beyond that the real Parser+ServerProcessor+"
             "Response+BodyReader (pipelined requests, all segmentations, parse errors, close mid-message), websocket.Conn with echo / send queue / slow connection / close "
             "races, the write queue on a real engine and a real nbhttp engine (upgrade of an *nbio.Conn, executor dispatch, pooled read buffer) are driven; every trace goes "
             "through the extracted checker (verdict must equal the live map's); double free / use after free / append after free / foreign free / write after free / "
             "not returned after close / poison or never-written memory on the wire or in delivered data are reported per call site.",
        note="Partial: the HTTP parser's cache, the WebSocket send path (writeFrame's send queue, WriteMessage's compression buffer) and the upgrader have no instrumented model "
             "(oracles on the real code only); the correspondence of the four models with the code is tested, not proved. Reads through stale pointers are visible only when "
             "they reach a connection, the shim kernel or a handler. Found with this check and fixed in /repo: D24 (Free of a pointer the allocator never handed out for empty "
             "WebSocket payloads; corrupts mempool.NewAligned's pool). Trusted: Coq kernel, extraction, OCaml driver, Go harness, shim kernel.",
        design="4/C11, Appendix C, D, E"),
}

READY = True
