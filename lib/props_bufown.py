"""Recipe for C11 (pooled-buffer ownership): component `bufown`.
coq/bufown: the discipline checker (sound + complete for every trace) and the instrumented response-writer model;
ocaml/bufown: line-protocol driver of the extracted checker + model; harness/cmd/bufown: instrumented allocator behind
the public seams (mempool.DefaultMemPool, nbhttp/nbio Config.BodyAllocator), real code driven through HTTP exchanges,
WebSocket connections, the nbio.Conn write queue and a real nbhttp engine."""
from props import EXTRACT_TB, NATINT_TB, n

MODEL = ("bufown", "Extract.v", ["bomodel"], "main.ml")


def c11(c):
    c.coq(["bufown"], "C11", "BufOwnC")
    c.trusted += [
        EXTRACT_TB, NATINT_TB,
        "Go harness cmd/bufown: the instrumented allocator (ids by *[]byte identity, live map, poison 0xDB on Free, fresh memory 0xCD, "
        "no recycling, runtime.Callers for the sites), the scripted net.Conn that reports which pooled buffer a payload lies in, "
        "the trace normalisation used for the model comparison (runs of Appends on one buffer count once, ids renamed by first appearance)",
        "the instrumented response model coq/bufown/RespAlloc.v abstracts buffer contents to lengths and is tied to nbhttp/response.go + "
        "releaseResponse by the differential run only (Write results, conn.Write boundaries and success, allocator trace), not proved",
        "reads through stale pointers that never reach a connection or a handler are invisible (only Malloc/Append/Realloc/Free and "
        "the slices handed to conn.Write / OnMessage / OnDataFrame are observed; other stale reads show only as poison in outputs); "
        "sync.Pool internals and the three library allocators themselves are C20's subject",
        "nbconn and engine scenarios: real loopback TCP, the kernel's and the Go scheduler's interleavings (the discipline oracles must hold for "
        "every interleaving; the event order may differ between runs, the verdicts do not depend on it)",
    ]
    c.assumptions += [
        "theorems: checker soundness/completeness for every trace; discipline, distinctness, liveness and release of the response writer's buffers "
        "for all handler programs, allocator behaviours and conn.Write failure patterns (model)",
        "parser cache, BodyReader, websocket.Conn (cache, message, frame, protocol buffers, readAll, writeFrame, send queue, CloseAndClean), upgrader, "
        "nbio.Conn write queue: decided by the oracles on the real code only (no instrumented model yet): c11_discipline is partial",
        "HTTP client side (ClientProcessor), TLS buffers, sendfile path: not driven",
    ]
    args = ["-n", n(c, 120, 1500)]
    if c.tier == "thorough":
        args.append("-allk")
    c.harness("bufown", args, overlay=True, model=MODEL, timeout=3000)
    c.finish()


CHECKS = {"C11": c11}
MODELS = [MODEL]
HARNESSES = [("bufown", True)]

MANIFEST = {
    "C11": dict(
        technique="Coq proof (verified trace checker: sound and complete for the ownership discipline on every event trace; invariant by induction over all handler "
                  "programs / allocator answers / write-failure patterns for the instrumented response-writer model) + instrumented allocator behind the public allocator "
                  "seams recording the real code's event trace, checked by the extracted checker, with poison / live-map oracles",
        text="coq/bufown/C11.v. Part 1: the ownership discipline over allocator events (Malloc, Append/Realloc with or without a new pointer, Free, Use) is specified "
             "index-wise (ids unique; everything freed/used/appended was handed out before and not released before) and check_trace is proved sound, complete and to report "
             "the first offending event, for every trace. Part 2: nbhttp/response.go + releaseResponse instrumented with its allocator events (buffer, bodyBuffer, writeChunk's "
             "and flush's buffers, every error branch of a failing conn.Write) obeys the discipline for ALL handler programs, ALL move/no-move answers of Append and ALL "
             "failure patterns; buffer and bodyBuffer are distinct live buffers at every step and nothing is held after flushResponse. Tie to the code: an allocator implementing "
             "mempool.Allocator is installed as mempool.DefaultMemPool and Config.BodyAllocator (nbhttp and nbio); it records the event trace of the REAL code with stable ids, "
             "keeps a live map, poisons on Free, never recycles; the real Parser+ServerProcessor+Response+BodyReader (pipelined requests, all segmentations, parse errors, close "
             "mid-message, write failure at every k), real websocket.Conn in both roles (thresholds, fragments, compression, limits, invalid frames, send queue with a slow "
             "connection, close races), the nbio.Conn write queue on a real engine and a real nbhttp engine (non-blocking and blocking mode: upgrade of an *nbio.Conn, executor "
             "dispatch with payload release, pooled read buffer) are driven; every trace goes through the extracted checker (verdict must equal the live "
             "map's), the response runs are compared event by event with the model, and double free / use after free / append after free / foreign free / write after free / "
             "poison or never-written memory on the wire or in delivered messages are reported per call site.",
        note="Partial: only the response writer has an instrumented model and a theorem; the other components are decided by the oracles on the real code. Reads through stale "
             "pointers are visible only when they reach a connection or handler (as poison). Found with this check and fixed in /repo: D24 (Free of a pointer the allocator never "
             "handed out for empty WebSocket payloads; corrupts mempool.NewAligned's pool). Trusted: Coq kernel, extraction, OCaml driver, Go harness.",
        design="4/C11, Appendix C, D"),
}

READY = True
