"""Recipe of component `deadline`: property C16 (deadlines fire on time, never early, can be renewed or cleared; keep-alive)."""
from props import EXTRACT_TB, n

MODEL = ("deadline", "Extract.v", ["dlmodel"], "main.ml")


def c16(c):
    c.coq(["deadline"], "C16", "DeadlineC")
    c.trusted += [
        EXTRACT_TB,
        "time.AfterFunc / time.Timer (Go runtime): a timer never runs its function before its duration has elapsed, Stop/Reset before that "
        "cancel it, a function that has started is not taken back; modelled by the Fire/Run events of the model (Fire is enabled only when "
        "the armed deadline is <= the clock); how LATE a timer fires is not modelled (harness: margin 500 ms, doubled on each re-run)",
        "Go harness cmd/deadline (real engines on 127.0.0.1:0, real timers; every operation bracketed by two monotonic clock readings; "
        "overlay accessor VerifDeadlineState reads c.rTimer/c.wTimer/len(c.writeList)/c.closed under the connection mutex)",
        "the keep-alive renewals of nbhttp/websocket are modelled as SetReadDeadline(now+KeepaliveTime) at an instant inside the interval "
        "[request sent, answer received]; that the engine issues exactly these calls is tested by the differential run, not proved",
    ]
    c.assumptions += [
        "liveness theorems (c16_fires, c16_keepalive) hold for the eager runtime (a due timer fires at its deadline); safety theorems "
        "(never early, clear, autoclear, no stale timer) hold for every interleaving of operations, firings and callbacks",
        "client side: nbhttp.ClientConn (Timeout, IdleConnTimeout) and websocket.Dialer (DialTimeout, client KeepaliveTime) are covered by the "
        "harness and by the model operations client_do / client_response; two requests in flight on one ClientConn are only probed and "
        "reported (Extra probe_pipelined_requests), C16 does not say which deadline applies to the second request",
        "accepted Unix connections (only AddConn'ed ones), conn_std.go (Windows), TLS and nbhttp.Client's connection pool are not covered",
    ]
    c.harness("deadline", ["-n", n(c, 300, 5000)], overlay=True, model=MODEL, timeout=3000)
    c.finish()


CHECKS = {"C16": c16}
MODELS = [MODEL]
HARNESSES = [("deadline", True)]
MANIFEST = {
    "C16": dict(
        technique="Coq proof (invariants by induction over all histories of an LTS with explicit clock, timer firing and callback events) + "
                  "differential run of the extracted model against real engines and real timers with interval comparison + interval oracle on the implementation",
        text="coq/deadline: model of nbio.Conn's read/write timers (SetDeadline/SetReadDeadline/SetWriteDeadline, Write with/without backlog, flush, Close, "
             "timer callbacks) with a logical clock; the Go runtime is part of the environment (Tick / Fire only when due / Run). Theorems in C16.v, for ALL "
             "histories: c16_never_early (a timeout close carries a deadline <= the close time that was in force when it fired), c16_clear, c16_autoclear, "
             "c16_backlog_keeps, c16_no_stale (nothing changes after the close), c16_ws_disabled, c16_client_response_clears; for the eager runtime: c16_fires, c16_fires_exact, c16_renew, "
             "c16_keepalive; c16_eager_is_primitive ties the two layers. Every run: 300 connection histories (32 named scenarios + random) rotating over the transports tcp accepted / DialAsyncTimeout / DialAsync / AddConn, "
             "unix AddConn, udp DialUDP+AddConn / DialAsync(udp) / per-peer server session, with and without traffic drained to EAGAIN before the first deadline; the close error must be the exact timeout error value, 60 nbhttp keep-alive, 60 WebSocket, 60 websocket.Dialer (DialTimeout / client keep-alive 0 and >0; silent, pinged, receiving, sending) "
             "and 60 nbhttp.ClientConn histories (Timeout / IdleConnTimeout 0 and >0; answered requests, idle periods, a request never answered; the close of the underlying "
             "connection is observed through the client engine's OnClose) on a 80 ms grid against real engines; the model must predict closed?/armed timers/backlog/Write result after every "
             "operation and the cause and logical time T of the close with T <= observed < T + margin; the oracle applies the property's interval rules "
             "(never early: exact; on time: margin) to the observed history without the model. Problems are re-run up to 4 times with doubled grid and margin.",
        note="Partial: lateness of real timers is bounded only by the harness margin (runtime's business). Trusted: Coq kernel, extraction, OCaml driver, Go harness, "
             "overlay accessor, the three assumptions about time.Timer listed in the evidence. Not covered: accepted Unix connections, conn_std.go, TLS, the connection pool of nbhttp.Client; pipelined client requests are probed and reported only.",
        design="4/C16, 7"),
}

READY = True
