"""Recipe of component `readpath`: property C02 (inbound delivery integrity in every poller configuration and transport;
UDP demultiplexing; idle readers)."""
from props import EXTRACT_TB, NATINT_TB, n

MODEL = ("readpath", "Extract.v", ["gatemodel"], "main.ml")


def c02(c):
    c.coq(["readpath"], "C02", "ReadPathC")
    c.trusted += [
        EXTRACT_TB, NATINT_TB,
        "K2 (kernel, modelled not verified): read(2) on a stream socket returns the first min(available, len(buf)) bytes in order, "
        "EAGAIN when nothing is available, 0 at the end of the stream; recvfrom returns one datagram cut to the buffer",
        "K3 (epoll, modelled not verified): LT reports a descriptor while it is readable; ET queues it on every arrival / shutdown and "
        "dequeues it when reported; ONESHOT disarms on report, does not queue arrivals while disarmed, EPOLL_CTL_MOD queues it iff it is "
        "readable at that moment. The real-socket tier runs the real kernel in all three modes",
        "the executor (default IO task pool or a custom IOExecute) is assumed to run a task it was handed, exactly once (C19 for the "
        "default pool); custom executors in the harness: one goroutine per task",
        "cooperative scheduler of the overlay (overlay/pkg/verifsched) for tier G; overlay/rules_readpath.py routes the atomic operations "
        "on Conn.readEvents / Conn.readEOF and doRead's readStream call through functions of overlay/add/zz_verif_readpath.go (a "
        "scheduling point in front, an observer hook behind, the operation itself unchanged; both are no-ops outside tier G)",
        "overlay/add/zz_verif_readpath.go VerifRPAsyncEvent repeats the event dispatch of poller_epoll.go readWriteLoop for an "
        "IN / RDHUP event in async mode (flag store, one AsyncRead call); it is kept in step with that loop by hand - tier R runs the loop itself",
        "tier G simulates epoll's side of a one-shot registration (armed / on the ready list; EPOLL_CTL_MOD of the write side as a script "
        "step) in the harness with the rules K3 of the model; the real kernel's one-shot behaviour is exercised by tier R",
        "Go harness cmd/readpath (generators, position-tagged streams, numbered datagrams, CLOCK_PROCESS_CPUTIME_ID idle windows)",
    ]
    c.assumptions += [
        "modelled and proved for all action sequences: the per-event read loop (synchronous reading, LT / ET / ONESHOT) incl. the read "
        "limit in LT, the short-read exit, re-arming by the poller and by the write side, readToEOF + close on a half-close event; "
        "AsyncRead under ET with and without ONESHOT: the readEvents gate, the readEOF hand-over to the task, one-shot disarming on "
        "report, re-arming by the exiting task and by any EPOLL_CTL_MOD of the write side (Write / flush / dial completion), the window "
        "between epoll_wait's report and the gate step; the UDP address key and the session map",
        "a shutdown of the peer that lands between epoll_wait's report and the poller's gate step is ordered behind the gate step "
        "(the two steps commute); a repeated store of readEOF = 1 is not an action of the model",
        "not modelled: EINTR retries; the ET read limit 2^31-1 is treated as unbounded; fatal read errors; user OnRead handlers; "
        "a connection closed by the application or by a write error while a read task runs; the zero-length read buffer of finding D5 "
        "is excluded by the configuration type (buffer length = n+1)",
        "tested only (tier R oracle): that poller.readWriteLoop, Engine.Start and the default task pool implement the modelled loop in "
        "every cell of the configuration matrix; UDP under asynchronous reading (the model's read buffer is constant per connection: "
        "finding D33 was a buffer that shrank between reads); NPoller > 1 (connections are independent: one poller per descriptor)",
    ]
    args = ["-n", n(c, 2, 3), "-gate", n(c, 2500, 100000), "-reps", n(c, 2, 4)]
    if c.tier == "thorough":
        args.append("-full")
    c.harness("readpath", args, overlay=True, model=MODEL, timeout=3000)
    c.finish()


CHECKS = {"C02": c02}
MODELS = [MODEL]
HARNESSES = [("readpath", True)]

MANIFEST = {
    "C02": dict(
        technique="Coq proof (invariants by induction over all action sequences of two LTSs: read loop x {LT, ET, ONESHOT} and the "
                  "AsyncRead under ET with / without ONESHOT; explicit termination measures) + real-socket configuration matrix with an implementation-only "
                  "oracle + the real AsyncRead gate under a cooperative scheduler, differential against the extracted gate LTS",
        text="coq/readpath: ReadLoop.v (per-event read loop of poller_epoll.go / ONESHOT branch of AsyncRead against a kernel receive buffer "
             "and LT / ET / ONESHOT epoll, any buffer size > 0, any read limit, half-close handling) and Gate.v (the readEvents gate of "
             "conn_unix.go AsyncRead: CAS-capped counter, read task, readEOF hand-over), polymorphic in the payload type. Theorems in C02.v for "
             "ALL action sequences (arrival bursts, pauses, half-close, every interleaving of poller, task and peer): c02_prefix / "
             "c02_prefix_async (delivered is a prefix of sent: in order, exactly once), c02_no_lost_edge_lt/_et/_oneshot/_async (unread data or "
             "an unprocessed end of stream always has a deliverable event or a live reader), c02_complete / c02_complete_async (at quiescence "
             "delivered = sent), c02_eof / c02_eof_async (closed only after the last byte, and the close is not forgotten), c02_one_reader, "
             "(one-shot mode included, with arbitrary re-arming by the write side), c02_counter_range (readEvents in {0,1,2}, 0 iff no "
             "task), c02_idle / c02_idle_async (explicit measure: "
             "without new input only finitely many steps - nobody spins), c02_udp_key_inj, c02_udp_session, c02_udp_boundaries, "
             "c02_udp_attribution; refutations c02_old_gate_refuted (D22) and c02_d28_refuted (D28). Every run: (R) real engines on loopback "
             "tcp / unix / udp sockets over {LT, ET, ET+ONESHOT} x {sync, AsyncReadInPoller} x {default, custom IOExecute} x NPoller{1,2,4} x "
             "ReadBufferSize{7,512,64K} x MaxConnReadTimesPerEventLoop{1,3,default} (quick: 36 cells drawn from the seed, all 18 mode x read "
             "kind x transport combinations; thorough: all 972), accepted and AddConn'ed connections, connections the engine "
             "dials (DialAsync with the pollers kept busy - connect completion and greeting in one event - and idle; Dial + AddConn with "
             "the greeting already in the socket; the greeting must be delivered without further input), a write-back load that switches "
             "the write interest while the connection is read, OnData / OnDataPtr, user-supplied read buffers (custom IOExecute: windows of one arena with len < cap, "
             "varying lengths with a canary behind the length, synchronous, late and reordered; OnReadBufferAlloc/Free hooks: arena windows behind "
             "fresh or kept slice headers, varying lengths; oracles: no chunk longer than its buffer, nothing written behind a buffer's length, "
             "buffers handed back with their length, callback data unchanged while the callback holds it, datagrams longer than the buffer cut to "
             "exactly its length), LockPoller, bursts around the "
             "buffer and limit thresholds, pauses, half-close right behind the data and after delivery in every stream cell, numbered "
             "datagrams in bursts of 6-20 from 2-4 remotes with short-then-long pairs; what the callback received per connection must equal "
             "what was sent, no overlapping callbacks per connection, one *Conn per remote, idle CPU after the traffic (three windows); "
             "ONESHOT cells with several fresh engines. (G) thousands of seeded schedules of the real AsyncRead against real socket pairs: "
             "(ET and one-shot, with re-arming EPOLL_CTL_MODs of the write side): one reader, counter range, termination, everything "
             "delivered, close after half-close, descriptor armed at quiescence; every recorded linearisation point is "
             "replayed in the extracted Gate LTS and must be enabled there with the same counter, byte counts, close and delivered sequence.",
        note="Partial: kernel and epoll semantics (K2, K3) and the executor contract are assumptions of the models; the tie between "
             "poller.readWriteLoop and ReadLoop.v is the real-socket oracle, not a step-by-step correspondence (only the gate has one). "
             "Trusted: Coq kernel, extraction, OCaml driver, Go harness, cooperative scheduler, the overlay rewrites of the atomics. "
             "Not covered: Windows / kqueue pollers, user OnRead handlers, EINTR.",
        design="4/C02, Appendix E, H.4, M"),
}

READY = True
