"""Recipes for the WebSocket codec component `ws`: C12 (message round trip), C13 (frame validation per RFC 6455),
C15 (size limits).  One Coq component (coq/ws), one extracted model (ocaml/ws), one harness (harness/cmd/wscodec)
run with different -parts."""
import os
import shutil

import vlib
from props import EXTRACT_TB, NATINT_TB, n

MODEL = ("ws", "Extract.v", ["wsmodel"], "main.ml")

WS_TB = [
    EXTRACT_TB, NATINT_TB,
    "oracle inputs of the model (recorded from the implementation on every run, not computed): the mask keys drawn by math/rand "
    "(read back from the wire), what every Read of the decompressor returned (Conn.WebsocketDecompressor hook around the library's own "
    "flate reader), the deflate output after the 4-byte tail was cut (Conn.WebsocketCompressor hook around the library's own writer); "
    "DEFLATE itself is not modelled: inflate(deflate x ++ tail) = x is tested by the round-trip oracle, compress/flate is trusted",
    "the unrolled 64/8-byte maskXOR is tied to the model's byte-wise XOR by the differential run only",
    "not modelled: pooled buffers (C11), the mutex / executor / asynchronous send queue (C14), the OnDataFrame handler path, "
    "KeepaliveTime deadlines; c.closed is set by CloseAndClean only, which the harness calls after a failing Parse / a closed "
    "connection exactly as nbhttp.Engine does",
    "Go harness cmd/wscodec (real websocket.Conn over an in-memory net.Conn, inline executor, overlay accessors "
    "overlay/add/nbhttp/websocket/zz_verif_ws.go) and its independent RFC 6455 reference (rfcref.go, compress/flate, hand-written UTF-8 decoder)",
]


def _sync_gen(c):
    """coq/ws/GenWs.v is the table of the REAL validFrame (1024 rows) and validCloseCode (65536 codes as intervals), dumped by
    `wscodec -gen` built through the overlay. When the code changed, the table is rewritten before the Coq build, so that
    c13_frame_table / c13_close_codes and the lemmas tying the model's predicates to the code are re-checked against it.
    With VERIF_REPO (a scratch copy of the library) the shared source tree is left alone: the component is rebuilt in a private copy."""
    ov = vlib.overlay_json()
    ok, path, l = vlib.build_harness("wscodec", overlay=ov)
    if not ok:
        return  # reported by c.harness below
    new = os.path.join(vlib.BUILD, "GenWs%s.v" % ("-alt" if vlib.ALT else ""))
    rc, out = vlib.sh([path, "-gen", new], timeout=120, env=vlib.GOENV)
    if rc != 0 or not os.path.exists(new):
        c.infra_errors.append("wscodec -gen failed (rc=%d): %s" % (rc, out[-800:]))
        return
    cur = os.path.join(vlib.COQ, "ws", "GenWs.v")
    body = open(new).read()
    if os.path.exists(cur) and open(cur).read() == body:
        return
    vlib.log("== GenWs.v: the table dumped from the current code differs from coq/ws/GenWs.v")
    if not vlib.ALT:
        with vlib.Lock("genws"):
            tmp = cur + ".tmp"
            with open(tmp, "w") as f:
                f.write(body)
            os.replace(tmp, cur)
        return
    # scratch copy of the library: prove the table theorems in a private copy of the component
    alt = os.path.join(vlib.BUILD, "coq-alt")
    with vlib.Lock("coq-alt.ws"):
        for comp in ("base", "ws"):
            d = os.path.join(alt, comp)
            shutil.rmtree(d, ignore_errors=True)
            os.makedirs(d)
            src = os.path.join(vlib.COQ, comp)
            for fn in os.listdir(src):
                if fn.endswith(".v") or fn == "_CoqProject":
                    shutil.copy(os.path.join(src, fn), os.path.join(d, fn))
        shutil.copy(new, os.path.join(alt, "ws", "GenWs.v"))
        log_ = ""
        bad = False
        for comp in ("base", "ws"):
            d = os.path.join(alt, comp)
            vlib.sh("coq_makefile -f _CoqProject -o Makefile 2>&1 | grep -v Warning", cwd=d, timeout=60)
            rc, out = vlib.sh("make -j16 2>&1 | grep -v '^Warning'", cwd=d, timeout=1500)
            if rc != 0 or "Error" in out:
                bad = True
                log_ = out[-1500:]
                break
        if bad:
            vlib.log(log_)
            c.proof_breaks.append({"component": "ws", "what": "with the table of the current validFrame/validCloseCode (GenWs.v) the "
                                   "theorems of coq/ws no longer check", "log_tail": log_})


def _run(c, prop, parts, quick, thorough, extra=None):
    _sync_gen(c)
    c.coq(["ws"], prop, "WsC")
    c.trusted += WS_TB
    args = ["-parts", parts, "-n", n(c, quick, thorough)]
    if c.tier == "thorough":
        args.append("-thorough")
    c.harness("wscodec", args, overlay=True, model=MODEL, timeout=3000)
    if extra:
        extra(c)
    c.finish()


def c12(c):
    c.assumptions += ["the round-trip theorems cover any list of uncompressed or (under the law 'reading the decompressor to its end gives the message') compressed "
                      "messages written by write_message, with ping/pong frames inserted anywhere, fed in any segmentation to an idle receiver whose "
                      "MessageLengthLimit the messages respect and whose ReadLimit is off; theorem hypotheses: fewer than 2^62 payload bytes in total"]
    c.assumptions += ["state shared BETWEEN connections (sync.Pools of flate readers/writers, the pooled body allocator) is outside the single-connection model and "
                      "theorems; it is covered by the concurrent tier of cmd/wscodec (parallel pairs, contents deterministic per seed, goroutine interleaving not)"]
    c.assumptions += ["queued (asynchronous send-queue) write mode with a bounded queue: the held-socket tier of cmd/wsconc (the C14 component: real websocket.Conn, admission "
                      "grid bound x compression level x payload class x lengths around frame multiples x room) is run for C12 as well: a WriteMessage that "
                      "returned nil must appear on the wire as one whole frame sequence, a refused one must leave nothing (otherwise the peer cannot deliver "
                      "the following messages)"]

    c.assumptions += ["client tier (real websocket.Dialer against a real nbhttp server, directly and through a coalescing relay; real sockets on loopback): the TLS cells use TLS 1.2 "
                      "(the dependency's blocking TLS 1.3 client handshake fails, reported by the C10 harness as an observation); a failing cell is run twice before it is reported"]

    def send_queue_tier(c):
        import props_wsconc
        c.harness("wsconc", ["-n", "0", "-qn", n(c, 400, 5000)], overlay=False, model=props_wsconc.MODEL, timeout=3000)
    _run(c, "C12", "12", 1100, 60000, extra=send_queue_tier)


def c13(c):
    c.assumptions += ["rfc_close_code_ok is the list fixed in DESIGN.md (1000-1003, 1007-1011, 1015, 3000-4999); masking direction and minimal "
                      "length encoding are not part of the property's list and are not checked; RSV1 on control/continuation frames with "
                      "permessage-deflate negotiated is counted, not judged (RFC 6455 leaves it to the extension)",
                      "c13_sequences: frames well formed as bytes, fewer than 2^62 payload bytes, receiver idle and open; deliveries are counted up to the "
                      "point where the endpoint itself closes the connection"]
    _run(c, "C13", "13", 25000, 600000)


def c15(c):
    c.assumptions += ["end-to-end tier: a connection served by an nbhttp engine must respect THAT engine's ReadLimit whatever the Upgrader's Engine field says; behind net/http "
                      "the Upgrader's engine is the reference; transfer cells need a started engine in u.Engine; real sockets: a failing cell is run twice before it is reported"]
    c.assumptions += ["theorem hypotheses: MessageLengthLimit and the bytes held in the cache stay below 2^62 (the Go code computes the sums in int64)"]
    _run(c, "C15", "15,15e", 9000, 150000)


CHECKS = {"C12": c12, "C13": c13, "C15": c15}
MODELS = [MODEL]
HARNESSES = [("wscodec", True)]

MANIFEST = {
    "C12": dict(
        technique="Coq model of the WebSocket codec (frame encode/decode, masking, fragmentation, Parse loop) with round-trip theorems for single messages and "
                  "for arbitrary lists of messages with interleaved control frames + differential run of the extracted model against real Conn pairs + "
                  "implementation-side round-trip oracle",
        text="coq/ws/C12.v: c12_frame_roundtrip (decoding an encoded frame gives the frame and the rest: all lengths < 2^63, masked with any key or not, any "
             "FIN/RSV1/opcode); c12_message_roundtrip(_compressed)(_segmented) (one message, any length incl. 0, any frame limit > 0, both roles, any mask keys, "
             "every cut of the wire into reads; with permessage-deflate under the single law 'reading the decompressor to its end gives back the message'); "
             "c12_messages_roundtrip and c12_messages_roundtrip_compressed: ANY LIST of messages written by WriteMessage, with well-formed ping/pong frames inserted "
             "anywhere into the sender's frames (also between the fragments of a message), against a receiver whose MessageLengthLimit (zero or not) the messages "
             "respect, in one read or in any cut into reads: no error, connection stays open, messages handed to OnMessage = the list sent (type, payload, order), "
             "every inserted ping handed to the ping handler and answered at once by one pong with the same payload; c12_segmentation / c12_segmentation_limit "
             "(feeding any list of reads = feeding their concatenation: same events, oracle consumption, error, final state; without and with a message limit) "
             "and c12_segmentation_success; c12_fuel (the model's loop bound is never hit). Every run: real websocket.Conn "
             "sender and receiver over an in-memory connection (both roles, compression on/off and all levels, frame limits 1..1 MiB, lengths 0/1/125-127/65535-65537/"
             "around the frame limit/MiBs, random, compressible and UTF-8 content, pings between messages and control frames spliced between fragments, all compositions of "
             "short wires, byte-wise, single cuts, random cuts); the sender's wire bytes and the receiver's events and state are compared with the model; oracle: "
             "delivered == sent (type, payload, once, in order), pings answered, and the wire decodes with an independent decoder and compress/flate. "
             "Concurrent tier (every run, after the sequential part): 8 (thorough: 10) independent connections run in parallel goroutines, each sending 70 (200) "
             "messages in both directions (server->client and client->server) with mixed sizes incl. ~50 KB compressible ones, different compression levels per pair "
             "and side, compression off on some pairs, ReleasePayload on/off, the library's reader behind the public decompressor hook on some, shared and "
             "per-engine body allocators (mempool.DefaultMemPool, mempool.NewAligned(), mempool.NewSTD() and a harness-side always-relocating, poisoning allocator - also a dimension of the lock-step tiers of C12/C13/C15 on sender and receiver side); every message must be delivered exactly once with its type and payload (signatures concurrent-pairs-payload/-lost/"
             "-duplicated/-type/-panic/-stuck): this crosses the package-level state the codec shares between connections (flate reader pool, flate writer pools "
             "per level, the default BodyAllocator). "
             "Small-limit family (every run; shared with C13): MessageLengthLimit 64/100/256/1024/2048 x a long valid sequence of small messages (one exactly at the limit, some "
             "fragmented, pings between and inside) whose wire is > 5 x the limit, fed whole, as 1 byte + rest, 2 bytes + rest, cut inside the header / inside the payload of frames "
             "1, 2, 3, middle, last-but-one, first frame + 1 byte + rest, random cuts, per frame: every cut must deliver what the one-piece feed delivers (signature "
             "delivery-depends-on-segmentation; c12_segmentation_limit is the theorem). "
             "Client tier (every run, -parts 12d): the real websocket.Dialer (sync Dial and async Dial with the result handler) on a started client engine against a real nbhttp "
             "server whose OnOpen writes five greetings (text, empty, 126 bytes, 5000 bytes, text) immediately behind the 101 and which echoes; plain and TLS (library TLS client, "
             "TLS 1.2); direct, and through an in-process TCP relay that holds the server->client bytes until the link was quiet for 120 ms and delivers them in ONE write "
             "(handshake answer and first frames in the same read); with and without greetings; the client writes five messages (0/125/70000 bytes) right after Dial returned. "
             "Oracle: Dial succeeds, the greetings arrive once and in order, then the echoes, the connection stays open (signatures dialer-dial-failed/-greeting-lost/-echo-lost/"
             "-message-differs/-message-duplicated/-write-failed/-conn-closed; a failing cell is run twice before it is reported).",
        note="The theorems are about the model; DEFLATE (law assumed: reading the decompressor's answers to the end gives the message), the unrolled XOR loop, ReadLimit > 0 "
             "(segmentation-dependent by design) and connections mixing compressed and uncompressed messages are outside the proof and decided by the differential run and "
             "the oracle. Found on the pinned tree and fixed in /repo (D29 control frames fragmented when MaxWebsocketFramePayloadSize < payload, D30 control frames counted "
             "against MessageLengthLimit); both oracle signatures stay armed.",
        design="4/C12, Appendix D, L"),
    "C13": dict(
        technique="RFC 6455 for whole frame sequences written as a state-free-of-the-parser definition (rfc_run / rfc_sequence_ok) and proved equal to the receiver model by "
                  "induction over arbitrary frame lists + tables generated from the real validFrame / Conn.Parse / validCloseCode proved equal to an independent RFC predicate "
                  "(vm_compute sweeps), the model proved equal to the same tables + differential run + conformance oracle with an independent frame generator and RFC reference",
        text="coq/ws/C13.v: c13_sequences: for EVERY list of raw frames (every header bit FIN/RSV1-3/opcode 0-15/mask, every length encoding incl. non-minimal, headers with a "
             "64-bit length whose top bit is set) fed to an idle connection, Parse accepts (no error, connection open) iff rfc_sequence_ok holds - a definition that does not mention "
             "the parser's state and rejects reserved bits/opcodes, fragmented or > 125-byte control frames, a continuation without a start, a new data frame inside a fragmented "
             "message, invalid UTF-8 in a completed text message or close reason, an illegal close code or one-byte close body, a top-bit length (and, C15, a message over the limit); "
             "the messages handed to OnMessage and the pings handed to the ping handler before the endpoint closed the connection are exactly those of the RFC run, every such ping is "
             "answered at once by one pong with the same payload, a valid close reaches the close handler with its code and reason; c13_sequences_rejected: a rejected sequence "
             "splits into an accepted prefix, the first offending frame and a rest, and deliveries = exactly the messages completed in the accepted prefix (nothing of the offending "
             "frame's message); c13_sequences_segmented: the same for every cut of the wire into reads. Further: c13_frame_table (the error class of the REAL Conn.Parse for one frame, "
             "dumped for FIN x RSV1-3 x 16 opcodes x expectingFragments x enableCompression = 1024 rows, is 'accepted' exactly where rfc_frame_ok holds), c13_validframe_table, "
             "c13_close_codes (the real validCloseCode equals the RFC predicate on all 65536 codes), c13_model_parse_is_code / c13_model_validframe_is_code / "
             "c13_model_close_code_is_code (the model run inside Coq gives the same error class / result on every row and code), c13_ping_pong, c13_close_reply, "
             "c13_close_empty_reply, c13_bad_text_refused, c13_bad_close_code_refused, c13_bad_close_reason_refused, c13_no_delivery. Every run: hand-written frame generator over "
             "FIN x RSV1-3 x 16 opcodes x mask x length encodings x inside/outside a fragmented message x compression, UTF-8 vectors split at every byte across two and three "
             "fragments, close-code classes (all 65536 in the thorough tier), sequencing cases, permessage-deflate cases, random valid and mutated sequences, in "
             "whole/per-frame/byte-wise/single-cut/random segmentations; verdict, deliveries and replies must equal an RFC 6455 reference written in the harness (not the model), "
             "crossed with the handler configuration {OnMessage only (the model's), OnDataFrame only, both, none}: 2/3/4-byte characters cut at every inner position into up to four "
             "fragments, sequences that are invalid only across the boundary; a sequence the RFC allows must be accepted in every configuration, OnDataFrame gets every non-empty data "
             "frame in order (type of its message, FIN, raw payload), whole-message checks (UTF-8, inflate) are demanded only where a message handler exists, "
             "and the model must agree with the implementation. "
             "Small-limit family (every run, before the generator): a receiver with MessageLengthLimit 64/100/256/1024/2048 (ReadLimit off or far away) and a long VALID sequence "
             "of messages within the limit (one exactly at it, fragmented ones, pings between and inside fragments) whose wire is > 5 x the limit, fed whole, 1 byte + rest, "
             "2 bytes + rest, cut inside the header and inside the payload of frames 1, 2, 3, middle, last-but-one, first frame + 1 byte + rest, random cuts, per frame: every "
             "segmentation must be accepted with the RFC reference's deliveries and pongs (signature valid-sequence-rejected etc.; c13_sequences_segmented with the C15 limit clause "
             "is the theorem).",
        note="c13_sequences is about the model; the model is tied to the code by the generated tables (re-dumped from the code through the overlay before every Coq build) and the "
             "differential run. Deliveries are counted up to the point where the endpoint itself closes the connection: what Parse still does with later frames of the SAME read "
             "after it failed the connection from a handler is an observation kept behind the harness flag -strict-after-fail. With permessage-deflate the decompressor's answers "
             "are an oracle shared by rfc_run and the model. rfc_close_code_ok is the list of DESIGN.md (1015 accepted, 1012-1014 not); RSV1 on control/continuation frames with "
             "permessage-deflate is accepted by rfc_frame_ok (RFC 6455's rule), as by the code.",
        design="4/C13, Appendix D, R"),
    "C15": dict(
        technique="Coq proof (invariant over the Parse loop, all frame sequences, segmentations and decompressor answers) + differential run + limit oracle",
        text="coq/ws/C15.v: c15_delivered_bound / c15_delivered_bound_run (limit > 0: every message handed to OnMessage is at most MessageLengthLimit bytes long, for every input, every "
             "segmentation into Parse calls interleaved with writes and CloseAndClean, and every answer of the decompressor's Read calls), c15_buffered_bound (the message under assembly "
             "never exceeds the limit: the declared length is tested before buffering), c15_cache_bound (unparsed input <= max(ReadLimit, longest single read)), c15_control_125_receive "
             "and c15_control_125_send, c15_1009 (too large => the error and exactly one close frame with code 1009). Every run: limits 1..70000 with messages of limit-1/limit/+1/+2 "
             "bytes in one frame, in fragments, header only, compressed payloads inflating to limit-1 .. 1000 x limit (sync-flushed and BFINAL streams, three decompressor modes incl. data "
             "and EOF in one Read), control frames 125/126/.. on send and receive, read limits with pieces around the limit; oracle: nothing above the limit delivered, refusal with the "
             "too-large error and a 1009 close frame, messages within the limit delivered intact, allocator peak bounded, cache bounded. "
             "End-to-end tier (every run): real nbhttp engines / net/http servers on loopback with the real Upgrader in every reachable upgrade path (poller plain and TLS, "
             "blocking plain/TLS with and without transfer to the poller, IOModMixed blocking and poller part, net/http plain/TLS with the Conn's own read loop, net/http "
             "transferred), the serving engine with ReadLimit 4096, the Upgrader with its Engine left default and with u.Engine set; raw clients (crypto/tls on TLS listeners) "
             "trickle an incomplete 60000-byte frame, send a frame declaring limit+1, fragments over the limit, a compressed bomb, a valid message; oracle: connection failed, "
             "1009 received, nothing above the limit delivered, unparsed input observed in the Conn never above ReadLimit + one read.",
        note="Theorem hypotheses: limit and held bytes below 2^62 (the code computes the sums in int64; the model has nextFrame's wrap-around explicitly). The allocator-peak bound is a "
             "generous one-sided test, not a theorem. Trusted: as C12.",
        design="4/C15, Appendix D"),
}

READY = True
