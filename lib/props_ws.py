"""Recipes for the WebSocket codec component `ws`: C12 (message round trip), C13 (frame validation per RFC 6455),
C15 (size limits).  One Coq component (coq/ws), one extracted model (ocaml/ws), one harness (harness/cmd/wscodec)
run with different -parts."""
import os
import shutil

import vlib
from props import EXTRACT_TB, NATINT_TB, n

MODEL = ("ws", "Extract.v", ["wsmodel"], "main.ml")

WS_TB = [
    EXTRACT_TB, NATINT_TB,
    "oracle inputs of the model (recorded from the implementation on every run, not computed): the mask keys drawn by math/rand "
    "(read back from the wire), what every Read of the decompressor returned (Conn.WebsocketDecompressor hook around the library's own "
    "flate reader), the deflate output after the 4-byte tail was cut (Conn.WebsocketCompressor hook around the library's own writer); "
    "DEFLATE itself is not modelled: inflate(deflate x ++ tail) = x is tested by the round-trip oracle, compress/flate is trusted",
    "the unrolled 64/8-byte maskXOR is tied to the model's byte-wise XOR by the differential run only",
    "not modelled: pooled buffers (C11), the mutex / executor / asynchronous send queue (C14), the OnDataFrame handler path, "
    "KeepaliveTime deadlines; c.closed is set by CloseAndClean only, which the harness calls after a failing Parse / a closed "
    "connection exactly as nbhttp.Engine does",
    "Go harness cmd/wscodec (real websocket.Conn over an in-memory net.Conn, inline executor, overlay accessors "
    "overlay/add/nbhttp/websocket/zz_verif_ws.go) and its independent RFC 6455 reference (rfcref.go, compress/flate, hand-written UTF-8 decoder)",
]


def _sync_gen(c):
    """coq/ws/GenWs.v is the table of the REAL validFrame (1024 rows) and validCloseCode (65536 codes as intervals), dumped by
    `wscodec -gen` built through the overlay. When the code changed, the table is rewritten before the Coq build, so that
    c13_frame_table / c13_close_codes and the lemmas tying the model's predicates to the code are re-checked against it.
    With VERIF_REPO (a scratch copy of the library) the shared source tree is left alone: the component is rebuilt in a private copy."""
    ov = vlib.overlay_json()
    ok, path, l = vlib.build_harness("wscodec", overlay=ov)
    if not ok:
        return  # reported by c.harness below
    new = os.path.join(vlib.BUILD, "GenWs%s.v" % ("-alt" if vlib.ALT else ""))
    rc, out = vlib.sh([path, "-gen", new], timeout=120, env=vlib.GOENV)
    if rc != 0 or not os.path.exists(new):
        c.infra_errors.append("wscodec -gen failed (rc=%d): %s" % (rc, out[-800:]))
        return
    cur = os.path.join(vlib.COQ, "ws", "GenWs.v")
    body = open(new).read()
    if os.path.exists(cur) and open(cur).read() == body:
        return
    vlib.log("== GenWs.v: the table dumped from the current code differs from coq/ws/GenWs.v")
    if not vlib.ALT:
        with vlib.Lock("genws"):
            tmp = cur + ".tmp"
            with open(tmp, "w") as f:
                f.write(body)
            os.replace(tmp, cur)
        return
    # scratch copy of the library: prove the table theorems in a private copy of the component
    alt = os.path.join(vlib.BUILD, "coq-alt")
    with vlib.Lock("coq-alt.ws"):
        for comp in ("base", "ws"):
            d = os.path.join(alt, comp)
            shutil.rmtree(d, ignore_errors=True)
            os.makedirs(d)
            src = os.path.join(vlib.COQ, comp)
            for fn in os.listdir(src):
                if fn.endswith(".v") or fn == "_CoqProject":
                    shutil.copy(os.path.join(src, fn), os.path.join(d, fn))
        shutil.copy(new, os.path.join(alt, "ws", "GenWs.v"))
        log_ = ""
        bad = False
        for comp in ("base", "ws"):
            d = os.path.join(alt, comp)
            vlib.sh("coq_makefile -f _CoqProject -o Makefile 2>&1 | grep -v Warning", cwd=d, timeout=60)
            rc, out = vlib.sh("make -j16 2>&1 | grep -v '^Warning'", cwd=d, timeout=1500)
            if rc != 0 or "Error" in out:
                bad = True
                log_ = out[-1500:]
                break
        if bad:
            vlib.log(log_)
            c.proof_breaks.append({"component": "ws", "what": "with the table of the current validFrame/validCloseCode (GenWs.v) the "
                                   "theorems of coq/ws no longer check", "log_tail": log_})


def _run(c, prop, parts, quick, thorough):
    _sync_gen(c)
    c.coq(["ws"], prop, "WsC")
    c.trusted += WS_TB
    args = ["-parts", parts, "-n", n(c, quick, thorough)]
    if c.tier == "thorough":
        args.append("-thorough")
    c.harness("wscodec", args, overlay=True, model=MODEL, timeout=3000)
    c.finish()


def c12(c):
    c.assumptions += ["c12_message_roundtrip covers uncompressed and (under the law inflate(answer) = original) compressed messages written by "
                      "write_message and fed in one piece; interleaved control frames and arbitrary segmentation are decided by the differential "
                      "run and the round-trip oracle on every run"]
    _run(c, "C12", "12", 1500, 60000)


def c13(c):
    c.assumptions += ["rfc_close_code_ok is the list fixed in DESIGN.md (1000-1003, 1007-1011, 1015, 3000-4999); masking direction and minimal "
                      "length encoding are not part of the property's list and are not checked; RSV1 on control/continuation frames with "
                      "permessage-deflate negotiated is counted, not judged (RFC 6455 leaves it to the extension)"]
    _run(c, "C13", "13", 12000, 400000)


def c15(c):
    c.assumptions += ["theorem hypotheses: MessageLengthLimit and the bytes held in the cache stay below 2^62 (the Go code computes the sums in int64)"]
    _run(c, "C15", "15", 9000, 150000)


CHECKS = {"C12": c12, "C13": c13, "C15": c15}
MODELS = [MODEL]
HARNESSES = [("wscodec", True)]

MANIFEST = {
    "C12": dict(
        technique="Coq model of the WebSocket codec (frame encode/decode, masking, fragmentation, Parse loop) with round-trip theorems + "
                  "differential run of the extracted model against real Conn pairs + implementation-side round-trip oracle",
        text="coq/ws/C12.v: c12_frame_roundtrip (decoding an encoded frame gives the frame and the rest, all lengths < 2^63, masked or not, any key), "
             "c12_message_roundtrip (parsing what write_message wrote delivers exactly that message: any length incl. 0, any frame limit > 0, both roles, "
             "any mask keys; with compression under the law inflate(answer) = original). Every run: real websocket.Conn sender and receiver over an in-memory "
             "connection (both roles, compression on/off and all levels, frame limits 1..1 MiB, lengths 0/1/125-127/65535-65537/around the frame limit/MiBs, "
             "random and compressible content, pings between messages and spliced between fragments, all compositions of short wires, byte-wise, single cuts, "
             "random cuts); the sender's wire bytes and the receiver's events and state are compared with the model; oracle: delivered == sent (type, payload, "
             "once, in order), the wire decodes with an independent decoder and flate.",
        note="Partial: segmentation independence and interleaved control frames are decided by the differential run, not by a theorem; DEFLATE and the unrolled "
             "XOR loop are outside the proof. Findings on the unchanged tree (reported, see known_findings): control frames are fragmented when "
             "MaxWebsocketFramePayloadSize < payload; a control frame between fragments is counted against MessageLengthLimit.",
        design="4/C12, Appendix D, L"),
    "C13": dict(
        technique="generated table of the real validFrame/validCloseCode proved equal to an independently written RFC predicate (vm_compute sweeps) + "
                  "Coq model of Parse/handleWsMessage + differential run + conformance oracle with an independent frame generator and RFC reference",
        text="coq/ws/C13.v: c13_frame_table (the 1024-row table dumped from the real validFrame equals rfc_frame_ok), c13_close_codes (the intervals dumped from the "
             "real validCloseCode equal the RFC predicate on all 65536 codes), the model's predicates equal the dumped tables, sequence theorems on the model "
             "(no delivery from an offending frame on, ping answered by pong with the same payload, close answered by close). Every run: hand-written frame "
             "generator over FIN x RSV1-3 x 16 opcodes x mask x length encodings x inside/outside a fragmented message x compression, UTF-8 vectors split at "
             "every byte across fragments, close-code classes (all 65536 in the thorough tier), sequencing cases, permessage-deflate cases, random valid and mutated "
             "sequences, in whole/per-frame/byte-wise/single-cut/random segmentations; verdict, deliveries and replies must equal an RFC 6455 reference written "
             "in the harness, and the model must agree with the implementation.",
        note="Partial: c13_sequences as a full iff is not a theorem. Trusted: Coq kernel incl. vm_compute, extraction, harness, compress/flate. The table is regenerated "
             "from the code through the overlay before every Coq build.",
        design="4/C13, Appendix D, R"),
    "C15": dict(
        technique="Coq proof (invariant over the Parse loop, all frame sequences, segmentations and decompressor answers) + differential run + limit oracle",
        text="coq/ws/C15.v: c15_delivered_bound (limit > 0: every delivered message is at most limit bytes long, for every input, segmentation and every answer of the "
             "decompressor's Read calls), c15_buffered_bound (the message under assembly never exceeds the limit), c15_cache_bound (unparsed input <= ReadLimit or one "
             "read), c15_control_125 (send and receive). Every run: limits 1..70000 with messages of limit-1/limit/+1/+2 bytes in one frame, in fragments, header only, "
             "compressed payloads inflating to limit-1 .. 1000 x limit (sync-flushed and BFINAL streams, three decompressor modes incl. data+EOF in one Read), control frames "
             "125/126/.. on send and receive, read limits with pieces around the limit; oracle: nothing above the limit delivered, refusal with the too-large error and a 1009 "
             "close frame, messages within the limit delivered intact, allocator peak bounded, cache bounded.",
        note="Trusted: as C12. The allocator-peak bound is a generous one-sided test (3 x limit + 2 KiB per Parse), not a theorem.",
        design="4/C15, Appendix D"),
}
