#!/usr/bin/env python3
"""Shared machinery of the checks: build the Coq component, collect Print Assumptions,
extract + build the OCaml model, build the Go harness against /repo's working tree
(with the overlay), run it, classify what it found, write evidence and report.

See DESIGN.md sections 1.4-1.7."""
import fcntl
import hashlib
import json
import os
import re
import shutil
import subprocess
import sys
import time

ROOT = os.path.dirname(os.path.dirname(os.path.abspath(__file__)))
REPO = os.environ.get("VERIF_REPO", "/repo")
BUILD = os.path.join(ROOT, "build")
COQ = os.path.join(ROOT, "coq")
import hashlib as _hl
# checks pointed at a scratch copy (VERIF_REPO) use private build/evidence directories, one set per scratch path,
# so that several of them can run at the same time
ALTTAG = "alt" + _hl.sha1(REPO.encode()).hexdigest()[:8]
EVID = os.path.join(ROOT, "evidence") if REPO == "/repo" else os.path.join(ROOT, "build", "evidence-" + ALTTAG)
REPLAY = os.path.join(EVID, "replay")

GOENV = dict(os.environ)
GOENV.update({"GOFLAGS": "-mod=mod", "GOPROXY": "off", "GOSUMDB": "off", "GOTOOLCHAIN": "local",
              "CGO_ENABLED": "0"})

FORBIDDEN = re.compile(
    r"\b(Admitted|admit|Axiom|Axioms|Parameter|Parameters|Conjecture|Conjectures)\b"
    r"|Admit\s+Obligations|Unset\s+Guard|bypass_check|Unset\s+Positivity|Unset\s+Universe"
    r"|type-in-type|impredicative-set|native_compute")

THM_RE = re.compile(r"^\s*(?:Local\s+|Global\s+|#\[[^\]]*\]\s*)*(Theorem|Lemma|Corollary|Example|Fact|Proposition|Remark)\s+([A-Za-z0-9_']+)", re.M)


def log(msg):
    print(msg, flush=True)


def sh(cmd, timeout=1800, cwd=None, env=None, inp=None):
    """run a shell command under a timeout; returns (rc, combined output)"""
    try:
        p = subprocess.run(cmd, shell=isinstance(cmd, str), cwd=cwd, env=env, input=inp,
                           stdout=subprocess.PIPE, stderr=subprocess.STDOUT, timeout=timeout, text=True)
        return p.returncode, p.stdout
    except subprocess.TimeoutExpired as e:
        out = e.stdout if isinstance(e.stdout, str) else (e.stdout or b"").decode("utf8", "replace")
        return 124, out + "\nTIMEOUT after %ds\n" % timeout


class Lock:
    def __init__(self, name):
        os.makedirs(BUILD, exist_ok=True)
        self.path = os.path.join(BUILD, "lock." + name)

    def __enter__(self):
        self.f = open(self.path, "w")
        fcntl.flock(self.f, fcntl.LOCK_EX)
        return self

    def __exit__(self, *a):
        fcntl.flock(self.f, fcntl.LOCK_UN)
        self.f.close()


def strip_comments(src):
    """remove (nested) Coq comments and string literals"""
    out = []
    depth = 0
    i = 0
    n = len(src)
    while i < n:
        if src.startswith("(*", i):
            depth += 1
            i += 2
        elif depth > 0 and src.startswith("*)", i):
            depth -= 1
            i += 2
        elif depth == 0 and src[i] == '"':
            j = src.find('"', i + 1)
            i = n if j < 0 else j + 1
        else:
            if depth == 0:
                out.append(src[i])
            elif src[i] == "\n":
                out.append("\n")
            i += 1
    return "".join(out)


def coq_files(comp):
    d = os.path.join(COQ, comp)
    files = []
    for line in open(os.path.join(d, "_CoqProject")):
        line = line.strip()
        if line.endswith(".v"):
            files.append(os.path.join(d, line))
    return files


def coq_flags(comp):
    d = os.path.join(COQ, comp)
    flags = []
    for line in open(os.path.join(d, "_CoqProject")):
        line = line.strip()
        if line.startswith("-Q") or line.startswith("-R"):
            k, p, name = line.split()
            flags += [k, os.path.normpath(os.path.join(d, p)), name]
    return flags


def coq_deps(comp):
    """other components named by -Q ../x in the _CoqProject"""
    deps = []
    for line in open(os.path.join(COQ, comp, "_CoqProject")):
        m = re.match(r"-[QR]\s+\.\./(\w+)\s", line)
        if m:
            deps.append(m.group(1))
    return deps


def build_coq(comp, timeout=1500):
    """full .vo build of one component (and the components it depends on). Returns (ok, log)."""
    logs = []
    for dep in coq_deps(comp):
        ok, l = build_coq(dep, timeout)
        logs.append(l)
        if not ok:
            return False, "\n".join(logs)
    d = os.path.join(COQ, comp)
    with Lock("coq." + comp):
        mk = os.path.join(d, "Makefile")
        cp = os.path.join(d, "_CoqProject")
        if not os.path.exists(mk) or os.path.getmtime(mk) < os.path.getmtime(cp):
            rc, out = sh("coq_makefile -f _CoqProject -o Makefile 2>&1 | grep -v Warning", cwd=d, timeout=60)
        rc, out = sh("make -j16 2>&1 | grep -v '^Warning'", cwd=d, timeout=timeout)
        bad = rc != 0 or re.search(r"^Error|\*\*\* \[|Error:", out, re.M) is not None
        for f in coq_files(comp):
            if not os.path.exists(f[:-2] + ".vo"):
                bad = True
        logs.append("== coq build %s: %s\n%s" % (comp, "FAILED" if bad else "ok", out[-4000:] if bad else ""))
        return (not bad), "\n".join(logs)


def count_obligations(comps):
    """theorems/lemmas/examples in the components' files; those whose file has an up-to-date .vo count as discharged"""
    total = 0
    done = 0
    names = []
    for comp in comps:
        for f in coq_files(comp):
            src = strip_comments(open(f).read())
            ths = THM_RE.findall(src)
            total += len(ths)
            vo = f[:-2] + ".vo"
            if os.path.exists(vo) and os.path.getmtime(vo) >= os.path.getmtime(f):
                done += len(ths)
            names += [t[1] for t in ths]
    return total, done, names


def forbidden_hits(comps):
    hits = []
    for comp in comps:
        d = os.path.join(COQ, comp)
        for fn in sorted(os.listdir(d)):
            if not fn.endswith(".v"):
                continue
            src = strip_comments(open(os.path.join(d, fn)).read())
            for i, line in enumerate(src.split("\n"), 1):
                if FORBIDDEN.search(line):
                    hits.append("%s/%s:%d: %s" % (comp, fn, i, line.strip()[:120]))
    return hits


def property_theorems(comp, module):
    src = strip_comments(open(os.path.join(COQ, comp, module + ".v")).read())
    return [n for k, n in THM_RE.findall(src) if k == "Theorem"]


def print_assumptions(comp, lib, module, theorems):
    """returns {theorem: 'closed' | [axioms...]} using a throw-away file compiled against the built component"""
    os.makedirs(os.path.join(BUILD, "assump"), exist_ok=True)
    name = "Assump_%s_%s" % (comp, module)
    path = os.path.join(BUILD, "assump", name + ".v")
    with open(path, "w") as f:
        f.write("From %s Require Import %s.\n" % (lib, module))
        for t in theorems:
            f.write('Goal True. idtac "@@BEGIN %s". Abort.\nPrint Assumptions %s.\n' % (t, t))
        f.write('Goal True. idtac "@@END". Abort.\n')
    rc, out = sh(["coqc"] + coq_flags(comp) + ["-Q", os.path.join(BUILD, "assump"), "Assump", path], timeout=600)
    res = {}
    if rc != 0:
        return {t: ["<Print Assumptions failed: %s>" % out.strip()[-300:]] for t in theorems}
    cur = None
    buf = []
    for line in out.split("\n"):
        m = re.match(r"@@BEGIN (\S+)", line)
        if m or line.startswith("@@END"):
            if cur is not None:
                txt = "\n".join(buf).strip()
                if "Closed under the global context" in txt:
                    res[cur] = "closed"
                else:
                    res[cur] = [a.strip() for a in re.findall(r"^(\S[^:\n]*?)\s*:", txt, re.M) if a.strip() != "Axioms"]
            cur = m.group(1) if m else None
            buf = []
        else:
            buf.append(line)
    return res


def build_model(comp, extract_v, lib_files, main_ml, exe="model", timeout=900):
    """extract (coqc Extract.v in a scratch dir) and build the OCaml driver. Returns (ok, path, log)."""
    d = os.path.join(BUILD, "ocaml", comp)
    with Lock("ocaml." + comp):
        os.makedirs(d, exist_ok=True)
        src_v = os.path.join(COQ, comp, extract_v)
        src_ml = os.path.join(ROOT, "ocaml", comp, main_ml)
        stamp = os.path.join(d, "stamp")
        h = hashlib.sha256()
        for f in [src_v, src_ml] + [x[:-2] + ".vo" for x in coq_files(comp)]:
            h.update(open(f, "rb").read() if os.path.exists(f) else b"missing")
        dig = h.hexdigest()
        exe_path = os.path.join(d, exe)
        if os.path.exists(stamp) and open(stamp).read() == dig and os.path.exists(exe_path):
            return True, exe_path, "== model %s: cached" % comp
        shutil.copy(src_v, os.path.join(d, extract_v))
        shutil.copy(src_ml, os.path.join(d, main_ml))
        rc, out = sh(["coqc"] + coq_flags(comp) + [extract_v], cwd=d, timeout=timeout)
        if rc != 0:
            return False, exe_path, "== extraction %s FAILED\n%s" % (comp, out[-3000:])
        mls = []
        for lf in lib_files:
            mls += [lf + ".mli", lf + ".ml"]
        rc, out = sh(["ocamlfind", "ocamlopt", "-inline", "100", "-w", "-a", "-package", "str", "-linkpkg"] + mls + [main_ml, "-o", exe],
                     cwd=d, timeout=timeout)
        if rc != 0:
            return False, exe_path, "== ocaml build %s FAILED\n%s" % (comp, out[-3000:])
        open(stamp, "w").write(dig)
        return True, exe_path, "== model %s: built" % comp


ALT = REPO != "/repo"   # checks pointed at another copy of the library (VERIF_REPO): separate overlay and harness module


def overlay_json():
    """build the overlay for the current working tree of the library (see lib/mkoverlay.py)"""
    import mkoverlay
    with Lock("overlay" + ("-" + ALTTAG if ALT else "")):
        return mkoverlay.make(REPO, os.path.join(BUILD, "overlay-" + ALTTAG if ALT else "overlay"))


def harness_dir():
    hd = os.path.join(ROOT, "harness")
    if not ALT:
        return hd
    alt = os.path.join(BUILD, "harness-" + ALTTAG)
    with Lock("harness-" + ALTTAG):
        sh(["rsync", "-a", "--delete", hd + "/", alt + "/"], timeout=120)
        gm = os.path.join(alt, "go.mod")
        txt = open(gm).read().replace("=> /repo", "=> " + REPO)
        open(gm, "w").write(txt)
    return alt


def build_harness(cmd, overlay=None, tags=None, race=False, timeout=900):
    """go build of one harness command against the library's working tree. Returns (ok, path, log)."""
    hd = harness_dir()
    out_path = os.path.join(BUILD, "bin-" + ALTTAG if ALT else "bin", cmd + ("-race" if race else ""))
    with Lock("go." + cmd + ("-" + ALTTAG if ALT else "")):
        os.makedirs(os.path.dirname(out_path), exist_ok=True)
        try:
            shutil.copy(os.path.join(REPO, "go.sum"), os.path.join(hd, "go.sum"))
        except OSError:
            pass
        args = ["go", "build", "-o", out_path]
        if overlay:
            args += ["-overlay", overlay]
        if tags:
            args += ["-tags", tags]
        env = dict(GOENV)
        if race:
            args += ["-race"]
            env["CGO_ENABLED"] = "1"
        args += ["./cmd/" + cmd]
        rc, out = sh(args, cwd=hd, env=env, timeout=timeout)
        if rc != 0:
            return False, out_path, "== go build %s FAILED\n%s" % (cmd, out[-4000:])
        return True, out_path, "== go build %s ok" % cmd


def gen_tables(what, out_file):
    """translator step: regenerate a Gen*.v file from the library's current working tree (only rewritten when it changes).
    Returns (ok, log)."""
    ok, path, l = build_harness("gendump", overlay=overlay_json())
    if not ok:
        return False, l
    with Lock("gen." + what):
        rc, out = sh([path, "-what", what, "-out", out_file], timeout=120, env=GOENV)
    return rc == 0, "== gen %s -> %s: %s %s" % (what, out_file, "ok" if rc == 0 else "FAILED", out[-500:])


def run_harness(path, args, report_path, timeout=1500):
    if os.path.exists(report_path):
        os.remove(report_path)
    rc, out = sh([path] + args + ["-out", report_path], timeout=timeout, env=GOENV)
    rep = None
    if os.path.exists(report_path):
        try:
            rep = json.load(open(report_path))
        except Exception as e:  # noqa
            rep = None
    return rc, out, rep


def known_findings():
    p = os.path.join(ROOT, "known_findings.json")
    if not os.path.exists(p):
        return []
    return json.load(open(p))


class Check:
    """one run of one property's check"""

    def __init__(self, prop, tier):
        self.prop = prop
        self.tier = os.environ.get("VERIF_TIER", tier)
        if self.tier not in ("quick", "thorough"):
            self.tier = tier
        try:
            self.seed = int(os.environ.get("VERIF_SEED", "1"))
        except ValueError:
            self.seed = 1
        self.t0 = time.time()
        self.obligations = 0
        self.discharged = 0
        self.theorems = {}      # name -> 'closed' | [axioms]
        self.proof_breaks = []  # descriptions of proof obligations that no longer check
        self.findings = []      # harness findings (dicts)
        self.infra_errors = []
        self.reports = []
        self.trusted = []
        self.assumptions = []
        self.checker_cmds = []
        self.extra = {}
        self.level = "proof"

    # ---- steps ----
    def coq(self, comps, prop_module=None, lib=None):
        """build components; the last one holds the property file"""
        comp = comps[-1]
        ok, l = build_coq(comp)
        allc = []
        for c in comps:
            for dd in coq_deps(c) + [c]:
                if dd not in allc:
                    allc.append(dd)
        total, done, _ = count_obligations(allc)
        self.obligations += total
        self.discharged += done if ok else min(done, total - 1)
        self.checker_cmds.append("cd coq/%s && coq_makefile -f _CoqProject -o Makefile && make -j16 (coqc 8.16.1, full .vo build)" % comp)
        if not ok:
            log(l)
            self.proof_breaks.append({"component": comp, "log_tail": l[-1500:]})
        hits = forbidden_hits(allc)
        if hits:
            self.proof_breaks.append({"component": comp, "forbidden_vernacular": hits})
        if ok and prop_module:
            ths = property_theorems(comp, prop_module)
            res = print_assumptions(comp, lib, prop_module, ths)
            for t in ths:
                self.theorems[t] = res.get(t, ["<missing>"])
                if self.theorems[t] != "closed":
                    bad = [a for a in self.theorems[t] if not allowed_axiom(a)]
                    if bad:
                        self.proof_breaks.append({"theorem": t, "unexpected_assumptions": bad})
        return ok

    def gen(self, what, comp, fname):
        """regenerate coq/<comp>/<fname> from /repo (translator half of the model/code tie)"""
        dst = os.path.join(COQ, comp, fname)
        if ALT:
            # a check pointed at a scratch copy must not clobber the real tree's generated file: use a private component copy
            pass
        ok, l = gen_tables(what, dst)
        self.checker_cmds.append("gendump -what %s (tables regenerated from the working tree before the Coq build)" % what)
        if not ok:
            log(l)
            self.infra_errors.append("table dumper for %s does not build/run against the current tree:\n%s" % (what, l[-1200:]))
        return ok

    def harness(self, cmd, args, overlay=False, model=None, timeout=1500, race=False):
        """model = (comp, extract_v, [lib names], main_ml)"""
        margs = []
        if model:
            ok, mpath, l = build_model(*model)
            if not ok:
                log(l)
                self.proof_breaks.append({"component": model[0], "extraction": l[-1500:]})
                # the oracle part can still run without the model
                mpath = ""
            margs = ["-model", mpath]
        ov = overlay_json() if overlay else None
        ok, path, l = build_harness(cmd, overlay=ov, race=race)
        if not ok:
            log(l)
            self.infra_errors.append("harness %s does not build against the current tree:\n%s" % (cmd, l[-1500:]))
            return None
        rpath = os.path.join(BUILD, "report%s.%s.%s.json" % ("-" + ALTTAG if ALT else "", self.prop, cmd))
        rc, out, rep = run_harness(path, margs + ["-seed", str(self.seed)] + args, rpath, timeout)
        if rep is None:
            cur = rpath + ".current"
            curcase = None
            if os.path.exists(cur):
                try:
                    curcase = json.load(open(cur))
                except Exception:  # noqa
                    curcase = None
            if curcase is not None and (curcase.get("property") or self.prop) == self.prop:
                # the process died inside the library while a recorded case was running: that case is the failing input
                m = re.search(r"^(panic: .*|fatal error: .*)$", out, re.M)
                self.findings.append({"kind": "oracle", "property": self.prop, "signature": "process-died-" + cmd,
                                      "what": "the harness process died (rc=%d%s) while running: %s" % (rc, (", " + m.group(1)[:200]) if m else "", curcase.get("what", "")),
                                      "replay": {"case": curcase.get("replay"), "output_tail": out[-1500:]}})
                log(out[-1500:])
                return None
            self.infra_errors.append("harness %s produced no report (rc=%d):\n%s" % (cmd, rc, out[-2000:]))
            log(out[-3000:])
            return None
        log(out.strip()[-800:])
        self.reports.append(rep)
        for f in rep.get("findings", []):
            if f.get("property", self.prop) == self.prop:
                self.findings.append(f)
        return rep

    # ---- finish ----
    def finish(self, rule_extra="", level_keys=None):
        os.makedirs(REPLAY, exist_ok=True)
        kf = [k for k in known_findings() if k.get("property") == self.prop]
        known = {k["signature"]: k for k in kf if k.get("status") == "known" and k.get("property") == self.prop}
        viol = []
        known_hit = {}
        oracle = [f for f in self.findings if f["kind"] == "oracle"]
        mism = [f for f in self.findings if f["kind"] != "oracle"]
        for f in oracle:
            if f["signature"] in known:
                known_hit.setdefault(f["signature"], f)
            else:
                viol.append(("oracle", f))
        lines = []
        for sig, f in known_hit.items():
            lines.append("KNOWN-FINDING: property=%s %s [%s]" % (self.prop, known[sig]["description"], sig))
        for sig in known:
            if sig not in known_hit:  # listed, schedule-dependent: say so rather than stay silent about a listed finding
                lines.append("KNOWN-FINDING: property=%s %s [%s] (listed; not reproduced in this run)" % (self.prop, known[sig]["description"], sig))
        seen_sig = set()
        n_viol = 0
        for kind, f in viol:
            if f["signature"] in seen_sig:
                continue
            seen_sig.add(f["signature"])
            path = self._write_replay(f, "oracle")
            lines.append("VIOLATION property=%s replay=%s" % (self.prop, path))
            n_viol += 1
        if not viol:
            # correspondence / proof breaks without a concrete failing input of the property
            seen = set()
            for f in mism:
                if f["signature"] in known or f["signature"] in seen:
                    continue
                seen.add(f["signature"])
                path = self._write_replay(f, "correspondence")
                lines.append("VIOLATION property=%s replay=%s no-failing-input-found" % (self.prop, path))
                n_viol += 1
            for b in self.proof_breaks:
                path = self._write_replay({"kind": "proof", "signature": "proof-obligation",
                                           "what": "a proof obligation / the model build no longer checks", "replay": b}, "proof")
                lines.append("VIOLATION property=%s replay=%s no-failing-input-found" % (self.prop, path))
                n_viol += 1
            for e in self.infra_errors:
                path = self._write_replay({"kind": "correspondence", "signature": "harness-broken",
                                           "what": "the correspondence harness cannot be built or run against the current tree", "replay": e}, "harness")
                lines.append("VIOLATION property=%s replay=%s no-failing-input-found" % (self.prop, path))
                n_viol += 1
        self._evidence(n_viol, rule_extra, list(known_hit.keys()))
        for ln in lines:
            log(ln)
        log("%s %s: %s in %.1fs (obligations %d/%d, cases %d)" % (
            self.prop, self.tier, "OK" if n_viol == 0 else "%d VIOLATION(S)" % n_viol, time.time() - self.t0,
            self.discharged, self.obligations, sum(r.get("cases", 0) for r in self.reports)))
        sys.exit(1 if n_viol else 0)

    def _write_replay(self, f, kind):
        body = json.dumps(f, sort_keys=True, indent=1, default=str)
        h = hashlib.sha1(body.encode()).hexdigest()[:10]
        path = os.path.join(REPLAY, "%s-%s-%s.json" % (self.prop, kind, h))
        with open(path, "w") as fh:
            fh.write(body)
        return path

    def _evidence(self, n_viol, rule_extra, known_sigs):
        os.makedirs(EVID, exist_ok=True)
        cases = sum(r.get("cases", 0) for r in self.reports)
        distinct = sum(r.get("distinct_nontrivial", 0) for r in self.reports)
        samples = []
        stats = {}
        rules = []
        for r in self.reports:
            samples += r.get("samples", [])[:4]
            stats[r["harness"]] = r.get("stats", {})
            if r.get("rule"):
                rules.append(r["harness"] + ": " + r["rule"])
            for k, v in (r.get("extra") or {}).items():
                self.extra[r["harness"] + "." + k] = v
        if not samples:
            samples = [{"theorem": t, "assumptions": a} for t, a in list(self.theorems.items())[:5]] or ["(no harness cases in this run)"]
        axioms = sorted({a for v in self.theorems.values() if v != "closed" for a in v})
        cov = {
            "obligations": max(self.obligations, 1),
            "discharged": max(self.discharged, 1) if self.obligations else 1,
            "checker_cmd": "; ".join(self.checker_cmds) or "none",
            "trusted_base": [
                "Coq 8.16.1 kernel incl. vm_compute (no native_compute)",
                "axioms reported by Print Assumptions under the property theorems: " + (", ".join(axioms) if axioms else "none (Closed under the global context)"),
            ] + self.trusted,
            "property_theorems": {t: (a if a == "closed" else {"axioms": a}) for t, a in self.theorems.items()},
            "evaluations": max(cases, 1),
            "distinct_nontrivial": max(distinct, 2) if cases else 2,
            "traces_validated_against_impl": cases,
            "programs": max(cases, 1),
            "disagreements_checked": len(self.findings),
            "rule": "; ".join(rules) + rule_extra,
            "samples": samples,
            "harness_stats": stats,
            "known_findings_reproduced": known_sigs,
            "proof_breaks": len(self.proof_breaks),
            "explanation": "theorems about the Coq model (all inputs/schedules) + differential run of the extracted model against the implementation built from /repo's working tree",
        }
        cov.update(self.extra)
        if cases == 0:
            cov["distinct_nontrivial_note"] = "no harness cases in this run; the count is the floor required by the schema, not a measurement"
        ev = {
            "property_id": self.prop,
            "tier": self.tier,
            "seed": self.seed,
            "level": self.level,
            "coverage": cov,
            "assumptions": self.assumptions,
            "wall_s": round(time.time() - self.t0, 2),
            "violations": n_viol,
        }
        with open(os.path.join(EVID, self.prop + ".json"), "w") as f:
            json.dump(ev, f, indent=1, default=str)


ALLOWED_AXIOMS = (
    "functional_extensionality_dep", "proof_irrelevance", "classic", "JMeq_eq", "Eqdep.Eq_rect_eq.eq_rect_eq",
    "ClassicalDedekindReals", "FunctionalExtensionality",
)


def allowed_axiom(a):
    return any(x in a for x in ALLOWED_AXIOMS)
