#!/usr/bin/env python3
"""Build-time overlay for /repo's working tree (DESIGN.md 1.3).

 overlay/add/<pkgdir>/*.go     files ADDED to packages of the module (accessors, test constructors, dumpers)
 overlay/pkg/<name>/*.go       whole packages added inside the module path (verifsched, verifsys)
 RULES                         identifier-level rewrites of existing files (text patterns anchored on identifiers)

Nothing is written under /repo; the result is a JSON file for `go build -overlay`."""
import json
import os
import re
import sys

HERE = os.path.dirname(os.path.abspath(__file__))
OV = os.path.join(os.path.dirname(HERE), "overlay")

# file (relative to the repo root) -> list of (regex, replacement); every rule must match at least `min` times
RULES = {}
IMPORTS = {}


def rule(path, pattern, repl, minimum=1):
    RULES.setdefault(path, []).append((re.compile(pattern), repl, minimum))


def need_import(path, imp):
    IMPORTS.setdefault(path, []).append(imp)


def load_rules():
    import glob
    for rp in sorted(glob.glob(os.path.join(OV, "rules*.py"))):
        g = {"rule": rule, "need_import": need_import}
        exec(compile(open(rp).read(), rp, "exec"), g)


def add_imports(src, imps):
    m = re.search(r"^import \(\n", src, re.M)
    if not m:
        m2 = re.search(r"^package \w+\n", src, re.M)
        return src[:m2.end()] + "\nimport (\n" + "".join('\t"%s"\n' % i for i in imps) + ")\n" + src[m2.end():]
    return src[:m.end()] + "".join('\t"%s"\n' % i for i in imps) + src[m.end():]


def make(repo, outdir, full=True):
    RULES.clear()
    IMPORTS.clear()
    load_rules()
    os.makedirs(outdir, exist_ok=True)
    replace = {}
    problems = []
    # added files
    addroot = os.path.join(OV, "add")
    for d, _, files in os.walk(addroot):
        for fn in files:
            if fn.endswith(".go"):
                rel = os.path.relpath(os.path.join(d, fn), addroot)
                replace[os.path.join(repo, rel)] = os.path.join(d, fn)
    # added packages
    pkgroot = os.path.join(OV, "pkg")
    if os.path.isdir(pkgroot):
        for d, _, files in os.walk(pkgroot):
            for fn in files:
                if fn.endswith(".go"):
                    rel = os.path.relpath(os.path.join(d, fn), pkgroot)
                    replace[os.path.join(repo, rel)] = os.path.join(d, fn)
    # rewritten files
    for rel, rules in RULES.items():
        src_path = os.path.join(repo, rel)
        if not os.path.exists(src_path):
            problems.append("overlay rule target missing: " + rel)
            continue
        src = open(src_path).read()
        for pat, repl, minimum in rules:
            src, n = pat.subn(repl, src)
            if n < minimum:
                problems.append("overlay rule %r matched %d times in %s (expected >= %d)" % (pat.pattern, n, rel, minimum))
        if rel in IMPORTS:
            src = add_imports(src, sorted(set(IMPORTS[rel])))
        dst = os.path.join(outdir, rel.replace("/", "__"))
        old = open(dst).read() if os.path.exists(dst) else None
        if old != src:
            open(dst, "w").write(src)
        replace[src_path] = dst
    path = os.path.join(outdir, "overlay.json")
    body = json.dumps({"Replace": replace}, indent=1, sort_keys=True)
    if not os.path.exists(path) or open(path).read() != body:
        open(path, "w").write(body)
    if problems:
        open(os.path.join(outdir, "problems.txt"), "w").write("\n".join(problems) + "\n")
        sys.stderr.write("\n".join(problems) + "\n")
    elif os.path.exists(os.path.join(outdir, "problems.txt")):
        os.remove(os.path.join(outdir, "problems.txt"))
    return path


if __name__ == "__main__":
    print(make(sys.argv[1] if len(sys.argv) > 1 else "/repo", sys.argv[2] if len(sys.argv) > 2 else os.path.join(os.path.dirname(HERE), "build", "overlay")))
