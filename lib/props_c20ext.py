"""Extended recipe for C20 (allocator contracts): the size-aligned and the standard allocator are inside the Coq model too.

Integrated: overrides the recipe `c20` of lib/props.py (plug-ins are merged after it).

Steps: (1) translator: `mempool -gen` (built with -tags verifgen through the overlay, accessor overlay/add/mempool/zz_verif.go)
dumps the REAL alignedIndexes table, the Free-guard constants and what every bucket's New() builds into
coq/mempool/GenMempool.v; (2) Coq build of coq/mempool (the sweeps of AlignedIndex.v re-prove that the model's bucket index /
guard / constants equal the dumped ones) and Print Assumptions of every Theorem of C20.v; (3) the harness: parts A (pooled,
lock step), C (aligned, lock step), D (std, lock step), B (implementation-side contract oracle for all three)."""
import os
import shutil

import vlib
from props import EXTRACT_TB, NATINT_TB, n

MODEL = ("mempool", "Extract.v", ["mmodel"], "main.ml")


def _sync_gen(c):
    """coq/mempool/GenMempool.v := tables of the code as it is now. With VERIF_REPO (scratch copy of the library) the shared
    source tree is left alone and the component is re-proved in a private copy when the tables differ."""
    ov = vlib.overlay_json()
    ok, path, l = vlib.build_harness("mempool", overlay=ov, tags="verifgen")
    c.checker_cmds.append("mempool -gen (built with -tags verifgen -overlay: GenMempool.v regenerated from the working tree before the Coq build)")
    if not ok:
        vlib.log(l)
        c.infra_errors.append("harness mempool (-tags verifgen) does not build against the current tree:\n%s" % l[-1500:])
        return
    tag = getattr(vlib, "ALTTAG", "alt")
    new = os.path.join(vlib.BUILD, "GenMempool%s.v" % ("-" + tag if vlib.ALT else ""))
    rc, out = vlib.sh([path, "-gen", new], timeout=120, env=vlib.GOENV)
    if rc != 0 or not os.path.exists(new):
        c.infra_errors.append("mempool -gen failed (rc=%d): %s" % (rc, out[-800:]))
        return
    cur = os.path.join(vlib.COQ, "mempool", "GenMempool.v")
    body = open(new).read()
    if os.path.exists(cur) and open(cur).read() == body:
        return
    vlib.log("== GenMempool.v: the tables dumped from the current code differ from coq/mempool/GenMempool.v")
    if not vlib.ALT:
        with vlib.Lock("genmempool"):
            tmp = cur + ".tmp"
            with open(tmp, "w") as f:
                f.write(body)
            os.replace(tmp, cur)
        return
    # scratch copy of the library: prove the table theorems in a private copy of the component
    alt = os.path.join(vlib.BUILD, "coq-" + tag)
    with vlib.Lock("coq-%s.mempool" % tag):
        for comp in ("base", "mempool"):
            d = os.path.join(alt, comp)
            shutil.rmtree(d, ignore_errors=True)
            os.makedirs(d)
            src = os.path.join(vlib.COQ, comp)
            for fn in os.listdir(src):
                if fn.endswith(".v") or fn == "_CoqProject":
                    shutil.copy(os.path.join(src, fn), os.path.join(d, fn))
        shutil.copy(new, os.path.join(alt, "mempool", "GenMempool.v"))
        log_ = ""
        bad = False
        for comp in ("base", "mempool"):
            d = os.path.join(alt, comp)
            vlib.sh("coq_makefile -f _CoqProject -o Makefile 2>&1 | grep -v Warning", cwd=d, timeout=60)
            rc, out = vlib.sh("make -j16 2>&1 | grep -v '^Warning'", cwd=d, timeout=1500)
            if rc != 0 or "Error" in out:
                bad = True
                log_ = out[-1500:]
                break
        if bad:
            vlib.log(log_)
            c.proof_breaks.append({"component": "mempool", "what": "with the tables of the current aligned allocator (GenMempool.v: alignedIndexes, "
                                   "Free guard constants, bucket New() sizes) the theorems of coq/mempool no longer check", "log_tail": log_})


def c20(c):
    _sync_gen(c)
    c.coq(["mempool"], "C20", "MemPoolC")
    c.trusted += [EXTRACT_TB, NATINT_TB,
                  "oracle assumptions: sync.Pool.Get returns a previously Put pointer of the same pool or a fresh New() (R2); "
                  "append allocates a fresh array of capacity >= the needed length and clears the tail beyond the new length; make zeroes",
                  "Go harness cmd/mempool (derives the oracle answers from pointer identity, array base addresses and cap(); keeps every pointer and "
                  "array reachable so that addresses identify arrays; two runtime.GC() per aligned program empty the package-global sync.Pools)",
                  "translator: `mempool -gen` + overlay accessor overlay/add/mempool/zz_verif.go dump alignedIndexes (run-length encoded), "
                  "maxAlignedBufferSize, minAlignedBufferSizeMask, the bucket count and len/cap of every bucket's New(); the rest of "
                  "aligned_allocator.go / std_allocator.go (control flow of Malloc/Realloc/Append/Free) is modelled by hand and tied by the lock-step run",
                  "a slice is modelled as (array id, cap, len, whole backing array): sound because every slice the two allocators hand out starts at "
                  "the first element of its array, and because no two live or pooled slices share an array (the no-alias theorems)"]
    c.assumptions += ["modelled and proved, for all op sequences and all oracle answers: mempool.MemPool, mempool.AlignedAllocator, mempool.stdAllocator",
                      "client contract (model answers ILLEGAL otherwise): only pointers handed out by the allocator and not yet released are passed back; "
                      "buffers not handed out by the allocator (foreign frees, cf. finding D24) are outside the property",
                      "negative sizes (aligned Malloc returns nil, std make panics) are not modelled; concurrent use is covered by the "
                      "linearizability of sync.Pool (trusted), not by a theorem; the debugger bookkeeping (incrMalloc/incrFree) is not modelled",
                      "Realloc states the common prefix only: the bytes beyond the old length are whatever the (recycled) array holds, the code does not clear them "
                      "(the models track them exactly and the lock-step run compares them)"]
    c.harness("mempool", ["-n", n(c, 300, 6000)], overlay=True, model=MODEL, timeout=3000)
    c.finish()


if True:  # integrated: replaces the recipe `c20` of lib/props.py
    CHECKS = {"C20": c20}
    MODELS = [MODEL]
    HARNESSES = [("mempool", True)]
    MANIFEST = {
        "C20": dict(
            technique="Coq proof (invariants by induction over op sequences, all oracle answers, three allocator models; whole-domain sweep tying the "
                      "bucket index / Free guard to tables dumped from the code) + differential lock-step run of the three extracted models + "
                      "implementation-side contract oracle",
            text="Theorems in coq/mempool/C20.v about executable models of mempool.MemPool, mempool.AlignedAllocator and mempool.stdAllocator: in every "
                 "reachable state (any program, any answer of sync.Pool.Get / of append's growth) live buffers never share a backing array, a pooled "
                 "buffer is never live and shares no array with a live one; Malloc(n) returns length n (cap >= n); Append/AppendString return the old "
                 "contents followed by the new bytes; Realloc returns the requested length with the common prefix preserved; every operation leaves "
                 "every other live buffer (array, cap, len, all bytes) untouched; the aligned allocator never re-slices a pooled buffer beyond its "
                 "capacity (no panic). The aligned model's bucket index equals the real alignedIndexes table on all 32769 indices, its Free guard equals "
                 "the code's guard for every capacity, and its constants / bucket sizes equal the code's (GenMempool.v, regenerated from the working tree "
                 "through an overlay accessor before every build, sweeps by vm_compute). Each model is run in lock step with the real allocator on "
                 "generated programs (pointer identity, len, cap, array identity, hash of the contents incl. stale bytes), and a contract oracle checks "
                 "length/content/disjointness/frame on the implementation alone.",
            note="Trusted: Coq kernel, extraction (ExtrOcamlBasic, ExtrOcamlNatInt), OCaml driver, Go harness; sync.Pool, make and append growth are "
                 "oracle inputs; the control flow of the allocators is modelled by hand (only the index table, guard constants and bucket sizes are "
                 "translated). Not modelled: negative sizes, concurrency, the debugger counters, buffers not handed out by the allocator. "
                 "The code comment `alignedPoolBucketNum // 12` is wrong: there are 11 buckets (32..32768).",
            design="4/C20, Appendix Q"),
    }
else:
    CHECKS = {}
