"""Recipes of component `sched`: C05 (per-connection job serialization) and C19 (executors: task pool + Timer.Async)."""
import vlib  # noqa: F401
from props import EXTRACT_TB, NATINT_TB, n

MODEL = ("sched", "Extract.v", ["sermodel", "tpmodel"], "main.ml")

SCHED_TB = ("cooperative scheduler of the overlay (overlay/pkg/verifsched, rules_sched.py: Conn.mux and Timer.asyncMux become "
            "verifsched.Mutex, the `go` of Timer.Async becomes verifsched.Go): managed goroutines switch only before a mutex "
            "acquisition, at explicit yields inside the harness's jobs and when they end; the reduction 'the code between an "
            "Unlock and the next Lock of the same goroutine touches only goroutine-local state' is by inspection of conn.go / timer.go")


def c05(c):
    c.coq(["sched"], "C05", "SchedC")
    c.trusted += [EXTRACT_TB, NATINT_TB, SCHED_TB,
                  "Go harness cmd/serializer (attributes every critical section of c.mux to the operation in progress on the acquiring thread; "
                  "job identities are the harness's closures); overlay constructor VerifSchedNewConn (a Conn attached like poller.addConn does, "
                  "minus the epoll registration)",
                  "append's growth (capacity of the job list) is an oracle input of the model, taken from the implementation"]
    c.assumptions += ["modelled and proved for all schedules: Execute / MustExecute / execute / Close's closed flag / ExecuteLen, the three executors",
                      "the engine's Execute hook is assumed to run the closure it is given exactly once (the harness's three executors do)"]
    args = ["-focus", "conn", "-n", n(c, 2500, 40000), "-depth", n(c, 7, 11), "-maxenum", n(c, 3000, 120000)]
    c.harness("serializer", args, overlay=True, model=MODEL, timeout=3000)
    # end-to-end tier for the clause "HTTP handlers and WebSocket callbacks of one connection never overlap, and close handling
    # runs after all work queued before it": real nbhttp engines (every IOMod x epoll mode x executor), raw HTTP/1.1 and RFC 6455 clients
    c.trusted += ["Go harness cmd/overlap (end-to-end tier, no model): real nbhttp engines on loopback, raw clients written in the harness; every callback "
                  "logs its entry under a per-connection mutex that also keeps the in-callback count, so overlap and start order are exact; only "
                  "'a callback is missing / the connection did not finish' depends on time (such a cell is run again with four times the margins)"]
    c.assumptions += ["end-to-end tier: connections transferred to the poller by Upgrade (BlockingModTrasferConnToPoller) run the open handler outside the "
                      "connection's job queue and, under EPOLLONESHOT, the message callbacks too; the harness reports those under the signatures "
                      "*-transferred-* (same causes as the three C14 findings recorded for the unchanged tree)"]
    oargs = ["-n", n(c, 4, 150)]
    if c.tier == "thorough":
        oargs += ["-full", "-ws", "8", "-http", "4"]
    c.harness("overlap", oargs, overlay=True, timeout=3000)
    c.finish()


def c19(c):
    c.coq(["sched"], "C19", "SchedC")
    c.trusted += [EXTRACT_TB, NATINT_TB, SCHED_TB,
                  "task pool: Go channels (FIFO, select picks any ready case) and atomics are modelled, not verified; the correspondence with "
                  "the real pool is at quiescent points only (counter, queue length, started tasks after every Go call while all tasks block, "
                  "after completion, after overload, after Stop); interleavings inside the pool are covered by the theorems about the model "
                  "and by the stress oracle, not by a step-by-step correspondence",
                  "Go harness cmd/taskpool (start/end events, overlap counter, barrier, accessors VerifConcurrent / VerifQueueLen); "
                  "Go harness cmd/serializer for Timer.Async under the cooperative scheduler"]
    c.assumptions += ["a task counts as running from the moment a worker or the dispatcher takes it (over-approximation used by c19_bound)",
                      "tasks handed over after Stop may stay in the queue for ever (the property only speaks about tasks handed over before Stop)"]
    c.harness("taskpool", ["-n", n(c, 60, 1500)], overlay=True, model=MODEL, timeout=3000)
    args = ["-focus", "async", "-n", n(c, 1200, 20000), "-depth", n(c, 6, 10), "-maxenum", n(c, 1500, 60000)]
    c.harness("serializer", args, overlay=True, model=MODEL, timeout=3000)
    c.finish()


CHECKS = {"C05": c05, "C19": c19}
MODELS = [MODEL]
HARNESSES = [("serializer", True), ("taskpool", True), ("overlap", True)]

MANIFEST = {
    "C05": dict(
        technique="Coq proof (invariant of the head-starts-drainer LTS by induction over all action sequences, three executors) + the real "
                  "Conn.Execute/MustExecute/Close under a cooperative scheduler (seeded and enumerated schedules), differential against the extracted model",
        text="Theorems in coq/sched/C05.v about the executable LTS of conn.go Execute/MustExecute/execute (Serializer.v, instance ConnV; one action per "
             "critical section of c.mux plus job start/end/panic): at most one job runs and there is never a second drainer (c05_mutex); the started jobs "
             "are a prefix, without repeats, of the accepted submissions in lock order (c05_fifo_once); when no drainer is alive every accepted job has "
             "started exactly once (c05_all_run) and the drainer's own steps always reach that state (c05_drains); a panicking job does not stop later "
             "jobs (c05_panic); Execute after Close returns false and its job never starts, MustExecute is always accepted (c05_closed, c05_closed_step); "
             "for every action sequence, executor (inline, goroutine per call, pool with delayed start) and capacity oracle. The model is tied to the code "
             "on every run: the real nbio.Conn (real Close path: closeWithError -> engine.onClose -> Timer.Async -> handler -> MustExecute) runs under the "
             "overlay's cooperative scheduler with 1-6 submitters x 1-8 jobs, racing Close, panicking and re-entrant jobs, ExecuteLen observers, the three "
             "executors; every critical section and job event becomes a model action in the order it happened and Execute's result, head/drainer start, "
             "the job started, drainer exit, ExecuteLen, len/cap of the list and the final start order are compared; the implementation-only oracle "
             "(no overlap, FIFO by lock order, exactly once, closed semantics, jobs after a panic, no stuck thread, empty list at the end) runs on the same cases. "
             "End-to-end tier for the consequence clause (harness cmd/overlap, oracle only): real nbhttp engines in every IOMod (non-blocking, blocking, mixed, "
             "blocking with the upgraded connection transferred to the poller) x epoll mode (LT, ET, ET+ONESHOT, ET with asynchronous reads) x executor (default "
             "task pool, small pool, goroutine per call, 3-worker pool behind ServerExecutor), several connections at once; raw HTTP/1.1 clients pipeline requests whose "
             "handlers sleep / yield / block, raw RFC 6455 clients write text / binary (fragmented) messages, Ping, Pong and Close frames back to back while the callback "
             "of an earlier frame is held; every callback (OnOpen, OnMessage, OnDataFrame, ping / pong / close handler, OnClose, the engine's close hook, HTTP handlers) "
             "logs its entry under a per-connection mutex: never two in progress, entries in wire order, close exactly once and after everything queued before it "
             "(peer half-close mid-handler, Close frame, Close() inside a callback or from another goroutine, Connection: close); and per cell a stop phase: "
             "Engine.Stop / Engine.Shutdown(ctx) begins while every connection has a callback held and more work queued behind it - work may be dropped there, "
             "but nothing may run during or after the close callback.",
        note="Trusted: Coq kernel, extraction, OCaml driver, Go harness, the cooperative scheduler and the atomicity reduction (code between Unlock and the next "
             "Lock is goroutine-local; by inspection). The nbhttp consequence (handlers/callbacks of one connection never overlap) follows from nbhttp routing "
             "them through Execute; it is checked end to end by cmd/overlap (sampled schedules of real engines, no theorem). Connections transferred to the poller "
             "by Upgrade (BlockingModTrasferConnToPoller) are outside the theorem's instance: their open handler (and, under EPOLLONESHOT, message callbacks) bypass "
             "the job queue - reported under the *-transferred-* signatures.",
        design="4/C05, Appendix F, G.2, H.1, H.4"),
    "C19": dict(
        technique="Coq proof (counter/conservation invariant of the task pool LTS with task identities, all schedules; Timer.Async as an instance of the "
                  "serializer LTS) + stress of the real pool with model correspondence at quiescent points + Timer.Async under the cooperative scheduler",
        text="Theorems in coq/sched/C19.v. Task pool (TaskPool.v: atomic counter, bounded FIFO queue incl. the unbuffered rendezvous, workers, dispatcher with "
             "the repaired failed-fork and close paths, Go, Stop; every bound and queue size): tasks running at once <= max(1, maxConcurrent) <= configured bound "
             "(c19_bound); the counter always equals live workers + transient units (+ maxConcurrent after Stop), so it is 0 when idle (c19_counter) and a new "
             "submission gets a worker iff live units + 1 < maxConcurrent whatever happened before (c19_capacity_restored); at quiescence every task handed over "
             "before Stop has finished exactly as often as it was handed over, and the finished early tasks are a permutation of the handed-over ones "
             "(c19_all_run_once, c19_all_run_perm). Timer.Async (Serializer.v, instance AsyncV with the index-based drain and the capacity-shrink branch): one "
             "function at a time, one drainer, FIFO in lock order, exactly once, nothing stranded (c19_async_fifo_once). Tied to the code on every run: the real "
             "pool (default and custom caller, plain and IO pool, bounds 0-8, queues 0-64) is filled with blocking tasks and compared with the model after every "
             "Go call, after completion, after overload rounds and after Stop; the oracle checks overlap <= bound, exactly once (also around Stop), Go never "
             "hangs, panics contained, counter 0 when idle, a barrier of as many mutually waiting tasks as a fresh pool admits before and after overload; "
             "Timer.Async runs under the cooperative scheduler with the model (incl. backlogs above 1024 entries) and under the real scheduler with the oracle.",
        note="Partial: the pool's correspondence is at quiescent points only (channels are not under the cooperative scheduler); Go's channel semantics are "
             "modelled. Found and fixed while building this check: D23 (a custom caller lowered the counter per task: 40 tasks at once with bound 4).",
        design="4/C19, Appendix F, P"),
}

READY = True
