package hx

import "sync"

// MovingAllocator satisfies the library's mempool.Allocator interface in the most hostile way the contract allows: every
// Append / AppendString / Realloc returns a NEW pointer to a NEW array and retires the old buffer (its bytes are overwritten
// with 0xDD and its length cut to 0), every Free retires the buffer too. Code that keeps using a pointer it has passed to
// Append / Realloc / Free (a dropped return value, a use after free) therefore puts 0xDD bytes or nothing on the wire
// instead of silently working as it does with the in-place growing default pool. mempool.NewAligned() of the library
// relocates only when a size class is exceeded; this one relocates always.
type MovingAllocator struct {
	mu      sync.Mutex
	Retired int
}

func (a *MovingAllocator) retire(p *[]byte) {
	if p == nil {
		return
	}
	b := (*p)[:cap(*p)]
	for i := range b {
		b[i] = 0xDD
	}
	*p = (*p)[:0]
	a.mu.Lock()
	a.Retired++
	a.mu.Unlock()
}

func (a *MovingAllocator) Malloc(size int) *[]byte {
	b := make([]byte, size)
	return &b
}

func (a *MovingAllocator) Realloc(buf *[]byte, size int) *[]byte {
	nb := make([]byte, size)
	if buf != nil {
		copy(nb, *buf)
		a.retire(buf)
	}
	return &nb
}

func (a *MovingAllocator) Append(buf *[]byte, more ...byte) *[]byte {
	var old []byte
	if buf != nil {
		old = *buf
	}
	nb := make([]byte, len(old)+len(more))
	copy(nb, old)
	copy(nb[len(old):], more)
	a.retire(buf)
	return &nb
}

func (a *MovingAllocator) AppendString(buf *[]byte, more string) *[]byte {
	return a.Append(buf, []byte(more)...)
}

func (a *MovingAllocator) Free(buf *[]byte) { a.retire(buf) }
