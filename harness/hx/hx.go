// Package hx: shared plumbing of the correspondence harnesses (model process, report file).
package hx

import (
	"bufio"
	"encoding/hex"
	"encoding/json"
	"fmt"
	"io"
	"os"
	"os/exec"
	"sort"
	"strings"
	"time"
)

// Model is the extracted OCaml model speaking a line protocol on stdin/stdout.
type Model struct {
	cmd *exec.Cmd
	in  *bufio.Writer
	out *bufio.Reader
	wc  io.WriteCloser
}

func StartModel(path string, args ...string) *Model {
	cmd := exec.Command(path, args...)
	stdin, _ := cmd.StdinPipe()
	stdout, _ := cmd.StdoutPipe()
	cmd.Stderr = os.Stderr
	if err := cmd.Start(); err != nil {
		Fatal("cannot start model %s: %v", path, err)
	}
	return &Model{cmd: cmd, in: bufio.NewWriterSize(stdin, 1<<20), out: bufio.NewReaderSize(stdout, 1<<20), wc: stdin}
}

// Ask sends one line and reads one line.
func (m *Model) Ask(format string, args ...interface{}) string {
	fmt.Fprintf(m.in, format+"\n", args...)
	m.in.Flush()
	line, err := m.out.ReadString('\n')
	if err != nil {
		Fatal("model died: %v (after %q)", err, fmt.Sprintf(format, args...))
	}
	return strings.TrimRight(line, "\r\n")
}

// Send writes a line without waiting for an answer.
func (m *Model) Send(format string, args ...interface{}) {
	fmt.Fprintf(m.in, format+"\n", args...)
}

// ReadLine flushes and reads one answer line.
func (m *Model) ReadLine() string {
	m.in.Flush()
	line, err := m.out.ReadString('\n')
	if err != nil {
		Fatal("model died: %v", err)
	}
	return strings.TrimRight(line, "\r\n")
}

func (m *Model) Close() {
	m.in.Flush()
	m.wc.Close()
	m.cmd.Wait()
}

func Fatal(format string, args ...interface{}) {
	fmt.Fprintf(os.Stderr, "HARNESS-ERROR: "+format+"\n", args...)
	os.Exit(3)
}

func Hex(b []byte) string {
	if len(b) == 0 {
		return "-"
	}
	return hex.EncodeToString(b)
}

func UnHex(s string) []byte {
	if s == "-" || s == "" {
		return nil
	}
	b, err := hex.DecodeString(s)
	if err != nil {
		Fatal("bad hex %q", s)
	}
	return b
}

// Finding is one failing case: either a model/implementation disagreement (Kind "mismatch")
// or a failure of the property oracle on the implementation alone (Kind "oracle").
type Finding struct {
	Kind      string      `json:"kind"`
	Property  string      `json:"property"`
	Signature string      `json:"signature"` // short stable class name used to match known findings
	What      string      `json:"what"`
	Replay    interface{} `json:"replay"`
}

// Report is what a harness writes for the python driver.
type Report struct {
	Harness    string                 `json:"harness"`
	Seed       int64                  `json:"seed"`
	Cases      int                    `json:"cases"`
	Ops        int                    `json:"ops"`
	Distinct   int                    `json:"distinct_nontrivial"`
	Rule       string                 `json:"rule"`
	Stats      map[string]int         `json:"stats"`
	Samples    []interface{}          `json:"samples"`
	Findings   []Finding              `json:"findings"`
	Extra      map[string]interface{} `json:"extra,omitempty"`
	WallS      float64                `json:"wall_s"`
	start      time.Time
	distinct   map[string]bool
	maxFind    int
	perSig     map[string]int
	total      int
	oracleKept int
	maxSample  int
}

func NewReport(name string, seed int64) *Report {
	return &Report{Harness: name, Seed: seed, Stats: map[string]int{}, start: time.Now(),
		distinct: map[string]bool{}, maxFind: 20, maxSample: 5, Extra: map[string]interface{}{}}
}

// CurrentFile, when set (the harness's -out path + ".current"), receives the case that is about to run. If the process
// dies inside the library under test (a fatal error, a crash in a goroutine of the library) no report is written; the
// driver then takes the case from this file as the failing input instead of reporting only "harness produced no report".
var CurrentFile string

// Current records the case that is about to run (see CurrentFile). Cheap: one small file write per case.
func Current(property, what string, replay interface{}) {
	if CurrentFile == "" {
		return
	}
	b, err := json.Marshal(map[string]interface{}{"property": property, "what": what, "replay": replay})
	if err == nil {
		_ = os.WriteFile(CurrentFile, b, 0o644)
	}
}

func (r *Report) Stat(k string)         { r.Stats[k]++ }
func (r *Report) StatN(k string, n int) { r.Stats[k] += n }

// Case records one executed case; key identifies it for the distinct count, nontrivial by the harness's rule.
func (r *Report) Case(key string, nontrivial bool) {
	r.Cases++
	if nontrivial && !r.distinct[key] {
		r.distinct[key] = true
	}
}

func (r *Report) Sample(s interface{}) {
	if len(r.Samples) < r.maxSample {
		r.Samples = append(r.Samples, s)
	}
}

func (r *Report) Add(f Finding) {
	// keep at most 3 findings per (kind, property, signature): a flood of one class must not crowd out another
	k := f.Kind + ":" + f.Property + ":" + f.Signature
	r.Stat("finding:" + f.Kind + ":" + f.Signature)
	if r.perSig == nil {
		r.perSig = map[string]int{}
	}
	r.perSig[k]++
	r.total++
	if r.perSig[k] <= 3 {
		r.Findings = append(r.Findings, f)
		if f.Kind == "oracle" {
			r.oracleKept++
		}
	}
}

// TooMany: stop generating once the property oracle has produced enough concrete failing inputs, or after a flood
// of findings of any kind (model disagreements alone do not stop the search for a failing input early).
func (r *Report) TooMany() bool { return r.oracleKept >= 6 || r.total >= 400 }

func (r *Report) Write(path string) {
	if CurrentFile != "" {
		_ = os.Remove(CurrentFile) // the run got to its end: no case is in flight
	}
	r.Distinct = len(r.distinct)
	r.WallS = time.Since(r.start).Seconds()
	if r.Findings == nil {
		r.Findings = []Finding{}
	}
	if r.Samples == nil {
		r.Samples = []interface{}{}
	}
	b, _ := json.MarshalIndent(r, "", " ")
	if path == "" || path == "-" {
		os.Stdout.Write(b)
		return
	}
	if err := os.WriteFile(path, b, 0o644); err != nil {
		Fatal("write report: %v", err)
	}
	keys := make([]string, 0, len(r.Stats))
	for k := range r.Stats {
		keys = append(keys, k)
	}
	sort.Strings(keys)
	fmt.Printf("%s: cases=%d ops=%d distinct=%d findings=%d wall=%.1fs\n", r.Harness, r.Cases, r.Ops, r.Distinct, len(r.Findings), r.WallS)
}
