package main

// Tier "real": real engines, real sockets on 127.0.0.1. See main.go.

import (
	"errors"
	"fmt"
	"io"
	"math/rand"
	"net"
	"os"
	"runtime"
	"strings"
	"sync"
	"syscall"
	"time"

	"github.com/lesismal/nbio"
	"verifharness/hx"
)

const (
	realMaxWrite = 1 << 20
	waitClose    = 4 * time.Second // bound for a close notification / callback that is owed
	stopWatchdog = 12 * time.Second
)

// rec is the harness's record of one connection: its event log (real-time order) and counters.
type rec struct {
	mu          sync.Mutex
	id          int
	origin      string // accepted | added | dialed
	scenario    string
	mode        string
	conn        *nbio.Conn
	inode       string
	evs         []string
	opens       int
	closes      int
	dials       int
	closeErr    []string
	dialRes     []string
	cret        bool
	openAt      int // position in evs of the open / dial-accepted event, -1 if none
	allowed     map[string]bool
	expect      string // the cause the scenario applies
	closedCh    chan struct{}
	dialCh      chan struct{}
	onData      func(c *nbio.Conn, rc *rec)
	inClose     func(c *nbio.Conn, rc *rec)
	dialOutcome string // what the scenario arranged: connected | refused | timeout | closed-while-pending | rejected
	peer        net.Conn
	notes       []string
	dialing     bool // DialAsync has not returned yet: events are held back until its answer is logged
	held        []string
	udpPeer     *net.UDPConn  // UDP client origins: the peer's (unconnected) socket
	udpFrom     *net.UDPAddr  // ... and the connection's address as the peer saw it
	dataCh      chan struct{} // one token per OnData call
	warm        bool          // datagrams / bytes were exchanged in both directions before the termination
	isClosedBad []string      // disagreements between IsClosed() and the close notification
}

func isUDPClient(origin string) bool { return origin == "udp-added" || origin == "udp-dialed" }

// peerSend sends bytes from the peer's end to the connection.
func (rc *rec) peerSend(b []byte) {
	if rc.udpPeer != nil {
		if rc.udpFrom != nil {
			rc.udpPeer.WriteToUDP(b, rc.udpFrom)
		}
		return
	}
	if rc.peer != nil {
		rc.peer.Write(b)
	}
}

func (rc *rec) waitData(d time.Duration) bool {
	select {
	case <-rc.dataCh:
		return true
	case <-time.After(d):
		return false
	}
}

// put appends an event; rc.mu must be held.
func (rc *rec) put(e string) {
	if rc.dialing {
		rc.held = append(rc.held, e)
	} else {
		rc.evs = append(rc.evs, e)
	}
}

func (rc *rec) log(e string) {
	rc.mu.Lock()
	rc.put(e)
	rc.mu.Unlock()
}

func (rc *rec) events() []string {
	rc.mu.Lock()
	defer rc.mu.Unlock()
	return append([]string{}, rc.evs...)
}

// op runs one operation and logs its result with the flag "begun after a Close call had returned".
func (rc *rec) op(k string, f func() error) string {
	rc.mu.Lock()
	after := rc.cret
	rc.mu.Unlock()
	res := resClass(f())
	a := "0"
	if after {
		a = "1"
	}
	rc.log("op:" + a + ":" + k + ":" + res)
	return res
}

func (rc *rec) closeCall(cause error) {
	var err error
	if cause == nil {
		err = rc.conn.Close()
	} else {
		err = rc.conn.CloseWithError(cause)
	}
	_ = err
	rc.mu.Lock()
	rc.put("cret")
	rc.cret = true
	rc.mu.Unlock()
}

type orphan struct {
	c   *nbio.Conn
	err error
}

type realEnv struct {
	rep   *hx.Report
	seed  int64
	mode  string
	g     *nbio.Engine
	addr  string
	ext   net.Listener
	extCh chan net.Conn

	mu       sync.Mutex
	recs     map[*nbio.Conn]*rec
	all      []*rec
	orphans  []orphan
	nextOpen func(c *nbio.Conn, rc *rec)
	openCh   chan *rec
	stopped  bool
	warm     bool     // establish lets the two ends exchange data before the scenario's termination
	glog     []string // UDP table histories: open / data / close events of all sessions, in real-time order (under mu)
}

func (env *realEnv) glogAdd(e string) {
	env.mu.Lock()
	env.glog = append(env.glog, e)
	env.mu.Unlock()
}

func (env *realEnv) glogLen() int {
	env.mu.Lock()
	defer env.mu.Unlock()
	return len(env.glog)
}

// glogWait waits until an event with the given suffix has been logged at or after position from.
func (env *realEnv) glogWait(from int, suffix string, d time.Duration) bool {
	deadline := time.Now().Add(d)
	for {
		env.mu.Lock()
		for _, e := range env.glog[from:] {
			if strings.Contains(e, suffix) {
				env.mu.Unlock()
				return true
			}
		}
		env.mu.Unlock()
		if time.Now().After(deadline) {
			return false
		}
		time.Sleep(200 * time.Microsecond)
	}
}

func socketInode(fd int) string {
	l, err := os.Readlink(fmt.Sprintf("/proc/self/fd/%d", fd))
	if err != nil {
		return ""
	}
	return l
}

func inodeOpen(inode string) bool {
	if inode == "" {
		return false
	}
	d, err := os.ReadDir("/proc/self/fd")
	if err != nil {
		return false
	}
	for _, e := range d {
		if l, err := os.Readlink("/proc/self/fd/" + e.Name()); err == nil && l == inode {
			return true
		}
	}
	return false
}

func fdCount() int {
	d, err := os.ReadDir("/proc/self/fd")
	if err != nil {
		return -1
	}
	return len(d)
}

func (env *realEnv) newRec(origin string) *rec {
	rc := &rec{origin: origin, mode: env.mode, closedCh: make(chan struct{}), dialCh: make(chan struct{}), openAt: -1, allowed: map[string]bool{},
		dataCh: make(chan struct{}, 1024)}
	env.mu.Lock()
	rc.id = len(env.all)
	env.all = append(env.all, rc)
	env.mu.Unlock()
	return rc
}

func (env *realEnv) bind(c *nbio.Conn, rc *rec) {
	env.mu.Lock()
	rc.conn = c
	env.recs[c] = rc
	var pend []orphan
	rest := env.orphans[:0]
	for _, o := range env.orphans {
		if o.c == c {
			pend = append(pend, o)
		} else {
			rest = append(rest, o)
		}
	}
	env.orphans = rest
	env.mu.Unlock()
	for _, o := range pend {
		env.closeEvent(rc, c, o.err)
	}
}

func (env *realEnv) closeEvent(rc *rec, c *nbio.Conn, err error) {
	id := errID(err)
	cl, ce := c.IsClosed()
	env.glogAdd(fmt.Sprintf("%d.close:%s", rc.id, id))
	rc.mu.Lock()
	if !cl || errID(ce) != id {
		rc.isClosedBad = append(rc.isClosedBad, fmt.Sprintf("inside the close handler: notified %s, IsClosed() = (%v, %s)", errName(id), cl, errName(errID(ce))))
	}
	rc.put("close:" + id)
	rc.closes++
	rc.closeErr = append(rc.closeErr, id)
	first := rc.closes == 1
	h := rc.inClose
	rc.mu.Unlock()
	if h != nil {
		h(c, rc)
	}
	if first {
		close(rc.closedCh)
	}
}

func epollCfg(mode string) (uint32, uint32, bool) {
	switch mode {
	case "ET":
		return nbio.EPOLLET, 0, false
	case "ET+ONESHOT":
		return nbio.EPOLLET, nbio.EPOLLONESHOT, false
	case "ET+ASYNCREAD", "ET+ASYNCREAD+SYNCEXEC":
		return nbio.EPOLLET, 0, true
	}
	return nbio.EPOLLLT, 0, false
}

func startEnv(rep *hx.Report, seed int64, mode string, tableSize int) *realEnv {
	return startEnvNet(rep, seed, mode, tableSize, "tcp")
}

const udpReadTimeout = 400 * time.Millisecond

var udpIdle = udpReadTimeout // Config.UDPReadTimeout of the next UDP engine (0: sessions have no idle timeout)

func startEnvNet(rep *hx.Report, seed int64, mode string, tableSize int, network string) *realEnv {
	env := &realEnv{rep: rep, seed: seed, mode: mode, recs: map[*nbio.Conn]*rec{}, extCh: make(chan net.Conn, 64), openCh: make(chan *rec, 64)}
	em, os1, async := epollCfg(mode)
	conf := nbio.Config{Network: network, Addrs: []string{"127.0.0.1:0"}, NPoller: 2, EpollMod: em, EPOLLONESHOT: os1,
		AsyncReadInPoller: async, MaxWriteBufferSize: realMaxWrite}
	if network == "udp" {
		env.mode = mode + "/udp"
		conf.NPoller = 1
		conf.UDPReadTimeout = udpIdle
	}
	if strings.HasSuffix(mode, "+SYNCEXEC") {
		// Config.IOExecute supplied by the user: the read task runs at once, in the poller goroutine (what the library's own
		// taskpool.IOTaskPool.Call does); every "the task finishes before the poller goes on" interleaving becomes the rule
		conf.IOExecute = func(f func(*[]byte)) {
			buf := make([]byte, 32<<10)
			f(&buf)
		}
	}
	g := nbio.NewEngine(conf)
	g.OnOpen(func(c *nbio.Conn) {
		rc := env.newRec("accepted")
		if network == "udp" {
			rc.origin = "udp-session" // the descriptor is the UDP server's: not this connection's to close
		} else {
			rc.inode = socketInode(c.Hash())
		}
		rc.mu.Lock()
		rc.openAt = len(rc.evs)
		rc.evs = append(rc.evs, "open")
		rc.opens++
		rc.mu.Unlock()
		env.glogAdd(fmt.Sprintf("%d.open", rc.id))
		env.bind(c, rc)
		env.mu.Lock()
		plan := env.nextOpen
		env.nextOpen = nil
		env.mu.Unlock()
		if plan != nil {
			plan(c, rc)
		}
		env.openCh <- rc
	})
	g.OnClose(func(c *nbio.Conn, err error) {
		env.mu.Lock()
		rc := env.recs[c]
		if rc == nil {
			env.orphans = append(env.orphans, orphan{c, err})
		}
		env.mu.Unlock()
		if rc != nil {
			env.closeEvent(rc, c, err)
		}
	})
	g.OnData(func(c *nbio.Conn, data []byte) {
		env.mu.Lock()
		rc := env.recs[c]
		env.mu.Unlock()
		if rc != nil {
			env.glogAdd(fmt.Sprintf("%d.data", rc.id))
			select {
			case rc.dataCh <- struct{}{}:
			default:
			}
			rc.mu.Lock()
			h := rc.onData
			rc.mu.Unlock()
			if h != nil {
				h(c, rc)
			}
		}
	})
	old := nbio.MaxOpenFiles
	nbio.MaxOpenFiles = tableSize
	err := g.Start()
	nbio.MaxOpenFiles = old
	if err != nil {
		hx.Fatal("engine start: %v", err)
	}
	env.g = g
	env.addr = g.Addrs[0]
	env.ext, err = net.Listen("tcp", "127.0.0.1:0")
	if err != nil {
		hx.Fatal("listen: %v", err)
	}
	go func() {
		for {
			c, err := env.ext.Accept()
			if err != nil {
				return
			}
			env.extCh <- c
		}
	}()
	return env
}

func (env *realEnv) replay(rc *rec, extra map[string]interface{}) map[string]interface{} {
	m := map[string]interface{}{"harness": "lifecycle", "tier": "real", "seed": env.seed, "mode": env.mode,
		"rerun": "build/bin/lifecycle -only real -seed <seed> -real 1 -model build/ocaml/lifecycle/model -out -"}
	if rc != nil {
		m["origin"], m["scenario"], m["events"], m["expected_cause"] = rc.origin, rc.scenario, rc.events(), rc.expect
		if rc.dialOutcome != "" {
			m["dial_outcome"] = rc.dialOutcome
		}
		if len(rc.notes) > 0 {
			m["notes"] = rc.notes
		}
	}
	for k, v := range extra {
		m[k] = v
	}
	return m
}

func (env *realEnv) oracle(rc *rec, sig, what string) {
	addOracle(env.rep, sig, "["+env.mode+"/"+rc.origin+"/"+rc.scenario+"] "+what, env.replay(rc, nil))
}

func waitCh(ch chan struct{}, d time.Duration) bool {
	select {
	case <-ch:
		return true
	case <-time.After(d):
		return false
	}
}

func (env *realEnv) takePeer() net.Conn {
	select {
	case c := <-env.extCh:
		return c
	case <-time.After(3 * time.Second):
		return nil
	}
}

func (env *realEnv) takeOpen() *rec {
	select {
	case rc := <-env.openCh:
		return rc
	case <-time.After(3 * time.Second):
		return nil
	}
}

// ---- establishing a connection of each origin; returns its record and the peer's end ----

// establish sets the connection up and, when env.warm is set, lets both ends exchange data first: the poller has then
// delivered data and read the descriptor to EAGAIN, and the connection has written, before the termination is applied.
func (env *realEnv) establish(origin string, plan func(c *nbio.Conn, rc *rec)) *rec {
	rc := env.establishRaw(origin, plan)
	if rc == nil || rc.conn == nil {
		return rc
	}
	if isUDPClient(origin) && rc.udpPeer != nil && plan == nil {
		// the peer learns the connection's address from its first datagram
		rc.op("w", func() error { _, err := rc.conn.Write([]byte("hello")); return err })
		rc.udpPeer.SetReadDeadline(time.Now().Add(2 * time.Second))
		buf := make([]byte, 256)
		if _, from, err := rc.udpPeer.ReadFromUDP(buf); err == nil {
			rc.udpFrom = from
		}
		rc.udpPeer.SetReadDeadline(time.Time{})
	}
	if env.warm && plan == nil {
		env.warmUp(rc)
	}
	return rc
}

func (env *realEnv) warmUp(rc *rec) {
	for len(rc.dataCh) > 0 {
		<-rc.dataCh
	}
	rc.peerSend([]byte("warm"))
	if !rc.waitData(2 * time.Second) {
		rc.notes = append(rc.notes, "warm-up: no data callback")
		return
	}
	if rc.origin != "udp-session" {
		rc.op("w", func() error { _, err := rc.conn.Write([]byte("pong")); return err })
		if rc.peer != nil { // the peer takes the answer: unread data would turn its later close into a reset
			rc.peer.SetReadDeadline(time.Now().Add(2 * time.Second))
			io.ReadFull(rc.peer, make([]byte, 4))
			rc.peer.SetReadDeadline(time.Time{})
		}
	}
	time.Sleep(3 * time.Millisecond) // the poller finishes its read pass (EAGAIN) behind the data callback
	rc.warm = true
	env.rep.Stat("real.warm." + rc.origin)
}

func (env *realEnv) newUDPPeer() *net.UDPConn {
	p, err := net.ListenUDP("udp", &net.UDPAddr{IP: net.IPv4(127, 0, 0, 1)})
	if err != nil {
		return nil
	}
	return p
}

func (env *realEnv) establishRaw(origin string, plan func(c *nbio.Conn, rc *rec)) *rec {
	switch origin {
	case "udp-added": // net.DialUDP + AddConn: ConnTypeUDPClientFromDial
		p := env.newUDPPeer()
		if p == nil {
			return nil
		}
		uc, err := net.DialUDP("udp", nil, p.LocalAddr().(*net.UDPAddr))
		if err != nil {
			p.Close()
			return nil
		}
		env.mu.Lock()
		env.nextOpen = plan
		env.mu.Unlock()
		_, aerr := env.g.AddConn(uc)
		var rc *rec
		select {
		case rc = <-env.openCh:
		default:
		}
		if rc == nil {
			p.Close()
			return nil
		}
		rc.origin, rc.udpPeer, rc.peer = "udp-added", p, p
		if aerr != nil {
			rc.notes = append(rc.notes, "AddConn returned "+aerr.Error())
		}
		return rc
	case "udp-dialed": // DialAsync("udp"): connect(2) returns at once, the callback comes through the engine's Async queue
		p := env.newUDPPeer()
		if p == nil {
			return nil
		}
		rc := env.newRec("udp-dialed")
		rc.dialOutcome, rc.udpPeer, rc.peer = "connected", p, p
		if !env.dialNet(rc, "udp", p.LocalAddr().String(), 0) {
			p.Close()
			return nil
		}
		if !waitCh(rc.dialCh, waitClose) {
			env.oracle(rc, "dial-callback-missing-connected", "no dial callback within "+waitClose.String()+" for DialAsync(\"udp\")")
			p.Close()
			return nil
		}
		if plan != nil && rc.conn != nil {
			plan(rc.conn, rc)
		}
		return rc
	case "udp-session":
		env.mu.Lock()
		env.nextOpen = plan
		env.mu.Unlock()
		peer, err := net.Dial("udp", env.addr)
		if err != nil {
			return nil
		}
		peer.Write([]byte("first datagram"))
		rc := env.takeOpen()
		if rc == nil {
			peer.Close()
			return nil
		}
		rc.peer = peer
		return rc
	case "accepted":
		env.mu.Lock()
		env.nextOpen = plan
		env.mu.Unlock()
		peer, err := net.Dial("tcp", env.addr)
		if err != nil {
			return nil
		}
		rc := env.takeOpen()
		if rc == nil {
			peer.Close()
			return nil
		}
		rc.peer = peer
		return rc
	case "added":
		env.mu.Lock()
		env.nextOpen = plan
		env.mu.Unlock()
		nc, err := net.Dial("tcp", env.ext.Addr().String())
		if err != nil {
			return nil
		}
		peer := env.takePeer()
		if peer == nil {
			nc.Close()
			return nil
		}
		_, aerr := env.g.AddConn(nc)
		var rc *rec
		select { // OnOpen runs inside AddConn
		case rc = <-env.openCh:
		default:
		}
		if rc == nil {
			peer.Close()
			return nil
		}
		rc.origin = "added"
		rc.peer = peer
		if aerr != nil {
			rc.notes = append(rc.notes, "AddConn returned "+aerr.Error())
		}
		return rc
	case "dialed":
		rc := env.newRec("dialed")
		rc.dialOutcome = "connected"
		if !env.dial(rc, env.ext.Addr().String(), 0) {
			return nil
		}
		if !waitCh(rc.dialCh, waitClose) {
			env.oracle(rc, "dial-callback-missing-connected", "no dial callback within "+waitClose.String()+" for a dial to a listening port")
			return nil
		}
		peer := env.takePeer()
		if peer == nil {
			return nil
		}
		rc.peer = peer
		if plan != nil && rc.conn != nil {
			plan(rc.conn, rc)
		}
		return rc
	}
	return nil
}

// dial calls DialAsync / DialAsyncTimeout; the acceptance event is logged before any callback can be.
func (env *realEnv) dial(rc *rec, addr string, timeout time.Duration) bool {
	return env.dialNet(rc, "tcp", addr, timeout)
}

func (env *realEnv) dialNet(rc *rec, network, addr string, timeout time.Duration) bool {
	cb := func(c *nbio.Conn, err error) {
		id := errID(err)
		if err == nil {
			id = "ok"
		}
		if c != nil {
			if err == nil {
				rc.inode = socketInode(c.Hash())
				if _, perr := syscall.Getpeername(c.Hash()); perr != nil {
					rc.notes = append(rc.notes, "getpeername after a success callback: "+perr.Error())
					rc.log("unestablished")
				}
			}
			env.mu.Lock()
			known := env.recs[c] == rc
			env.mu.Unlock()
			if !known {
				env.bind(c, rc)
			}
		}
		rc.mu.Lock()
		rc.put("dial:" + id)
		rc.dials++
		rc.dialRes = append(rc.dialRes, id)
		first := rc.dials == 1
		rc.mu.Unlock()
		if first {
			close(rc.dialCh)
		}
	}
	rc.mu.Lock() // events of the callback / close handler are held back until DialAsync's answer is logged
	rc.dialing = true
	rc.mu.Unlock()
	var err error
	if timeout > 0 {
		err = env.g.DialAsyncTimeout(network, addr, timeout, cb)
	} else {
		err = env.g.DialAsync(network, addr, cb)
	}
	rc.mu.Lock()
	rc.dialing = false
	if err == nil {
		rc.openAt = len(rc.evs)
		rc.evs = append(rc.evs, "dstart")
	} else {
		rc.evs = append(rc.evs, "drej:"+errID(err))
	}
	rc.evs = append(rc.evs, rc.held...)
	rc.held = nil
	rc.mu.Unlock()
	return err == nil
}

// ---- terminations ----
type scenario struct {
	name    string
	origins []string
	run     func(env *realEnv, origin string, rnd *rand.Rand)
}

var all3 = []string{"accepted", "added", "dialed"}
var udpClients = []string{"udp-added", "udp-dialed"}
var all5 = []string{"accepted", "added", "dialed", "udp-added", "udp-dialed"}
var noDial = []string{"accepted", "added", "udp-added"}

func isDialed(origin string) bool { return origin == "dialed" || origin == "udp-dialed" }

func drainPeer(p net.Conn) {
	go func() {
		buf := make([]byte, 1<<16)
		for {
			if _, err := p.Read(buf); err != nil {
				return
			}
		}
	}()
}

func sendfileTo(c *nbio.Conn) error {
	f, err := os.Open(realFile.Name())
	if err != nil {
		return nil
	}
	defer f.Close()
	_, err = c.Sendfile(f, 64)
	return err
}

var realFile *os.File

// opsAfterClose: every operation begun after Close returned must answer the closed indication.
func (env *realEnv) opsAfterClose(rc *rec) {
	c := rc.conn
	res := map[string]string{}
	res["write"] = rc.op("w", func() error { _, err := c.Write([]byte("late")); return err })
	res["writev"] = rc.op("v", func() error { _, err := c.Writev([][]byte{[]byte("la"), []byte("te")}); return err })
	res["sendfile"] = rc.op("s", func() error { return sendfileTo(c) })
	res["read"] = rc.op("r", func() error { _, err := c.Read(make([]byte, 8)); return err })
	res["execute"] = rc.op("x", func() error {
		if c.Execute(func() {}) {
			return nil
		}
		return net.ErrClosed
	})
	for k, v := range res {
		if v != "closed" {
			env.oracle(rc, "op-after-close-"+k, k+" begun after Close had returned answered "+v+" instead of the closed indication")
		}
	}
	if closed, _ := c.IsClosed(); !closed {
		env.oracle(rc, "op-after-close-isclosed", "IsClosed is false after Close returned")
	}
	if err := c.SetDeadline(time.Now().Add(time.Hour)); err != nil {
		env.oracle(rc, "op-after-close-setdeadline", "SetDeadline after Close returned "+err.Error())
	}
	env.rep.Stat("real.ops-after-close")
}

func allow(rc *rec, cause string, errs ...error) {
	rc.expect = cause
	for _, e := range errs {
		rc.allowed[errID(e)] = true
	}
	if rc.origin == "udp-session" {
		// every session carries the engine's idle timeout; a stalled machine may let it win
		rc.allowed[errID(nbio.ErrReadTimeout)] = true
	}
}

var scenarios = []scenario{
	{"peer-close", all3, func(env *realEnv, origin string, rnd *rand.Rand) {
		rc := env.establish(origin, nil)
		if rc == nil {
			return
		}
		rc.scenario = "peer-close"
		allow(rc, "peer-close", io.EOF)
		rc.peer.Close()
		env.finish(rc)
	}},
	{"peer-reset", all3, func(env *realEnv, origin string, rnd *rand.Rand) {
		rc := env.establish(origin, nil)
		if rc == nil {
			return
		}
		rc.scenario = "peer-reset"
		allow(rc, "peer-reset", io.EOF, syscall.ECONNRESET)
		if tc, ok := rc.peer.(*net.TCPConn); ok {
			tc.SetLinger(0)
		}
		rc.peer.Close()
		env.finish(rc)
	}},
	{"concurrent-close", all5, func(env *realEnv, origin string, rnd *rand.Rand) {
		rc := env.establish(origin, nil)
		if rc == nil {
			return
		}
		rc.scenario = "concurrent-close"
		allow(rc, "close", nil)
		drainPeer(rc.peer)
		env.raceClose(rc, rnd, func(i int) error { return nil })
		env.finish(rc)
	}},
	{"concurrent-close-with-error", all5, func(env *realEnv, origin string, rnd *rand.Rand) {
		rc := env.establish(origin, nil)
		if rc == nil {
			return
		}
		rc.scenario = "concurrent-close-with-error"
		allow(rc, "close-with-error", userErrs...)
		drainPeer(rc.peer)
		env.raceClose(rc, rnd, func(i int) error { return userErrs[i%len(userErrs)] })
		env.finish(rc)
	}},
	{"read-deadline", all5, func(env *realEnv, origin string, rnd *rand.Rand) {
		rc := env.establish(origin, nil)
		if rc == nil {
			return
		}
		rc.scenario = "read-deadline"
		allow(rc, "read-deadline", nbio.ErrReadTimeout)
		rc.conn.SetReadDeadline(time.Now().Add(time.Duration(10+rnd.Intn(30)) * time.Millisecond))
		env.finish(rc)
	}},
	{"write-deadline", all5, func(env *realEnv, origin string, rnd *rand.Rand) {
		rc := env.establish(origin, nil)
		if rc == nil {
			return
		}
		rc.scenario = "write-deadline"
		allow(rc, "write-deadline", nbio.ErrWriteTimeout)
		if isUDPClient(origin) {
			// a datagram socket never keeps a backlog: the timer stays armed as long as nothing is written
			rc.conn.SetWriteDeadline(time.Now().Add(time.Duration(10+rnd.Intn(30)) * time.Millisecond))
			env.finish(rc)
			return
		}
		rc.conn.SetWriteBuffer(4096)
		if tc, ok := rc.peer.(*net.TCPConn); ok {
			tc.SetReadBuffer(4096)
		}
		rc.conn.SetWriteDeadline(time.Now().Add(time.Duration(20+rnd.Intn(30)) * time.Millisecond))
		// a backlog towards a peer that does not read keeps the write timer armed
		rc.op("w", func() error { _, err := rc.conn.Write(make([]byte, realMaxWrite-1)); return err })
		env.finish(rc)
	}},
	{"deadline-both", all5, func(env *realEnv, origin string, rnd *rand.Rand) {
		rc := env.establish(origin, nil)
		if rc == nil {
			return
		}
		rc.scenario = "deadline-both"
		allow(rc, "deadline", nbio.ErrReadTimeout, nbio.ErrWriteTimeout)
		rc.conn.SetDeadline(time.Now().Add(time.Duration(10+rnd.Intn(20)) * time.Millisecond))
		env.finish(rc)
	}},
	{"overflow-write", all5, func(env *realEnv, origin string, rnd *rand.Rand) {
		rc := env.establish(origin, nil)
		if rc == nil {
			return
		}
		rc.scenario = "overflow-write"
		allow(rc, "overflow", nbio.ErrOverflow)
		res := rc.op("w", func() error { _, err := rc.conn.Write(make([]byte, realMaxWrite+1+rnd.Intn(100))); return err })
		if res != "err:12" {
			env.oracle(rc, "overflow-not-reported-write", "Write beyond MaxWriteBufferSize answered "+res)
		}
		env.finish(rc)
	}},
	{"overflow-writev", all5, func(env *realEnv, origin string, rnd *rand.Rand) {
		rc := env.establish(origin, nil)
		if rc == nil {
			return
		}
		rc.scenario = "overflow-writev"
		allow(rc, "overflow", nbio.ErrOverflow)
		res := rc.op("v", func() error {
			_, err := rc.conn.Writev([][]byte{make([]byte, realMaxWrite/2+1), make([]byte, realMaxWrite/2+1+rnd.Intn(100))})
			return err
		})
		if res != "err:12" {
			env.oracle(rc, "overflow-not-reported-writev", "Writev beyond MaxWriteBufferSize answered "+res)
		}
		env.finish(rc)
	}},
	{"write-failure", all3, func(env *realEnv, origin string, rnd *rand.Rand) {
		rc := env.establish(origin, nil)
		if rc == nil {
			return
		}
		rc.scenario = "write-failure"
		// the peer is gone: the first to notice - a failing write (EPIPE / ECONNRESET) or the poller (EOF / ECONNRESET) - is the cause
		allow(rc, "write-failure", syscall.EPIPE, syscall.ECONNRESET, io.EOF)
		if tc, ok := rc.peer.(*net.TCPConn); ok {
			tc.SetLinger(0)
		}
		rc.peer.Close()
		for i := 0; i < 200; i++ {
			res := rc.op("w", func() error { _, err := rc.conn.Write([]byte("into the void")); return err })
			if res != "done" {
				break
			}
		}
		env.finish(rc)
	}},
	{"udp-refused", udpClients, func(env *realEnv, origin string, rnd *rand.Rand) {
		rc := env.establish(origin, nil)
		if rc == nil {
			return
		}
		rc.scenario = "udp-refused"
		// the peer's port is closed: the ICMP answer to the next datagram becomes the socket's pending error; the poller's
		// error event (EOF) or a failing write (ECONNREFUSED) closes the connection, whichever comes first
		allow(rc, "udp-refused", syscall.ECONNREFUSED, io.EOF)
		rc.udpPeer.Close()
		for i := 0; i < 100; i++ {
			res := rc.op("w", func() error { _, err := rc.conn.Write([]byte("to a closed port")); return err })
			if res != "done" {
				break
			}
			time.Sleep(2 * time.Millisecond)
		}
		env.finish(rc)
	}},
	{"close-in-onopen", noDial, func(env *realEnv, origin string, rnd *rand.Rand) {
		rc := env.establish(origin, func(c *nbio.Conn, rc *rec) {
			rc.scenario = "close-in-onopen"
			allow(rc, "close", nil)
			rc.closeCall(nil)
		})
		if rc == nil {
			return
		}
		env.finish(rc)
		env.opsAfterClose(rc)
	}},
	{"close-in-ondata", all5, func(env *realEnv, origin string, rnd *rand.Rand) {
		rc := env.establish(origin, nil)
		if rc == nil {
			return
		}
		rc.scenario = "close-in-ondata"
		allow(rc, "close", nil)
		rc.mu.Lock()
		rc.onData = func(c *nbio.Conn, rc *rec) { rc.closeCall(nil) }
		rc.mu.Unlock()
		rc.peerSend([]byte("x"))
		env.finish(rc)
		env.opsAfterClose(rc)
	}},
	{"close-in-onclose", all5, func(env *realEnv, origin string, rnd *rand.Rand) {
		rc := env.establish(origin, nil)
		if rc == nil {
			return
		}
		rc.scenario = "close-in-onclose"
		allow(rc, "close-with-error", userErrs[3])
		rc.mu.Lock()
		rc.inClose = func(c *nbio.Conn, rc *rec) {
			rc.closeCall(nil) // a Close from inside the close handler
			rc.op("w", func() error { _, err := c.Write([]byte("from onclose")); return err })
		}
		rc.mu.Unlock()
		rc.closeCall(userErrs[3])
		env.finish(rc)
	}},
}

// raceClose: n goroutines call Close / CloseWithError at once while writers, a vectored writer, Sendfile, Execute and
// deadline setters keep using the connection.
func (env *realEnv) raceClose(rc *rec, rnd *rand.Rand, cause func(i int) error) {
	c := rc.conn
	n := 1 + rnd.Intn(8)
	nw := rnd.Intn(4)
	start := make(chan struct{})  // releases the writers
	cstart := make(chan struct{}) // releases the closers
	var wg sync.WaitGroup
	stop := make(chan struct{})
	for i := 0; i < nw; i++ {
		wg.Add(1)
		kind := rnd.Intn(5)
		if rc.origin == "udp-session" || isUDPClient(rc.origin) {
			kind = []int{0, 3, 4}[rnd.Intn(3)] // no vectored writes / sendfile on datagram sockets
		}
		go func() {
			defer wg.Done()
			<-start
			for j := 0; j < 400; j++ {
				select {
				case <-stop:
					return
				default:
				}
				var res string
				switch kind {
				case 0:
					res = rc.op("w", func() error { _, err := c.Write([]byte("0123456789")); return err })
				case 1:
					res = rc.op("v", func() error { _, err := c.Writev([][]byte{[]byte("01234"), []byte("56789")}); return err })
				case 2:
					res = rc.op("s", func() error { return sendfileTo(c) })
				case 3:
					res = rc.op("x", func() error {
						if c.Execute(func() {}) {
							return nil
						}
						return net.ErrClosed
					})
				case 4:
					c.SetDeadline(time.Now().Add(time.Hour))
					res = "done"
				}
				if res == "closed" {
					return
				}
				if res != "done" {
					env.oracle(rc, "racing-op-unexpected-result", "an operation racing Close answered "+res)
					return
				}
			}
		}()
	}
	var cw sync.WaitGroup
	for i := 0; i < n; i++ {
		cw.Add(1)
		e := cause(i)
		go func() {
			defer cw.Done()
			<-cstart
			rc.closeCall(e)
		}()
	}
	close(start)
	if nw > 0 && rnd.Intn(3) > 0 {
		time.Sleep(time.Duration(50+rnd.Intn(1500)) * time.Microsecond) // the writers get a head start
	}
	close(cstart)
	cw.Wait()
	env.opsAfterClose(rc)
	close(stop)
	wg.Wait()
	env.rep.StatN("real.racing-closers", n)
	env.rep.StatN("real.racing-writers", nw)
}

// finish waits for the close notification that is owed and checks the record.
func (env *realEnv) finish(rc *rec) {
	if !waitCh(rc.closedCh, waitClose) {
		env.oracle(rc, "close-never-notified-"+rc.expect, "no close notification within "+waitClose.String())
	}
	if rc.peer != nil {
		rc.peer.Close()
	}
}

// check runs the per-connection oracle and the model's log checker; called when everything has settled.
func (env *realEnv) check(rc *rec) {
	evs := rc.events()
	rep := env.rep
	if rc.scenario == "" {
		rc.scenario = "unnamed"
	}
	rep.Case(fmt.Sprintf("%s/%s/%s", env.mode, rc.origin, rc.scenario), true)
	rep.Ops += len(evs)
	rep.Stat("real." + rc.origin + "." + rc.scenario)
	idx := func(prefix string) int {
		for i, e := range evs {
			if strings.HasPrefix(e, prefix) {
				return i
			}
		}
		return -1
	}
	iOpen, iClose, iDial, iStart := idx("open"), idx("close:"), idx("dial:"), idx("dstart")
	rejected := idx("drej:") >= 0
	if rc.closes > 1 {
		env.oracle(rc, "close-notified-twice", fmt.Sprintf("%d close notifications (%v)", rc.closes, rc.closeErr))
	}
	if !isDialed(rc.origin) {
		if rc.opens != 1 {
			env.oracle(rc, "open-count", fmt.Sprintf("%d open notifications", rc.opens))
		}
		if iClose >= 0 && (iOpen < 0 || iClose < iOpen) {
			env.oracle(rc, "close-before-open", "the close notification precedes the open notification")
		}
		if rc.dials > 0 {
			env.oracle(rc, "dial-callback-on-accepted-conn", "dial callback for a connection that was not dialed")
		}
	} else if !rejected {
		if iClose >= 0 && (iStart < 0 || iClose < iStart) {
			env.oracle(rc, "close-before-open", "the close notification precedes DialAsync's acceptance of the dial")
		}
		if rc.dials > 1 {
			env.oracle(rc, "dial-callback-twice", fmt.Sprintf("dial callback invoked %d times (%v)", rc.dials, rc.dialRes))
		}
		if rc.dials == 0 {
			env.oracle(rc, "dial-callback-missing-"+rc.dialOutcome, "the dial callback was never invoked")
		}
		if rc.dials >= 1 && rc.dialRes[0] == "ok" {
			if rc.dialOutcome != "connected" || idx("unestablished") >= 0 {
				env.oracle(rc, "dial-reports-success-"+rc.dialOutcome, "the dial callback reported success but the connection is not established (getpeername fails / the peer does not exist)")
			}
		}
		if iClose >= 0 && iDial >= 0 && iClose < iDial {
			// legal for the model (a close winning the flag while the poller holds the completion), never seen on a real engine
			rep.Stat("real.close-notified-before-dial-callback")
		}
	}
	if !rejected && rc.closes == 0 {
		env.oracle(rc, "close-never-notified-"+rc.expect, "the engine has stopped and this connection never got its close notification")
	}
	if rc.closes >= 1 && len(rc.allowed) > 0 && !rc.allowed[rc.closeErr[0]] {
		env.oracle(rc, "wrong-close-error-"+rc.expect, fmt.Sprintf("notified error %s; the cause applied by the scenario allows %v", errName(rc.closeErr[0]), keys(rc.allowed)))
	}
	if rc.closes >= 1 {
		// a fatal operation error found the connection open: it is the first cause
		for _, e := range evs {
			if strings.HasPrefix(e, "op:") && strings.Contains(e, ":err:") {
				id := e[strings.LastIndex(e, ":")+1:]
				if id != rc.closeErr[0] {
					env.oracle(rc, "wrong-close-error-"+rc.expect, fmt.Sprintf("an operation failed with %s on the open connection but %s was notified", errName(id), errName(rc.closeErr[0])))
				}
			}
		}
	}
	// IsClosed agrees with the notification: inside the close handler and when everything has settled
	for _, b := range rc.isClosedBad {
		env.oracle(rc, "isclosed-differs-from-notified-"+rc.expect, b)
	}
	if rc.closes >= 1 && rc.conn != nil {
		if cl, ce := rc.conn.IsClosed(); !cl || errID(ce) != rc.closeErr[0] {
			env.oracle(rc, "isclosed-differs-from-notified-"+rc.expect, fmt.Sprintf("notified %s, IsClosed() = (%v, %s) after everything settled", errName(rc.closeErr[0]), cl, errName(errID(ce))))
		}
	}
	// descriptor gone
	if rc.inode != "" && strings.HasPrefix(rc.inode, "socket:") {
		gone := false
		for i := 0; i < 100; i++ {
			if !inodeOpen(rc.inode) {
				gone = true
				break
			}
			time.Sleep(10 * time.Millisecond)
		}
		if !gone {
			env.oracle(rc, "fd-leaked", "the connection's socket "+rc.inode+" is still open one second after everything settled")
		}
	}
	// the model's checker
	if model != nil && !rejected {
		var l []string
		for _, e := range evs {
			if e != "unestablished" {
				l = append(l, e)
			}
		}
		ans := model.Ask("log %s", strings.Join(l, " "))
		rep.Stat("real.logs-checked")
		if ans != "legal complete" {
			rep.Add(hx.Finding{Kind: "mismatch", Property: prop, Signature: "lifecycle-log",
				What:   "[" + env.mode + "/" + rc.origin + "/" + rc.scenario + "] the connection's event log is not a (complete) behaviour of the model: checker says " + ans,
				Replay: env.replay(rc, nil)})
		}
	}
	if os.Getenv("LC_DUMP") != "" {
		fmt.Fprintf(os.Stderr, "%s/%s/%s: %s %v\n", env.mode, rc.origin, rc.scenario, strings.Join(evs, " "), rc.notes)
	}
	if len(rep.Samples) < 5 {
		rep.Sample(map[string]interface{}{"tier": "real", "mode": env.mode, "origin": rc.origin, "scenario": rc.scenario, "events": evs})
	}
}

// stopEnv leaves one connection of each origin open, stops the engine under a watchdog and checks every record.
func (env *realEnv) stopEnv(extraBeforeStop func()) {
	for drained := false; !drained; { // records of open handlers nobody waited for
		select {
		case <-env.openCh:
		default:
			drained = true
		}
	}
	var open []*rec
	origins := all5
	if strings.HasSuffix(env.mode, "/udp") {
		origins = []string{"udp-session", "udp-session"}
	}
	for _, o := range origins {
		if rc := env.establish(o, nil); rc != nil {
			rc.scenario = "engine-stop"
			allow(rc, "engine-stop", nil)
			open = append(open, rc)
		}
	}
	if extraBeforeStop != nil {
		extraBeforeStop()
	}
	done := make(chan struct{})
	go func() { env.g.Stop(); close(done) }()
	select {
	case <-done:
	case <-time.After(stopWatchdog):
		env.rep.Add(hx.Finding{Kind: "oracle", Property: prop, Signature: "stop-hangs", What: "[" + env.mode + "] Engine.Stop did not return within " + stopWatchdog.String(), Replay: env.replay(nil, nil)})
		return
	}
	env.ext.Close()
	time.Sleep(30 * time.Millisecond)
	for _, rc := range open {
		if rc.peer != nil {
			rc.peer.Close()
		}
	}
	env.mu.Lock()
	all := append([]*rec{}, env.all...)
	orph := len(env.orphans)
	env.mu.Unlock()
	for _, rc := range all {
		env.check(rc)
	}
	if orph > 0 {
		env.rep.Add(hx.Finding{Kind: "oracle", Property: prop, Signature: "close-notified-unknown-conn", What: fmt.Sprintf("[%s] %d close notifications for connections that were never opened / never reported by a dial callback", env.mode, orph), Replay: env.replay(nil, nil)})
	}
}

// ---- dial outcomes other than "connected" ----

// blackhole is a listening socket whose accept queue is full: further connects stay in SYN_SENT.
type blackhole struct {
	fd      int
	addr    string
	fillers []int
}

func newBlackhole() *blackhole {
	fd, err := syscall.Socket(syscall.AF_INET, syscall.SOCK_STREAM, 0)
	if err != nil {
		return nil
	}
	sa := &syscall.SockaddrInet4{Addr: [4]byte{127, 0, 0, 1}}
	if syscall.Bind(fd, sa) != nil || syscall.Listen(fd, 0) != nil {
		syscall.Close(fd)
		return nil
	}
	ls, _ := syscall.Getsockname(fd)
	port := ls.(*syscall.SockaddrInet4).Port
	b := &blackhole{fd: fd, addr: fmt.Sprintf("127.0.0.1:%d", port)}
	dst := &syscall.SockaddrInet4{Addr: [4]byte{127, 0, 0, 1}, Port: port}
	for i := 0; i < 4; i++ {
		f, err := syscall.Socket(syscall.AF_INET, syscall.SOCK_STREAM, 0)
		if err != nil {
			break
		}
		syscall.SetNonblock(f, true)
		syscall.Connect(f, dst)
		b.fillers = append(b.fillers, f)
	}
	time.Sleep(20 * time.Millisecond)
	// probe: a further connect must still be in progress after 150 ms
	p, err := syscall.Socket(syscall.AF_INET, syscall.SOCK_STREAM, 0)
	if err != nil {
		b.close()
		return nil
	}
	syscall.SetNonblock(p, true)
	syscall.Connect(p, dst)
	b.fillers = append(b.fillers, p)
	time.Sleep(150 * time.Millisecond)
	if _, err := syscall.Getpeername(p); err == nil {
		b.close()
		return nil // this kernel completed the handshake: no blackhole available
	}
	return b
}

func (b *blackhole) close() {
	for _, f := range b.fillers {
		syscall.Close(f)
	}
	syscall.Close(b.fd)
}

func closedPort() string {
	ln, err := net.Listen("tcp", "127.0.0.1:0")
	if err != nil {
		hx.Fatal("listen: %v", err)
	}
	a := ln.Addr().String()
	ln.Close()
	return a
}

func (env *realEnv) dialOutcomes(rnd *rand.Rand, bh *blackhole) (pending []*rec) {
	// refused: a closed port
	for i := 0; i < 2; i++ {
		rc := env.newRec("dialed")
		rc.scenario, rc.dialOutcome = "dial-refused", "refused"
		allow(rc, "dial-refused", syscall.ECONNREFUSED)
		var to time.Duration
		if i == 1 {
			to = time.Second
		}
		if env.dial(rc, closedPort(), to) {
			if !waitCh(rc.dialCh, waitClose) {
				env.oracle(rc, "dial-callback-missing-refused", "no dial callback within "+waitClose.String()+" for a dial to a closed port")
			}
			env.finish(rc)
			if rc.dials >= 1 && rc.dialRes[0] != errID(syscall.ECONNREFUSED) && rc.dialRes[0] != "ok" {
				env.oracle(rc, "dial-wrong-error-refused", "a refused dial reported "+errName(rc.dialRes[0]))
			}
		} else {
			rc.scenario = "dial-refused-immediately" // connect(2) itself failed: reported by the return value only
		}
	}
	// an address that cannot be parsed: reported by the return value only
	{
		rc := env.newRec("dialed")
		rc.scenario, rc.dialOutcome = "dial-bad-address", "rejected"
		if env.dial(rc, "127.0.0.1:notaport", 0) {
			env.oracle(rc, "dial-accepted-bad-address", "DialAsync accepted an address without a port number")
		}
		time.Sleep(5 * time.Millisecond)
		if rc.dials > 0 {
			env.oracle(rc, "dial-rejected-callback-also-invoked", "DialAsync returned an error and invoked the callback as well")
		}
	}
	if bh != nil {
		// timed out
		rc := env.newRec("dialed")
		rc.scenario, rc.dialOutcome = "dial-timeout", "timeout"
		allow(rc, "dial-timeout", nbio.ErrDialTimeout)
		if env.dial(rc, bh.addr, time.Duration(30+rnd.Intn(40))*time.Millisecond) {
			if !waitCh(rc.dialCh, waitClose) {
				env.oracle(rc, "dial-callback-missing-timeout", "no dial callback within "+waitClose.String()+" for DialAsyncTimeout to a listener that never completes the handshake")
			}
			env.finish(rc)
			if rc.dials >= 1 && rc.dialRes[0] != "13" && rc.dialRes[0] != "ok" {
				env.oracle(rc, "dial-wrong-error-timeout", "a timed-out dial reported "+errName(rc.dialRes[0]))
			}
		}
		// still pending when the engine stops
		rc2 := env.newRec("dialed")
		rc2.scenario, rc2.dialOutcome = "dial-closed-while-pending", "closed-while-pending"
		allow(rc2, "engine-stop", nil)
		if env.dial(rc2, bh.addr, 0) {
			pending = append(pending, rc2)
		}
		env.rep.Stat("real.blackhole-available")
	} else {
		env.rep.Stat("real.blackhole-unavailable")
	}
	return pending
}

// rejected registrations: an engine whose connection table is smaller than the descriptors in use
func rejectedCase(rep *hx.Report, seed int64, mode string) {
	env := startEnv(rep, seed, mode, 8)
	// AddConn: refused, never opened, never notified, descriptor closed
	nc, err := net.Dial("tcp", env.ext.Addr().String())
	if err == nil {
		peer := env.takePeer()
		_, aerr := env.g.AddConn(nc)
		rc := env.newRec("added")
		rc.scenario = "addconn-rejected"
		rep.Case(mode+"/added/addconn-rejected", true)
		rep.Stat("real.added.addconn-rejected")
		if aerr == nil {
			env.oracle(rc, "addconn-accepted-beyond-table", "AddConn accepted a descriptor beyond the connection table")
		}
		time.Sleep(20 * time.Millisecond)
		select {
		case <-env.openCh:
			env.oracle(rc, "open-notified-rejected-conn", "open notification for a connection AddConn rejected")
		default:
		}
		env.mu.Lock()
		no := len(env.orphans)
		env.mu.Unlock()
		if no > 0 {
			env.oracle(rc, "close-notified-unregistered", "close notification for a connection AddConn rejected (it never had an open notification)")
		}
		if peer != nil {
			peer.SetReadDeadline(time.Now().Add(2 * time.Second))
			if _, rerr := peer.Read(make([]byte, 1)); rerr == nil || isTimeout(rerr) {
				env.oracle(rc, "fd-leaked", "the rejected connection's descriptor was not closed (its peer sees no EOF)")
			}
			peer.Close()
		}
	}
	// DialAsync: the failure must be reported once
	rc := env.newRec("dialed")
	rc.scenario, rc.dialOutcome = "dial-rejected", "rejected"
	rep.Case(mode+"/dialed/dial-rejected", true)
	rep.Stat("real.dialed.dial-rejected")
	if env.dial(rc, env.ext.Addr().String(), 0) {
		env.oracle(rc, "dial-accepted-beyond-table", "DialAsync accepted a descriptor beyond the connection table")
	}
	time.Sleep(30 * time.Millisecond)
	if rc.dials > 0 {
		env.oracle(rc, "dial-rejected-callback-also-invoked", fmt.Sprintf("DialAsync returned %q (fd beyond the connection table) and ALSO invoked the callback with it: the outcome is reported twice",
			strings.Join(rc.events(), " ")))
	}
	select {
	case p := <-env.extCh:
		p.Close()
	case <-time.After(50 * time.Millisecond):
	}
	done := make(chan struct{})
	go func() { env.g.Stop(); close(done) }()
	select {
	case <-done:
	case <-time.After(stopWatchdog):
		rep.Add(hx.Finding{Kind: "oracle", Property: prop, Signature: "stop-hangs", What: "[" + mode + "] Engine.Stop did not return after rejected registrations", Replay: env.replay(rc, nil)})
	}
	env.ext.Close()
}

// ---- UDP peer sessions (ConnTypeUDPClientFromRead: created by the server socket's read, closed like any connection) ----
var udpScenarios = map[string]bool{"concurrent-close": true, "concurrent-close-with-error": true, "close-in-ondata": true,
	"close-in-onclose": true, "read-deadline": true}

var syncExecScenarios = map[string]bool{"peer-close": true, "peer-reset": true, "write-failure": true, "close-in-ondata": true,
	"concurrent-close": true, "udp-refused": true}

var fdBaselineInvalid bool // an engine had to be abandoned (its poller is blocked): the descriptor count is meaningless

// udpTableHistory: a sequential history of datagrams from a few remotes and closes of their sessions against one UDP
// listener; the open / data / close events of all sessions and the final address -> session table are compared with the
// extracted model of the listener's session table (UdpSessions.v), and the oracle checks "same address -> same session
// until it is closed, then a new one" directly.
func udpTableHistory(rep *hx.Report, seed int64, round int, mode string, rnd *rand.Rand) {
	udpIdle = 0
	env := startEnvNet(rep, seed, mode, 1<<16, "udp")
	udpIdle = udpReadTimeout
	const npeers = 3
	var peers []net.Conn
	for i := 0; i < npeers; i++ {
		p, err := net.Dial("udp", env.addr)
		if err != nil {
			return
		}
		defer p.Close()
		peers = append(peers, p)
	}
	live := map[int]*rec{} // peer -> its session that has not been closed by the harness
	var acts, steps []string
	var want []string // oracle: expected events
	nsteps := 8 + rnd.Intn(10)
	ok := true
	for i := 0; i < nsteps && ok; i++ {
		p := rnd.Intn(npeers)
		from := env.glogLen()
		if rc := live[p]; rc != nil && rnd.Intn(3) == 0 {
			cause := userErrs[rnd.Intn(len(userErrs))]
			steps = append(steps, fmt.Sprintf("close(session of peer %d, %s)", p, errName(errID(cause))))
			acts = append(acts, fmt.Sprintf("s %d cl 1 %s 1 ; s %d td 1 ; s %d job", rc.id, errID(cause), rc.id, rc.id))
			rc.scenario = "table-history"
			allow(rc, "close-with-error", cause)
			rc.closeCall(cause)
			ok = env.glogWait(from, fmt.Sprintf("%d.close:", rc.id), 3*time.Second)
			want = append(want, fmt.Sprintf("%d.close:%s", rc.id, errID(cause)))
			delete(live, p)
			continue
		}
		steps = append(steps, fmt.Sprintf("datagram(peer %d)", p))
		acts = append(acts, fmt.Sprintf("d %d", p))
		peers[p].Write([]byte("datagram"))
		ok = env.glogWait(from, ".data", 3*time.Second)
		if rc := live[p]; rc != nil {
			want = append(want, fmt.Sprintf("%d.data", rc.id))
		} else {
			select {
			case rc := <-env.openCh:
				rc.scenario = "table-history"
				allow(rc, "engine-stop", nil)
				rc.peer = nil
				live[p] = rc
				want = append(want, fmt.Sprintf("%d.open", rc.id), fmt.Sprintf("%d.data", rc.id))
			case <-time.After(3 * time.Second):
				ok = false
			}
		}
	}
	time.Sleep(5 * time.Millisecond)
	env.mu.Lock()
	got := append([]string{}, env.glog...)
	env.mu.Unlock()
	replay := env.replay(nil, map[string]interface{}{"scenario": "udp-table-history", "steps": steps, "observed": got})
	rep.Case(fmt.Sprintf("%s/udp-table/%v", env.mode, steps), true)
	rep.Stat("real.udp-table-history")
	if !ok {
		addOracle(rep, "udp-session-event-missing", "["+env.mode+"] a datagram / close produced no data / close event within 3 s: "+strings.Join(got, " "), replay)
	} else if strings.Join(got, " ") != strings.Join(want, " ") {
		addOracle(rep, "udp-session-table", "["+env.mode+"] same address -> same session until it is closed, then a new one: expected events "+
			strings.Join(want, " ")+" but observed "+strings.Join(got, " "), replay)
	}
	if model != nil && ok {
		ans := model.Ask("urun %s", strings.Join(acts, " ; "))
		var mev []string
		body, tail := ans, ""
		if i := strings.Index(ans, "|"); i >= 0 {
			body, tail = ans[:i], strings.TrimSpace(ans[i+1:])
		}
		for _, part := range strings.Split(body, ";") {
			for _, e := range strings.Fields(part) {
				if !strings.HasSuffix(e, ".cret") {
					mev = append(mev, e)
				}
			}
		}
		// the table: address -> session
		var tb []string
		for p := 0; p < npeers; p++ {
			if rc := live[p]; rc != nil {
				tb = append(tb, fmt.Sprintf("%d:%d", p, rc.id))
			}
		}
		mt := strings.TrimPrefix(strings.Fields(tail + " tbl=")[0], "tbl=")
		mtab := strings.Split(mt, ",")
		if mt == "" {
			mtab = nil
		}
		sortStrings(mtab)
		sortStrings(tb)
		if strings.Join(mev, " ") != strings.Join(got, " ") || strings.Join(mtab, ",") != strings.Join(tb, ",") {
			rep.Add(hx.Finding{Kind: "mismatch", Property: prop, Signature: "lifecycle-udp-table",
				What: "[" + env.mode + "] UDP listener history replayed through the model: events / table differ\n model:          " + strings.Join(mev, " ") + " | " + strings.Join(mtab, ",") +
					"\n implementation: " + strings.Join(got, " ") + " | " + strings.Join(tb, ","),
				Replay: replay})
		}
		rep.Stat("real.udp-table-model-checked")
	}
	env.stopEnv(nil)
}

func sortStrings(a []string) {
	for i := 1; i < len(a); i++ {
		for j := i; j > 0 && a[j] < a[j-1]; j-- {
			a[j], a[j-1] = a[j-1], a[j]
		}
	}
}

// udpIdleStress: a UDP listener whose sessions time out almost at once (Config.UDPReadTimeout of 1 ns to some microseconds), many
// remotes sending one datagram each. The idle timer's close must never overtake the open notification (D38: readUDP used to arm
// the timer before it ran the open handler), and every session gets exactly one of each.
func udpIdleStress(rep *hx.Report, seed int64, mode string, idle time.Duration, nsess int) {
	em, os1, async := epollCfg(mode)
	g := nbio.NewEngine(nbio.Config{Network: "udp", Addrs: []string{"127.0.0.1:0"}, NPoller: 1, EpollMod: em, EPOLLONESHOT: os1,
		AsyncReadInPoller: async, UDPReadTimeout: idle})
	type sst struct {
		opens, closes int
		closeFirst    bool
		err           string
	}
	var mu sync.Mutex
	m := map[*nbio.Conn]*sst{}
	nclosed := 0
	get := func(c *nbio.Conn) *sst {
		x := m[c]
		if x == nil {
			x = &sst{}
			m[c] = x
		}
		return x
	}
	g.OnOpen(func(c *nbio.Conn) {
		mu.Lock()
		get(c).opens++
		mu.Unlock()
	})
	g.OnClose(func(c *nbio.Conn, err error) {
		mu.Lock()
		x := get(c)
		if x.opens == 0 {
			x.closeFirst = true
		}
		x.closes++
		x.err = errID(err)
		nclosed++
		mu.Unlock()
	})
	if err := g.Start(); err != nil {
		return
	}
	addr := g.Addrs[0]
	for i := 0; i < nsess; i++ {
		p, err := net.Dial("udp", addr)
		if err != nil {
			continue
		}
		p.Write([]byte("x"))
		p.Close()
		if i%64 == 63 {
			time.Sleep(200 * time.Microsecond) // keep the listener's receive buffer from overflowing
		}
	}
	for i := 0; i < 300; i++ { // every session times out by itself
		mu.Lock()
		done := nclosed >= len(m) && len(m) > 0
		mu.Unlock()
		if done && i > 5 {
			break
		}
		time.Sleep(10 * time.Millisecond)
	}
	stopped := make(chan struct{})
	go func() { g.Stop(); close(stopped) }()
	replay := map[string]interface{}{"harness": "lifecycle", "tier": "real", "seed": seed, "mode": mode + "/udp", "scenario": "udp-idle-stress",
		"UDPReadTimeout_ns": idle.Nanoseconds(), "remotes_sending_one_datagram_each": nsess,
		"rerun": "build/bin/lifecycle -only real -seed <seed> -real <rounds> -model build/ocaml/lifecycle/model -out -"}
	select {
	case <-stopped:
	case <-time.After(stopWatchdog):
		addOracle(rep, "stop-hangs", "["+mode+"/udp] Engine.Stop did not return after the idle-timeout stress", replay)
		fdBaselineInvalid = true
		return
	}
	time.Sleep(5 * time.Millisecond)
	mu.Lock()
	defer mu.Unlock()
	inv, badCount, badErr := 0, 0, 0
	for _, x := range m {
		if x.closeFirst {
			inv++
		}
		if x.opens != 1 || x.closes != 1 {
			badCount++
		}
		if x.closes >= 1 && x.err != errID(nbio.ErrReadTimeout) && x.err != "nil" {
			badErr++
		}
	}
	rep.Case(fmt.Sprintf("%s/udp-idle-stress/%v", mode, idle), len(m) > 0)
	rep.Ops += len(m)
	rep.StatN("real.udp-idle-stress.sessions", len(m))
	if inv > 0 {
		addOracle(rep, "udp-session-close-before-open", fmt.Sprintf("[%s/udp] UDPReadTimeout=%v: %d of %d sessions got their close notification BEFORE their open notification",
			mode, idle, inv, len(m)), replay)
	}
	if badCount > 0 {
		addOracle(rep, "udp-session-open-close-count", fmt.Sprintf("[%s/udp] UDPReadTimeout=%v: %d of %d sessions did not get exactly one open and one close notification",
			mode, idle, badCount, len(m)), replay)
	}
	if badErr > 0 {
		addOracle(rep, "wrong-close-error-udp-idle-timeout", fmt.Sprintf("[%s/udp] UDPReadTimeout=%v: %d sessions were notified with an error other than ErrReadTimeout (or nil from Stop)",
			mode, idle, badErr), replay)
	}
}

func udpRound(rep *hx.Report, seed int64, round int, mode string) {
	rnd := rand.New(rand.NewSource(seed*104729 + int64(round)))
	for i := 0; i < 3; i++ {
		udpTableHistory(rep, seed, round, mode, rnd)
	}
	env0 := rnd.Intn(3) > 0
	env := startEnvNet(rep, seed, mode, 1<<16, "udp")
	for _, sc := range scenarios {
		if udpScenarios[sc.name] {
			env.warm = env0 || rnd.Intn(2) == 0
			sc.run(env, "udp-session", rnd)
		}
	}
	// the engine's own idle timeout (Config.UDPReadTimeout, re-armed by every datagram)
	if rc := env.establish("udp-session", nil); rc != nil {
		rc.scenario = "udp-read-timeout"
		allow(rc, "read-deadline", nbio.ErrReadTimeout)
		env.finish(rc)
	}
	env.stopEnv(nil)
	if round != 0 {
		return
	}

	// Close inside the open handler of a session, in an engine of its own
	env2 := startEnvNet(rep, seed, mode, 1<<16, "udp")
	var mu sync.Mutex
	var started, returned bool
	var seen *rec
	env2.mu.Lock()
	env2.nextOpen = func(c *nbio.Conn, rc *rec) {
		rc.scenario = "close-in-onopen"
		allow(rc, "close", nil)
		mu.Lock()
		started, seen = true, rc
		mu.Unlock()
		rc.closeCall(nil)
		mu.Lock()
		returned = true
		mu.Unlock()
	}
	env2.mu.Unlock()
	peer, err := net.Dial("udp", env2.addr)
	if err != nil {
		return
	}
	defer peer.Close()
	peer.Write([]byte("first datagram"))
	select {
	case rc := <-env2.openCh:
		env2.finish(rc)
		env2.opsAfterClose(rc)
		env2.stopEnv(nil)
	case <-time.After(1500 * time.Millisecond):
		mu.Lock()
		st, rt, rc := started, returned, seen
		mu.Unlock()
		rep.Case(env2.mode+"/udp-session/close-in-onopen", true)
		rep.Stat("real.udp-session.close-in-onopen")
		if st && !rt {
			env2.oracle(rc, "close-hangs-in-onopen-udp-session", "Close called inside the open handler of a UDP peer session has not returned after 1.5 s: "+
				"udpConn.Close locks the UDP server connection's mutex, which ReadAndGetConn holds while readUDP runs the open handler; the poller goroutine is blocked, "+
				"no further datagram is delivered and Engine.Stop cannot finish")
			fdBaselineInvalid = true // the engine cannot be stopped: it is abandoned
		} else {
			env2.stopEnv(nil)
		}
	}
}

// fdReuseCase: an open handler closes (rejects) its connection and goes on working for a moment; meanwhile another goroutine
// adds a connection whose descriptor gets the number that has just been freed. The second connection must live a normal life.
func fdReuseCase(rep *hx.Report, seed int64, mode string) {
	env := startEnv(rep, seed, mode, 1<<16)
	nc, err := net.Dial("tcp", env.ext.Addr().String())
	if err != nil {
		return
	}
	peer := env.takePeer()
	if peer == nil {
		nc.Close()
		return
	}
	fdCh := make(chan int, 1)
	goOn := make(chan struct{})
	env.mu.Lock()
	env.nextOpen = func(c *nbio.Conn, rc *rec) {
		rc.scenario = "close-in-onopen"
		allow(rc, "close", nil)
		fd := c.Hash()
		rc.closeCall(nil)
		fdCh <- fd
		select {
		case <-goOn:
		case <-time.After(2 * time.Second):
		}
	}
	env.mu.Unlock()
	cl, err := net.Dial("tcp", env.addr)
	if err != nil {
		return
	}
	defer cl.Close()
	var fd1 int
	select {
	case fd1 = <-fdCh:
	case <-time.After(3 * time.Second):
		return
	}
	// occupy the free descriptors below fd1 so that AddConn's dup lands on fd1
	var dummies []*os.File
	for i := 0; i < 64; i++ {
		f, err := os.Open("/dev/null")
		if err != nil {
			break
		}
		if int(f.Fd()) >= fd1 {
			f.Close()
			break
		}
		dummies = append(dummies, f)
	}
	c2, aerr := env.g.AddConn(nc)
	var rc2 *rec
	select {
	case rc2 = <-env.openCh:
	default:
	}
	close(goOn)
	for _, f := range dummies {
		f.Close()
	}
	if aerr != nil || rc2 == nil || c2 == nil {
		peer.Close()
		env.stopEnv(nil)
		return
	}
	rc2.origin, rc2.peer = "added", peer
	rc2.scenario = "fd-reused-after-close-in-onopen"
	allow(rc2, "peer-close", io.EOF)
	if c2.Hash() != fd1 {
		rep.Stat("real.fd-reuse-not-arranged")
		rc2.scenario = "peer-close"
	} else {
		rep.Stat("real.fd-reuse-arranged")
	}
	time.Sleep(20 * time.Millisecond) // the first open handler returns; addConn goes on with the first connection
	peer.Close()
	if !waitCh(rc2.closedCh, 2*time.Second) {
		rep.Case(env.mode+"/added/fd-reused-after-close-in-onopen", true)
		env.oracle(rc2, "close-never-notified-fd-reused-after-close-in-onopen",
			fmt.Sprintf("a connection was closed inside its open handler (fd %d); while the handler was still running AddConn registered another connection whose descriptor "+
				"got the same number; addConn then stored and cleared the table slot of descriptor %d on behalf of the FIRST connection: the second connection is registered "+
				"with epoll but unknown to the engine - its peer closed 2 s ago and no close notification arrived (no data is delivered either, and Engine.Stop cannot finish)", fd1, fd1))
		fdBaselineInvalid = true // the engine cannot be stopped: it is abandoned
		return
	}
	env.stopEnv(nil)
}

func isTimeout(err error) bool {
	var ne net.Error
	return errors.As(err, &ne) && ne.Timeout()
}

func runReal(rep *hx.Report, seed int64, rounds int) {
	f, err := os.CreateTemp("", "lifecycle-real-*")
	if err != nil {
		hx.Fatal("temp file: %v", err)
	}
	defer os.Remove(f.Name())
	f.Write(make([]byte, 4096))
	realFile = f
	defer f.Close()
	modes := []string{"LT", "ET", "ET+ONESHOT", "ET+ASYNCREAD"}
	{ // warm-up: the runtime's own descriptors (netpoll) exist before the baseline is taken
		w := startEnv(hx.NewReport("warmup", 0), seed, "LT", 1<<16)
		if rc := w.establish("accepted", nil); rc != nil {
			rc.peer.Close()
		}
		w.g.Stop()
		w.ext.Close()
		time.Sleep(50 * time.Millisecond)
	}
	runtime.GC()
	fd0 := fdCount()
	bh := newBlackhole()
	for round := 0; round < rounds && !rep.TooMany(); round++ {
		for mi, mode := range modes {
			rnd := rand.New(rand.NewSource(seed*7919 + int64(round)*31 + int64(mi)))
			env := startEnv(rep, seed, mode, 1<<16)
			order := rnd.Perm(len(scenarios))
			for _, si := range order {
				sc := scenarios[si]
				for _, o := range sc.origins {
					env.warm = rnd.Intn(3) > 0
					sc.run(env, o, rnd)
				}
			}
			pending := env.dialOutcomes(rnd, bh)
			env.stopEnv(nil)
			for _, rc := range pending {
				if rc.dials >= 1 && rc.dialRes[0] != "0" && rc.dialRes[0] != "ok" {
					env.oracle(rc, "dial-wrong-error-closed-while-pending", "a dial closed while pending reported "+errName(rc.dialRes[0])+" instead of net.ErrClosed")
				}
			}
			if rep.TooMany() {
				break
			}
		}
		if !rep.TooMany() {
			// asynchronous reads with a synchronous executor: the terminations that go through the read path
			rnd := rand.New(rand.NewSource(seed*7919 + int64(round)*31 + 99))
			env := startEnv(rep, seed, "ET+ASYNCREAD+SYNCEXEC", 1<<16)
			for _, sc := range scenarios {
				if !syncExecScenarios[sc.name] {
					continue
				}
				for _, o := range sc.origins {
					env.warm = rnd.Intn(3) > 0
					sc.run(env, o, rnd)
				}
			}
			env.stopEnv(nil)
		}
		rejectedCase(rep, seed, modes[round%len(modes)])
		if !rep.TooMany() {
			udpRound(rep, seed, round, []string{"LT", "ET"}[round%2])
		}
		if !rep.TooMany() {
			n := 500 // quick: 4 x 500 sessions
			if rounds > 4 {
				n = 1500
			}
			for i, idle := range []time.Duration{time.Nanosecond, time.Microsecond, 5 * time.Microsecond, 50 * time.Microsecond} {
				udpIdleStress(rep, seed, modes[(round+i)%len(modes)], idle, n)
			}
		}
		if round == 0 && !rep.TooMany() {
			fdReuseCase(rep, seed, "LT")
		}
	}
	if bh != nil {
		bh.close()
	}
	// descriptors: everything the engines opened is closed again
	ok := fdBaselineInvalid
	var fd1 int
	for i := 0; i < 200; i++ {
		runtime.GC()
		fd1 = fdCount()
		if fd1 <= fd0 {
			ok = true
			break
		}
		time.Sleep(10 * time.Millisecond)
	}
	if !ok {
		rep.Add(hx.Finding{Kind: "oracle", Property: prop, Signature: "fd-leaked", What: fmt.Sprintf("%d descriptors before the real-engine tier, %d two seconds after the last engine stopped", fd0, fd1),
			Replay: map[string]interface{}{"harness": "lifecycle", "tier": "real", "seed": seed}})
	}
}
