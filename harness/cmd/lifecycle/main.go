// Harness for C03 (connection life cycle: exactly one close notification, never before the open, first cause reported,
// Close idempotent, operations after Close fail without touching the descriptor, truthful dial result exactly once).
//
// Tier "sim": the real nbio.Conn on simulated descriptors of the shim kernel (overlay/pkg/verifsys), registered through the
// real poller.addConn / poller.addDialer, driven by 2-7 threads under the overlay's cooperative scheduler (verifsched):
// closers of every cause, writers / vectored writers / Sendfile / flush with scripted fatal errno, an overflowing writer,
// Execute, Read, and (dialers) the poller's completion path. The order in which the calls took Conn.mux is the schedule;
// it is replayed through the extracted Coq model (coq/lifecycle/Lifecycle.v) and the event log, every operation's result,
// the number of descriptor syscalls, close(2) calls, delivered notifications and callbacks are compared.
// Tier "real": real engines on loopback (LT / ET / ET+ONESHOT / ET+AsyncRead): accepted, added and dialed connections ended
// by peer close, peer reset, Close / CloseWithError from N goroutines racing writers, deadlines, overflow, write failure,
// Close inside handlers, engine Stop; dial outcomes connected / refused / timed out / closed while pending / rejected.
// The per-connection event logs are run through the extracted checker (LifeObs.v legal / complete).
// Both tiers run the property oracle on the implementation alone.
package main

import (
	"errors"
	"flag"
	"fmt"
	"io"
	"net"
	"strings"
	"syscall"

	"github.com/lesismal/nbio"
	"github.com/lesismal/nbio/logging"
	"verifharness/hx"
)

const prop = "C03"

// ---- error identities shared with the model (Lifecycle.v: ErrClosed = 0, ErrEOF = 1, ErrTooBig = 2) ----
var userErrs = []error{errors.New("user error 0"), errors.New("user error 1"), errors.New("user error 2"), errors.New("user error 3"),
	errors.New("user error 4"), errors.New("user error 5"), errors.New("user error 6"), errors.New("user error 7")}

func errID(err error) string {
	if err == nil {
		return "nil"
	}
	switch {
	case errors.Is(err, net.ErrClosed):
		return "0"
	case err == io.EOF:
		return "1"
	case err == nbio.ErrReadTimeout:
		return "10"
	case err == nbio.ErrWriteTimeout:
		return "11"
	case err == nbio.ErrOverflow:
		return "12"
	case err == nbio.ErrDialTimeout:
		return "13"
	}
	for i, u := range userErrs {
		if err == u {
			return fmt.Sprint(100 + i)
		}
	}
	var en syscall.Errno
	if errors.As(err, &en) {
		return fmt.Sprint(1000 + int(en))
	}
	if strings.HasPrefix(err.Error(), "too many open files") {
		return "2"
	}
	return "999"
}

func errName(id string) string {
	switch id {
	case "nil":
		return "nil"
	case "0":
		return "net.ErrClosed"
	case "1":
		return "io.EOF"
	case "2":
		return "too-many-open-files"
	case "10":
		return "ErrReadTimeout"
	case "11":
		return "ErrWriteTimeout"
	case "12":
		return "ErrOverflow"
	case "13":
		return "ErrDialTimeout"
	}
	var n int
	fmt.Sscan(id, &n)
	if n >= 1000 {
		return syscall.Errno(n - 1000).Error()
	}
	if n >= 100 && n < 100+len(userErrs) {
		return userErrs[n-100].Error()
	}
	return "error#" + id
}

type quiet struct{}

func (quiet) SetLevel(int)                 {}
func (quiet) Debug(string, ...interface{}) {}
func (quiet) Info(string, ...interface{})  {}
func (quiet) Warn(string, ...interface{})  {}
func (quiet) Error(string, ...interface{}) {}

var model *hx.Model

// addOracle reports a failure of the property oracle; once a signature has been reported a few times further instances are only
// counted (a class that is already known must not cut the exploration short through Report.TooMany).
var sigCount = map[string]int{}

func addOracle(rep *hx.Report, sig, what string, replay interface{}) {
	sigCount[sig]++
	if sigCount[sig] > 3 {
		rep.Stat("more-of:" + sig)
		return
	}
	rep.Add(hx.Finding{Kind: "oracle", Property: prop, Signature: sig, What: what, Replay: replay})
}

func main() {
	seed := flag.Int64("seed", 1, "")
	n := flag.Int("n", 1500, "simulated-descriptor cases")
	nreal := flag.Int("real", 1, "rounds of the real-engine scenarios (each round: every scenario x 4 engine modes)")
	mpath := flag.String("model", "", "")
	out := flag.String("out", "-", "")
	only := flag.String("only", "", "sim | burst | real (default all)")
	flag.Parse()
	if *out != "" && *out != "-" {
		hx.CurrentFile = *out + ".current"
	}
	logging.SetLogger(quiet{})
	if *mpath != "" {
		model = hx.StartModel(*mpath)
		defer model.Close()
	}
	rep := hx.NewReport("lifecycle", *seed)
	rep.Rule = "sim: one connection on a simulated descriptor (accepted or dialing; registration ok / epoll_ctl failure / descriptor beyond the table), " +
		"optional backlog and armed deadlines, then 2-7 threads under the cooperative scheduler: Close / CloseWithError of eight causes, Write, Writev, " +
		"Sendfile, flush against a kernel script with fatal errno, a write beyond MaxWriteBufferSize, Execute, Read, the poller's dial completion " +
		"(established / failed) with a yield between takeOnConnected and the callback; seeded schedules; non-trivial = at least two threads took the " +
		"connection's mutex; distinct = distinct (setup, thread kinds in lock order, script). real: per round, for each of LT / ET / ET+ONESHOT / " +
		"ET+AsyncRead one engine running 13 terminations (peer close, peer reset, 1-8 concurrent Close / CloseWithError racing 0-3 writers, read / write / " +
		"both deadlines, overflow by Write / Writev, write to a reset peer, Close inside the open / data / close handler) x {accepted, added, dialed}, " +
		"dials refused / to an unparsable address / timed out / still pending at Stop (a listener with a full accept queue), Stop with open connections; " +
		"one engine with a connection table smaller than the descriptors (rejected AddConn / DialAsync); one UDP engine (sessions: racing closers, Close in " +
		"handlers, explicit and engine-wide idle timeout, Stop; once: Close inside the open handler); once: descriptor number reused while an open handler that " +
		"closed its connection is still running; every connection = one case, distinct = distinct (mode, origin, scenario)"
	if *only == "" || *only == "sim" {
		runSim(rep, *seed, *n)
	}
	if *only == "" || *only == "burst" {
		runBurst(rep, *seed, *nreal > 4)
	}
	if *only == "" || *only == "real" {
		runReal(rep, *seed, *nreal)
	}
	rep.Write(*out)
}
