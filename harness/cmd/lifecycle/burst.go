package main

// "Close burst" cells: K connections whose close notifications queue up on the engine's serial Async queue (timer.Timer.Async -
// every Engine.OnClose notification goes through it) behind a blocked first close handler; the gate is opened, and while the
// LAST handler of the burst is still running further connections are closed. Exactly one close notification per connection,
// whatever K is (the queue's bookkeeping changes at 1024 entries: capacity reset, and any compaction someone adds).
// The connections live on simulated descriptors; the engine's real OnOpen / OnClose wrappers (engine.go) and the real
// timer.Timer.Async are installed on the simulated engine.

import (
	"fmt"
	"math/rand"
	"sync"
	"sync/atomic"
	"time"

	"github.com/lesismal/nbio"
	"github.com/lesismal/nbio/verifsys"
	"verifharness/hx"
)

type burstCell struct {
	Tier  string `json:"tier"`
	Seed  int64  `json:"seed"`
	K     int    `json:"burst_connections"`
	Extra int    `json:"closed_while_last_handler_runs"`
	Why   string `json:"cell"`
	Rerun string `json:"rerun"`
}

func runBurstCell(rep *hx.Report, eng *nbio.VerifSimEngine, cell *burstCell) {
	hx.Current(prop, fmt.Sprintf("the process died while the close burst K=%d (+%d closed while the last handler of the burst was running) was in flight", cell.K, cell.Extra), cell)
	total := cell.K + cell.Extra
	counts := make([]int32, total)
	var delivered, inHandler, overlap int32
	firstIn, lastIn := make(chan struct{}), make(chan struct{})
	gate1, gateLast, gateX := make(chan struct{}), make(chan struct{}), make(chan struct{})
	var once1, onceL sync.Once
	g := eng.G
	g.OnOpen(func(c *nbio.Conn) {})
	g.OnClose(func(c *nbio.Conn, err error) {
		if atomic.AddInt32(&inHandler, 1) > 1 {
			atomic.AddInt32(&overlap, 1)
		}
		defer atomic.AddInt32(&inHandler, -1)
		if i, ok := c.Session().(int); ok && i >= 0 && i < total {
			atomic.AddInt32(&counts[i], 1)
		}
		switch k := int(atomic.AddInt32(&delivered, 1)); {
		case k == 1:
			once1.Do(func() { close(firstIn) })
			<-gate1
		case k == cell.K:
			onceL.Do(func() { close(lastIn) })
			<-gateLast
		case k == cell.K+1:
			// the first notification behind the burst is slow as well: should a second drainer have started it while the
			// burst's last handler was still running, the queue is not empty when that handler returns
			<-gateX
		}
	})
	socks := make([]*verifsys.Sock, 0, total)
	conns := make([]*nbio.Conn, 0, total)
	defer func() {
		for _, s := range socks {
			s.Release()
		}
	}()
	newConn := func(i int) *nbio.Conn {
		s := verifsys.NewSock()
		socks = append(socks, s)
		c, err := eng.VerifLifeNewConn(s, nbio.ConnTypeTCP)
		if err != nil {
			return nil
		}
		c.SetSession(i)
		conns = append(conns, c)
		return c
	}
	wait := func(ch chan struct{}, d time.Duration) bool {
		select {
		case <-ch:
			return true
		case <-time.After(d):
			return false
		}
	}
	for i := 0; i < cell.K; i++ {
		if newConn(i) == nil {
			return
		}
	}
	stuck := ""
	conns[0].Close()
	if !wait(firstIn, 3*time.Second) {
		stuck = "the first close handler never ran"
	}
	for i := 1; i < cell.K && stuck == ""; i++ {
		conns[i].Close() // queues behind the blocked first handler
	}
	close(gate1)
	if cell.K == 1 {
		onceL.Do(func() { close(lastIn) })
	}
	if stuck == "" && !wait(lastIn, 5*time.Second) {
		stuck = fmt.Sprintf("only %d of the %d queued close notifications were delivered within 5 s", atomic.LoadInt32(&delivered), cell.K)
	}
	// the last handler of the burst is running: close more connections now
	for i := cell.K; i < total && stuck == ""; i++ {
		if c := newConn(i); c != nil {
			c.Close()
		}
	}
	time.Sleep(2 * time.Millisecond) // a second drainer, if one was started, runs the new notifications now
	close(gateLast)
	time.Sleep(2 * time.Millisecond)
	close(gateX)
	deadline := time.Now().Add(3 * time.Second)
	for int(atomic.LoadInt32(&delivered)) < total && time.Now().Before(deadline) {
		time.Sleep(200 * time.Microsecond)
	}
	time.Sleep(3 * time.Millisecond) // a duplicate would follow at once
	rep.Case(fmt.Sprintf("burst/%d+%d", cell.K, cell.Extra), true)
	rep.Ops += total
	rep.Stat("burst.cells")
	rep.StatN("burst.connections", total)
	twice, never := 0, 0
	first := -1
	for i := range counts {
		switch n := atomic.LoadInt32(&counts[i]); {
		case n > 1:
			twice++
			if first < 0 {
				first = i
			}
		case n == 0:
			never++
		}
	}
	if twice > 0 {
		addOracle(rep, "close-notified-twice", fmt.Sprintf("close burst K=%d: %d connection(s) got their close notification twice (first: connection #%d, one of those closed while the "+
			"last handler of the burst was still running: %v); %d notifications for %d connections", cell.K, twice, first, first >= cell.K, atomic.LoadInt32(&delivered), total), cell)
	}
	if never > 0 || stuck != "" {
		addOracle(rep, "close-never-notified-close-burst", fmt.Sprintf("close burst K=%d: %d connection(s) never got their close notification %s", cell.K, never, stuck), cell)
	}
	if o := atomic.LoadInt32(&overlap); o > 0 {
		addOracle(rep, "close-notifications-overlap", fmt.Sprintf("close burst K=%d: %d close handlers ran while another close handler of the same engine was running (the engine delivers them through one serial queue)", cell.K, o), cell)
	}
}

func runBurst(rep *hx.Report, seed int64, thorough bool) {
	eng := nbio.VerifNewSimEngine(nbio.Config{})
	rnd := rand.New(rand.NewSource(seed*6151 + 17))
	var cells []*burstCell
	add := func(k, extra int, why string) {
		cells = append(cells, &burstCell{Tier: "burst", Seed: seed, K: k, Extra: extra, Why: why,
			Rerun: "build/bin/lifecycle -only burst -seed <seed> -out -   (cells are generated from the seed)"})
	}
	for _, k := range []int{1022, 1023, 1024, 1025, 2047, 2048} {
		add(k, 1+rnd.Intn(3), "targeted: around the queue's 1024-entry bookkeeping")
	}
	nrand := 3
	if thorough {
		nrand = 40
		for _, k := range []int{1, 2, 1024, 2048, 3072, 4000} {
			add(k, 1+rnd.Intn(3), "targeted")
		}
	}
	for i := 0; i < nrand; i++ {
		add(1000+rnd.Intn(1101), 1+rnd.Intn(3), "random K in 1000..2100")
	}
	for _, c := range cells {
		if rep.TooMany() {
			break
		}
		runBurstCell(rep, eng, c)
	}
}
