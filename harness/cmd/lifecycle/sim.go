package main

// Tier "sim": see main.go. One case = one connection, a set-up, a pre-phase and a race of managed threads.

import (
	"errors"
	"fmt"
	"io"
	"math/rand"
	"net"
	"os"
	"strings"
	"syscall"
	"time"

	"github.com/lesismal/nbio"
	"github.com/lesismal/nbio/verifsched"
	"github.com/lesismal/nbio/verifsys"
	"verifharness/hx"
)

const simMaxWrite = 8192 // MaxWriteBufferSize of the simulated engines

type simEnv struct {
	eng  *nbio.VerifSimEngine
	mode string
}

var simFile *os.File

func newSimEnvs() []*simEnv {
	var envs []*simEnv
	for _, m := range []struct {
		name   string
		em, os uint32
	}{{"LT", nbio.EPOLLLT, 0}, {"ET", nbio.EPOLLET, 0}, {"ET+ONESHOT", nbio.EPOLLET, nbio.EPOLLONESHOT}} {
		eng := nbio.VerifNewSimEngine(nbio.Config{EpollMod: m.em, EPOLLONESHOT: m.os, MaxWriteBufferSize: simMaxWrite})
		envs = append(envs, &simEnv{eng: eng, mode: m.name})
	}
	return envs
}

type slot struct{ text string }

// call is one API call in progress on a managed thread; its place in the schedule is its first acquisition of Conn.mux.
type call struct {
	started bool
	act     *slot
	ev      *slot
	wantEv  bool
	after   bool
	calls0  int
	name    string
}

type threadSpec struct {
	Kind  string `json:"kind"` // close write writev sendfile flush exec read overflow poll
	Cause int    `json:"cause,omitempty"`
	Size  int    `json:"size,omitempty"`
}

func (t threadSpec) String() string {
	switch t.Kind {
	case "close":
		return "close(" + errName(errID(closeCauses[t.Cause])) + ")"
	case "write", "writev", "sendfile", "overflow":
		return fmt.Sprintf("%s(%d)", t.Kind, t.Size)
	}
	return t.Kind
}

// the causes a closer may carry: Close() and CloseWithError with what timers, the poller and users pass
var closeCauses = []error{nil, io.EOF, nbio.ErrReadTimeout, nbio.ErrWriteTimeout, userErrs[0], userErrs[1], userErrs[2], syscall.ECONNRESET}

type simSpec struct {
	Tier      string       `json:"tier"`
	Seed      int64        `json:"seed"`
	Case      int          `json:"case"`
	Mode      string       `json:"mode"`
	Kind      string       `json:"kind"`  // conn | dial
	Setup     string       `json:"setup"` // ok | epollfail | toobig
	Backlog   bool         `json:"backlog"`
	Deadline  bool         `json:"deadline"`
	Kernel    string       `json:"kernel,omitempty"` // dial: ok | fail
	Script    []string     `json:"script"`
	Threads   []threadSpec `json:"threads"`
	Sched     int64        `json:"schedule_seed"`
	Transport string       `json:"transport,omitempty"`
	PreRead   bool         `json:"pre_read,omitempty"` // a read pass (EAGAIN / failing recvfrom) before the race
}

type simRun struct {
	rep  *hx.Report
	env  *simEnv
	spec *simSpec
	sock *verifsys.Sock
	c    *nbio.Conn
	mux  *verifsched.Mutex

	acts      []*slot
	evs       []*slot
	queued    []func()
	cret      bool
	cur       map[int]*call
	lockOrder []string

	opens, closes   int
	closeErrs       []string
	dialRes         []string
	closeBeforeOpen bool
	fatalOps        []string // error ids of operations that failed fatally
	findings        int
}

func (r *simRun) newAct(text string) *slot { s := &slot{text}; r.acts = append(r.acts, s); return s }
func (r *simRun) newEv(text string) *slot  { s := &slot{text}; r.evs = append(r.evs, s); return s }

func (r *simRun) drain() {
	for len(r.queued) > 0 {
		f := r.queued[0]
		r.queued = r.queued[1:]
		f()
	}
}

func (r *simRun) replay(extra map[string]interface{}) map[string]interface{} {
	m := map[string]interface{}{
		"harness": "lifecycle", "spec": r.spec, "lock_order": r.lockOrder,
		"rerun": "build/bin/lifecycle -only sim -seed <seed> -n <case+1> -model build/ocaml/lifecycle/model -out -   (cases are generated from the seed; this one is number \"case\")",
	}
	for k, v := range extra {
		m[k] = v
	}
	return m
}

func (r *simRun) oracle(sig, what string, extra map[string]interface{}) {
	r.findings++
	addOracle(r.rep, sig, what, r.replay(extra))
}

func (r *simRun) onAcquire(t *verifsched.Thread, m *verifsched.Mutex) {
	if m != r.mux {
		return
	}
	cl := r.cur[t.ID]
	if cl == nil || cl.started {
		return
	}
	r.begin(cl)
}

func (r *simRun) begin(cl *call) {
	cl.started = true
	cl.act = r.newAct("")
	if cl.wantEv {
		cl.ev = r.newEv("")
	}
	cl.after = r.cret
	cl.calls0 = r.sock.Calls
	r.lockOrder = append(r.lockOrder, cl.name)
}

func resClass(err error) string {
	switch {
	case err == nil:
		return "done"
	case errors.Is(err, net.ErrClosed):
		return "closed"
	case errors.Is(err, syscall.EAGAIN), errors.Is(err, syscall.EINTR):
		return "done"
	}
	return "err:" + errID(err)
}

var opLetter = map[string]string{"write": "w", "overflow": "w", "writev": "v", "sendfile": "s", "flush": "f", "exec": "x", "read": "r"}

// doOp runs one operation as thread tid (0 = the unmanaged set-up thread).
func (r *simRun) doOp(tid, mtid int, t threadSpec) {
	k := opLetter[t.Kind]
	cl := &call{wantEv: true, name: fmt.Sprintf("%d:%s", tid, t.String())}
	if mtid >= 0 {
		r.cur[mtid] = cl
	} else {
		r.begin(cl) // the unmanaged set-up thread runs alone: its call is atomic
	}
	var res string
	c := r.c
	func() {
		defer func() {
			if p := recover(); p != nil {
				res = "panic"
				r.oracle("op-panics-"+t.Kind, fmt.Sprintf("%s panicked: %v", t.Kind, p), nil)
			}
		}()
		res = r.callOp(c, t)
	}()
	r.finishOp(cl, k, tid, mtid, t, res)
}

func (r *simRun) callOp(c *nbio.Conn, t threadSpec) (res string) {
	switch t.Kind {
	case "write", "overflow":
		_, err := c.Write(make([]byte, t.Size))
		res = resClass(err)
	case "writev":
		_, err := c.Writev([][]byte{make([]byte, t.Size/2), make([]byte, t.Size-t.Size/2)})
		res = resClass(err)
	case "sendfile":
		simFile.Seek(0, io.SeekStart)
		_, err := c.Sendfile(simFile, int64(t.Size))
		res = resClass(err)
	case "flush":
		res = resClass(nbio.VerifFlush(c))
	case "exec":
		if c.Execute(func() {}) {
			res = "done"
		} else {
			res = "closed"
		}
	case "read":
		// a failing read does not close by itself (the poller's closeWithError follows as an action of its own)
		if _, err := c.Read(make([]byte, 16)); errors.Is(err, net.ErrClosed) {
			res = "closed"
		} else {
			res = "done"
		}
	}
	return res
}

func (r *simRun) finishOp(cl *call, k string, tid, mtid int, t threadSpec, res string) {
	if !cl.started {
		r.begin(cl) // unmanaged thread (or a call that took no lock): its place is where it returns
	}
	n := r.sock.Calls - cl.calls0
	if k == "x" || k == "r" {
		n = 0
	}
	after := "0"
	if cl.after {
		after = "1"
	}
	cl.ev.text = fmt.Sprintf("op:%s:%s:%s", after, k, res)
	var outc string
	switch {
	case res == "closed":
		outc = "ok:0"
		if n != 0 {
			r.oracle("op-after-close-syscall-"+t.Kind, fmt.Sprintf("%s on the closed connection returned the closed indication but made %d descriptor syscall(s)", t.Kind, n), nil)
		}
	case res == "panic":
		outc = "ok:0"
	case res == "done":
		outc = fmt.Sprintf("ok:%d", n)
	default:
		outc = fmt.Sprintf("fail:%s:%d", strings.TrimPrefix(res, "err:"), n)
		r.fatalOps = append(r.fatalOps, strings.TrimPrefix(res, "err:"))
	}
	if cl.after && res != "closed" {
		r.oracle("op-after-close-"+t.Kind, fmt.Sprintf("%s begun after a Close call had returned answered %q instead of the closed indication", t.Kind, res), nil)
	}
	cl.act.text = fmt.Sprintf("op %s %d %s ; td %d ; job", k, tid, outc, tid)
	if mtid >= 0 {
		r.cur[mtid] = nil
	}
	r.drain()
}

func (r *simRun) doClose(tid, mtid int, cause error, user bool) {
	cl := &call{name: fmt.Sprintf("%d:close(%s)", tid, errName(errID(cause)))}
	if mtid >= 0 {
		r.cur[mtid] = cl
	}
	var err error
	if cause == nil {
		err = r.c.Close()
	} else {
		err = r.c.CloseWithError(cause)
	}
	if !cl.started {
		r.begin(cl)
	}
	u := "0"
	if user {
		u = "1"
	}
	cl.act.text = fmt.Sprintf("cl %d %s %s ; td %d ; job", tid, errID(cause), u, tid)
	if user {
		r.newEv("cret")
		r.cret = true
		if err != nil {
			r.oracle("close-returns-error", fmt.Sprintf("Close returned %v", err), nil)
		}
	}
	if mtid >= 0 {
		r.cur[mtid] = nil
	}
	r.drain()
}

// doPoll mirrors the poller's handling of a writability event (poller_epoll.go readWriteLoop, `ev.Events&epollEventsWrite != 0`):
// the real takeOnConnected, a scheduling point where the real code has none of its own locks held, then the callback
// and resetRead / closeWithError, or flush when no callback was pending.
func (r *simRun) doPoll(tid, mtid int) {
	wr, er := nbio.VerifLifeEventBits()
	events := wr
	if r.spec.Kernel == "fail" {
		events |= er
	}
	cl := &call{name: fmt.Sprintf("%d:poll-take", tid)}
	r.cur[mtid] = cl
	h, connErr := nbio.VerifLifeTake(r.c, events)
	if !cl.started {
		r.begin(cl)
	}
	cl.act.text = "take 0"
	r.cur[mtid] = nil
	verifsched.Yield()
	switch {
	case h == nil:
		r.doOp(tid, mtid, threadSpec{Kind: "flush"})
	case connErr != nil:
		r.newAct("call")
		h(r.c, connErr)
		r.doClose(tid, mtid, connErr, false)
	default:
		r.newAct("call")
		h(r.c, nil)
		nbio.VerifLifeAfterDialSuccess(r.c) // one more critical section of the poller; not an action of the model
	}
}

func genScript(rnd *rand.Rand) ([]verifsys.Ans, []string) {
	var ks []verifsys.Ans
	var txt []string
	n := rnd.Intn(5)
	for i := 0; i < n; i++ {
		switch x := rnd.Intn(10); {
		case x < 3:
			ks = append(ks, verifsys.Ans{Kind: verifsys.Took, N: 1 << 30})
			txt = append(txt, "all")
		case x < 5:
			k := 1 + rnd.Intn(40)
			ks = append(ks, verifsys.Ans{Kind: verifsys.Took, N: k})
			txt = append(txt, fmt.Sprintf("t%d", k))
		case x < 6:
			ks = append(ks, verifsys.Ans{Kind: verifsys.EAgain})
			txt = append(txt, "again")
		case x < 7:
			ks = append(ks, verifsys.Ans{Kind: verifsys.EIntr})
			txt = append(txt, "intr")
		default:
			e := []syscall.Errno{syscall.EPIPE, syscall.ECONNRESET, syscall.EBADF, syscall.ENOTCONN, syscall.EIO}[rnd.Intn(5)]
			ks = append(ks, verifsys.Ans{Kind: verifsys.Fatal, N: int(e)})
			txt = append(txt, fmt.Sprintf("e%d", int(e)))
		}
	}
	return ks, txt
}

func genThreads(rnd *rand.Rand, dial bool) []threadSpec {
	n := 2 + rnd.Intn(6)
	var ts []threadSpec
	if dial && rnd.Intn(5) > 0 {
		ts = append(ts, threadSpec{Kind: "poll"})
	}
	for len(ts) < n {
		switch x := rnd.Intn(20); {
		case x < 7:
			ts = append(ts, threadSpec{Kind: "close", Cause: rnd.Intn(len(closeCauses))})
		case x < 10:
			ts = append(ts, threadSpec{Kind: "write", Size: 1 + rnd.Intn(600)})
		case x < 12:
			ts = append(ts, threadSpec{Kind: "writev", Size: 2 + rnd.Intn(600)})
		case x < 14:
			ts = append(ts, threadSpec{Kind: "sendfile", Size: 1 + rnd.Intn(3000)})
		case x < 16:
			ts = append(ts, threadSpec{Kind: "flush"})
		case x < 17:
			ts = append(ts, threadSpec{Kind: "exec"})
		case x < 18:
			ts = append(ts, threadSpec{Kind: "read"})
		default:
			ts = append(ts, threadSpec{Kind: "overflow", Size: simMaxWrite + 1 + rnd.Intn(500)})
		}
	}
	rnd.Shuffle(len(ts), func(i, j int) { ts[i], ts[j] = ts[j], ts[i] })
	return ts
}

func simCase(rep *hx.Report, envs []*simEnv, seed int64, idx int) {
	rnd := rand.New(rand.NewSource(seed*1000003 + int64(idx)))
	env := envs[rnd.Intn(len(envs))]
	spec := &simSpec{Tier: "sim", Seed: seed, Case: idx, Mode: env.mode, Kind: "conn", Setup: "ok"}
	if rnd.Intn(3) == 0 {
		spec.Kind = "dial"
		spec.Kernel = []string{"ok", "ok", "fail"}[rnd.Intn(3)]
	}
	switch rnd.Intn(14) {
	case 0:
		spec.Setup = "epollfail"
	case 1:
		spec.Setup = "toobig"
	case 2:
		if spec.Kind == "conn" {
			spec.Setup = "closeinopen" // the open handler closes (rejects) the connection
		}
	}
	spec.PreRead = rnd.Intn(2) == 0
	spec.Backlog = rnd.Intn(3) == 0
	spec.Deadline = rnd.Intn(3) == 0
	script, stxt := genScript(rnd)
	spec.Script = stxt
	spec.Threads = genThreads(rnd, spec.Kind == "dial")
	spec.Sched = rnd.Int63()

	r := &simRun{rep: rep, env: env, spec: spec, cur: map[int]*call{}}
	r.sock = verifsys.NewSock()
	defer r.sock.Release()
	eng := env.eng
	eng.OnOpen = func(c *nbio.Conn) {
		r.opens++
		r.newAct("add0")
		r.newEv("open")
		if spec.Setup == "closeinopen" {
			r.c = c
			r.doClose(0, -1, nil, true)
		}
	}
	eng.OnClose = func(c *nbio.Conn, err error) {
		if spec.Kind == "conn" && r.opens == 0 {
			r.closeBeforeOpen = true
		}
		id := errID(err)
		r.queued = append(r.queued, func() {
			r.closes++
			r.closeErrs = append(r.closeErrs, id)
			r.newEv("close:" + id)
		})
	}
	dialCb := func(c *nbio.Conn, err error) {
		id := errID(err)
		if err == nil {
			id = "ok"
		}
		r.dialRes = append(r.dialRes, id)
		r.newEv("dial:" + id)
	}

	// ---- set-up: the real registration code ----
	var old []*nbio.Conn
	switch spec.Setup {
	case "epollfail":
		r.sock.Registered = true // epoll_ctl(ADD) answers EEXIST
	case "toobig":
		old = eng.VerifLifeSetTable(1024)
	}
	var err error
	if spec.Kind == "conn" {
		typ := nbio.ConnTypeTCP
		switch rnd.Intn(6) {
		case 0:
			typ = nbio.ConnTypeUnix
		case 1, 2:
			// an added net.DialUDP client: its reads go through readUDP (recvfrom on the simulated descriptor fails with
			// EBADF, which readUDP parks in Conn.closeErr while the connection is open)
			typ = nbio.ConnTypeUDPClientFromDial
			spec.Transport = "udp-client"
		}
		r.c, err = eng.VerifLifeNewConn(r.sock, typ)
		switch spec.Setup {
		case "epollfail":
			r.newAct("cl 0 " + errID(err) + " 0 ; td 0 ; job") // "add0" is recorded by the open handler
		case "toobig":
			r.newAct("add1")
		case "closeinopen":
			if len(r.sock.Epoll) != 0 || eng.VerifLifeInTable(r.c) {
				r.oracle("registered-after-close-in-onopen", fmt.Sprintf("the open handler closed the connection, yet addConn entered it into the table / registered its descriptor (%d epoll_ctl calls)", len(r.sock.Epoll)), nil)
			}
		}
	} else {
		r.c, err = eng.VerifLifeNewDialer(r.sock, dialCb)
		switch spec.Setup {
		case "ok":
			r.newAct("dial 1 ok")
			r.newEv("dstart")
		case "epollfail":
			r.newAct("dial 1 ep:" + errID(err) + " ; job")
			r.newEv("drej:" + errID(err))
		case "toobig":
			r.newAct("dial 1 tb:" + errID(err))
			r.newEv("drej:" + errID(err))
		}
	}
	if old != nil {
		eng.VerifLifeRestoreTable(old)
	}
	if (err != nil) != (spec.Setup == "epollfail" || spec.Setup == "toobig") {
		r.oracle("registration-result", fmt.Sprintf("set-up %q: registration returned %v", spec.Setup, err), nil)
	}
	r.drain()
	r.mux = nbio.VerifSchedConnMutex(r.c)

	// ---- pre-phase ----
	if spec.Backlog {
		r.sock.SetScript([]verifsys.Ans{{Kind: verifsys.EAgain}})
		r.doOp(0, -1, threadSpec{Kind: "write", Size: 64})
	}
	if spec.Deadline {
		r.c.SetDeadline(time.Now().Add(time.Hour))
	}
	if spec.PreRead {
		r.doOp(0, -1, threadSpec{Kind: "read"})
	}
	r.sock.SetScript(script)
	if spec.Kind == "dial" && spec.Setup == "ok" {
		if spec.Kernel == "ok" {
			r.newAct("kern ok")
		} else {
			r.newAct("kern " + errID(syscall.EBADF)) // SO_ERROR cannot be read from a simulated descriptor: the connect error is EBADF
		}
	}

	// ---- the race ----
	srnd := rand.New(rand.NewSource(spec.Sched))
	s := verifsched.New(func(en []int) int { return srnd.Intn(len(en)) })
	s.Exclusive = true
	s.OnAcquire = r.onAcquire
	for i := range spec.Threads {
		t := spec.Threads[i]
		tid := i + 1
		var th *verifsched.Thread
		th = s.Go(t.String(), func() {
			switch t.Kind {
			case "close":
				r.doClose(tid, th.ID, closeCauses[t.Cause], true)
			case "poll":
				r.doPoll(tid, th.ID)
			default:
				r.doOp(tid, th.ID, t)
			}
		})
	}
	ok := s.Run()
	r.drain()
	if !ok {
		rep.Add(hx.Finding{Kind: "mismatch", Property: prop, Signature: "lifecycle-sim-stuck", What: "the scheduler run did not finish: " + strings.Join(s.Stuck(), "; "), Replay: r.replay(nil)})
		return
	}

	// ---- observations ----
	var evs, acts []string
	for _, e := range r.evs {
		evs = append(evs, e.text)
	}
	for _, a := range r.acts {
		acts = append(acts, a.text)
	}
	closed := nbio.VerifClosed(r.c)
	b := func(x bool) string {
		if x {
			return "1"
		}
		return "0"
	}
	closeErrID := "-"
	if cl, ce := r.c.IsClosed(); cl {
		closeErrID = errID(ce)
	}
	snap := fmt.Sprintf("closed=%s closeerr=%s fdcl=%d sys=%d tears=0 taken=0 jobs=0 pend=%s imm=0 notes=%s dials=%s quiescent=1",
		b(closed), closeErrID, r.sock.Closed, r.sock.Calls, b(nbio.VerifLifePending(r.c)), strings.Join(r.closeErrs, ","), strings.Join(r.dialRes, ","))
	observed := strings.Join(evs, " ") + " | " + snap

	// coverage
	kinds := make([]string, 0, len(r.lockOrder))
	for _, n := range r.lockOrder {
		kinds = append(kinds, n[strings.Index(n, ":")+1:])
	}
	rep.Case(fmt.Sprintf("%s/%s/%s/%v/%v/%v", spec.Kind, spec.Setup, spec.Kernel, spec.Backlog, kinds, spec.Script), len(r.lockOrder) >= 2)
	rep.Ops += len(r.acts)
	rep.Stat("sim." + spec.Kind + "." + spec.Setup)
	rep.Stat("sim.mode." + spec.Mode)
	if spec.Transport != "" {
		rep.Stat("sim.transport." + spec.Transport)
	}
	for _, t := range spec.Threads {
		rep.Stat("sim.thread." + t.Kind)
	}
	managed := spec.Setup != "toobig" && !(spec.Kind == "dial" && spec.Setup == "epollfail")
	cause := r.firstCause()
	rep.Stat("sim.cause." + cause)
	sawClose := false
	for _, e := range evs {
		if strings.HasPrefix(e, "op:1:") {
			rep.Stat("sim.op-after-close-returned")
		}
		if strings.HasPrefix(e, "close:") {
			sawClose = true
		}
		if strings.HasPrefix(e, "dial:") && sawClose && spec.Setup == "ok" {
			// a behaviour of the model as well (c03_close_can_precede_success_callback): counted, not a finding
			rep.Stat("sim.close-notified-before-dial-callback")
		}
	}

	// ---- correspondence with the model ----
	if model != nil {
		ans := model.Ask("run %s", strings.Join(acts, " ; "))
		want := normalizeModel(ans)
		if want != observed {
			rep.Add(hx.Finding{Kind: "mismatch", Property: prop, Signature: "lifecycle-model",
				What:   "schedule replayed through the model: events / final state differ\n model:       " + want + "\n implementation: " + observed,
				Replay: r.replay(map[string]interface{}{"actions": acts, "model": want, "observed": observed})})
		}
	}

	// ---- property oracle on the implementation alone ----
	ex := map[string]interface{}{"events": evs, "snapshot": snap}
	if spec.Kind == "conn" && managed && r.opens != 1 {
		r.oracle("open-count", fmt.Sprintf("%d open notifications for one registered connection", r.opens), ex)
	}
	if r.closeBeforeOpen {
		r.oracle("close-before-open", "close notification before the open notification", ex)
	}
	if r.closes > 1 {
		r.oracle("close-notified-twice", fmt.Sprintf("%d close notifications (%v)", r.closes, r.closeErrs), ex)
	}
	if closed && managed && r.closes == 0 {
		r.oracle("close-never-notified-"+cause, "the connection is closed but no close notification was delivered", ex)
	}
	if !managed && r.closes != 0 {
		r.oracle("close-notified-unregistered", "close notification for a connection that was never registered (no open notification)", ex)
	}
	if !closed && r.closes != 0 {
		r.oracle("close-notified-open", "close notification while the connection is open", ex)
	}
	if r.closes == 1 {
		got := r.closeErrs[0]
		cands := map[string]bool{}
		for _, t := range spec.Threads {
			if t.Kind == "close" {
				cands[errID(closeCauses[t.Cause])] = true
			}
		}
		for _, f := range r.fatalOps {
			cands[f] = true
		}
		if spec.Setup == "epollfail" {
			cands[errID(syscall.EEXIST)] = true
		}
		if spec.Setup == "closeinopen" {
			cands["nil"] = true
		}
		if spec.Kind == "dial" && spec.Kernel == "fail" {
			cands[errID(syscall.EBADF)] = true
		}
		if !cands[got] {
			r.oracle("wrong-close-error-"+cause, fmt.Sprintf("notified error %s is the error of none of the closing actions (%v)", errName(got), keys(cands)), ex)
		}
		if len(r.fatalOps) > 0 && got != r.fatalOps[0] {
			r.oracle("wrong-close-error-"+cause, fmt.Sprintf("an operation failed fatally with %s (it found the connection open, so it is the first cause) but %s was notified",
				errName(r.fatalOps[0]), errName(got)), ex)
		}
	}
	if len(r.fatalOps) > 1 {
		r.oracle("two-fatal-operations", fmt.Sprintf("two operations failed fatally (%v): the second one acted on a closed connection", r.fatalOps), ex)
	}
	if closed && r.sock.Closed != 1 {
		sig := "fd-leaked"
		if r.sock.Closed > 1 {
			sig = "fd-closed-twice"
		}
		r.oracle(sig, fmt.Sprintf("closed connection: %d close(2) calls on its descriptor", r.sock.Closed), ex)
	}
	if !closed && r.sock.Closed != 0 {
		r.oracle("fd-closed-open-conn", "descriptor closed while the connection is open", ex)
	}
	if r.closes == 1 && closeErrID != r.closeErrs[0] {
		r.oracle("isclosed-differs-from-notified-"+cause, fmt.Sprintf("notified %s but IsClosed() reports %s", errName(r.closeErrs[0]), errName(closeErrID)), ex)
	}
	if c2, _ := r.c.IsClosed(); c2 != closed {
		r.oracle("isclosed-disagrees", "IsClosed disagrees with the flag", ex)
	}
	if closed && eng.VerifLifeInTable(r.c) {
		r.oracle("closed-conn-left-in-table", "the engine's table still holds the closed connection", ex)
	}
	if spec.Kind == "dial" {
		outcome := "pending"
		if spec.Setup != "ok" {
			outcome = "rejected"
		} else if hasKind(spec.Threads, "poll") {
			outcome = map[string]string{"ok": "connected", "fail": "failed"}[spec.Kernel]
		}
		if len(r.dialRes) > 1 {
			r.oracle("dial-callback-twice", fmt.Sprintf("dial callback invoked %d times (%v)", len(r.dialRes), r.dialRes), ex)
		}
		if spec.Setup == "ok" && len(r.dialRes) == 0 && (closed || hasKind(spec.Threads, "poll")) {
			r.oracle("dial-callback-missing-"+outcome, "the dial callback was never invoked although the connect completed / the connection was closed", ex)
		}
		for _, d := range r.dialRes {
			if d == "ok" && (spec.Kernel != "ok" || spec.Setup != "ok") {
				r.oracle("dial-reports-success-"+outcome, "the dial callback reported success although the kernel never established the connection", ex)
			}
		}
		if spec.Setup != "ok" && len(r.dialRes) > 0 {
			// DialAsyncTimeout returns addDialer's error to its caller: the failure would be reported twice (D35, fixed in eae881e)
			r.oracle("dial-rejected-callback-also-invoked", "the registration of the dial failed (DialAsync returns the error) and the callback was invoked with the same error as well", ex)
		}
	} else if len(r.dialRes) > 0 {
		r.oracle("dial-callback-on-accepted-conn", "dial callback on a connection that was not dialed", ex)
	}
	// release what a still open connection holds (armed timers, dup'ed descriptors of queued files)
	eng.OnOpen, eng.OnClose = nil, nil
	r.c.Close()
	if len(rep.Samples) < 3 && len(r.lockOrder) >= 3 {
		rep.Sample(map[string]interface{}{"spec": spec, "lock_order": r.lockOrder, "actions": acts, "observed": observed})
	}
}

func hasKind(ts []threadSpec, k string) bool {
	for _, t := range ts {
		if t.Kind == k {
			return true
		}
	}
	return false
}

func keys(m map[string]bool) []string {
	var out []string
	for k := range m {
		out = append(out, errName(k))
	}
	return out
}

// firstCause names the action that found the connection open and closed it (from the implementation's own answers).
func (r *simRun) firstCause() string {
	if r.spec.Setup == "closeinopen" {
		return "close-in-onopen"
	}
	if r.spec.Setup != "ok" {
		return "registration-failure"
	}
	for _, a := range r.acts {
		f := strings.Fields(a.text)
		if len(f) == 0 {
			continue
		}
		switch f[0] {
		case "cl":
			if f[3] == "1" {
				return "close"
			}
			return "dial-failure"
		case "op":
			if strings.HasPrefix(f[3], "fail:") {
				if strings.HasPrefix(f[3], "fail:12:") {
					return "overflow"
				}
				return map[string]string{"w": "write", "v": "writev", "s": "sendfile", "f": "flush"}[f[1]] + "-failure"
			}
		}
	}
	return "none"
}

// normalizeModel turns "e1 ; e2 e3 ;  ; e4 | snapshot" into "e1 e2 e3 e4 | snapshot".
func normalizeModel(ans string) string {
	i := strings.Index(ans, "|")
	if i < 0 {
		return ans
	}
	var evs []string
	for _, part := range strings.Split(ans[:i], ";") {
		evs = append(evs, strings.Fields(part)...)
	}
	return strings.Join(evs, " ") + " | " + strings.TrimSpace(ans[i+1:])
}

func runSim(rep *hx.Report, seed int64, n int) {
	f, err := os.CreateTemp("", "lifecycle-sendfile-*")
	if err != nil {
		hx.Fatal("temp file: %v", err)
	}
	defer os.Remove(f.Name())
	f.Write(make([]byte, 4096))
	simFile = f
	envs := newSimEnvs()
	for i := 0; i < n && !rep.TooMany(); i++ {
		simCase(rep, envs, seed, i)
	}
	f.Close()
}
