// Harness for C20 (allocator contracts).
//
//	part A: correspondence of mempool.MemPool with the Coq model (oracle answers derived from
//	        what the implementation returned: which pooled pointer, which capacity);
//	part B: the property oracle on the implementation alone for the three allocators
//	        (length, content preservation, live buffers pairwise disjoint, frame);
//	part C / part D (lockstep.go): correspondence of mempool.AlignedAllocator / mempool.stdAllocator with their Coq models;
//	-gen FILE: write coq/mempool/GenMempool.v (the real alignedIndexes table and constants; needs -tags verifgen + overlay).
package main

import (
	"flag"
	"fmt"
	"math/rand"
	"os"
	"time"
	"unsafe"

	"github.com/lesismal/nbio/mempool"
	"verifharness/hx"
)

var sizes = []int{0, 1, 31, 32, 33, 63, 64, 65, 127, 128, 129, 1000, 1023, 1024, 1025, 4095, 4096, 4097, 9000, 32767, 32768, 32769, 40000}

type opRec struct {
	Op   string `json:"op"`
	Arg  int    `json:"arg"`
	Size int    `json:"size"`
}

func base(p *[]byte) uintptr {
	if cap(*p) == 0 {
		return 0
	}
	b := (*p)[:1]
	return uintptr(unsafe.Pointer(&b[0]))
}

// ---------- part A ----------
func partA(rep *hx.Report, model string, seed int64, nprog int) {
	m := hx.StartModel(model)
	defer m.Close()
	asizes := []int{0, 1, 31, 63, 64, 65, 127, 128, 129, 1000, 4095, 4096, 4097, 9000}
	for pi := 0; pi < nprog && !rep.TooMany(); pi++ {
		pseed := seed*1000003 + int64(pi)
		r := rand.New(rand.NewSource(pseed))
		bs := []int{64, 64, 16, 128}[r.Intn(4)]
		fs := []int{4096, 4096, 1024, 64}[r.Intn(4)]
		if fs < bs {
			fs = bs
		}
		a := mempool.New(bs, fs)
		m.Ask("init %d %d", bs, fs)
		ids := map[*[]byte]int{}
		var keep []*[]byte // keep every pointer alive: addresses stay unique
		pooled := map[int]bool{}
		live := []*[]byte{}
		next := 0
		var trace []opRec
		fail := func(what string) {
			rep.Add(hx.Finding{Kind: "mismatch", Property: "C20", Signature: "mempool-model", What: what,
				Replay: map[string]interface{}{"harness": "mempool", "part": "A", "seed": pseed, "bufSize": bs, "freeSize": fs, "ops": trace}})
		}
		ok := true
		idOf := func(p *[]byte) (int, string) {
			if id, found := ids[p]; found {
				if !pooled[id] {
					fail(fmt.Sprintf("allocator returned pointer %d which is neither fresh nor pooled (still live or dropped)", id))
					ok = false
				}
				delete(pooled, id)
				rep.Stat("A.reuse")
				return id, fmt.Sprintf("r%d", id)
			}
			id := next
			next++
			ids[p] = id
			keep = append(keep, p)
			rep.Stat("A.fresh")
			return id, "f"
		}
		check := func(what, got string, p *[]byte, id int) {
			var mid, mlen, spec int
			var mh string
			if _, err := fmt.Sscanf(got, "P %d %d %d %s", &mid, &mlen, &spec, &mh); err != nil {
				fail(fmt.Sprintf("%s: model says %q, impl id=%d len=%d cap=%d", what, got, id, len(*p), cap(*p)))
				ok = false
				return
			}
			if spec > len(*p) || mid != id || mlen != len(*p) || mh != hx.Hex((*p)[:spec]) {
				fail(fmt.Sprintf("%s: model %q, impl id=%d len=%d", what, got, id, len(*p)))
				ok = false
			}
		}
		fill := func(p *[]byte) {
			r.Read(*p)
			if got := m.Ask("fill %d %s", ids[p], hx.Hex(*p)); got != "U" {
				fail("fill: " + got)
				ok = false
			}
		}
		nsteps := 40 + r.Intn(120)
		for step := 0; step < nsteps && ok; step++ {
			rep.Ops++
			switch k := r.Intn(10); {
			case k < 3 || len(live) == 0:
				size := asizes[r.Intn(len(asizes))]
				trace = append(trace, opRec{"malloc", -1, size})
				p := a.Malloc(size)
				id, g := idOf(p)
				check("malloc", m.Ask("m %d %s %d", size, g, cap(*p)), p, id)
				live = append(live, p)
				fill(p)
				rep.Stat("A.malloc")
			case k < 6:
				i := r.Intn(len(live))
				p := live[i]
				more := make([]byte, asizes[r.Intn(len(asizes))]%700)
				r.Read(more)
				trace = append(trace, opRec{"append", i, len(more)})
				q := a.Append(p, more...)
				if q != p {
					fail("MemPool.Append moved the pointer")
					ok = false
					break
				}
				check("append", m.Ask("a %d %s %d", ids[p], hx.Hex(more), cap(*p)), p, ids[p])
				rep.Stat("A.append")
			case k < 8:
				i := r.Intn(len(live))
				p := live[i]
				size := asizes[r.Intn(len(asizes))]
				trace = append(trace, opRec{"realloc", i, size})
				oldid := ids[p]
				oldcap := cap(*p)
				q := a.Realloc(p, size)
				if q == p {
					check("realloc", m.Ask("re %d %d f %d", oldid, size, cap(*q)), q, oldid)
					rep.Stat("A.realloc-inplace")
				} else {
					id, g := idOf(q)
					check("realloc-move", m.Ask("re %d %d %s %d", oldid, size, g, cap(*q)), q, id)
					if oldcap > 0 && oldcap <= fs {
						pooled[oldid] = true
					}
					live[i] = q
					rep.Stat("A.realloc-move")
				}
				fill(live[i])
			default:
				i := r.Intn(len(live))
				p := live[i]
				trace = append(trace, opRec{"free", i, 0})
				a.Free(p)
				if got := m.Ask("free %d", ids[p]); got != "U" {
					fail("free: " + got)
					ok = false
				}
				if c := cap(*p); c > 0 && c <= fs {
					pooled[ids[p]] = true
				}
				live = append(live[:i], live[i+1:]...)
				rep.Stat("A.free")
			}
		}
		rep.Case(fmt.Sprintf("A%d", pseed), len(trace) > 3)
		if pi == 0 {
			n := len(trace)
			if n > 12 {
				n = 12
			}
			rep.Sample(map[string]interface{}{"part": "A", "bufSize": bs, "freeSize": fs, "first_ops": trace[:n]})
		}
	}
}

// ---------- part B ----------
type lbuf struct {
	p      *[]byte
	shadow []byte
}

func partB(rep *hx.Report, seed int64, nprog int) {
	names := []string{"pooled", "aligned", "std"}
	for pi := 0; pi < nprog && !rep.TooMany(); pi++ {
		pseed := seed*7919 + int64(pi)
		r := rand.New(rand.NewSource(pseed))
		kind := pi % 3
		var a mempool.Allocator
		switch kind {
		case 0:
			a = mempool.New([]int{64, 1024}[r.Intn(2)], []int{4096, 1 << 20}[r.Intn(2)])
		case 1:
			a = mempool.NewAligned()
		default:
			a = mempool.NewSTD()
		}
		var live []*lbuf
		var trace []opRec
		bad := false
		fail := func(sig, what string) {
			rep.Add(hx.Finding{Kind: "oracle", Property: "C20", Signature: names[kind] + "-" + sig, What: what,
				Replay: map[string]interface{}{"harness": "mempool", "part": "B", "allocator": names[kind], "seed": pseed, "ops": trace}})
			bad = true
		}
		verify := func(what string) {
			// contents of every live buffer equal its shadow; live buffers are pairwise disjoint
			for i, l := range live {
				if len(*l.p) != len(l.shadow) {
					fail("length", fmt.Sprintf("after %s: live buffer %d has len %d, expected %d", what, i, len(*l.p), len(l.shadow)))
					return
				}
				for j := range l.shadow {
					if (*l.p)[j] != l.shadow[j] {
						fail("content", fmt.Sprintf("after %s: live buffer %d changed at byte %d", what, i, j))
						return
					}
				}
			}
			type rg struct{ lo, hi uintptr }
			var rs []rg
			for _, l := range live {
				if cap(*l.p) > 0 {
					b := base(l.p)
					rs = append(rs, rg{b, b + uintptr(cap(*l.p))})
				}
			}
			for i := range rs {
				for j := i + 1; j < len(rs); j++ {
					if rs[i].lo < rs[j].hi && rs[j].lo < rs[i].hi {
						fail("alias", fmt.Sprintf("after %s: two live buffers share memory", what))
						return
					}
				}
			}
		}
		nsteps := 40 + r.Intn(100)
		for step := 0; step < nsteps && !bad; step++ {
			rep.Ops++
			func() {
				// a panic inside the allocator is a failure of the contract (no buffer comes back), not a harness crash
				defer func() {
					if e := recover(); e != nil {
						fail("panic", fmt.Sprintf("operation %d of the program panicked: %v", len(trace), e))
					}
				}()
				switch k := r.Intn(12); {
				case k < 4 || len(live) == 0:
					size := sizes[r.Intn(len(sizes))]
					trace = append(trace, opRec{"malloc", -1, size})
					p := a.Malloc(size)
					if len(*p) != size {
						fail("malloc-len", fmt.Sprintf("Malloc(%d) returned len %d", size, len(*p)))
						break
					}
					r.Read(*p)
					live = append(live, &lbuf{p, append([]byte{}, *p...)})
					verify("malloc")
					rep.Stat("B." + names[kind] + ".malloc")
				case k < 7:
					i := r.Intn(len(live))
					l := live[i]
					more := make([]byte, sizes[r.Intn(len(sizes))]%3000)
					r.Read(more)
					trace = append(trace, opRec{"append", i, len(more)})
					if k == 6 {
						l.p = a.AppendString(l.p, string(more))
					} else {
						l.p = a.Append(l.p, more...)
					}
					l.shadow = append(l.shadow, more...)
					verify("append")
					rep.Stat("B." + names[kind] + ".append")
				case k < 10:
					i := r.Intn(len(live))
					l := live[i]
					size := sizes[r.Intn(len(sizes))]
					trace = append(trace, opRec{"realloc", i, size})
					l.p = a.Realloc(l.p, size)
					if len(*l.p) != size {
						fail("realloc-len", fmt.Sprintf("Realloc(%d) returned len %d", size, len(*l.p)))
						break
					}
					n := len(l.shadow)
					if size < n {
						n = size
					}
					for j := 0; j < n; j++ {
						if (*l.p)[j] != l.shadow[j] {
							fail("realloc-content", fmt.Sprintf("Realloc(%d) lost byte %d of the old contents", size, j))
							break
						}
					}
					r.Read((*l.p)[n:])
					l.shadow = append([]byte{}, *l.p...)
					verify("realloc")
					rep.Stat("B." + names[kind] + ".realloc")
				default:
					i := r.Intn(len(live))
					trace = append(trace, opRec{"free", i, 0})
					a.Free(live[i].p)
					live = append(live[:i], live[i+1:]...)
					verify("free")
					rep.Stat("B." + names[kind] + ".free")
				}
			}()
		}
		rep.Case(fmt.Sprintf("B%d", pseed), len(trace) > 3)
		if pi < 3 {
			n := len(trace)
			if n > 8 {
				n = 8
			}
			rep.Sample(map[string]interface{}{"part": "B", "allocator": names[kind], "first_ops": trace[:n]})
		}
	}
}

func main() {
	seed := flag.Int64("seed", 1, "")
	n := flag.Int("n", 300, "programs per part")
	model := flag.String("model", "", "path of the extracted model")
	out := flag.String("out", "-", "")
	gen := flag.String("gen", "", "write coq/mempool/GenMempool.v (tables of the real aligned allocator) and exit; needs -tags verifgen and the overlay")
	flag.Parse()
	if *gen != "" {
		body, err := genMempoolV()
		if err != nil {
			hx.Fatal("gen: %v", err)
		}
		if err := os.WriteFile(*gen, []byte(body), 0o644); err != nil {
			hx.Fatal("gen: %v", err)
		}
		return
	}
	rep := hx.NewReport("mempool", *seed)
	rep.Rule = "random allocator programs (Malloc/Append/AppendString/Realloc/Free over sizes 0,1,2^k-1,2^k,2^k+1, above the free threshold; parts C/D: lock step of the aligned / std allocator with their models, sizes aimed at 0, 1, 31..33, every bucket size -1/0/+1, the lowest size of a bucket, 32767..32769, 40000..70001, appends that exactly fill / overflow the capacity by one, one focus bucket per program); a program is non-trivial when it has more than 3 operations; distinct = distinct PRNG seeds"
	timed := func(name string, f func()) {
		t0 := time.Now()
		f()
		rep.Extra["wall_s_part_"+name] = time.Since(t0).Seconds()
	}
	timed("A", func() { partA(rep, *model, *seed, *n) })
	timed("C", func() { partC(rep, *model, *seed, *n/4) })
	timed("D", func() { partD(rep, *model, *seed, *n/4) })
	timed("B", func() { partB(rep, *seed, *n*3) })
	rep.Write(*out)
}
