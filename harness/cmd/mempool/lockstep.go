// Parts C and D of the C20 harness: the real mempool.AlignedAllocator (part C) and mempool.stdAllocator (part D) run in
// lock step with their extracted Coq models (coq/mempool/Aligned.v, Std.v) on generated programs.
//
// The oracle answers of the models are derived from what the implementation did, never computed:
//   - which pooled pointer sync.Pool.Get returned: the base address of the returned slice is looked up among the arrays of
//     the pointers released so far (every pointer is kept alive, so addresses are unique); unknown address = pool.New();
//   - the capacity append chose when it had to grow (std): cap() of the result.
//
// Compared after every operation (projected observables only): pointer identity (same pointer / new pointer, numbered in
// order of first appearance), len, cap, the identity of the backing array (same array as before / an array never seen /
// the array of the recycled pointer) and an FNV-1a hash of the visible bytes. The models track whole backing arrays, so
// the stale bytes a recycled buffer or an in-place Realloc exposes are compared too.
package main

import (
	"fmt"
	"hash/fnv"
	"math/rand"
	"runtime"

	"github.com/lesismal/nbio/mempool"
	"verifharness/hx"
)

const alignedMax = 32768

func hashOf(b []byte) uint32 {
	h := fnv.New32a()
	h.Write(b)
	return h.Sum32()
}

type lsEntry struct {
	p  *[]byte
	id int
}

// lockstep is the bookkeeping of one program
type lockstep struct {
	rep      *hx.Report
	m        *hx.Model
	sig      string // finding signature prefix: "aligned" / "std"
	part     string
	pseed    int64
	trace    []opRec
	ok       bool
	next     int             // next fresh pointer id (the model numbers pointers in order of creation)
	keep     []*[]byte       // every pointer ever seen stays reachable: addresses stay unique
	arrays   [][]byte        // ... and so does every backing array (std: append leaves the old array to the collector)
	arrBase  map[int]uintptr // model array id -> base address
	baseArr  map[uintptr]int // base address -> model array id
	released map[uintptr]int // base address of the array of a released pointer -> its pointer id
	live     []lsEntry
}

func newLockstep(rep *hx.Report, m *hx.Model, sig, part string, pseed int64) *lockstep {
	return &lockstep{rep: rep, m: m, sig: sig, part: part, pseed: pseed, ok: true,
		arrBase: map[int]uintptr{}, baseArr: map[uintptr]int{}, released: map[uintptr]int{}}
}

func (l *lockstep) replay() map[string]interface{} {
	return map[string]interface{}{"harness": "mempool", "part": l.part, "allocator": l.sig, "seed": l.pseed, "ops": l.trace}
}

func (l *lockstep) mismatch(what string) {
	l.rep.Add(hx.Finding{Kind: "mismatch", Property: "C20", Signature: l.sig + "-model", What: what, Replay: l.replay()})
	l.ok = false
}

func (l *lockstep) oracle(sig, what string) {
	l.rep.Add(hx.Finding{Kind: "oracle", Property: "C20", Signature: l.sig + "-" + sig, What: what, Replay: l.replay()})
	l.ok = false
}

// safely runs one allocator call; a panic is a failure of the property itself (no buffer is returned)
func (l *lockstep) safely(what string, f func()) (ok bool) {
	defer func() {
		if e := recover(); e != nil {
			l.oracle("panic", fmt.Sprintf("%s panicked: %v", what, e))
			ok = false
		}
	}()
	f()
	return true
}

// check compares a "P id len cap arr hash" answer of the model with the buffer the implementation returned.
// wantID < 0: a new pointer is expected (numbered l.next).
func (l *lockstep) check(what, got string, q *[]byte, wantID int) (id int) {
	var mid, mlen, mcap, marr int
	var mh uint32
	if _, err := fmt.Sscanf(got, "P %d %d %d %d %d", &mid, &mlen, &mcap, &marr, &mh); err != nil {
		l.mismatch(fmt.Sprintf("%s: model says %q, implementation returned len=%d cap=%d", what, got, len(*q), cap(*q)))
		return -1
	}
	if wantID < 0 {
		wantID = l.next
		l.next++
		l.keep = append(l.keep, q)
	}
	if mid != wantID {
		l.mismatch(fmt.Sprintf("%s: model returns pointer %d, implementation pointer %d (same-pointer / new-pointer behaviour differs)", what, mid, wantID))
		return -1
	}
	if mlen != len(*q) || mcap != cap(*q) {
		l.mismatch(fmt.Sprintf("%s: model len=%d cap=%d, implementation len=%d cap=%d", what, mlen, mcap, len(*q), cap(*q)))
		return -1
	}
	if h := hashOf(*q); h != mh {
		l.mismatch(fmt.Sprintf("%s: contents differ (len %d): model hash %d, implementation hash %d", what, mlen, mh, h))
		return -1
	}
	if cap(*q) > 0 {
		b := base(q)
		if want, known := l.arrBase[marr]; known {
			if want != b {
				l.mismatch(fmt.Sprintf("%s: model keeps array %d, implementation moved to another array", what, marr))
				return -1
			}
		} else {
			if old, seen := l.baseArr[b]; seen {
				l.mismatch(fmt.Sprintf("%s: model allocates a new array %d, implementation is on the known array %d", what, marr, old))
				return -1
			}
			l.arrBase[marr] = b
			l.baseArr[b] = marr
			l.arrays = append(l.arrays, *q)
		}
	}
	return mid
}

func (l *lockstep) expectU(what, got string) {
	if got != "U" {
		l.mismatch(fmt.Sprintf("%s: model says %q", what, got))
	}
}

// pickOf derives the sync.Pool oracle answer from the array the implementation returned
func (l *lockstep) pickOf(q *[]byte) string {
	if cap(*q) == 0 {
		return "f"
	}
	if id, ok := l.released[base(q)]; ok {
		delete(l.released, base(q))
		l.rep.Stat(l.part + ".reuse")
		return fmt.Sprintf("r%d", id)
	}
	l.rep.Stat(l.part + ".fresh")
	return "f"
}

func (l *lockstep) release(e lsEntry) {
	if cap(*e.p) > 0 {
		l.released[base(e.p)] = e.id
	}
}

// fill overwrites the visible bytes with the pattern byte i = a + i*b and tells the model
func (l *lockstep) fill(cmd string, e lsEntry, r *rand.Rand) {
	a, b := r.Intn(256), r.Intn(256)
	for i := range *e.p {
		(*e.p)[i] = byte(a + i*b)
	}
	l.expectU("fill", l.m.Ask("%s %d %d %d %d", cmd, e.id, len(*e.p), a, b))
}

func patternBytes(n, a, b int) []byte {
	out := make([]byte, n)
	for i := range out {
		out[i] = byte(a + i*b)
	}
	return out
}

// ---------- part C: aligned ----------

var alignedBuckets = []int{32, 64, 128, 256, 512, 1024, 2048, 4096, 8192, 16384, 32768}

// the focus bucket of program i: every bucket in turn, the small ones (cheap for the list-based model) more often
var focusCycle = []int{32, 64, 128, 256, 512, 1024, 2048, 4096, 32, 64, 128, 8192, 16384, 32768, 256, 512}

type reuseStat struct{ opportunities, reuses int }

func alignedSize(r *rand.Rand, focus int) int {
	switch k := r.Intn(100); {
	case k < 40:
		lo := focus/2 + 1
		if focus == 32 {
			lo = 0
		}
		return []int{focus - 1, focus, focus + 1, lo, lo + r.Intn(focus-lo+1)}[r.Intn(5)]
	case k < 75:
		return []int{0, 1, 2, 31, 32, 33, 63, 64, 65, 100}[r.Intn(10)]
	case k < 95:
		b := alignedBuckets[r.Intn(len(alignedBuckets))]
		return b - 1 + r.Intn(3)
	default:
		return []int{32769, 40000, 65536, 70001}[r.Intn(4)]
	}
}

func partC(rep *hx.Report, model string, seed int64, nprog int) {
	if model == "" {
		return
	}
	m := hx.StartModel(model)
	defer m.Close()
	// one P: sync.Pool's per-P private slot is then always found again, so pooled buffers are really recycled
	defer runtime.GOMAXPROCS(runtime.GOMAXPROCS(1))
	stats := map[int]*reuseStat{}
	for _, b := range alignedBuckets {
		stats[b] = &reuseStat{}
	}
	var lastReplay map[string]interface{}
	for pi := 0; pi < nprog && !rep.TooMany(); pi++ {
		pseed := seed*2000003 + int64(pi)
		r := rand.New(rand.NewSource(pseed))
		focus := focusCycle[pi%len(focusCycle)]
		// the pools are package globals: two collections empty them (primary -> victim -> dropped), so that every program
		// starts in the model's initial state whatever ran before
		runtime.GC()
		runtime.GC()
		m.Ask("ainit")
		a := mempool.NewAligned()
		l := newLockstep(rep, m, "aligned", "C", pseed)
		// the model works on lists of bytes: programs on the big buckets are kept short
		nsteps := 50 + r.Intn(70)
		if focus >= 16384 {
			nsteps = 20 + r.Intn(16)
		} else if focus >= 4096 {
			nsteps = 30 + r.Intn(21)
		}
		// malloc-like step: real call first, oracle answer from the returned array, then the model
		opportunity := func(size int) (int, bool) {
			if size > alignedMax {
				return 0, false
			}
			var n, bucket int
			fmt.Sscanf(m.Ask("apool %d", size), "%d %d", &n, &bucket)
			return bucket, n > 0
		}
		note := func(bucket int, opp bool, g string) {
			if opp {
				stats[bucket].opportunities++
				if g != "f" {
					stats[bucket].reuses++
				}
			}
		}
		for step := 0; step < nsteps && l.ok; step++ {
			rep.Ops++
			k := r.Intn(100)
			switch {
			case len(l.live) == 0 || (k < 30 && len(l.live) < 8):
				size := alignedSize(r, focus)
				l.trace = append(l.trace, opRec{"malloc", -1, size})
				bucket, opp := opportunity(size)
				var p *[]byte
				if !l.safely(fmt.Sprintf("Malloc(%d)", size), func() { p = a.Malloc(size) }) {
					break
				}
				if p == nil || len(*p) != size {
					l.oracle("malloc-len", fmt.Sprintf("Malloc(%d) returned a buffer of another length", size))
					break
				}
				g := l.pickOf(p)
				note(bucket, opp, g)
				id := l.check("malloc", m.Ask("am %d %s", size, g), p, -1)
				if id < 0 {
					break
				}
				e := lsEntry{p, id}
				l.live = append(l.live, e)
				l.fill("afillp", e, r)
				rep.Stat("C.malloc")
			case k < 55:
				i := r.Intn(len(l.live))
				e := l.live[i]
				room := cap(*e.p) - len(*e.p)
				n := []int{0, 1, r.Intn(64), room, room + 1, r.Intn(2*focus + 1)}[r.Intn(6)]
				pa, pb := r.Intn(256), r.Intn(256)
				more := patternBytes(n, pa, pb)
				l.trace = append(l.trace, opRec{"append", i, n})
				old := append([]byte{}, *e.p...)
				bucket, opp := 0, false
				if n > room {
					bucket, opp = opportunity(len(*e.p) + n)
				}
				var q *[]byte
				call := func() { q = a.Append(e.p, more...) }
				if k%2 == 0 {
					call = func() { q = a.AppendString(e.p, string(more)) }
				}
				if !l.safely("Append", call) {
					break
				}
				if len(*q) != len(old)+n || string((*q)[:len(old)]) != string(old) || string((*q)[len(old):]) != string(more) {
					l.oracle("append-content", fmt.Sprintf("Append of %d bytes to a buffer of %d: the result is not old contents + new bytes", n, len(old)))
					break
				}
				if q == e.p {
					l.check("append", m.Ask("aap %d %d %d %d f", e.id, n, pa, pb), q, e.id)
					rep.Stat("C.append-inplace")
				} else {
					g := l.pickOf(q)
					note(bucket, opp, g)
					id := l.check("append-move", m.Ask("aap %d %d %d %d %s", e.id, n, pa, pb, g), q, -1)
					l.release(e)
					l.live[i] = lsEntry{q, id}
					rep.Stat("C.append-move")
				}
			case k < 78:
				i := r.Intn(len(l.live))
				e := l.live[i]
				size := []int{alignedSize(r, focus), cap(*e.p), cap(*e.p) + 1, len(*e.p) / 2, alignedSize(r, focus)}[r.Intn(5)]
				l.trace = append(l.trace, opRec{"realloc", i, size})
				old := append([]byte{}, *e.p...)
				bucket, opp := 0, false
				if size > cap(*e.p) {
					bucket, opp = opportunity(size)
				}
				var q *[]byte
				if !l.safely(fmt.Sprintf("Realloc(%d)", size), func() { q = a.Realloc(e.p, size) }) {
					break
				}
				keepN := len(old)
				if size < keepN {
					keepN = size
				}
				if len(*q) != size || string((*q)[:keepN]) != string(old[:keepN]) {
					l.oracle("realloc-content", fmt.Sprintf("Realloc(%d) of a buffer of %d: wrong length or the common prefix changed", size, len(old)))
					break
				}
				if q == e.p {
					l.check("realloc", m.Ask("are %d %d f", e.id, size), q, e.id)
					rep.Stat("C.realloc-inplace")
				} else {
					g := l.pickOf(q)
					note(bucket, opp, g)
					id := l.check("realloc-move", m.Ask("are %d %d %s", e.id, size, g), q, -1)
					l.release(e)
					l.live[i] = lsEntry{q, id}
					rep.Stat("C.realloc-move")
				}
				if l.ok && r.Intn(2) == 0 {
					l.fill("afillp", l.live[i], r)
				}
			default:
				i := r.Intn(len(l.live))
				e := l.live[i]
				l.trace = append(l.trace, opRec{"free", i, 0})
				if !l.safely("Free", func() { a.Free(e.p) }) {
					break
				}
				l.expectU("free", m.Ask("afree %d", e.id))
				l.release(e)
				l.live = append(l.live[:i], l.live[i+1:]...)
				rep.Stat("C.free")
			}
		}
		// read every live buffer back through the model (an in-place Realloc to the same length changes nothing):
		// a buffer disturbed by an operation on another one shows up here at the latest
		for _, e := range l.live {
			if !l.ok {
				break
			}
			l.check("final read-back", m.Ask("are %d %d f", e.id, len(*e.p)), e.p, e.id)
		}
		rep.Case(fmt.Sprintf("C%d", pseed), len(l.trace) > 3)
		lastReplay = l.replay()
		if pi == 0 {
			n := len(l.trace)
			if n > 10 {
				n = 10
			}
			rep.Sample(map[string]interface{}{"part": "C", "allocator": "aligned", "focus_bucket": focus, "first_ops": l.trace[:n]})
		}
	}
	// a bucket whose pooled buffers are never handed out again although the model pools them: the Free guard / the bucket
	// index of the code differs from the model (not a failure of the property by itself: reported as a disagreement)
	for _, b := range alignedBuckets {
		s := stats[b]
		rep.StatN(fmt.Sprintf("C.opportunities.%d", b), s.opportunities)
		rep.StatN(fmt.Sprintf("C.reuses.%d", b), s.reuses)
		if s.opportunities >= 12 && s.reuses == 0 {
			rep.Add(hx.Finding{Kind: "mismatch", Property: "C20", Signature: "aligned-model",
				What:   fmt.Sprintf("the model pools freed buffers of capacity %d and %d Mallocs of that class ran while one was pooled, but the implementation never handed one out again (Free guard / bucket index differ from the model)", b, s.opportunities),
				Replay: lastReplay})
		}
	}
}

// ---------- part D: std ----------

func stdSize(r *rand.Rand) int {
	if r.Intn(100) < 90 {
		return []int{0, 1, 7, 8, 9, 31, 32, 33, 63, 64, 65, 100, 255, 256, 257}[r.Intn(15)]
	}
	return []int{1023, 1024, 1025, 4095, 4096, 4097, 9000, 32767, 32768, 32769, 40000}[r.Intn(11)]
}

func partD(rep *hx.Report, model string, seed int64, nprog int) {
	if model == "" {
		return
	}
	m := hx.StartModel(model)
	defer m.Close()
	for pi := 0; pi < nprog && !rep.TooMany(); pi++ {
		pseed := seed*3000017 + int64(pi)
		r := rand.New(rand.NewSource(pseed))
		m.Ask("sinit")
		a := mempool.NewSTD()
		l := newLockstep(rep, m, "std", "D", pseed)
		nsteps := 40 + r.Intn(80)
		for step := 0; step < nsteps && l.ok; step++ {
			rep.Ops++
			k := r.Intn(100)
			switch {
			case len(l.live) == 0 || (k < 30 && len(l.live) < 8):
				size := stdSize(r)
				l.trace = append(l.trace, opRec{"malloc", -1, size})
				var p *[]byte
				if !l.safely(fmt.Sprintf("Malloc(%d)", size), func() { p = a.Malloc(size) }) {
					break
				}
				if p == nil || len(*p) != size {
					l.oracle("malloc-len", fmt.Sprintf("Malloc(%d) returned a buffer of another length", size))
					break
				}
				id := l.check("malloc", m.Ask("sm %d", size), p, -1)
				if id < 0 {
					break
				}
				e := lsEntry{p, id}
				l.live = append(l.live, e)
				l.fill("sfillp", e, r)
				rep.Stat("D.malloc")
			case k < 58:
				i := r.Intn(len(l.live))
				e := l.live[i]
				room := cap(*e.p) - len(*e.p)
				n := []int{0, 1, r.Intn(64), room, room + 1, stdSize(r) % 3000}[r.Intn(6)]
				pa, pb := r.Intn(256), r.Intn(256)
				more := patternBytes(n, pa, pb)
				l.trace = append(l.trace, opRec{"append", i, n})
				old := append([]byte{}, *e.p...)
				var q *[]byte
				call := func() { q = a.Append(e.p, more...) }
				if k%2 == 0 {
					call = func() { q = a.AppendString(e.p, string(more)) }
				}
				if !l.safely("Append", call) {
					break
				}
				if len(*q) != len(old)+n || string((*q)[:len(old)]) != string(old) || string((*q)[len(old):]) != string(more) {
					l.oracle("append-content", fmt.Sprintf("Append of %d bytes to a buffer of %d: the result is not old contents + new bytes", n, len(old)))
					break
				}
				if q != e.p {
					l.mismatch("std Append returned another pointer (the model appends through the pointer)")
					break
				}
				l.check("append", m.Ask("sap %d %d %d %d %d", e.id, n, pa, pb, cap(*q)), q, e.id)
				if n > room {
					rep.Stat("D.append-grow")
				} else {
					rep.Stat("D.append-inplace")
				}
			case k < 82:
				i := r.Intn(len(l.live))
				e := l.live[i]
				size := []int{stdSize(r), cap(*e.p), cap(*e.p) + 1, len(*e.p) / 2, stdSize(r)}[r.Intn(5)]
				l.trace = append(l.trace, opRec{"realloc", i, size})
				old := append([]byte{}, *e.p...)
				var q *[]byte
				if !l.safely(fmt.Sprintf("Realloc(%d)", size), func() { q = a.Realloc(e.p, size) }) {
					break
				}
				keepN := len(old)
				if size < keepN {
					keepN = size
				}
				if len(*q) != size || string((*q)[:keepN]) != string(old[:keepN]) {
					l.oracle("realloc-content", fmt.Sprintf("Realloc(%d) of a buffer of %d: wrong length or the common prefix changed", size, len(old)))
					break
				}
				if q == e.p {
					l.check("realloc", m.Ask("sre %d %d", e.id, size), q, e.id)
					rep.Stat("D.realloc-inplace")
				} else {
					id := l.check("realloc-move", m.Ask("sre %d %d", e.id, size), q, -1)
					l.live[i] = lsEntry{q, id}
					rep.Stat("D.realloc-move")
				}
				if l.ok && r.Intn(3) > 0 {
					l.fill("sfillp", l.live[i], r)
				}
			default:
				i := r.Intn(len(l.live))
				e := l.live[i]
				l.trace = append(l.trace, opRec{"free", i, 0})
				if !l.safely("Free", func() { a.Free(e.p) }) {
					break
				}
				l.expectU("free", m.Ask("sfree %d", e.id))
				l.live = append(l.live[:i], l.live[i+1:]...)
				rep.Stat("D.free")
			}
		}
		for _, e := range l.live {
			if !l.ok {
				break
			}
			l.check("final read-back", m.Ask("sre %d %d", e.id, len(*e.p)), e.p, e.id)
		}
		rep.Case(fmt.Sprintf("D%d", pseed), len(l.trace) > 3)
		if pi == 0 {
			n := len(l.trace)
			if n > 10 {
				n = 10
			}
			rep.Sample(map[string]interface{}{"part": "D", "allocator": "std", "first_ops": l.trace[:n]})
		}
	}
}
