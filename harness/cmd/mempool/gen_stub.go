//go:build !verifgen

package main

import "errors"

// Without the build tag `verifgen` (and the overlay that provides the accessors) the harness cannot dump the tables.
func genMempoolV() (string, error) {
	return "", errors.New("mempool -gen needs a build with -tags verifgen -overlay <overlay.json>")
}
