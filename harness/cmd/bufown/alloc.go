package main

// The instrumented allocator of C11: implements mempool.Allocator, is installed as mempool.DefaultMemPool and as
// Config.BodyAllocator (nbhttp and nbio), and
//   - gives every *[]byte it hands out a stable id (identity of the pointer) and records the event trace
//     m<id> (Malloc), a<id>,<id'> (Append/AppendString), r<id>,<id'> (Realloc), f<id> (Free), u<id> (a slice handed to
//     conn.Write or to a handler lies in the buffer's array),
//   - keeps a live map: double free, free/append of a stale or foreign pointer, use after free,
//   - poisons a buffer's memory on Free (0xDB) and hands out fresh memory filled with 0xCD, never recycles memory
//     (stale reads show up as poison on the wire / in delivered messages, stale writes as broken poison),
//   - keeps every pointer and array reachable for the duration of a case, so addresses are never reused.
import (
	"fmt"
	"reflect"
	"runtime"
	"strings"
	"sync"
	"unsafe"
)

const (
	poison  = 0xDB // content of freed memory
	garbage = 0xCD // content of fresh memory (a pool hands out dirty buffers)
)

const (
	modeInPlace    = 0 // Append keeps the pointer (like mempool.MemPool)
	modeAlwaysMove = 1 // every Append returns a new pointer and releases the old one
	modeGrowMove   = 2 // Append returns a new pointer when the capacity is exceeded (like the aligned allocator)
)

var modeNames = []string{"inplace", "alwaysmove", "growmove"}

type rec struct {
	id      int
	hdr     *[]byte
	arrs    [][]byte // backing arrays of this buffer, newest last (full capacity)
	live    bool
	mallocs []uintptr
	frees   []uintptr
}

type event struct {
	kind byte // m a r f u
	a, b int
	pcs  []uintptr
}

func (e event) String() string {
	switch e.kind {
	case 'a', 'r':
		return fmt.Sprintf("%c%d,%d", e.kind, e.a, e.b)
	}
	return fmt.Sprintf("%c%d", e.kind, e.a)
}

type violation struct {
	index int    // index of the offending event in the trace
	class string // double-free, use-after-free, append-after-free, foreign-free, foreign-append
	site  string
	what  string
}

type Alloc struct {
	mu     sync.Mutex
	mode   int
	slack  int // extra capacity handed out by Malloc
	byHdr  map[*[]byte]*rec
	recs   []*rec
	events []event
	viol   []violation
	nilOps int
	extra  []string // other oracle failures noticed by the allocator (signature|text)
}

func NewAlloc(mode, slack int) *Alloc {
	return &Alloc{mode: mode, slack: slack, byHdr: map[*[]byte]*rec{}}
}

func callers() []uintptr {
	var pcs [24]uintptr
	n := runtime.Callers(3, pcs[:])
	return append([]uintptr(nil), pcs[:n]...)
}

// site: the innermost function of the nbio module (outside mempool) on the stack
func site(pcs []uintptr) string {
	if len(pcs) == 0 {
		return "?"
	}
	frames := runtime.CallersFrames(pcs)
	for {
		f, more := frames.Next()
		fn := f.Function
		if strings.HasPrefix(fn, "github.com/lesismal/nbio") && !strings.HasPrefix(fn, "github.com/lesismal/nbio/mempool.") {
			fn = strings.TrimPrefix(fn, "github.com/lesismal/nbio/")
			fn = strings.TrimPrefix(fn, "github.com/lesismal/")
			return fn
		}
		if !more {
			break
		}
	}
	return "harness"
}

func fill(b []byte, v byte) {
	for i := range b {
		b[i] = v
	}
}

func (al *Alloc) newRec(size, capacity int, pcs []uintptr) *rec {
	if capacity < size {
		capacity = size
	}
	arr := make([]byte, capacity)
	fill(arr, garbage)
	h := new([]byte)
	*h = arr[:size]
	r := &rec{id: len(al.recs), hdr: h, arrs: [][]byte{arr}, live: true, mallocs: pcs}
	al.recs = append(al.recs, r)
	al.byHdr[h] = r
	return r
}

func (al *Alloc) capFor(size int) int {
	c := size + al.slack
	if c == 0 {
		c = 0
	}
	return c
}

func (al *Alloc) violate(class string, pcs []uintptr, what string) {
	al.viol = append(al.viol, violation{index: len(al.events) - 1, class: class, site: site(pcs), what: what})
}

// Malloc .
func (al *Alloc) Malloc(size int) *[]byte {
	pcs := callers()
	al.mu.Lock()
	defer al.mu.Unlock()
	if size < 0 {
		size = 0
	}
	r := al.newRec(size, al.capFor(size), pcs)
	al.events = append(al.events, event{kind: 'm', a: r.id, pcs: pcs})
	return r.hdr
}

func base(b []byte) uintptr {
	return (*reflect.SliceHeader)(unsafe.Pointer(&b)).Data
}

// adopt: the code under test may have replaced *hdr by a slice of another array (plain append); track it
func (r *rec) adopt() {
	cur := *r.hdr
	if cap(cur) == 0 {
		return
	}
	p := base(cur)
	for _, a := range r.arrs {
		if len(a) > 0 && p >= base(a) && p < base(a)+uintptr(len(a)) {
			return
		}
	}
	r.arrs = append(r.arrs, cur[:cap(cur)])
}

func (al *Alloc) release(r *rec, pcs []uintptr) {
	r.adopt()
	r.live = false
	r.frees = pcs
	for _, a := range r.arrs {
		fill(a, poison)
	}
}

func (al *Alloc) grow(kind byte, buf *[]byte, newLen int, more []byte, pcs []uintptr) *[]byte {
	r := al.byHdr[buf]
	if r == nil {
		// a pointer this allocator never handed out
		al.events = append(al.events, event{kind: kind, a: -1, b: -1, pcs: pcs})
		al.violate("foreign-append", pcs, "Append/Realloc of a pointer the allocator never handed out")
		if buf == nil {
			b := append([]byte{}, more...)
			return &b
		}
		*buf = append(*buf, more...)
		return buf
	}
	if !r.live {
		al.events = append(al.events, event{kind: kind, a: r.id, b: r.id, pcs: pcs})
		al.violate("append-after-free", pcs, fmt.Sprintf("Append/Realloc of buffer #%d which was freed at %s", r.id, site(r.frees)))
		// keep going on private memory so that the run can continue
		nb := make([]byte, 0, newLen)
		nb = append(nb, (*buf)...)
		if more != nil {
			nb = append(nb, more...)
		} else {
			nb = nb[:newLen]
		}
		*buf = nb
		return buf
	}
	r.adopt()
	old := *buf
	oldLen := len(old)
	keep := oldLen
	if more == nil && newLen < keep {
		keep = newLen
	}
	move := al.mode == modeAlwaysMove || (al.mode == modeGrowMove && newLen > cap(old))
	if move {
		n := al.newRec(newLen, al.capFor(newLen), pcs)
		copy(*n.hdr, old[:keep])
		if more != nil {
			copy((*n.hdr)[oldLen:], more)
		}
		al.events = append(al.events, event{kind: kind, a: r.id, b: n.id, pcs: pcs})
		al.release(r, pcs)
		return n.hdr
	}
	if newLen > cap(old) {
		c := 2 * cap(old)
		if c < newLen {
			c = newLen
		}
		arr := make([]byte, c+al.slack)
		fill(arr, garbage)
		copy(arr, old[:keep])
		if more != nil {
			copy(arr[oldLen:], more)
		}
		r.arrs = append(r.arrs, arr)
		*buf = arr[:newLen]
	} else {
		nb := old[:newLen]
		if more != nil {
			copy(nb[oldLen:], more)
		}
		*buf = nb
	}
	al.events = append(al.events, event{kind: kind, a: r.id, b: r.id, pcs: pcs})
	return buf
}

// Append .
func (al *Alloc) Append(buf *[]byte, more ...byte) *[]byte {
	pcs := callers()
	al.mu.Lock()
	defer al.mu.Unlock()
	if more == nil {
		more = []byte{}
	}
	l := 0
	if buf != nil {
		l = len(*buf)
	}
	return al.grow('a', buf, l+len(more), more, pcs)
}

// AppendString .
func (al *Alloc) AppendString(buf *[]byte, more string) *[]byte {
	pcs := callers()
	al.mu.Lock()
	defer al.mu.Unlock()
	l := 0
	if buf != nil {
		l = len(*buf)
	}
	return al.grow('a', buf, l+len(more), []byte(more), pcs)
}

// Realloc .
func (al *Alloc) Realloc(buf *[]byte, size int) *[]byte {
	pcs := callers()
	al.mu.Lock()
	defer al.mu.Unlock()
	return al.grow('r', buf, size, nil, pcs)
}

// Free .
func (al *Alloc) Free(buf *[]byte) {
	pcs := callers()
	al.mu.Lock()
	defer al.mu.Unlock()
	if buf == nil {
		al.nilOps++ // mempool.MemPool ignores Free(nil)
		return
	}
	r := al.byHdr[buf]
	if r == nil {
		al.events = append(al.events, event{kind: 'f', a: -1, pcs: pcs})
		al.violate("foreign-free", pcs, "Free of a pointer the allocator never handed out")
		return
	}
	al.events = append(al.events, event{kind: 'f', a: r.id, pcs: pcs})
	if !r.live {
		al.violate("double-free", pcs, fmt.Sprintf("second Free of buffer #%d (allocated at %s, first freed at %s)", r.id, site(r.mallocs), site(r.frees)))
		return
	}
	al.release(r, pcs)
}

// find the buffer whose memory contains b
func (al *Alloc) find(b []byte) *rec {
	if cap(b) == 0 {
		return nil
	}
	p := base(b)
	for i := len(al.recs) - 1; i >= 0; i-- {
		r := al.recs[i]
		if r.live {
			r.adopt()
		}
		for _, a := range r.arrs {
			if len(a) > 0 && p >= base(a) && p < base(a)+uintptr(len(a)) {
				return r
			}
		}
	}
	return nil
}

// Observe: the slice b is being read (by the connection, by a handler). Returns the buffer id (-1: not pooled memory).
func (al *Alloc) Observe(b []byte, who string) int {
	if len(b) == 0 {
		return -1
	}
	pcs := callers()
	al.mu.Lock()
	defer al.mu.Unlock()
	r := al.find(b)
	if r == nil {
		return -1
	}
	al.events = append(al.events, event{kind: 'u', a: r.id, pcs: pcs})
	if !r.live {
		s := site(pcs)
		if s == "harness" {
			s = who
		}
		al.viol = append(al.viol, violation{index: len(al.events) - 1, class: "use-after-free", site: s,
			what: fmt.Sprintf("%s reads buffer #%d which was freed at %s (allocated at %s)", who, r.id, site(r.frees), site(r.mallocs))})
	}
	return r.id
}

// Trace in the checker's syntax
func (al *Alloc) Trace() []string {
	al.mu.Lock()
	defer al.mu.Unlock()
	out := make([]string, len(al.events))
	for i, e := range al.events {
		out[i] = e.String()
	}
	return out
}

func (al *Alloc) Events() []event {
	al.mu.Lock()
	defer al.mu.Unlock()
	return append([]event(nil), al.events...)
}

// Verdict of the live map: "" or (index, class) of the first violation
func (al *Alloc) Verdict() (int, string) {
	al.mu.Lock()
	defer al.mu.Unlock()
	if len(al.viol) == 0 {
		return -1, ""
	}
	return al.viol[0].index, al.viol[0].class
}

func (al *Alloc) Violations() []violation {
	al.mu.Lock()
	defer al.mu.Unlock()
	return append([]violation(nil), al.viol...)
}

// BrokenPoison: freed buffers whose memory was written afterwards (free site of each)
func (al *Alloc) BrokenPoison() []string {
	al.mu.Lock()
	defer al.mu.Unlock()
	var out []string
	for _, r := range al.recs {
		if r.live {
			continue
		}
		for _, a := range r.arrs {
			bad := -1
			for i, c := range a {
				if c != poison {
					bad = i
					break
				}
			}
			if bad >= 0 {
				out = append(out, fmt.Sprintf("%s|buffer #%d (allocated at %s, freed at %s) was written after its Free: offset %d holds 0x%02x",
					site(r.frees), r.id, site(r.mallocs), site(r.frees), bad, a[bad]))
				break
			}
		}
	}
	return out
}

// Live buffers at the end, by allocation site (leaks are not C11 violations; statistic only)
func (al *Alloc) LiveSites() map[string]int {
	al.mu.Lock()
	defer al.mu.Unlock()
	m := map[string]int{}
	for _, r := range al.recs {
		if r.live {
			m[site(r.mallocs)]++
		}
	}
	return m
}

// LiveFrom counts live buffers allocated at a site containing s
func (al *Alloc) LiveFrom(s string) int {
	n := 0
	for k, v := range al.LiveSites() {
		if strings.Contains(k, s) {
			n += v
		}
	}
	return n
}

func (al *Alloc) Count() (mallocs, frees, appends, uses int) {
	al.mu.Lock()
	defer al.mu.Unlock()
	for _, e := range al.events {
		switch e.kind {
		case 'm':
			mallocs++
		case 'f':
			frees++
		case 'a', 'r':
			appends++
		case 'u':
			uses++
		}
	}
	return
}

// runOf reports the longest run of byte v in b
func runOf(b []byte, v byte) int {
	best, cur := 0, 0
	for _, c := range b {
		if c == v {
			cur++
			if cur > best {
				best = cur
			}
		} else {
			cur = 0
		}
	}
	return best
}
