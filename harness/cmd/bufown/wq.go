package main

// (e) the write queue of nbio.Conn on a SIMULATED descriptor of the shim kernel (overlay/pkg/verifsys, accessors in
// overlay/add/zz_verif_conn.go): the real Conn.Write / Writev / Sendfile / flush / Close with the instrumented allocator as
// the engine's BodyAllocator, every syscall answered from a script (accept k bytes / EAGAIN / EINTR / fatal errno).
// Every run is compared, operation by operation, with the instrumented model coq/bufown/WqAlloc.v (error or not, closed,
// shape of the queue, Conn.left) and the allocator event trace with the model's trace (modulo renaming); the bytes the
// simulated kernel accepted must be a prefix of what was written and contain no freed / never-written memory.
import (
	"bytes"
	"fmt"
	"io/ioutil"
	"math/rand"
	"os"
	"strings"

	"github.com/lesismal/nbio"
	"github.com/lesismal/nbio/verifsys"
	"verifharness/hx"
)

type wqEnv struct {
	eng  *nbio.VerifSimEngine
	file *os.File
	flen int
}

var wqenv *wqEnv

func wqSetup() *wqEnv {
	if wqenv != nil {
		return wqenv
	}
	e := &wqEnv{eng: nbio.VerifNewSimEngine(nbio.Config{})}
	f, err := ioutil.TempFile("", "bufown-wq")
	if err != nil {
		hx.Fatal("temp file: %v", err)
	}
	e.flen = 200000
	b := make([]byte, e.flen)
	for i := range b {
		b[i] = 'A' + byte(i%23)
	}
	if _, err := f.Write(b); err != nil {
		hx.Fatal("temp file: %v", err)
	}
	os.Remove(f.Name())
	e.file = f
	wqenv = e
	return e
}

type wqOp struct {
	kind byte // w v s f c
	lens []int
	req  int
	ks   []verifsys.Ans
}

func ksString(ks []verifsys.Ans) string {
	if len(ks) == 0 {
		return "-"
	}
	var t []string
	for _, a := range ks {
		switch a.Kind {
		case verifsys.Took:
			t = append(t, fmt.Sprintf("t%d", a.N))
		case verifsys.EAgain:
			t = append(t, "a")
		case verifsys.EIntr:
			t = append(t, "i")
		default:
			t = append(t, "x")
		}
	}
	return strings.Join(t, ".")
}

func (o *wqOp) String() string {
	switch o.kind {
	case 'w':
		return fmt.Sprintf("w:%d:%s", o.lens[0], ksString(o.ks))
	case 'v':
		ls := "-"
		if len(o.lens) > 0 {
			ls = strings.Trim(strings.Replace(fmt.Sprint(o.lens), " ", ",", -1), "[]")
		}
		return fmt.Sprintf("v:%s:%s", ls, ksString(o.ks))
	case 's':
		return fmt.Sprintf("s:%d:%d:%s", o.lens[0], o.req, ksString(o.ks))
	case 'f':
		return "f:" + ksString(o.ks)
	}
	return "c"
}

func wqLen(r *rand.Rand) int {
	switch r.Intn(9) {
	case 0:
		return 0
	case 1:
		return 1 + r.Intn(20)
	case 2:
		return 65536 - 2 + r.Intn(5)
	case 3:
		return 32768 - 2 + r.Intn(5)
	case 4:
		return 70000 + r.Intn(60000)
	default:
		return 1 + r.Intn(3000)
	}
}

func wqScript(r *rand.Rand, n int, fatal bool) []verifsys.Ans {
	var ks []verifsys.Ans
	for i := 0; i < n; i++ {
		switch x := r.Intn(12); {
		case x < 7:
			k := 1 + r.Intn(3000)
			switch r.Intn(4) {
			case 0:
				k = 1 + r.Intn(100000)
			case 1:
				k = 1 << 30
			}
			ks = append(ks, verifsys.Ans{Kind: verifsys.Took, N: k})
		case x < 9:
			ks = append(ks, verifsys.Ans{Kind: verifsys.EIntr})
		case x < 11 || !fatal:
			ks = append(ks, verifsys.Ans{Kind: verifsys.EAgain})
		default:
			ks = append(ks, verifsys.Ans{Kind: verifsys.Fatal, N: 32}) // EPIPE
		}
	}
	return ks
}

func wqCase(h *H, r *rand.Rand, idx int) {
	env := wqSetup()
	mode := []int{modeInPlace, modeAlwaysMove, modeGrowMove}[r.Intn(3)]
	slack := []int{0, 0, 1, 64, 1024, 70000}[r.Intn(6)]
	al := NewAlloc(mode, slack)
	install(al)
	env.eng.G.BodyAllocator = al
	max := 0
	if r.Intn(4) == 0 {
		max = 1 + r.Intn(300000)
	}
	env.eng.SetMaxWriteBufferSize(max)
	env.eng.OnClose = nil
	env.eng.CountWritten(func(c *nbio.Conn, b []byte, n int) {
		// flush hands the part of the pooled buffer the kernel just took; Write/Writev hand the caller's slice
		al.Observe(b, "kernel write")
	})
	defer env.eng.CountWritten(nil)
	sock := verifsys.NewSock()
	defer sock.Release()
	typ := nbio.ConnTypeTCP
	if r.Intn(4) == 0 {
		typ = nbio.ConnTypeUnix
	}
	c, err := env.eng.NewConn(sock, typ)
	if err != nil {
		hx.Fatal("sim conn: %v", err)
	}
	fatal := r.Intn(3) == 0
	nops := 3 + r.Intn(16)
	var ops []*wqOp
	for i := 0; i < nops; i++ {
		o := &wqOp{}
		switch x := r.Intn(20); {
		case x < 8:
			o.kind, o.lens, o.ks = 'w', []int{wqLen(r)}, wqScript(r, r.Intn(2), fatal)
		case x < 11:
			o.kind, o.ks = 'v', wqScript(r, r.Intn(2), fatal)
			for j := r.Intn(5); j > 0; j-- {
				o.lens = append(o.lens, wqLen(r))
			}
		case x < 13:
			o.kind, o.lens, o.ks = 's', []int{env.flen}, wqScript(r, r.Intn(4), fatal)
			o.req = []int{0, 1 + r.Intn(env.flen), env.flen + 5}[r.Intn(3)]
		case x < 19:
			o.kind, o.ks = 'f', wqScript(r, r.Intn(8), fatal)
			if r.Intn(3) == 0 {
				for j := 0; j < 12; j++ {
					o.ks = append(o.ks, verifsys.Ans{Kind: verifsys.Took, N: 1 << 30})
				}
			}
		default:
			o.kind = 'c'
		}
		ops = append(ops, o)
	}
	if r.Intn(2) == 0 {
		ops = append(ops, &wqOp{kind: 'c'})
	}
	// run the real code
	var obs []string
	var written []byte // what Write/Writev/Sendfile were given while they reported success
	exact := true
	seed := byte(idx)
	for _, o := range ops {
		sock.SetScript(append([]verifsys.Ans{}, o.ks...))
		var err error
		switch o.kind {
		case 'w':
			b := pat(o.lens[0], seed)
			seed++
			_, err = c.Write(b)
			if err == nil {
				written = append(written, b...)
			}
		case 'v':
			var in [][]byte
			var all []byte
			for _, l := range o.lens {
				b := pat(l, seed)
				seed++
				in = append(in, b)
				all = append(all, b...)
			}
			_, err = c.Writev(in)
			if err == nil {
				written = append(written, all...)
			}
		case 's':
			if _, e := env.file.Seek(0, 0); e != nil {
				hx.Fatal("seek: %v", e)
			}
			var n int64
			n, err = c.Sendfile(env.file, int64(o.req))
			if err != nil {
				exact = false // a failing Sendfile may have put a part of the file on the stream already
			}
			if err == nil {
				fb := make([]byte, n)
				for i := range fb {
					fb[i] = 'A' + byte(i%23)
				}
				written = append(written, fb...)
			}
		case 'f':
			err = nbio.VerifFlush(c)
		case 'c':
			err = c.Close()
			err = nil
		}
		res := "ok"
		if err != nil {
			res = "err"
		}
		cl := 0
		if nbio.VerifClosed(c) {
			cl = 1
		}
		shape, _ := nbio.VerifQueueShape(c)
		if shape == "" {
			shape = "-"
		}
		obs = append(obs, fmt.Sprintf("%s/%d/%s/%d", res, cl, shape, nbio.VerifLeft(c)))
	}
	progTrace := al.Trace() // the trace of the program that is compared with the model
	if !nbio.VerifClosed(c) {
		// not part of the compared program: Close, so that the "everything returned" oracle applies to every case
		_ = c.Close()
	}
	var toks []string
	for _, o := range ops {
		toks = append(toks, o.String())
	}
	replay := map[string]interface{}{"harness": "bufown", "scenario": "wq", "seed": h.seed, "index": idx, "allocator": modeNames[mode],
		"slack": slack, "max_write_buffer": max, "unix": typ == nbio.ConnTypeUnix, "ops": toks}
	h.rep.Case(fmt.Sprintf("wq/%v/%s/%d/%d", toks, modeNames[mode], slack, max), true)
	h.rep.Ops += len(ops)
	h.rep.Stat("wq.alloc=" + modeNames[mode])
	// the stream: a prefix of what was accepted, no pool memory that was freed or never written
	wire := sock.Wire
	if runOf(wire, poison) >= 8 || runOf(wire, garbage) >= 8 || exact && (len(wire) > len(written) || !bytes.Equal(wire, written[:len(wire)])) {
		kind := ""
		if runOf(wire, poison) >= 8 {
			kind = "poison"
		} else if runOf(wire, garbage) >= 8 {
			kind = "garbage"
		}
		if kind != "" {
			h.rep.Add(hx.Finding{Kind: "oracle", Property: "C11", Signature: kind + "-on-wire-wq",
				What: fmt.Sprintf("the kernel was handed %d bytes that are not a prefix of the %d accepted: first difference at %d; freed / never-written pool memory in the stream", len(wire), len(written), firstDiff(wire, written)), Replay: replay})
		} else {
			h.rep.Stat("wq.stream-differs-without-poison")
		}
	}
	h.finish(al, "wq", replay)
	if live := al.LiveSites(); len(live) > 0 {
		h.rep.Add(hx.Finding{Kind: "oracle", Property: "C11", Signature: "not-returned-after-close-wq",
			What: fmt.Sprintf("after Close buffers are still held (by allocation site): %v", live), Replay: replay})
	}
	if h.model != nil {
		mv := "-"
		if mode == modeAlwaysMove {
			mv = strings.Repeat("1", 4000)
		}
		line := h.model.Ask("Q %d %s %d %s", max, mv, slack, strings.Join(toks, " "))
		if !strings.HasPrefix(line, "S=") {
			hx.Fatal("model answer %q", line)
		}
		parts := strings.SplitN(line[2:], " TR=", 2)
		ms, mt := parts[0], ""
		if len(parts) == 2 {
			mt = parts[1]
		}
		in, mn := strings.Join(normalise(progTrace), " "), strings.Join(normalise(strings.Fields(mt)), " ")
		if strings.Join(obs, ";") != ms || in != mn {
			h.rep.Add(hx.Finding{Kind: "mismatch", Property: "C11", Signature: "write-queue-alloc-model",
				What: fmt.Sprintf("impl S=%s TRACE=%s ; model S=%s TRACE=%s", strings.Join(obs, ";"), in, ms, mn), Replay: replay})
		}
	}
	if idx < 2 {
		h.rep.Sample(map[string]interface{}{"scenario": "wq", "ops": toks, "allocator": modeNames[mode], "slack": slack, "observations": obs})
	}
}
