package main

// (a) HTTP server exchanges through the real Parser + ServerProcessor + Response (+ BodyReader) behind the scripted
// connection, with the instrumented allocator.
//   respCase:  one body-less request, a handler program; compared with the instrumented Coq model coq/bufown/RespAlloc.v
//              (Write results, conn.Write boundaries and success, allocator event trace modulo renaming), for the
//              failure-free run and for conn.Write failing from / only at the k-th write, every k.
//   connCase:  a connection carrying several requests (bodies by Content-Length and chunked, trailers, pipelining),
//              delivered in arbitrary segments, malformed or closed mid-message; handlers read the body fully,
//              partly or not at all and answer with a handler program; write failures.
import (
	"fmt"
	"io"
	"math/rand"
	"net/http"
	"strings"

	"github.com/lesismal/nbio/mempool"
	"github.com/lesismal/nbio/nbhttp"
	"verifharness/hx"
)

type op struct {
	Kind string
	N    int
	K, V string
}

type prog struct {
	Minor    int
	CloseReq bool
	Ops      []op
}

func (p *prog) desc() []string {
	var d []string
	for _, o := range p.Ops {
		switch o.Kind {
		case "w":
			d = append(d, fmt.Sprintf("w%d", o.N))
		case "f":
			d = append(d, "flush")
		case "cl", "s":
			d = append(d, fmt.Sprintf("%s%d", o.Kind, o.N))
		default:
			d = append(d, o.Kind+":"+o.K+"="+o.V)
		}
	}
	return d
}

func (p *prog) nonTrivial() bool {
	for _, o := range p.Ops {
		if o.Kind == "w" && o.N > 0 {
			return true
		}
	}
	return false
}

var payloadBuf []byte

// payload: n bytes 'a' (a shared read-only backing array: the writer copies what it keeps)
func payload(n int) []byte {
	if len(payloadBuf) < n {
		payloadBuf = make([]byte, n+65536)
		for i := range payloadBuf {
			payloadBuf[i] = 'a'
		}
	}
	return payloadBuf[:n:n]
}

func pat(n int, seed byte) []byte {
	b := make([]byte, n)
	x := uint32(seed) + 1
	for i := range b {
		x = x*1664525 + 1013904223
		b[i] = 'a' + byte(x>>24)%26
	}
	return b
}

func writeSize(r *rand.Rand) int {
	switch r.Intn(10) {
	case 0:
		return r.Intn(10)
	case 1:
		return 65536 - 200 + r.Intn(400)
	case 2:
		return 60000 + r.Intn(6000)
	case 3:
		return 70000 + r.Intn(1000)
	case 4:
		return 0
	case 5:
		return 65536 - 4 + r.Intn(9)
	case 6:
		return 32000 + r.Intn(2000) // two of them cross 64 KiB together
	default:
		return r.Intn(3000)
	}
}

func genProg(r *rand.Rand) *prog {
	p := &prog{Minor: r.Intn(2), CloseReq: r.Intn(3) == 0}
	nw := r.Intn(6)
	code := 0
	if r.Intn(2) == 0 {
		code = []int{200, 201, 404, 500, 599, 204, 304}[r.Intn(7)]
	}
	if (code == 204 || code == 304) && r.Intn(3) > 0 {
		nw = 0
	}
	sizes := make([]int, nw)
	for i := range sizes {
		sizes[i] = writeSize(r)
	}
	explicitCL := r.Intn(3) == 0
	if r.Intn(8) == 0 {
		// a declared length, the head and a large part sent, then the body buffer filled to exactly 64 KiB
		a := 1 + r.Intn(65535)
		sizes = []int{65536 + r.Intn(5000), a, 65536 - a}
		if r.Intn(2) == 0 {
			sizes = append(sizes, writeSize(r))
		}
		nw = len(sizes)
		explicitCL = true
		if code == 204 || code == 304 {
			code = 200
		}
	}
	lateCL := !explicitCL && nw > 1 && r.Intn(12) == 0 // Content-Length set between two writes (legal for a handler, odd)
	trailers := !explicitCL && p.Minor == 1 && r.Intn(4) == 0
	if explicitCL {
		j := len(sizes)
		if j > 1 && r.Intn(4) == 0 {
			j = 1 + r.Intn(j-1)
		}
		t := 0
		for _, s := range sizes[:j] {
			t += s
		}
		if t == 0 {
			for _, s := range sizes {
				t += s
			}
		}
		p.Ops = append(p.Ops, op{Kind: "cl", N: t})
	}
	if r.Intn(2) == 0 {
		p.Ops = append(p.Ops, op{Kind: "x", K: "X-A", V: "b c"})
	}
	if trailers {
		p.Ops = append(p.Ops, op{Kind: "t", K: "X-Sum"})
		if r.Intn(2) == 0 {
			p.Ops = append(p.Ops, op{Kind: "tv", K: "X-Sum", V: "early"})
		}
	}
	if code != 0 {
		p.Ops = append(p.Ops, op{Kind: "s", N: code})
	}
	if r.Intn(8) == 0 {
		p.Ops = append(p.Ops, op{Kind: "f"}) // Flush before anything was written
	}
	for i, n := range sizes {
		if lateCL && i == 1 {
			t := 0
			for _, s := range sizes {
				t += s
			}
			p.Ops = append(p.Ops, op{Kind: "cl", N: t + 5})
		}
		p.Ops = append(p.Ops, op{Kind: "w", N: n})
		if r.Intn(4) == 0 {
			p.Ops = append(p.Ops, op{Kind: "f"})
			if r.Intn(4) == 0 {
				p.Ops = append(p.Ops, op{Kind: "f"})
			}
		}
	}
	if trailers && r.Intn(2) == 0 {
		p.Ops = append(p.Ops, op{Kind: "tv", K: "X-Sum", V: "late"})
	}
	return p
}

func statusText(code int) string {
	txt := http.StatusText(code)
	if txt == "" && code >= 100 && code <= 999 {
		txt = fmt.Sprintf("status code %d", code)
	}
	return txt
}

// runOps executes a handler program on the response writer
func runOps(p *prog, rw http.ResponseWriter) []string {
	var wrets []string
	for _, o := range p.Ops {
		switch o.Kind {
		case "cl":
			rw.Header().Set("Content-Length", fmt.Sprint(o.N))
		case "x":
			rw.Header().Set(o.K, o.V)
		case "t":
			rw.Header().Add("Trailer", o.K)
		case "tv":
			rw.Header().Set(o.K, o.V)
		case "s":
			rw.WriteHeader(o.N)
		case "w":
			n, err := rw.Write(payload(o.N))
			if err == http.ErrContentLength {
				wrets = append(wrets, "ECL")
			} else if err != nil {
				wrets = append(wrets, "ERR")
			} else {
				wrets = append(wrets, fmt.Sprint(n))
			}
		case "f":
			rw.(http.Flusher).Flush()
		}
	}
	return wrets
}

func install(al *Alloc) {
	mempool.DefaultMemPool = al
}

// ---------------------------------------------------------------- respCase
type respResult struct {
	wrets  []string
	lens   []int
	oks    []bool
	wire   [][]byte
	closed int
}

func runResp(p *prog, al *Alloc, fails func(int) bool) respResult {
	install(al)
	var res respResult
	fc := &sconn{al: al, fails: fails}
	engine := newEngine(al, nbhttp.Config{Handler: http.HandlerFunc(func(rw http.ResponseWriter, rq *http.Request) {
		res.wrets = runOps(p, rw)
	})})
	ps := nbhttp.NewParser(fc, engine, nbhttp.NewServerProcessor(), false, nil)
	cl := ""
	if p.CloseReq {
		cl = "Connection: close\r\n"
	}
	if err := ps.Parse([]byte(fmt.Sprintf("GET / HTTP/1.%d\r\nHost: x\r\n%s\r\n", p.Minor, cl))); err != nil {
		hx.Fatal("request parse: %v", err)
	}
	ps.CloseAndClean(nil)
	res.wire, res.oks = fc.snapshot()
	for _, w := range res.wire {
		res.lens = append(res.lens, len(w))
	}
	res.closed = fc.closed
	return res
}

func modelLine(p *prog, mode int, fails string) string {
	var toks []string
	for _, o := range p.Ops {
		switch o.Kind {
		case "cl":
			toks = append(toks, fmt.Sprintf("cl:%d", o.N))
		case "x":
			toks = append(toks, "x:"+hx.Hex([]byte(o.K))+":"+hx.Hex([]byte(o.V)))
		case "t":
			toks = append(toks, "t:"+hx.Hex([]byte(o.K)))
		case "tv":
			toks = append(toks, "tv:"+hx.Hex([]byte(o.K))+":"+hx.Hex([]byte(o.V)))
		case "s":
			toks = append(toks, fmt.Sprintf("s:%d:%s", o.N, hx.Hex([]byte(statusText(o.N)))))
		case "w":
			toks = append(toks, fmt.Sprintf("w:%d", o.N))
		case "f":
			toks = append(toks, "f")
		}
	}
	closeBit := 0
	if p.CloseReq || p.Minor == 0 {
		closeBit = 1
	}
	mv := "-"
	if mode == modeAlwaysMove {
		mv = strings.Repeat("1", 96)
	}
	return fmt.Sprintf("R %d %d %s %s %s %s", p.Minor, closeBit, hx.Hex([]byte(fmt.Sprintf("HTTP/1.%d", p.Minor))), mv, fails, strings.Join(toks, " "))
}

// normalise a trace for the comparison with the model: runs of Appends on one buffer lineage count as one Append
// (the model emits one Append where the code appends piecewise), ids renamed in order of first appearance.
func normalise(tr []string) []string {
	type ev struct {
		k    byte
		a, b int
	}
	var out []ev
	for _, s := range tr {
		if s == "" {
			continue
		}
		e := ev{k: s[0]}
		if s[0] == 'a' || s[0] == 'r' {
			fmt.Sscanf(s[1:], "%d,%d", &e.a, &e.b)
		} else {
			fmt.Sscanf(s[1:], "%d", &e.a)
		}
		if n := len(out); n > 0 && e.k == 'a' && out[n-1].k == 'a' && out[n-1].b == e.a {
			out[n-1].b = e.b
			continue
		}
		out = append(out, e)
	}
	ren := map[int]int{}
	name := func(x int) int {
		if v, ok := ren[x]; ok {
			return v
		}
		ren[x] = len(ren)
		return ren[x]
	}
	res := make([]string, len(out))
	for i, e := range out {
		if e.k == 'a' || e.k == 'r' {
			a := name(e.a)
			res[i] = fmt.Sprintf("%c%d,%d", e.k, a, name(e.b))
		} else {
			res[i] = fmt.Sprintf("%c%d", e.k, name(e.a))
		}
	}
	return res
}

func respCase(h *H, r *rand.Rand, idx int, allK bool) {
	p := genProg(r)
	mode := []int{modeInPlace, modeAlwaysMove}[r.Intn(2)]
	// failure-free run first: it tells how many conn.Writes there are
	type script struct {
		name  string
		fails func(int) bool
	}
	scripts := []script{{"none", nil}}
	al0 := NewAlloc(mode, 0)
	base := runResp(p, al0, nil)
	nw := len(base.lens)
	// conn.Write failing from the k-th write on, for EVERY k; failing only at the k-th, for every k (thorough) or some k
	for k := 0; k < nw; k++ {
		scripts = append(scripts, script{fmt.Sprintf("from%d", k), failFrom(k)})
		if allK || r.Intn(3) == 0 {
			scripts = append(scripts, script{fmt.Sprintf("only%d", k), failOnly(k)})
		}
	}
	for si, sc := range scripts {
		var al *Alloc
		var res respResult
		if si == 0 {
			al, res = al0, base
		} else {
			al = NewAlloc(mode, 0)
			res = runResp(p, al, sc.fails)
		}
		replay := map[string]interface{}{"harness": "bufown", "scenario": "resp", "seed": h.seed, "index": idx, "http_minor": p.Minor,
			"connection_close": p.CloseReq, "ops": p.desc(), "allocator": modeNames[mode], "conn_write_failures": sc.name}
		h.rep.Case(fmt.Sprintf("resp/%d/%v/%v/%s/%s", p.Minor, p.CloseReq, p.desc(), modeNames[mode], sc.name), p.nonTrivial())
		h.rep.Ops += len(p.Ops)
		h.rep.Stat("resp.alloc=" + modeNames[mode])
		if sc.fails != nil {
			h.rep.Stat("resp.write-failure-script")
		}
		for _, w := range res.wire {
			h.scanWire(w, "response", replay)
		}
		h.finish(al, "resp", replay)
		if h.model != nil {
			line := h.model.Ask("%s", modelLine(p, mode, failBits(sc.fails, len(res.lens)+4)))
			var mw, mo, mt string
			if i := strings.Index(line, " OUT="); i >= 0 && strings.HasPrefix(line, "W=") {
				mw = line[2:i]
				rest := line[i+5:]
				if j := strings.Index(rest, " TR="); j >= 0 {
					mo, mt = rest[:j], rest[j+4:]
				}
			} else {
				hx.Fatal("model answer %q", line)
			}
			var io []string
			for i, l := range res.lens {
				ok := 0
				if res.oks[i] {
					ok = 1
				}
				io = append(io, fmt.Sprintf("%d:%d", l, ok))
			}
			it := strings.Join(normalise(al.Trace()), " ")
			mtn := strings.Join(normalise(strings.Fields(mt)), " ")
			iw := strings.Join(res.wrets, ",")
			if iw != mw || strings.Join(io, ",") != mo || it != mtn {
				h.rep.Add(hx.Finding{Kind: "mismatch", Property: "C11", Signature: "response-alloc-model",
					What: fmt.Sprintf("impl W=%s OUT=%s TRACE=%s ; model W=%s OUT=%s TRACE=%s", iw, strings.Join(io, ","), it, mw, mo, mtn), Replay: replay})
			}
		}
		if idx < 2 && si < 2 {
			h.rep.Sample(map[string]interface{}{"scenario": "resp", "ops": p.desc(), "allocator": modeNames[mode], "failures": sc.name,
				"conn_writes": res.lens, "write_results": res.wrets, "trace": strings.Join(al.Trace(), " ")})
		}
	}
}

// ---------------------------------------------------------------- connCase
type reqSpec struct {
	Method   string
	Minor    int
	Close    bool
	BodyKind string // none, cl, chunked
	Body     []byte
	Chunks   []int
	Trailer  bool
	Read     int // handler reads: -1 all, n >= 0 at most n bytes
	Prog     *prog
}

func (q *reqSpec) wire() []byte {
	var b strings.Builder
	path := "/p"
	fmt.Fprintf(&b, "%s %s HTTP/1.%d\r\nHost: x\r\n", q.Method, path, q.Minor)
	if q.Close {
		b.WriteString("Connection: close\r\n")
	} else if q.Minor == 0 {
		b.WriteString("Connection: keep-alive\r\n")
	}
	switch q.BodyKind {
	case "cl":
		fmt.Fprintf(&b, "Content-Length: %d\r\n\r\n", len(q.Body))
		b.Write(q.Body)
	case "chunked":
		b.WriteString("Transfer-Encoding: chunked\r\n")
		if q.Trailer {
			b.WriteString("Trailer: X-T\r\n")
		}
		b.WriteString("\r\n")
		off := 0
		for _, c := range q.Chunks {
			fmt.Fprintf(&b, "%x\r\n", c)
			b.Write(q.Body[off : off+c])
			b.WriteString("\r\n")
			off += c
		}
		b.WriteString("0\r\n")
		if q.Trailer {
			b.WriteString("X-T: tv\r\n")
		}
		b.WriteString("\r\n")
	default:
		b.WriteString("\r\n")
	}
	return []byte(b.String())
}

func bodySize(r *rand.Rand) int {
	switch r.Intn(8) {
	case 0:
		return 0
	case 1:
		return 1 + r.Intn(20)
	case 2:
		return 4096 - 3 + r.Intn(7)
	case 3:
		return 65536 - 3 + r.Intn(7)
	case 4:
		return 20000 + r.Intn(50000)
	default:
		return r.Intn(3000)
	}
}

func genReq(r *rand.Rand, seed byte) *reqSpec {
	q := &reqSpec{Method: "GET", Minor: r.Intn(2), Close: r.Intn(6) == 0, BodyKind: "none", Read: -1}
	switch r.Intn(5) {
	case 0, 1:
		q.Method, q.BodyKind = "POST", "cl"
		q.Body = pat(bodySize(r), seed)
	case 2:
		if q.Minor == 1 {
			q.Method, q.BodyKind = "POST", "chunked"
			n := r.Intn(4)
			for i := 0; i < n; i++ {
				c := 1 + bodySize(r)/2
				q.Chunks = append(q.Chunks, c)
			}
			t := 0
			for _, c := range q.Chunks {
				t += c
			}
			q.Body = pat(t, seed)
			q.Trailer = r.Intn(3) == 0
		}
	}
	switch r.Intn(4) {
	case 0:
		q.Read = 0
	case 1:
		q.Read = r.Intn(len(q.Body) + 2)
	}
	q.Prog = genProg(r)
	q.Prog.Minor, q.Prog.CloseReq = q.Minor, q.Close
	return q
}

func (q *reqSpec) desc() string {
	return fmt.Sprintf("%s/1.%d close=%v body=%s:%d chunks=%v trailer=%v read=%d resp=%v", q.Method, q.Minor, q.Close, q.BodyKind, len(q.Body), q.Chunks, q.Trailer, q.Read, q.Prog.desc())
}

func cuts(r *rand.Rand, n int) []int {
	var c []int
	switch r.Intn(4) {
	case 0: // one piece
	case 1:
		if n > 1 {
			c = append(c, 1+r.Intn(n-1))
		}
	default:
		k := 1 + r.Intn(6)
		for i := 0; i < k && n > 1; i++ {
			c = append(c, 1+r.Intn(n-1))
		}
	}
	return sortedUnique(c)
}

func sortedUnique(c []int) []int {
	for i := 1; i < len(c); i++ {
		for j := i; j > 0 && c[j] < c[j-1]; j-- {
			c[j], c[j-1] = c[j-1], c[j]
		}
	}
	var o []int
	for i, x := range c {
		if i == 0 || x != c[i-1] {
			o = append(o, x)
		}
	}
	return o
}

type connSpec struct {
	Reqs      []*reqSpec
	Cuts      []int
	Corrupt   int // -1 or offset of a byte replaced by 0x01
	StopAfter int // -1 or number of segments delivered before the connection is closed
	Mode      int
	Slack     int
	FailFrom  int // -1 or first failing conn.Write
	FailOnly  bool
	MaxBody   int
	ReadLimit int
}

func runConn(h *H, cs *connSpec, idx int, tag string) {
	al := NewAlloc(cs.Mode, cs.Slack)
	install(al)
	var fails func(int) bool
	if cs.FailFrom >= 0 {
		if cs.FailOnly {
			fails = failOnly(cs.FailFrom)
		} else {
			fails = failFrom(cs.FailFrom)
		}
	}
	fc := &sconn{al: al, fails: fails}
	closeAsked := false
	fc.onClose = func() { closeAsked = true }
	served := 0
	var bodyProblems []string
	engine := newEngine(al, nbhttp.Config{MaxHTTPBodySize: cs.MaxBody, ReadLimit: cs.ReadLimit,
		Handler: http.HandlerFunc(func(rw http.ResponseWriter, rq *http.Request) {
			if served >= len(cs.Reqs) {
				return
			}
			q := cs.Reqs[served]
			served++
			if q.Read != 0 && rq.Body != nil {
				var got []byte
				if q.Read < 0 {
					got, _ = io.ReadAll(rq.Body)
				} else {
					got = make([]byte, q.Read)
					n, _ := io.ReadFull(rq.Body, got)
					got = got[:n]
				}
				if cs.Corrupt < 0 && (len(got) > len(q.Body) || string(got) != string(q.Body[:len(got)])) {
					kind := "corrupt"
					if runOf(got, poison) >= 8 {
						kind = "poison"
					} else if runOf(got, garbage) >= 8 {
						kind = "garbage"
					}
					bodyProblems = append(bodyProblems, fmt.Sprintf("%s|request %d: the handler read %d body bytes that differ from the %d sent (first difference at %d)", kind, served-1, len(got), len(q.Body), firstDiff(got, q.Body)))
				}
				if cs.Corrupt < 0 && q.Read < 0 && len(got) != len(q.Body) {
					bodyProblems = append(bodyProblems, fmt.Sprintf("short|request %d: the handler read %d of %d body bytes", served-1, len(got), len(q.Body)))
				}
			}
			runOps(q.Prog, rw)
		})})
	ps := nbhttp.NewParser(fc, engine, nbhttp.NewServerProcessor(), false, nil)
	var stream []byte
	for _, q := range cs.Reqs {
		stream = append(stream, q.wire()...)
	}
	if cs.Corrupt >= 0 && cs.Corrupt < len(stream) {
		stream[cs.Corrupt] = 0x01
	}
	segs := 0
	prev := 0
	bounds := append(append([]int{}, cs.Cuts...), len(stream))
	var perr error
	for _, b := range bounds {
		if b <= prev || b > len(stream) {
			continue
		}
		if cs.StopAfter >= 0 && segs >= cs.StopAfter {
			break
		}
		// the engine hands the parser a read buffer that it reuses for the next read
		seg := append([]byte{}, stream[prev:b]...)
		perr = ps.Parse(seg)
		fill(seg, 0xEE)
		prev = b
		segs++
		if perr != nil || closeAsked {
			break
		}
	}
	ps.CloseAndClean(perr)
	wire, _ := fc.snapshot()
	replay := map[string]interface{}{"harness": "bufown", "scenario": "conn", "seed": h.seed, "index": idx, "variant": tag,
		"requests": reqDescs(cs.Reqs), "cuts": cs.Cuts, "corrupt_offset": cs.Corrupt, "stop_after_segments": cs.StopAfter,
		"allocator": modeNames[cs.Mode], "slack": cs.Slack, "fail_from": cs.FailFrom, "fail_only": cs.FailOnly,
		"max_body": cs.MaxBody, "read_limit": cs.ReadLimit}
	nontrivial := len(al.events) > 0
	h.rep.Case(fmt.Sprintf("conn/%v/%v/%d/%d/%s/%d", reqDescs(cs.Reqs), cs.Cuts, cs.Corrupt, cs.StopAfter, modeNames[cs.Mode], cs.FailFrom), nontrivial)
	h.rep.Ops += len(cs.Reqs)
	h.rep.Stat("conn.alloc=" + modeNames[cs.Mode])
	h.rep.StatN("conn.requests-served", served)
	if perr != nil {
		h.rep.Stat("conn.parse-error")
	}
	if cs.StopAfter >= 0 {
		h.rep.Stat("conn.closed-mid-stream")
	}
	if fails != nil {
		h.rep.Stat("conn.write-failure-script")
	}
	for _, w := range wire {
		h.scanWire(w, "response", replay)
	}
	for _, bp := range bodyProblems {
		parts := strings.SplitN(bp, "|", 2)
		if parts[0] == "poison" || parts[0] == "garbage" {
			h.rep.Add(hx.Finding{Kind: "oracle", Property: "C11", Signature: parts[0] + "-in-request-body", What: parts[1], Replay: replay})
		} else {
			// a wrong or short body without pool memory in it is not C11's subject (C07/C10): counted, not reported
			h.rep.Stat("conn.request-body-" + parts[0] + "-without-poison")
		}
	}
	h.finish(al, "conn", replay)
	if idx < 2 && tag == "" {
		h.rep.Sample(map[string]interface{}{"scenario": "conn", "requests": reqDescs(cs.Reqs), "cuts": cs.Cuts, "served": served,
			"parse_error": fmt.Sprint(perr), "events": len(al.events)})
	}
}

func reqDescs(qs []*reqSpec) []string {
	var d []string
	for _, q := range qs {
		d = append(d, q.desc())
	}
	return d
}

func firstDiff(a, b []byte) int {
	i := 0
	for i < len(a) && i < len(b) && a[i] == b[i] {
		i++
	}
	return i
}

func connCase(h *H, r *rand.Rand, idx int, allCuts bool) {
	cs := &connSpec{Corrupt: -1, StopAfter: -1, FailFrom: -1, Mode: r.Intn(3)}
	if r.Intn(2) == 0 {
		cs.Slack = []int{1, 64, 1024}[r.Intn(3)]
	}
	n := 1 + r.Intn(3)
	total := 0
	for i := 0; i < n; i++ {
		q := genReq(r, byte(idx+i))
		cs.Reqs = append(cs.Reqs, q)
		total += len(q.wire())
	}
	cs.Cuts = cuts(r, total)
	switch r.Intn(8) {
	case 0:
		cs.Corrupt = r.Intn(total)
	case 1:
		cs.StopAfter = r.Intn(len(cs.Cuts) + 1)
	}
	if r.Intn(4) == 0 {
		cs.FailFrom = r.Intn(6)
		cs.FailOnly = r.Intn(3) == 0
	}
	if r.Intn(10) == 0 {
		cs.MaxBody = 1 + r.Intn(5000)
	}
	if r.Intn(10) == 0 {
		cs.ReadLimit = 100 + r.Intn(70000)
	}
	runConn(h, cs, idx, "")
	// every two-way segmentation of a short stream, closed after the first / after both segments
	if total <= 400 && (allCuts && idx%4 == 0 || idx%24 == 0) {
		for c := 1; c < total; c++ {
			v := *cs
			v.Cuts = []int{c}
			v.StopAfter = -1
			runConn(h, &v, idx, fmt.Sprintf("cut%d", c))
			v2 := v
			v2.StopAfter = 1
			runConn(h, &v2, idx, fmt.Sprintf("cut%d-close", c))
		}
	}
}
