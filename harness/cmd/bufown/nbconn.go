package main

// (c) the write queue of nbio.Conn (conn_unix.go: newToWriteBuf / releaseToWrite / flush / close) takes its buffers from
// Config.BodyAllocator of the nbio engine. A real engine over loopback TCP: the server side writes far more than the
// socket buffers take (so the tail is queued, coalesced with Append, flushed piecewise), the peer reads slowly,
// everything, or nothing; the server closes with or without a backlog.
// Oracles: the allocator discipline, and what the peer received is a prefix of (or exactly) what was written and
// contains no freed / never-written memory.
import (
	"bytes"
	"fmt"
	"io"
	"math/rand"
	"net"
	"time"

	"github.com/lesismal/nbio"
	"verifharness/hx"
)

func nbconnCase(h *H, r *rand.Rand, idx int) {
	mode := r.Intn(3)
	slack := []int{0, 1, 64}[r.Intn(3)]
	al := NewAlloc(mode, slack)
	install(al)
	// what the server writes
	var chunks [][]byte
	total := 0
	add := func(sz int) {
		chunks = append(chunks, pat(sz, byte(idx*16+len(chunks))))
		total += sz
	}
	// first enough to fill the socket buffers, then a mix with runs of small writes (coalesced into the queue's tail)
	for i := 0; i < 4+r.Intn(3); i++ {
		add(1<<20 + r.Intn(1000))
	}
	n := 6 + r.Intn(12)
	for i := 0; i < n; i++ {
		switch r.Intn(6) {
		case 0, 1:
			for j := 0; j < 2+r.Intn(6); j++ {
				add(1 + r.Intn(3000))
			}
		case 2:
			add(65536 - 2 + r.Intn(5))
		case 3:
			add(1<<20 + r.Intn(1000))
		case 4:
			add(30000 + r.Intn(10000))
		default:
			add(200000 + r.Intn(400000))
		}
	}
	closeMode := []string{"after-read", "with-backlog", "peer-closes-early"}[idx%3]
	useWritev := r.Intn(2) == 0
	epoll := []uint32{nbio.EPOLLLT, nbio.EPOLLET}[r.Intn(2)]
	replay := map[string]interface{}{"harness": "bufown", "scenario": "nbconn", "seed": h.seed, "index": idx, "allocator": modeNames[mode],
		"slack": slack, "chunks": lens(chunks), "close": closeMode, "epoll_et": epoll == nbio.EPOLLET, "writev": useWritev}

	g := nbio.NewEngine(nbio.Config{Network: "tcp", Addrs: []string{"127.0.0.1:0"}, NPoller: 1, BodyAllocator: al, EpollMod: epoll})
	closed := make(chan struct{}, 4)
	written := make(chan struct{}, 1)
	g.OnOpen(func(c *nbio.Conn) {
		for i := 0; i < len(chunks); i++ {
			var err error
			if useWritev && i+2 < len(chunks) && i%3 == 0 {
				_, err = c.Writev([][]byte{chunks[i], chunks[i+1], chunks[i+2]})
				i += 2
			} else {
				_, err = c.Write(chunks[i])
			}
			if err != nil {
				break
			}
		}
		if closeMode == "with-backlog" {
			_ = c.Close()
		}
		written <- struct{}{}
	})
	var srv *nbio.Conn
	g.OnData(func(c *nbio.Conn, data []byte) { srv = c })
	g.OnClose(func(c *nbio.Conn, err error) { closed <- struct{}{} })
	if err := g.Start(); err != nil {
		h.rep.Stat("nbconn.engine-start-failed")
		return
	}
	cli, err := net.Dial("tcp", g.Addrs[0])
	if err != nil {
		g.Stop()
		h.rep.Stat("nbconn.dial-failed")
		return
	}
	select {
	case <-written:
	case <-time.After(5 * time.Second):
	}
	var got []byte
	switch closeMode {
	case "peer-closes-early":
		buf := make([]byte, 1000+r.Intn(100000))
		k, _ := io.ReadFull(cli, buf)
		got = buf[:k]
		_ = cli.Close()
	default:
		buf := make([]byte, 1+r.Intn(200000))
		_ = cli.SetReadDeadline(time.Now().Add(10 * time.Second))
		for len(got) < total {
			k, err := cli.Read(buf)
			got = append(got, buf[:k]...)
			if err != nil {
				break
			}
		}
		_ = cli.Close()
	}
	select {
	case <-closed:
	case <-time.After(5 * time.Second):
		h.rep.Stat("nbconn.no-close-callback")
	}
	_ = srv
	g.Stop()

	want := bytes.Join(chunks, nil)
	h.rep.Case(fmt.Sprintf("nbconn/%v/%s/%s", lens(chunks), closeMode, modeNames[mode]), true)
	h.rep.Ops += len(chunks)
	h.rep.Stat("nbconn.close=" + closeMode)
	h.rep.Stat("nbconn.alloc=" + modeNames[mode])
	if len(got) > len(want) || !bytes.Equal(got, want[:len(got)]) {
		kind := "corrupt"
		if runOf(got, poison) >= 8 {
			kind = "poison"
		} else if runOf(got, garbage) >= 8 {
			kind = "garbage"
		}
		if kind != "corrupt" {
			h.rep.Add(hx.Finding{Kind: "oracle", Property: "C11", Signature: kind + "-on-wire-nbconn",
				What: fmt.Sprintf("the peer received %d bytes that are not a prefix of the %d written: first difference at %d; the stream contains freed / never-written pool memory", len(got), len(want), firstDiff(got, want)), Replay: replay})
		} else {
			h.rep.Stat("nbconn.stream-differs-without-poison")
		}
	}
	if closeMode == "after-read" && len(got) != len(want) {
		h.rep.Stat("nbconn.short-stream")
	}
	h.finish(al, "nbconn", replay)
	if idx < 1 {
		h.rep.Sample(map[string]interface{}{"scenario": "nbconn", "chunks": lens(chunks), "close": closeMode, "received": len(got), "events": len(al.events)})
	}
}

func lens(bs [][]byte) []int {
	var l []int
	for _, b := range bs {
		l = append(l, len(b))
	}
	return l
}
