package main

import "math/rand"

func nbconnCase(h *H, r *rand.Rand, idx int) {}
