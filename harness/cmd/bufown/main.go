// Harness for C11 (pooled-buffer ownership: freed at most once, never used after free, never shared).
//
// An instrumented allocator (alloc.go) is installed as mempool.DefaultMemPool and as Config.BodyAllocator and the REAL
// code is driven through
//
//	(a) HTTP server exchanges: Parser + ServerProcessor + Response + BodyReader behind a scripted net.Conn (http.go),
//	(b) WebSocket connections, both roles, direct and send-queue write modes (ws.go),
//	(c) the write queue of nbio.Conn on a real engine over loopback TCP (nbconn.go).
//
// For every run
//
//	part M  the recorded event trace goes to the extracted, verified checker (coq/bufown: check_trace); its verdict
//	        must equal the verdict of the allocator's live map; for the response scenario the whole trace, the
//	        conn.Write boundaries and the Write results must equal those of the instrumented model RespAlloc.v;
//	        random event traces (with violations) are checked by both checkers as well;
//	part O  property oracles on the implementation alone: double-free-<site>, use-after-free-<site>,
//	        append-after-free-<site>, foreign-free-<site>, write-after-free-<site> (poison broken),
//	        poison-on-wire / garbage-on-wire / poison-in-message / poison-in-request-body (stale reads).
package main

import (
	"flag"
	"fmt"
	"math/rand"
	"runtime/debug"
	"strings"

	"github.com/lesismal/nbio/logging"
	"verifharness/hx"
)

type H struct {
	rep   *hx.Report
	model *hx.Model
	seed  int64
}

// scanWire: bytes that left through the connection must not contain freed (poison) or never-written (garbage) memory.
// Payloads are letters and heads are ASCII, so a run of 8 such bytes cannot come from the data.
func (h *H) scanWire(w []byte, what string, replay interface{}) {
	if n := runOf(w, poison); n >= 8 {
		h.rep.Add(hx.Finding{Kind: "oracle", Property: "C11", Signature: "poison-on-wire-" + what,
			What: fmt.Sprintf("a conn.Write payload of %d bytes contains %d consecutive bytes of freed memory (0x%02x)", len(w), n, poison), Replay: replay})
	}
	if n := runOf(w, garbage); n >= 8 {
		h.rep.Add(hx.Finding{Kind: "oracle", Property: "C11", Signature: "garbage-on-wire-" + what,
			What: fmt.Sprintf("a conn.Write payload of %d bytes contains %d consecutive bytes of never-written pool memory (0x%02x)", len(w), n, garbage), Replay: replay})
	}
}

// finish: verdicts of one run
func (h *H) finish(al *Alloc, scenario string, replay interface{}) {
	tr := al.Trace()
	vi, vc := al.Verdict()
	m, f, a, u := al.Count()
	h.rep.StatN(scenario+".events.malloc", m)
	h.rep.StatN(scenario+".events.free", f)
	h.rep.StatN(scenario+".events.append", a)
	h.rep.StatN(scenario+".events.use", u)
	for k, v := range al.LiveSites() {
		h.rep.StatN("live-at-end:"+k, v)
	}
	for _, e := range al.Events() {
		if e.kind == 'm' || e.kind == 'f' {
			h.rep.Stat(fmt.Sprintf("site.%c:%s", e.kind, site(e.pcs)))
		}
	}
	for _, v := range al.Violations() {
		h.rep.Add(hx.Finding{Kind: "oracle", Property: "C11", Signature: v.class + "-" + v.site,
			What: fmt.Sprintf("%s (event %d of the trace): %s", v.class, v.index, v.what), Replay: addTrace(replay, tr)})
	}
	for _, s := range al.BrokenPoison() {
		parts := strings.SplitN(s, "|", 2)
		h.rep.Add(hx.Finding{Kind: "oracle", Property: "C11", Signature: "write-after-free-" + parts[0], What: parts[1], Replay: addTrace(replay, tr)})
	}
	al.mu.Lock()
	extra := append([]string(nil), al.extra...)
	al.mu.Unlock()
	for _, s := range extra {
		parts := strings.SplitN(s, "|", 2)
		h.rep.Add(hx.Finding{Kind: "oracle", Property: "C11", Signature: parts[0], What: parts[1], Replay: replay})
	}
	if h.model != nil {
		h.checkTrace(tr, vi, vc, scenario, replay)
	}
}

func addTrace(replay interface{}, tr []string) interface{} {
	m, ok := replay.(map[string]interface{})
	if !ok {
		return replay
	}
	c := map[string]interface{}{}
	for k, v := range m {
		c[k] = v
	}
	if len(tr) > 400 {
		tr = tr[len(tr)-400:]
	}
	c["trace_tail"] = strings.Join(tr, " ")
	return c
}

// part M: verified checker vs live map
func (h *H) checkTrace(tr []string, vi int, vc string, scenario string, replay interface{}) {
	ans := h.model.Ask("T %s", strings.Join(tr, " "))
	want := "OK"
	if vc != "" {
		want = fmt.Sprintf("BAD %d %s", vi, vc)
	}
	got := ans
	if strings.HasPrefix(ans, "OK") {
		got = "OK"
	}
	if got != want {
		h.rep.Add(hx.Finding{Kind: "mismatch", Property: "C11", Signature: "trace-checker",
			What: fmt.Sprintf("%s: the live map says %q, the verified checker says %q", scenario, want, ans), Replay: addTrace(replay, tr)})
	}
}

// liveMapVerdict: the allocator's live-map rules applied to a synthetic trace (same code path as the allocator uses:
// a buffer is live from its Malloc / moving Append until its Free / moving Append)
func liveMapVerdict(tr []string) string {
	state := map[int]int{} // 1 live, 2 dead
	for i, s := range tr {
		var a, b int
		k := s[0]
		if k == 'a' || k == 'r' {
			fmt.Sscanf(s[1:], "%d,%d", &a, &b)
		} else {
			fmt.Sscanf(s[1:], "%d", &a)
		}
		bad := ""
		switch k {
		case 'm':
			if state[a] != 0 {
				bad = "shared"
			} else {
				state[a] = 1
			}
		case 'a', 'r':
			switch state[a] {
			case 1:
				if a != b {
					if state[b] != 0 {
						bad = "shared"
					} else {
						state[a], state[b] = 2, 1
					}
				}
			case 2:
				bad = "append-after-free"
			default:
				bad = "foreign-append"
			}
		case 'f':
			switch state[a] {
			case 1:
				state[a] = 2
			case 2:
				bad = "double-free"
			default:
				bad = "foreign-free"
			}
		case 'u':
			switch state[a] {
			case 1:
			case 2:
				bad = "use-after-free"
			default:
				bad = "foreign-use"
			}
		}
		if bad != "" {
			return fmt.Sprintf("BAD %d %s", i, bad)
		}
	}
	return "OK"
}

// synthetic traces: mostly disciplined, with injected violations
func synthCase(h *H, r *rand.Rand, idx int) {
	n := 1 + r.Intn(40)
	var tr []string
	next := 0
	var live, dead []int
	pick := func(l []int) int { return l[r.Intn(len(l))] }
	for i := 0; i < n; i++ {
		x := r.Intn(100)
		switch {
		case x < 25 || len(live) == 0 && x < 90:
			tr = append(tr, fmt.Sprintf("m%d", next))
			live = append(live, next)
			next++
		case x < 45 && len(live) > 0:
			a := pick(live)
			if r.Intn(3) == 0 {
				tr = append(tr, fmt.Sprintf("%c%d,%d", "ar"[r.Intn(2)], a, next))
				live = remove(live, a)
				dead = append(dead, a)
				live = append(live, next)
				next++
			} else {
				tr = append(tr, fmt.Sprintf("%c%d,%d", "ar"[r.Intn(2)], a, a))
			}
		case x < 65 && len(live) > 0:
			tr = append(tr, fmt.Sprintf("u%d", pick(live)))
		case x < 88 && len(live) > 0:
			a := pick(live)
			tr = append(tr, fmt.Sprintf("f%d", a))
			live = remove(live, a)
			dead = append(dead, a)
		default: // a violation (or a foreign id)
			var id int
			if len(dead) > 0 && r.Intn(3) > 0 {
				id = pick(dead)
			} else {
				id = next + 5 + r.Intn(3)
			}
			switch r.Intn(5) {
			case 0:
				tr = append(tr, fmt.Sprintf("f%d", id))
			case 1:
				tr = append(tr, fmt.Sprintf("u%d", id))
			case 2:
				tr = append(tr, fmt.Sprintf("a%d,%d", id, id))
			case 3:
				if len(live) > 0 {
					tr = append(tr, fmt.Sprintf("a%d,%d", pick(live), id)) // moves onto a used / foreign id
				}
			default:
				tr = append(tr, fmt.Sprintf("m%d", id))
			}
		}
	}
	want := liveMapVerdict(tr)
	ans := h.model.Ask("T %s", strings.Join(tr, " "))
	got := ans
	if strings.HasPrefix(ans, "OK") {
		got = "OK"
	}
	h.rep.Case("synth/"+strings.Join(tr, " "), want != "OK")
	h.rep.Stat("synth." + strings.Fields(want + " x x")[2])
	if got != want {
		h.rep.Add(hx.Finding{Kind: "mismatch", Property: "C11", Signature: "trace-checker",
			What:   fmt.Sprintf("synthetic trace: the live-map rules say %q, the verified checker says %q", want, ans),
			Replay: map[string]interface{}{"harness": "bufown", "scenario": "synth", "seed": h.seed, "index": idx, "trace": strings.Join(tr, " ")}})
	}
}

func remove(l []int, x int) []int {
	var o []int
	for _, y := range l {
		if y != x {
			o = append(o, y)
		}
	}
	return o
}

func main() {
	seed := flag.Int64("seed", 1, "")
	n := flag.Int("n", 60, "scale: response programs; the other scenarios scale with it")
	model := flag.String("model", "", "")
	out := flag.String("out", "-", "")
	allk := flag.Bool("allk", false, "fail conn.Write at every k for every response program; all two-way cuts of short streams")
	only := flag.String("only", "", "run only one scenario: resp, conn, ws, nbconn, engine, wq, body, wsrecv, synth")
	flag.Parse()
	logging.SetLevel(logging.LevelNone)
	debug.SetGCPercent(400) // the cases allocate (and drop) many large never-recycled buffers
	rep := hx.NewReport("bufown", *seed)
	rep.Rule = "resp: handler programs (headers, WriteHeader, up to 5 Writes of 0 / small / 32K / 60-66 KiB / 64 KiB +-4 / +-200 / >70 KiB, Flush anywhere, explicit / absent / late Content-Length, trailers, HTTP/1.0 and 1.1) x allocator (in place, always move) x conn.Write failing from or only at the k-th write, every run compared with the Coq model; " +
		"conn: 1-3 pipelined requests (no body / Content-Length / chunked with trailers, bodies 0..64K+) cut into random segments or at every position, corrupted byte, close after any segment, body size and read limits, handler reads all / part / nothing, allocator in place / always move / move on growth with 0-1024 bytes slack; " +
		"ws: server (real Upgrade, blocking mode) and client role, direct and send-queue writes, messages of 0,1,125,126,127,65535,65536 +- and larger, fragmented, compressed, over the limit, invalid frames, bad deflate data, pings/close, segments cut anywhere, close mid-message, write failures, slow connection with close while frames are queued; " +
		"nbconn: real nbio engine over loopback TCP, writes far beyond the socket buffer (Write and Writev), peer reads all / little, close with a backlog; " +
		"engine: real nbhttp engine (non-blocking / blocking IO mode, allocator also as ReadBufferPool) with std clients: pipelined POST echo and generated responses in segments, WebSocket upgrade, echo of empty / threshold-sized / fragmented / compressed messages, pings, close by either side, half a request left behind; " +
		"wq: real nbio.Conn on a simulated descriptor: 3-20 operations Write / Writev (0-4 buffers) / Sendfile / flush / Close with lengths 0, small, 32K+-, 64K+-, 70-130K, kernel scripts of Took k (small, large, unbounded) / EAGAIN / EINTR / EPIPE, MaxWriteBufferSize on/off, allocator in place / always move / move on growth with 0-70000 bytes of spare capacity, compared with the model after every operation; " +
		"body: 2-15 operations append (0, small, 4096, 64K+-, around the spare capacity) / Read (0, 1, small, large) / Close in any order, MaxHTTPBodySize on/off, compared with the model; " +
		"wsrecv: 1-5 messages as frame streams (fragments incl. empty ones, compressed, bad deflate data, control frames in between, 8 kinds of protocol violation, over the limits, handler closing the connection) cut anywhere, both roles, ReleasePayload / frame handler / compression / limits on and off, compared with the model after every Parse; " +
		"synth: random event traces with violations for the two checkers; non-trivial = the run performed allocator events (synth: the trace contains a violation)"
	h := &H{rep: rep, seed: *seed}
	if *model != "" {
		h.model = hx.StartModel(*model)
		defer h.model.Close()
	}
	r := rand.New(rand.NewSource(*seed))
	want := func(s string) bool { return *only == "" || *only == s }
	if want("resp") {
		for it := 0; it < *n && !rep.TooMany(); it++ {
			respCase(h, r, it, *allk)
		}
	}
	r = rand.New(rand.NewSource(*seed + 1000003))
	if want("conn") {
		for it := 0; it < *n*6 && !rep.TooMany(); it++ {
			connCase(h, r, it, *allk)
		}
	}
	r = rand.New(rand.NewSource(*seed + 2000003))
	if want("ws") {
		for it := 0; it < *n*8 && !rep.TooMany(); it++ {
			wsCase(h, r, it)
		}
	}
	r = rand.New(rand.NewSource(*seed + 3000003))
	if want("nbconn") {
		k := *n / 10
		if k < 3 {
			k = 3
		}
		for it := 0; it < k && !rep.TooMany(); it++ {
			nbconnCase(h, r, it)
		}
	}
	r = rand.New(rand.NewSource(*seed + 5000003))
	if want("engine") {
		k := *n / 8
		if k < 3 {
			k = 3
		}
		for it := 0; it < k && !rep.TooMany(); it++ {
			engineCase(h, r, it)
		}
	}
	r = rand.New(rand.NewSource(*seed + 6000003))
	if want("wq") {
		for it := 0; it < *n*5 && !rep.TooMany(); it++ {
			wqCase(h, r, it)
		}
	}
	r = rand.New(rand.NewSource(*seed + 7000003))
	if want("body") {
		for it := 0; it < *n*5 && !rep.TooMany(); it++ {
			bodyCase(h, r, it)
		}
	}
	r = rand.New(rand.NewSource(*seed + 8000003))
	if want("wsrecv") {
		for it := 0; it < *n*6 && !rep.TooMany(); it++ {
			wsrecvCase(h, r, it)
		}
	}
	r = rand.New(rand.NewSource(*seed + 4000003))
	if want("synth") && h.model != nil {
		for it := 0; it < *n*20 && !rep.TooMany(); it++ {
			synthCase(h, r, it)
		}
	}
	rep.Write(*out)
}
