package main

// (b) WebSocket connections with the instrumented allocator.
//   server role: the real Upgrader.Upgrade through Parser + ServerProcessor (a net.Conn the upgrader does not know:
//                blocking mode, SyncCall dispatch), driven like Engine.readConnBlocking drives it;
//   client role: NewClientConn + Engine + Execute as the Dialer sets them (Execute dispatch);
//   both: direct and send-queue (asyncWrite) write modes, payload release on/off (server), frame handler on/off.
import (
	"bytes"
	"compress/flate"
	"encoding/binary"
	"fmt"
	"io"
	"math/rand"
	"net/http"
	"strings"
	"sync"
	"time"

	"github.com/lesismal/nbio/nbhttp"
	"github.com/lesismal/nbio/nbhttp/websocket"
	"verifharness/hx"
)

func newEngine(al *Alloc, conf nbhttp.Config) *nbhttp.Engine {
	conf.BodyAllocator = al
	conf.ServerExecutor = func(f func()) { f() }
	conf.ClientExecutor = func(f func()) { f() }
	return nbhttp.NewEngine(conf)
}

type wsMsg struct {
	Op         byte
	Payload    []byte
	Frags      []int // sizes of the wire fragments of the (possibly compressed) payload
	Compressed bool
	Bad        string // "", rsv2, opcode, ctl-big, ctl-frag, bad-deflate, cont-without-start, text-in-frag, len64-neg, rsv1-nocompress
	Action     string // what the handler does with it: echo, reply, none, close, clean, ping
	ReplyLen   int
}

func (m *wsMsg) desc() string {
	return fmt.Sprintf("op%d len=%d frags=%v z=%v bad=%s act=%s/%d", m.Op, len(m.Payload), m.Frags, m.Compressed, m.Bad, m.Action, m.ReplyLen)
}

func wsFrame(op byte, fin, rsv1, rsv2 bool, payload []byte, masked bool, r *rand.Rand) []byte {
	var b []byte
	b0 := op
	if fin {
		b0 |= 0x80
	}
	if rsv1 {
		b0 |= 0x40
	}
	if rsv2 {
		b0 |= 0x20
	}
	b = append(b, b0)
	mb := byte(0)
	if masked {
		mb = 0x80
	}
	n := len(payload)
	switch {
	case n < 126:
		b = append(b, mb|byte(n))
	case n <= 65535:
		b = append(b, mb|126, byte(n>>8), byte(n))
	default:
		b = append(b, mb|127)
		var l [8]byte
		binary.BigEndian.PutUint64(l[:], uint64(n))
		b = append(b, l[:]...)
	}
	if masked {
		var k [4]byte
		binary.LittleEndian.PutUint32(k[:], r.Uint32())
		b = append(b, k[:]...)
		for i, c := range payload {
			b = append(b, c^k[i&3])
		}
	} else {
		b = append(b, payload...)
	}
	return b
}

func deflate(p []byte) []byte {
	var buf bytes.Buffer
	w, _ := flate.NewWriter(&buf, 1)
	w.Write(p)
	w.Flush()
	out := buf.Bytes()
	if len(out) >= 4 {
		out = out[:len(out)-4]
	}
	return append([]byte{}, out...)
}

func inflate(p []byte) ([]byte, error) {
	rd := flate.NewReader(io.MultiReader(bytes.NewReader(p), strings.NewReader("\x00\x00\xff\xff\x01\x00\x00\xff\xff")))
	return io.ReadAll(rd)
}

// wire bytes of one message as the peer sends it
func (m *wsMsg) wire(masked bool, r *rand.Rand) []byte {
	data := m.Payload
	rsv1 := false
	if m.Compressed {
		data = deflate(m.Payload)
		rsv1 = true
	}
	switch m.Bad {
	case "bad-deflate":
		data = append([]byte{0xff, 0xfe, 0xfd, 0x07, 0x07}, m.Payload...)
		rsv1 = true
	case "rsv1-nocompress":
		rsv1 = true
	case "len64-neg":
		h := []byte{0x80 | m.Op, 127, 0x80, 0, 0, 0, 0, 0, 0, 1}
		if masked {
			h[1] |= 0x80
			h = append(h, 1, 2, 3, 4)
		}
		return h
	case "cont-without-start":
		return wsFrame(0, true, false, false, data, masked, r)
	case "opcode":
		return wsFrame(3+byte(len(data)%5), true, false, false, data, masked, r)
	case "rsv2":
		return wsFrame(m.Op, true, false, true, data, masked, r)
	case "ctl-big":
		return wsFrame(9, true, false, false, payload(126+len(data)%100), masked, r)
	case "ctl-frag":
		return wsFrame(9, false, false, false, data[:min(len(data), 100)], masked, r)
	}
	frags := m.Frags
	if len(frags) == 0 {
		frags = []int{len(data)}
	}
	// spread the (possibly compressed) data over the fragments
	var out []byte
	off := 0
	for i := range frags {
		n := frags[i]
		if i == len(frags)-1 || off+n > len(data) {
			n = len(data) - off
		}
		last := i == len(frags)-1
		op := m.Op
		if i > 0 {
			op = 0
			if m.Bad == "text-in-frag" {
				op = 1
			}
		}
		out = append(out, wsFrame(op, last, rsv1 && i == 0, false, data[off:off+n], masked, r)...)
		off += n
	}
	return out
}

func min(a, b int) int {
	if a < b {
		return a
	}
	return b
}

type wsSpec struct {
	Server     bool
	Async      bool
	Compress   bool
	Release    bool
	FrameH     bool
	Limit      int
	Msgs       []*wsMsg
	Cuts       []int
	StopAfter  int
	FailFrom   int
	Slow       bool // the connection accepts nothing until the harness lets it (send-queue mode only)
	QMax       int
	Mode       int
	Slack      int
	RaceClose  bool // CloseAndClean from a second goroutine while frames are being parsed
	PipeWithHS bool // the first frames arrive in the same segment as the handshake request (server)
}

func wsSize(r *rand.Rand, limit int) int {
	switch r.Intn(14) {
	case 0:
		return 0
	case 1:
		return 1
	case 2:
		return 125
	case 3:
		return 126
	case 4:
		return 127
	case 5:
		return 65535
	case 6:
		return 65536
	case 7:
		return 65537 + r.Intn(100)
	case 8:
		return 32768 - 2 + r.Intn(5) // MaxWebsocketFramePayloadSize of the reply path
	case 9:
		if limit > 0 {
			return limit - 1 + r.Intn(3)
		}
		return r.Intn(300)
	case 10:
		return 100000 + r.Intn(1000)
	default:
		return r.Intn(2000)
	}
}

func genWS(r *rand.Rand, idx int) *wsSpec {
	s := &wsSpec{Server: r.Intn(2) == 0, Async: r.Intn(2) == 0, Compress: r.Intn(3) == 0, Release: r.Intn(2) == 0,
		FrameH: r.Intn(4) == 0, StopAfter: -1, FailFrom: -1, Mode: r.Intn(3)}
	if r.Intn(2) == 0 {
		s.Slack = []int{1, 64, 1024}[r.Intn(3)]
	}
	if r.Intn(3) == 0 {
		s.Limit = []int{100, 1000, 65536, 70000}[r.Intn(4)]
	}
	n := 1 + r.Intn(6)
	for i := 0; i < n; i++ {
		m := &wsMsg{Op: byte(1 + r.Intn(2)), Action: []string{"echo", "echo", "reply", "none", "ping"}[r.Intn(5)]}
		sz := wsSize(r, s.Limit)
		m.Payload = pat(sz, byte(idx+i))
		m.ReplyLen = wsSize(r, 0)
		if s.Compress && r.Intn(2) == 0 {
			m.Compressed = true
		}
		if r.Intn(3) == 0 && sz > 1 {
			k := 2 + r.Intn(3)
			for j := 0; j < k; j++ {
				m.Frags = append(m.Frags, r.Intn(sz/k+2)) // empty fragments included
			}
		}
		switch r.Intn(14) {
		case 0:
			m.Op = 9
			m.Payload = pat(r.Intn(126), byte(i))
			m.Frags, m.Compressed = nil, false
		case 1:
			m.Op = 10
			m.Payload = pat(r.Intn(126), byte(i))
			m.Frags, m.Compressed = nil, false
		case 2:
			m.Op = 8
			m.Frags, m.Compressed = nil, false
			switch r.Intn(4) {
			case 0:
				m.Payload = nil
			case 1:
				m.Payload = append([]byte{0x03, 0xe8}, pat(r.Intn(100), 3)...)
			case 2:
				m.Payload = []byte{0x03}
			default:
				m.Payload = append([]byte{0x03, 0xed}, pat(r.Intn(50), 3)...) // 1005: invalid on the wire
			}
		case 3:
			m.Bad = []string{"rsv2", "opcode", "ctl-big", "ctl-frag", "bad-deflate", "cont-without-start", "text-in-frag", "len64-neg", "rsv1-nocompress"}[r.Intn(9)]
			if m.Bad == "bad-deflate" && !s.Compress {
				m.Bad = "rsv1-nocompress"
			}
			if m.Bad == "text-in-frag" && len(m.Frags) < 2 {
				m.Frags = []int{len(m.Payload) / 2, len(m.Payload)}
			}
			if m.Bad != "text-in-frag" && m.Bad != "bad-deflate" {
				m.Frags = nil
			}
			m.Compressed = false
		case 4:
			m.Action = []string{"close", "clean"}[r.Intn(2)]
		}
		s.Msgs = append(s.Msgs, m)
	}
	if r.Intn(5) == 0 {
		s.FailFrom = r.Intn(5)
	}
	if s.Async && r.Intn(3) == 0 {
		s.Slow = true
		if r.Intn(2) == 0 {
			s.QMax = 1 + r.Intn(3)
		}
	}
	if !s.Slow && r.Intn(12) == 0 {
		s.RaceClose = true
	}
	s.PipeWithHS = s.Server && r.Intn(4) == 0
	return s
}

func (s *wsSpec) desc() map[string]interface{} {
	var ms []string
	for _, m := range s.Msgs {
		ms = append(ms, m.desc())
	}
	role := "client"
	if s.Server {
		role = "server"
	}
	return map[string]interface{}{"role": role, "async_write": s.Async, "compression": s.Compress, "release_payload": s.Release,
		"frame_handler": s.FrameH, "message_length_limit": s.Limit, "messages": ms, "cuts": s.Cuts, "stop_after_segments": s.StopAfter,
		"fail_from": s.FailFrom, "slow_conn": s.Slow, "send_queue_max": s.QMax, "allocator": modeNames[s.Mode], "slack": s.Slack,
		"race_close": s.RaceClose, "frames_with_handshake": s.PipeWithHS}
}

const wsKey = "dGhlIHNhbXBsZSBub25jZQ=="

func wsCase(h *H, r *rand.Rand, idx int) {
	s := genWS(r, idx)
	al := NewAlloc(s.Mode, s.Slack)
	install(al)
	fc := &sconn{al: al}
	if s.FailFrom >= 0 {
		fc.fails = failFrom(s.FailFrom)
	}
	var mu sync.Mutex
	closeAsked := false
	fc.onClose = func() { mu.Lock(); closeAsked = true; mu.Unlock() }
	asked := func() bool { mu.Lock(); defer mu.Unlock(); return closeAsked }

	// what the handler must receive: the data messages that are valid, in order (until the first invalid one)
	var expect [][]byte
	for _, m := range s.Msgs {
		if m.Bad != "" {
			break
		}
		if m.Op == 8 {
			break
		}
		if m.Op == 1 || m.Op == 2 {
			if s.Limit > 0 && len(m.Payload) > s.Limit {
				break
			}
			expect = append(expect, m.Payload)
		}
	}
	var problems []string
	delivered := 0
	var wsc *websocket.Conn
	onMessage := func(c *websocket.Conn, mt websocket.MessageType, data []byte) {
		i := delivered
		delivered++
		al.Observe(data, "OnMessage")
		if p, g := runOf(data, poison), runOf(data, garbage); p >= 8 || g >= 8 {
			kind := "poison"
			if p < 8 {
				kind = "garbage"
			}
			problems = append(problems, fmt.Sprintf("%s-in-message|message %d handed to OnMessage (%d bytes) contains freed / never-written pool memory", kind, i, len(data)))
		} else if i < len(expect) && !bytes.Equal(data, expect[i]) {
			h.rep.Stat("ws.delivered-differs-without-poison")
		}
		var m *wsMsg
		// the i-th delivered data message belongs to the i-th valid data message of the spec
		k := 0
		for _, mm := range s.Msgs {
			if mm.Op == 1 || mm.Op == 2 {
				if k == i {
					m = mm
					break
				}
				k++
			}
		}
		if m == nil {
			return
		}
		switch m.Action {
		case "echo":
			_ = c.WriteMessage(mt, data)
		case "reply":
			_ = c.WriteMessage(websocket.BinaryMessage, pat(m.ReplyLen, 7))
		case "ping":
			_ = c.WriteMessage(websocket.PingMessage, pat(m.ReplyLen%126, 9))
		case "close":
			_ = c.WriteClose(1000, "bye")
			_ = c.Close()
		case "clean":
			c.CloseAndClean(nil)
		}
	}
	onFrame := func(c *websocket.Conn, mt websocket.MessageType, fin bool, data []byte) {
		al.Observe(data, "OnDataFrame")
		if p, g := runOf(data, poison), runOf(data, garbage); p >= 8 || g >= 8 {
			problems = append(problems, fmt.Sprintf("poison-in-frame|a frame handed to OnDataFrame (%d bytes) contains freed / never-written pool memory", len(data)))
		}
	}

	var uerr error
	conf := nbhttp.Config{}
	u := websocket.NewUpgrader()
	if s.Server {
		conf.Handler = http.HandlerFunc(func(w http.ResponseWriter, rq *http.Request) {
			wsc, uerr = u.Upgrade(w, rq, nil)
		})
	}
	engine := newEngine(al, conf)
	u.Engine = engine
	u.BlockingModHandleRead = false
	u.BlockingModAsyncWrite = s.Async
	u.BlockingModSendQueueMaxSize = uint16(s.QMax)
	u.BlockingModAsyncCloseDelay = time.Millisecond
	u.KeepaliveTime = 0
	u.ReleasePayload = s.Release
	u.EnableCompression(s.Compress)
	if s.Limit > 0 {
		u.MessageLengthLimit = s.Limit
	}
	u.OnMessage(onMessage)
	if s.FrameH {
		u.OnDataFrame(onFrame)
	}

	var stream []byte
	for _, m := range s.Msgs {
		stream = append(stream, m.wire(s.Server, r)...)
	}
	s.Cuts = cuts(r, len(stream))
	if r.Intn(6) == 0 {
		s.StopAfter = r.Intn(len(s.Cuts) + 1)
	}
	replay := s.desc()
	replay["harness"], replay["scenario"], replay["seed"], replay["index"] = "bufown", "ws", h.seed, idx

	var pc nbhttp.ParserCloser
	var perr error
	hsWrites := 0
	if s.Server {
		ps := nbhttp.NewParser(fc, engine, nbhttp.NewServerProcessor(), false, nil)
		ext := ""
		if s.Compress {
			ext = "Sec-WebSocket-Extensions: permessage-deflate; server_no_context_takeover; client_no_context_takeover\r\n"
		}
		hs := []byte("GET /ws HTTP/1.1\r\nHost: x\r\nUpgrade: websocket\r\nConnection: Upgrade\r\nSec-WebSocket-Version: 13\r\nSec-WebSocket-Key: " + wsKey + "\r\n" + ext + "\r\n")
		first := hs
		if s.PipeWithHS && s.FailFrom != 0 {
			// frames in the segment of the handshake request: the parser hands its tail to the new connection
			k := len(stream)
			if len(s.Cuts) > 0 {
				k = s.Cuts[0]
			}
			first = append(append([]byte{}, hs...), stream[:k]...)
			stream = stream[k:]
			var nc []int
			for _, c := range s.Cuts {
				if c > k {
					nc = append(nc, c-k)
				}
			}
			s.Cuts = nc
		}
		// the handshake request itself may arrive in pieces (the parser caches the head, then hands over)
		if r.Intn(3) == 0 {
			k := 1 + r.Intn(len(hs)-1)
			perr = ps.Parse(append([]byte{}, first[:k]...))
			first = first[k:]
			h.rep.Stat("ws.handshake-in-pieces")
		}
		if perr == nil {
			perr = ps.Parse(first)
		}
		if uerr != nil || wsc == nil {
			// the handshake failed (scripted write failure of the 101 response): nothing more to drive
			ps.CloseAndClean(perr)
			h.rep.Stat("ws.handshake-failed")
			h.rep.Case(fmt.Sprintf("ws/%v", replay), true)
			h.finish(al, "ws", replay)
			return
		}
		// Engine.readConnBlocking: once upgraded, the reader talks to the websocket conn and retires the parser
		ps.OnClose(nil)
		ps.CloseAndClean(nil)
		pc = wsc
		hsWrites = 1 // Upgrade sends the 101 response with one conn.Write
	} else {
		opt := websocket.NewOptions()
		opt.Engine = engine
		opt.ReleasePayload = s.Release
		opt.KeepaliveTime = 0
		opt.BlockingModSendQueueMaxSize = uint16(s.QMax)
		opt.BlockingModAsyncCloseDelay = time.Millisecond
		opt.EnableCompression(s.Compress)
		if s.Limit > 0 {
			opt.MessageLengthLimit = s.Limit
		}
		opt.OnMessage(onMessage)
		if s.FrameH {
			opt.OnDataFrame(onFrame)
		}
		wsc = websocket.NewClientConn(opt, fc, "", s.Compress, s.Async)
		wsc.Engine = engine
		wsc.Execute = func(f func()) bool { f(); return true }
		pc = wsc
	}
	if s.Slow {
		fc.inWrite = make(chan struct{}, 1)
		fc.gate = make(chan struct{})
	}

	var raceDone chan struct{}
	if s.RaceClose {
		raceDone = make(chan struct{})
		spin := r.Intn(2000)
		go func() {
			for i := 0; i < spin; i++ {
				_ = i * i
			}
			wsc.CloseAndClean(nil)
			close(raceDone)
		}()
	}
	prev, segs := 0, 0
	bounds := append(append([]int{}, s.Cuts...), len(stream))
	for _, b := range bounds {
		if b <= prev || b > len(stream) || perr != nil {
			continue
		}
		if s.StopAfter >= 0 && segs >= s.StopAfter {
			break
		}
		seg := append([]byte{}, stream[prev:b]...)
		perr = pc.Parse(seg)
		fill(seg, 0xEE)
		prev = b
		segs++
		if asked() {
			break
		}
	}
	if s.Slow {
		// the writer goroutine (if any) sits in conn.Write; frames are queued behind it. Close now, then let it go.
		select {
		case <-fc.inWrite:
		case <-time.After(20 * time.Millisecond):
		}
	}
	pc.CloseAndClean(perr)
	if s.Slow {
		close(fc.gate)
	}
	if raceDone != nil {
		<-raceDone
	}
	// the send-queue goroutine releases its frame after the write returns
	deadline := time.Now().Add(3 * time.Second)
	for al.LiveFrom("writeFrame") > 0 && time.Now().Before(deadline) {
		time.Sleep(50 * time.Microsecond)
	}
	if n := al.LiveFrom("writeFrame"); n > 0 {
		h.rep.StatN("ws.frames-never-released", n)
	}

	h.rep.Case(fmt.Sprintf("ws/%v", replay), true)
	h.rep.Ops += len(s.Msgs)
	for _, k := range []string{"role", "async_write", "compression", "release_payload", "allocator"} {
		h.rep.Stat(fmt.Sprintf("ws.%s=%v", k, replay[k]))
	}
	h.rep.StatN("ws.messages-delivered", delivered)
	if perr != nil {
		h.rep.Stat("ws.parse-error")
		h.rep.Stat("ws.err=" + errClass(perr))
	}
	if s.Slow {
		h.rep.Stat("ws.slow-conn-close-with-queue")
	}
	for _, p := range problems {
		parts := strings.SplitN(p, "|", 2)
		h.rep.Add(hx.Finding{Kind: "oracle", Property: "C11", Signature: parts[0], What: parts[1], Replay: replay})
	}
	// what went out: frames must not carry freed / never-written memory
	wire, oks := fc.snapshot()
	var out []byte
	for i := hsWrites; i < len(wire); i++ {
		if oks[i] {
			out = append(out, wire[i]...)
		}
	}
	for i := 0; i < hsWrites && i < len(wire); i++ {
		h.scanWire(wire[i], "handshake", replay)
	}
	scanFrames(h, out, !s.Server, replay)
	h.finish(al, "ws", replay)
	if idx < 2 {
		h.rep.Sample(map[string]interface{}{"scenario": "ws", "spec": replay, "delivered": delivered, "parse_error": fmt.Sprint(perr),
			"events": len(al.events), "conn_writes": len(wire)})
	}
}

func errClass(err error) string {
	s := err.Error()
	if i := strings.Index(s, ":"); i > 0 && i < 40 {
		s = s[:i]
	}
	if len(s) > 40 {
		s = s[:40]
	}
	return s
}

// decode the frames the connection sent; scan uncompressed payloads (inflated ones for compressed messages)
func scanFrames(h *H, out []byte, masked bool, replay interface{}) {
	var msg []byte
	compressed := false
	for len(out) >= 2 {
		b0, b1 := out[0], out[1]
		n := int(b1 & 0x7f)
		off := 2
		switch n {
		case 126:
			if len(out) < 4 {
				return
			}
			n = int(binary.BigEndian.Uint16(out[2:4]))
			off = 4
		case 127:
			if len(out) < 10 {
				return
			}
			n = int(binary.BigEndian.Uint64(out[2:10]))
			off = 10
		}
		var key []byte
		if b1&0x80 != 0 {
			if len(out) < off+4 {
				return
			}
			key = out[off : off+4]
			off += 4
		}
		if n < 0 || len(out) < off+n {
			h.rep.Stat("ws.wire-undecodable")
			return
		}
		p := append([]byte{}, out[off:off+n]...)
		for i := range p {
			if key != nil {
				p[i] ^= key[i&3]
			}
		}
		out = out[off+n:]
		op := b0 & 0x0f
		if op >= 8 {
			h.scanWire(p, "ws-control-frame", replay)
			continue
		}
		if op != 0 {
			msg = nil
			compressed = b0&0x40 != 0
		}
		msg = append(msg, p...)
		if b0&0x80 != 0 {
			if compressed {
				if d, err := inflate(msg); err == nil {
					h.scanWire(d, "ws-message", replay)
				} else {
					h.rep.Stat("ws.sent-message-does-not-inflate")
				}
			} else {
				h.scanWire(msg, "ws-message", replay)
			}
			msg = nil
		}
	}
}
