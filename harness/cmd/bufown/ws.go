package main

import "math/rand"

func wsCase(h *H, r *rand.Rand, idx int) {}
