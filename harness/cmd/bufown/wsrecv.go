package main

// (g) the WebSocket receive path against its instrumented model coq/bufown/WsRecvAlloc.v: a frame stream (data messages
// in fragments - empty ones too -, compressed or not, control frames in between, frames that violate the protocol or the
// limits, handlers that close the connection) is cut into segments and fed to the real Conn.Parse (server role through the
// real Upgrade: blocking mode; client role as the Dialer builds it: Execute dispatch), ReleasePayload on and off, frame
// handler on and off, direct write mode, no-op ping/pong/close handlers (so that the only frames sent are the receive
// path's own close frames).  After every Parse: result class, cache length, message length, closed are compared with the
// model; at the end the allocator traces (appends that directly follow the Malloc of the same buffer merged into it:
// how often readAll grows its buffer is not predicted).
import (
	"errors"
	"fmt"
	"math/rand"
	"net"
	"net/http"
	"strings"

	"github.com/lesismal/nbio/nbhttp"
	"github.com/lesismal/nbio/nbhttp/websocket"
	"verifharness/hx"
)

type rframe struct {
	op      byte
	fin     bool
	rsv1    bool
	rsvx    bool
	payload []byte
	neg     bool
	reply   bool
	clean   bool
	mpanic  bool // the message / ping / pong / close handler panics on this frame's message or control payload
	fpanic  bool // the data frame handler panics on this frame
	infl    byte // o l b
	ilen    int
}

func (f *rframe) lk() int {
	switch {
	case f.neg:
		return 10
	case len(f.payload) < 126:
		return 2
	case len(f.payload) <= 65535:
		return 4
	}
	return 10
}

func (f *rframe) class() string {
	switch f.op {
	case 1, 2:
		return "d"
	case 0:
		return "c"
	case 8, 9, 10:
		return "t"
	}
	return "b"
}

func b01(b bool) int {
	if b {
		return 1
	}
	return 0
}

func (f *rframe) desc(masked bool) string {
	return fmt.Sprintf("%s,%d,%d,%d,%d,%d,%d,%d,%d,%d,%d,%d,%c,%d,0", f.class(), b01(f.fin), b01(f.rsv1), b01(f.rsvx), f.lk(), b01(masked),
		len(f.payload), b01(f.neg), b01(f.reply), b01(f.clean), b01(f.mpanic), b01(f.fpanic), f.infl, f.ilen)
}

func (f *rframe) wire(masked bool, r *rand.Rand) []byte {
	if f.neg {
		h := []byte{0x80 | f.op, 127, 0x80, 0, 0, 0, 0, 0, 0, 1}
		if masked {
			h[1] |= 0x80
			h = append(h, 1, 2, 3, 4)
		}
		return h
	}
	b := wsFrame(f.op, f.fin, f.rsv1, f.rsvx, f.payload, masked, r)
	return b
}

func genRecvFrames(r *rand.Rand, idx int, zip bool, limit int) []*rframe {
	fs := genRecvFrames0(r, idx, zip, limit)
	// handlers that panic: on the message / control payload, on a data frame
	if r.Intn(3) == 0 {
		for _, f := range fs {
			if r.Intn(4) == 0 {
				f.mpanic = true
			}
			if r.Intn(6) == 0 {
				f.fpanic = true
			}
		}
	}
	return fs
}

func genRecvFrames0(r *rand.Rand, idx int, zip bool, limit int) []*rframe {
	var fs []*rframe
	nm := 1 + r.Intn(5)
	ctl := func() *rframe {
		f := &rframe{op: []byte{9, 10, 9, 8}[r.Intn(4)], fin: true, infl: 'o'}
		if f.op == 8 {
			switch r.Intn(4) {
			case 0:
			case 1:
				f.payload = append([]byte{0x03, 0xe8}, pat(r.Intn(100), 3)...)
			case 2:
				f.payload = []byte{0x03}
			default:
				f.payload = append([]byte{0x03, 0xed}, pat(r.Intn(50), 3)...) // 1005 is not valid on the wire: answered with 1002
				f.reply = true
			}
		} else {
			f.payload = pat([]int{0, 0, 1, 125, r.Intn(126)}[r.Intn(5)], 5)
		}
		return f
	}
	for i := 0; i < nm; i++ {
		switch x := r.Intn(12); {
		case x < 8: // a data message
			sz := wsSize(r, limit)
			if sz > 70000 {
				sz = 66000 + r.Intn(3000)
			}
			payload := pat(sz, byte(idx+i))
			data := payload
			comp := zip && r.Intn(2) == 0
			infl := byte('o')
			if comp {
				data = deflate(payload)
				if limit > 0 && sz > limit {
					infl = 'l'
				}
				if r.Intn(12) == 0 {
					data = append([]byte{0xff, 0xfe, 0xfd, 0x07, 0x07}, payload[:min(len(payload), 40)]...)
					infl = 'b'
				}
			}
			k := 1
			if r.Intn(3) == 0 {
				k = 2 + r.Intn(3)
			}
			off := 0
			op := byte(1 + r.Intn(2))
			clean := r.Intn(10) == 0
			for j := 0; j < k; j++ {
				n := len(data) - off
				if j < k-1 {
					n = r.Intn(n + 1)
					if r.Intn(4) == 0 {
						n = 0
					}
				}
				f := &rframe{op: op, fin: j == k-1, payload: data[off : off+n], infl: 'o'}
				if j == 0 {
					f.rsv1 = comp
				} else {
					f.op = 0
				}
				if f.fin {
					f.clean = clean
					f.infl, f.ilen = infl, sz
					if !comp {
						f.ilen = 0
					}
				}
				off += n
				fs = append(fs, f)
				if j < k-1 && r.Intn(4) == 0 {
					fs = append(fs, ctl())
				}
			}
		case x < 10:
			fs = append(fs, ctl())
		default: // a frame that violates the protocol
			f := &rframe{op: 1, fin: true, payload: pat(r.Intn(300), 9), infl: 'o'}
			switch r.Intn(8) {
			case 0:
				f.rsvx = true
			case 1:
				f.op = []byte{3, 7, 11, 15}[r.Intn(4)]
				f.fin = r.Intn(4) > 0
			case 2:
				f.op = 9
				f.payload = pat(126+r.Intn(100), 1)
			case 3:
				f.op = 9
				f.fin = false
				f.payload = f.payload[:min(len(f.payload), 100)]
			case 4:
				f.op = 0
			case 5:
				f.neg = true
				f.payload = nil
			case 6:
				f.rsv1 = true // without negotiated compression: rejected; with it: a compressed message
				if zip {
					f.payload = deflate(f.payload)
					f.ilen = 0
					f.payload = nil // RSV1 with an empty payload
				}
			default:
				f.op = 10
				f.fin = false
			}
			fs = append(fs, f)
		}
	}
	return fs
}

func presClass(err error) string {
	switch {
	case err == nil:
		return "ok"
	case errors.Is(err, net.ErrClosed):
		return "closed"
	case errors.Is(err, nbhttp.ErrTooLong):
		return "toolong"
	}
	return "err"
}

// mergeCreate: an Append that directly follows the Malloc of the same buffer is part of the creation
func mergeCreate(tr []string) []string {
	var out []string
	for _, e := range tr {
		if n := len(out); n > 0 && e[0] == 'a' && out[n-1][0] == 'm' {
			var a, b, m int
			fmt.Sscanf(e[1:], "%d,%d", &a, &b)
			fmt.Sscanf(out[n-1][1:], "%d", &m)
			if a == m {
				out[n-1] = fmt.Sprintf("m%d", b)
				continue
			}
		}
		out = append(out, e)
	}
	return out
}

func wsrecvCase(h *H, r *rand.Rand, idx int) {
	mode := []int{modeInPlace, modeAlwaysMove}[r.Intn(2)]
	slack := []int{0, 1, 64, 1024}[r.Intn(4)]
	al := NewAlloc(mode, slack)
	install(al)
	server := r.Intn(2) == 0
	release := r.Intn(2) == 0
	fhOn := r.Intn(3) == 0
	zip := r.Intn(2) == 0
	limit := 0
	if r.Intn(3) == 0 {
		limit = []int{100, 1000, 65536, 70000}[r.Intn(4)]
	}
	rlimit := 0
	if r.Intn(8) == 0 {
		rlimit = 50 + r.Intn(70000)
	}
	frames := genRecvFrames(r, idx, zip, limit)
	fc := &sconn{al: al}
	closeAsked := false
	fc.onClose = func() { closeAsked = true }
	var wsc *websocket.Conn
	frameIdx := map[int]*rframe{} // i-th final data frame
	k := 0
	for _, f := range frames {
		if (f.op == 0 || f.op == 1 || f.op == 2) && f.fin {
			frameIdx[k] = f
			k++
		}
	}
	// the data frames with a payload (the frame handler sees them in order), the control frames whose handler runs
	var withPayload, ctlFrames []*rframe
	for _, f := range frames {
		switch f.class() {
		case "d", "c":
			if len(f.payload) > 0 {
				withPayload = append(withPayload, f)
			}
		case "t":
			if !f.reply {
				ctlFrames = append(ctlFrames, f)
			}
		}
	}
	framesSeen, ctlSeen := 0, 0
	ctlHandler := func() {
		i := ctlSeen
		ctlSeen++
		if i < len(ctlFrames) && ctlFrames[i].mpanic {
			h.rep.Stat("wsrecv.panic.control-handler")
			panic("control handler panics")
		}
	}
	recov := r.Intn(2) == 0
	delivered := 0
	var problems []string
	onMessage := func(c *websocket.Conn, mt websocket.MessageType, data []byte) {
		al.Observe(data, "OnMessage")
		if runOf(data, poison) >= 8 || runOf(data, garbage) >= 8 {
			problems = append(problems, fmt.Sprintf("poison-in-message|message %d handed to OnMessage (%d bytes) contains freed / never-written pool memory", delivered, len(data)))
		}
		f := frameIdx[delivered]
		delivered++
		if f != nil && f.mpanic {
			h.rep.Stat("wsrecv.panic.message-handler")
			panic("message handler panics")
		}
		if f != nil && f.clean {
			c.CloseAndClean(nil)
		}
	}
	onFrame := func(c *websocket.Conn, mt websocket.MessageType, fin bool, data []byte) {
		al.Observe(data, "OnDataFrame")
		i := framesSeen
		framesSeen++
		if i < len(withPayload) && withPayload[i].fpanic {
			h.rep.Stat("wsrecv.panic.frame-handler")
			panic("frame handler panics")
		}
	}
	swallow := func(f func()) {
		defer func() { _ = recover() }()
		f()
	}
	conf := nbhttp.Config{ReadLimit: rlimit}
	u := websocket.NewUpgrader()
	var uerr error
	if server {
		conf.Handler = http.HandlerFunc(func(w http.ResponseWriter, rq *http.Request) { wsc, uerr = u.Upgrade(w, rq, nil) })
	}
	engine := newEngine(al, conf)
	u.Engine = engine
	u.BlockingModHandleRead = false
	u.BlockingModAsyncWrite = false
	u.KeepaliveTime = 0
	u.ReleasePayload = release
	u.EnableCompression(zip)
	u.MessageLengthLimit = limit
	u.SetPingHandler(func(*websocket.Conn, string) { ctlHandler() })
	u.SetPongHandler(func(*websocket.Conn, string) { ctlHandler() })
	u.SetCloseHandler(func(*websocket.Conn, int, string) { ctlHandler() })
	if recov {
		// the executor that runs the handlers recovers their panics (the default task pool's Call, a connection's job
		// runner); otherwise it is a plain call (an application's own ServerExecutor): a panic reaches Parse's recover
		engine.SyncCall = swallow
	}
	u.OnMessage(onMessage)
	if fhOn {
		u.OnDataFrame(onFrame)
	}
	if server {
		ps := nbhttp.NewParser(fc, engine, nbhttp.NewServerProcessor(), false, nil)
		ext := ""
		if zip {
			ext = "Sec-WebSocket-Extensions: permessage-deflate; server_no_context_takeover; client_no_context_takeover\r\n"
		}
		_ = ps.Parse([]byte("GET /ws HTTP/1.1\r\nHost: x\r\nUpgrade: websocket\r\nConnection: Upgrade\r\nSec-WebSocket-Version: 13\r\nSec-WebSocket-Key: " + wsKey + "\r\n" + ext + "\r\n"))
		if uerr != nil || wsc == nil {
			hx.Fatal("wsrecv: upgrade failed: %v", uerr)
		}
		ps.OnClose(nil)
		ps.CloseAndClean(nil)
	} else {
		wsc = websocket.NewClientConn(u, fc, "", zip, false)
		wsc.Engine = engine
		wsc.Execute = func(f func()) bool { f(); return true }
		if recov {
			wsc.Execute = func(f func()) bool { swallow(f); return true }
		}
		websocket.VerifSetReleasePayload(wsc, release)
	}
	base := len(al.Events()) // the handshake's events are not part of the compared program
	closeAsked = false

	var stream []byte
	var descs []string
	for _, f := range frames {
		stream = append(stream, f.wire(server, r)...)
		descs = append(descs, f.desc(server))
	}
	cs := cuts(r, len(stream))
	var ops, obs []string
	prev := 0
	state := func(res string) string {
		st := websocket.VerifGetState(wsc)
		return fmt.Sprintf("%s/%d/%d/%d", res, st.Cached, st.MessageLen, b01(st.Closed))
	}
	for _, b := range append(cs, len(stream)) {
		if b <= prev {
			continue
		}
		seg := append([]byte{}, stream[prev:b]...)
		var err error
		func() {
			// Parse recovers panics itself; should one escape, it is caught here and the trace is checked all the same
			defer func() {
				if p := recover(); p != nil {
					err = fmt.Errorf("panic escaped Parse: %v", p)
					h.rep.Stat("wsrecv.panic-escaped-parse")
				}
			}()
			err = wsc.Parse(seg)
		}()
		fill(seg, 0xEE)
		ops = append(ops, fmt.Sprintf("p:%d", b-prev))
		obs = append(obs, state(presClass(err)))
		prev = b
		if err != nil && !errors.Is(err, net.ErrClosed) || closeAsked {
			break
		}
	}
	wsc.CloseAndClean(nil)
	ops = append(ops, "c")
	obs = append(obs, state("ok"))
	tr := al.Trace()[base:]

	replay := map[string]interface{}{"harness": "bufown", "scenario": "wsrecv", "seed": h.seed, "index": idx, "allocator": modeNames[mode],
		"slack": slack, "server_role": server, "release_payload": release, "frame_handler": fhOn, "compression": zip,
		"message_length_limit": limit, "read_limit": rlimit, "executor_recovers": recov, "frames": descs, "ops": ops}
	h.rep.Case(fmt.Sprintf("wsrecv/%v/%v/%v/%v/%v/%d/%s", descs, ops, server, release, fhOn, limit, modeNames[mode]), true)
	h.rep.Ops += len(ops)
	h.rep.Stat(fmt.Sprintf("wsrecv.release=%v", release))
	h.rep.Stat(fmt.Sprintf("wsrecv.server=%v", server))
	h.rep.Stat(fmt.Sprintf("wsrecv.executor-recovers=%v", recov))
	for _, o := range obs {
		h.rep.Stat("wsrecv.parse=" + o[:strings.Index(o, "/")])
	}
	h.rep.StatN("wsrecv.messages-delivered", delivered)
	for _, p := range problems {
		parts := strings.SplitN(p, "|", 2)
		h.rep.Add(hx.Finding{Kind: "oracle", Property: "C11", Signature: parts[0], What: parts[1], Replay: replay})
	}
	wire, _ := fc.snapshot()
	for i, w := range wire {
		if !(server && i == 0) {
			h.scanWire(w, "ws-control-frame", replay)
		}
	}
	h.finish(al, "wsrecv", replay)
	if release && recov {
		if live := al.LiveSites(); len(live) > 0 {
			h.rep.Add(hx.Finding{Kind: "oracle", Property: "C11", Signature: "not-returned-after-close-ws",
				What: fmt.Sprintf("ReleasePayload is on, the connection is closed, and buffers are still held (by allocation site): %v", live), Replay: replay})
		}
	}
	if h.model != nil {
		mv := "-"
		if mode == modeAlwaysMove {
			mv = strings.Repeat("1", 2000)
		}
		fr := "-"
		if len(descs) > 0 {
			fr = strings.Join(descs, ";")
		}
		line := h.model.Ask("W %d 1 %d %d %d %d %d %s %s %s", b01(release), b01(fhOn), b01(zip), limit, rlimit, b01(recov), mv, fr, strings.Join(ops, " "))
		if !strings.HasPrefix(line, "S=") {
			hx.Fatal("model answer %q", line)
		}
		var ms, mg, mt string
		rest := line[2:]
		if i := strings.Index(rest, " G="); i >= 0 {
			ms = rest[:i]
			rest = rest[i+3:]
			if j := strings.Index(rest, " TR="); j >= 0 {
				mg, mt = rest[:j], rest[j+4:]
			}
		}
		in := strings.Join(normalise(mergeCreate(normalise(tr))), " ")
		mn := strings.Join(normalise(mergeCreate(normalise(strings.Fields(mt)))), " ")
		ig := 0
		for _, v := range al.LiveSites() {
			ig += v
		}
		if strings.Join(obs, ";") != ms || in != mn || fmt.Sprint(ig) != mg {
			h.rep.Add(hx.Finding{Kind: "mismatch", Property: "C11", Signature: "ws-receive-alloc-model",
				What: fmt.Sprintf("impl S=%s G=%d TRACE=%s ; model S=%s G=%s TRACE=%s", strings.Join(obs, ";"), ig, in, ms, mg, mn), Replay: replay})
		}
	}
	if idx < 2 {
		h.rep.Sample(map[string]interface{}{"scenario": "wsrecv", "frames": descs, "ops": ops, "observations": obs, "release": release})
	}
}
