package main

// (f) nbhttp.BodyReader driven directly: append (through the overlay accessor VerifBodyAppend = BodyReader.append, the
// call the parser makes for every body chunk), Read and Close in EVERY order, with the instrumented allocator as the
// engine's BodyAllocator.  Compared op by op with the instrumented model coq/bufown/BodyAlloc.v (result, number of
// buffers, index, left) and the allocator trace with the model's (reads and in-place fills of a buffer are not
// observable on the real side: the model's Use events are dropped from the comparison).  What Read returns must be the
// appended bytes in order, without freed / never-written memory.
import (
	"bytes"
	"fmt"
	"io"
	"math/rand"
	"strings"

	"github.com/lesismal/nbio/nbhttp"
	"verifharness/hx"
)

func dropUses(tr []string) []string {
	var o []string
	for _, e := range tr {
		if e != "" && e[0] != 'u' {
			o = append(o, e)
		}
	}
	return o
}

func bodyCase(h *H, r *rand.Rand, idx int) {
	mode := r.Intn(3)
	slack := []int{0, 1, 64, 1024, 5000}[r.Intn(5)]
	al := NewAlloc(mode, slack)
	install(al)
	max := 0
	if r.Intn(4) == 0 {
		max = 1 + r.Intn(20000)
	}
	engine := newEngine(al, nbhttp.Config{MaxHTTPBodySize: max})
	br := nbhttp.NewBodyReader(engine)
	nops := 2 + r.Intn(14)
	var toks, obs []string
	var appended, got []byte
	problem := ""
	for i := 0; i < nops; i++ {
		x := r.Intn(10)
		switch {
		case x < 5:
			l := []int{0, 1 + r.Intn(50), 1 + r.Intn(3000), 4096, 65536 - 1 + r.Intn(3), slack, slack + 1}[r.Intn(7)]
			data := pat(l, byte(idx+i))
			err := nbhttp.VerifBodyAppend(br, data)
			for j := range data {
				data[j] = 0xEE // the parser's read buffer is reused
			}
			res := fmt.Sprint(l)
			if err != nil {
				res = "toolong"
			} else {
				appended = append(appended, pat(l, byte(idx+i))...)
			}
			toks = append(toks, fmt.Sprintf("a:%d", l))
			obs = append(obs, fmt.Sprintf("%s/%d/%d/%d", res, len(br.Buffers()), br.Index(), br.Left()))
		case x < 9:
			n := []int{0, 1, 1 + r.Intn(100), 1 + r.Intn(5000), 70000}[r.Intn(5)]
			p := make([]byte, n)
			k, err := br.Read(p)
			res := fmt.Sprint(k)
			if err == io.EOF {
				res = "eof"
			}
			got = append(got, p[:k]...)
			toks = append(toks, fmt.Sprintf("r:%d", n))
			obs = append(obs, fmt.Sprintf("%s/%d/%d/%d", res, len(br.Buffers()), br.Index(), br.Left()))
		default:
			_ = br.Close()
			toks = append(toks, "c")
			obs = append(obs, fmt.Sprintf("0/%d/%d/%d", len(br.Buffers()), br.Index(), br.Left()))
		}
	}
	progTrace := al.Trace()
	replay := map[string]interface{}{"harness": "bufown", "scenario": "body", "seed": h.seed, "index": idx, "allocator": modeNames[mode],
		"slack": slack, "max_body": max, "ops": toks}
	// what was read: a subsequence-free check is enough here: without a Close in between it is a prefix of what was appended
	if runOf(got, poison) >= 8 || runOf(got, garbage) >= 8 {
		problem = fmt.Sprintf("Read returned %d bytes containing freed / never-written pool memory", len(got))
	}
	closedEarly := false
	for _, t := range toks {
		if t == "c" {
			closedEarly = true
		}
	}
	if !closedEarly && (len(got) > len(appended) || !bytes.Equal(got, appended[:len(got)])) && problem == "" {
		h.rep.Stat("body.read-differs-without-poison")
	}
	// the reader is given back as releaseRequest does: Close (a reader closed earlier and appended to again keeps
	// what it got after the Close: not a flow of the library)
	wasClosed := closedEarly
	_ = br.Close()
	h.rep.Case(fmt.Sprintf("body/%v/%s/%d/%d", toks, modeNames[mode], slack, max), true)
	h.rep.Ops += len(toks)
	h.rep.Stat("body.alloc=" + modeNames[mode])
	if problem != "" {
		h.rep.Add(hx.Finding{Kind: "oracle", Property: "C11", Signature: "poison-in-request-body", What: problem, Replay: replay})
	}
	h.finish(al, "body", replay)
	if live := al.LiveSites(); len(live) > 0 && !wasClosed {
		h.rep.Add(hx.Finding{Kind: "oracle", Property: "C11", Signature: "not-returned-after-close-body",
			What: fmt.Sprintf("after Close buffers are still held (by allocation site): %v", live), Replay: replay})
	}
	if h.model != nil {
		line := h.model.Ask("B %d %d %s", max, slack, strings.Join(toks, " "))
		if !strings.HasPrefix(line, "S=") {
			hx.Fatal("model answer %q", line)
		}
		parts := strings.SplitN(line[2:], " TR=", 2)
		ms, mt := parts[0], ""
		if len(parts) == 2 {
			mt = parts[1]
		}
		in, mn := strings.Join(normalise(dropUses(progTrace)), " "), strings.Join(normalise(dropUses(strings.Fields(mt))), " ")
		if strings.Join(obs, ";") != ms || in != mn {
			h.rep.Add(hx.Finding{Kind: "mismatch", Property: "C11", Signature: "body-reader-alloc-model",
				What: fmt.Sprintf("impl S=%s TRACE=%s ; model S=%s TRACE=%s", strings.Join(obs, ";"), in, ms, mn), Replay: replay})
		}
	}
	if idx < 2 {
		h.rep.Sample(map[string]interface{}{"scenario": "body", "ops": toks, "allocator": modeNames[mode], "slack": slack, "observations": obs})
	}
}
