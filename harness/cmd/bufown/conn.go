package main

import (
	"errors"
	"io"
	"net"
	"sync"
	"time"
)

var errScripted = errors.New("scripted write failure")

// sconn: a net.Conn whose Write records (a copy of) every payload, tells the allocator which pooled buffer the
// payload lies in, and fails according to a script.
type sconn struct {
	mu      sync.Mutex
	al      *Alloc
	writes  [][]byte
	oks     []bool
	fails   func(i int) bool // does the i-th Write fail?
	closed  int
	onClose func()
	gate    chan struct{} // when set: every Write waits for one token (slow connection)
	inWrite chan struct{} // when set: signalled when a Write starts waiting at the gate
}

func (c *sconn) Read(b []byte) (int, error) { return 0, io.EOF }

func (c *sconn) Write(b []byte) (int, error) {
	c.al.Observe(b, "conn.Write")
	cp := append([]byte{}, b...)
	if c.gate != nil {
		if c.inWrite != nil {
			select {
			case c.inWrite <- struct{}{}:
			default:
			}
		}
		<-c.gate
		// the payload must not change while the connection is sending it
		if string(cp) != string(b) {
			c.al.mu.Lock()
			c.al.extra = append(c.al.extra, "payload-changed-during-write|the slice handed to conn.Write changed while the write was in progress")
			c.al.mu.Unlock()
		}
	}
	c.mu.Lock()
	defer c.mu.Unlock()
	i := len(c.writes)
	ok := c.fails == nil || !c.fails(i)
	c.writes = append(c.writes, cp)
	c.oks = append(c.oks, ok)
	if !ok {
		return 0, errScripted
	}
	return len(b), nil
}

func (c *sconn) Close() error {
	c.mu.Lock()
	c.closed++
	f := c.onClose
	c.mu.Unlock()
	if f != nil {
		f()
	}
	return nil
}

func (c *sconn) snapshot() ([][]byte, []bool) {
	c.mu.Lock()
	defer c.mu.Unlock()
	return append([][]byte(nil), c.writes...), append([]bool(nil), c.oks...)
}

func (c *sconn) LocalAddr() net.Addr                { return &net.TCPAddr{} }
func (c *sconn) RemoteAddr() net.Addr               { return &net.TCPAddr{} }
func (c *sconn) SetDeadline(t time.Time) error      { return nil }
func (c *sconn) SetReadDeadline(t time.Time) error  { return nil }
func (c *sconn) SetWriteDeadline(t time.Time) error { return nil }

// failure scripts
func failFrom(k int) func(int) bool { return func(i int) bool { return i >= k } }
func failOnly(k int) func(int) bool { return func(i int) bool { return i == k } }

// bits of a script for the first n writes
func failBits(f func(int) bool, n int) string {
	if f == nil || n == 0 {
		return "-"
	}
	b := make([]byte, n)
	for i := range b {
		if f(i) {
			b[i] = '1'
		} else {
			b[i] = '0'
		}
	}
	return string(b)
}
