package main

// (d) a REAL nbhttp engine over loopback TCP with the instrumented allocator behind all its seams
// (mempool.DefaultMemPool, nbhttp Config.BodyAllocator = write queue of the connections too, ReadBufferPool):
// std clients send pipelined HTTP requests (bodies, handler programs), then upgrade to WebSocket and exchange
// messages (empty ones, pings, fragments, large ones), and the connection is closed by the client or by the handler.
// This reaches what the scripted connection cannot: the upgrade of an *nbio.Conn (non-blocking WebSocket connection with
// payload release, dispatch through the engine's executors), responses going through nbio.Conn's write queue, the
// blocking mode's read loop with its pooled read buffer, and real interleavings of close with in-flight work.
// Oracles: the discipline (any interleaving must satisfy it) and no freed / never-written memory in what the client
// receives. Timing differs between runs; the verdicts do not depend on it.
import (
	"bufio"
	"bytes"
	"encoding/binary"
	"fmt"
	"io"
	"math/rand"
	"net"
	"net/http"
	"sync"
	"time"

	"github.com/lesismal/nbio/nbhttp"
	"github.com/lesismal/nbio/nbhttp/websocket"
	"verifharness/hx"
)

func readFrame(br *bufio.Reader) (op byte, fin bool, payload []byte, err error) {
	var h [2]byte
	if _, err = io.ReadFull(br, h[:]); err != nil {
		return
	}
	op, fin = h[0]&0x0f, h[0]&0x80 != 0
	n := int(h[1] & 0x7f)
	switch n {
	case 126:
		var l [2]byte
		if _, err = io.ReadFull(br, l[:]); err != nil {
			return
		}
		n = int(binary.BigEndian.Uint16(l[:]))
	case 127:
		var l [8]byte
		if _, err = io.ReadFull(br, l[:]); err != nil {
			return
		}
		n = int(binary.BigEndian.Uint64(l[:]))
	}
	if n < 0 || n > 1<<24 {
		err = fmt.Errorf("frame length %d", n)
		return
	}
	payload = make([]byte, n)
	_, err = io.ReadFull(br, payload)
	return
}

func engineCase(h *H, r *rand.Rand, idx int) {
	mode := r.Intn(3)
	slack := []int{0, 1, 64}[r.Intn(3)]
	al := NewAlloc(mode, slack)
	install(al)
	iomod := []int{nbhttp.IOModNonBlocking, nbhttp.IOModNonBlocking, nbhttp.IOModBlocking}[idx%3]
	release := r.Intn(3) > 0
	compress := r.Intn(3) == 0
	var mu sync.Mutex
	var problems []string
	note := func(s string) { mu.Lock(); problems = append(problems, s); mu.Unlock() }

	u := websocket.NewUpgrader()
	u.ReleasePayload = release
	u.EnableCompression(compress)
	u.KeepaliveTime = 0
	u.OnMessage(func(c *websocket.Conn, mt websocket.MessageType, data []byte) {
		al.Observe(data, "OnMessage")
		if runOf(data, poison) >= 8 || runOf(data, garbage) >= 8 {
			note(fmt.Sprintf("poison-in-message|a message of %d bytes handed to OnMessage contains freed / never-written pool memory", len(data)))
		}
		if len(data) > 0 && data[0] == 'Q' {
			_ = c.WriteClose(1000, "bye")
			_ = c.Close()
			return
		}
		_ = c.WriteMessage(mt, data)
	})
	mux := http.NewServeMux()
	mux.HandleFunc("/ws", func(w http.ResponseWriter, rq *http.Request) {
		if _, err := u.Upgrade(w, rq, nil); err != nil {
			return
		}
	})
	mux.HandleFunc("/echo", func(w http.ResponseWriter, rq *http.Request) {
		body, _ := io.ReadAll(rq.Body)
		if runOf(body, poison) >= 8 || runOf(body, garbage) >= 8 {
			note(fmt.Sprintf("poison-in-request-body|the handler read a request body of %d bytes that contains freed / never-written pool memory", len(body)))
		}
		w.Header().Set("Content-Length", fmt.Sprint(len(body)))
		_, _ = w.Write(body)
	})
	mux.HandleFunc("/gen", func(w http.ResponseWriter, rq *http.Request) {
		var n, parts int
		fmt.Sscanf(rq.URL.Query().Get("n"), "%d", &n)
		fmt.Sscanf(rq.URL.Query().Get("parts"), "%d", &parts)
		if parts < 1 {
			parts = 1
		}
		for i := 0; i < parts; i++ {
			_, _ = w.Write(payload(n / parts))
			if rq.URL.Query().Get("flush") == "1" {
				w.(http.Flusher).Flush()
			}
		}
	})
	addrs := []string{"127.0.0.1:0"}
	engine := nbhttp.NewEngine(nbhttp.Config{Network: "tcp", Addrs: addrs, NPoller: 1, Handler: mux, BodyAllocator: al,
		ReadBufferPool: al, IOMod: iomod, ReleaseWebsocketPayload: false, MessageHandlerPoolSize: 8, SupportServerOnly: true})
	u.Engine = engine
	if err := engine.Start(); err != nil {
		h.rep.Stat("engine.start-failed")
		return
	}
	addr := engine.Addrs[0]
	nconn := 2 + r.Intn(3)
	replay := map[string]interface{}{"harness": "bufown", "scenario": "engine", "seed": h.seed, "index": idx, "allocator": modeNames[mode],
		"slack": slack, "iomod": iomod, "release_payload": release, "compression": compress, "connections": nconn}
	var script []string
	for ci := 0; ci < nconn; ci++ {
		cli, err := net.Dial("tcp", addr)
		if err != nil {
			h.rep.Stat("engine.dial-failed")
			continue
		}
		_ = cli.SetDeadline(time.Now().Add(8 * time.Second))
		br := bufio.NewReaderSize(cli, 1<<16)
		// HTTP exchanges, pipelined in groups
		nreq := r.Intn(4)
		var reqs [][]byte
		var kinds []string
		for i := 0; i < nreq; i++ {
			if r.Intn(2) == 0 {
				b := pat(bodySize(r), byte(idx+i))
				reqs = append(reqs, append([]byte(fmt.Sprintf("POST /echo HTTP/1.1\r\nHost: x\r\nContent-Length: %d\r\n\r\n", len(b))), b...))
				kinds = append(kinds, fmt.Sprintf("echo%d", len(b)))
			} else {
				n, parts := writeSize(r)*(1+r.Intn(2)), 1+r.Intn(3)
				fl := r.Intn(3) / 2
				reqs = append(reqs, []byte(fmt.Sprintf("GET /gen?n=%d&parts=%d&flush=%d HTTP/1.1\r\nHost: x\r\n\r\n", n, parts, fl)))
				kinds = append(kinds, fmt.Sprintf("gen%d/%d/%d", n, parts, fl))
			}
		}
		script = append(script, fmt.Sprintf("conn%d:%v", ci, kinds))
		all := bytes.Join(reqs, nil)
		segs := append(cuts(r, len(all)), len(all))
		go func() {
			prev := 0
			for _, b := range segs {
				if b <= prev {
					continue
				}
				if _, err := cli.Write(all[prev:b]); err != nil {
					return
				}
				prev = b
			}
		}()
		okHTTP := true
		for i := 0; i < nreq && okHTTP; i++ {
			resp, err := http.ReadResponse(br, &http.Request{Method: "GET"})
			if err != nil {
				h.rep.Stat("engine.response-read-error")
				okHTTP = false
				break
			}
			body, err := io.ReadAll(resp.Body)
			if err != nil {
				h.rep.Stat("engine.response-body-error")
				okHTTP = false
			}
			h.scanWire(body, "engine-response", replay)
		}
		// WebSocket
		if okHTTP && r.Intn(4) > 0 {
			ext := ""
			if compress && r.Intn(2) == 0 {
				ext = "Sec-WebSocket-Extensions: permessage-deflate; server_no_context_takeover; client_no_context_takeover\r\n"
			}
			fmt.Fprintf(cli, "GET /ws HTTP/1.1\r\nHost: x\r\nUpgrade: websocket\r\nConnection: Upgrade\r\nSec-WebSocket-Version: 13\r\nSec-WebSocket-Key: %s\r\n%s\r\n", wsKey, ext)
			resp, err := http.ReadResponse(br, &http.Request{Method: "GET"})
			if err == nil && resp.StatusCode == 101 {
				nm := 1 + r.Intn(5)
				var ks []string
				for i := 0; i < nm; i++ {
					m := &wsMsg{Op: byte(1 + r.Intn(2)), Payload: pat(wsSize(r, 0), byte(idx+i))}
					if len(m.Payload) > 0 && m.Payload[0] == 'Q' {
						m.Payload[0] = 'q'
					}
					if ext != "" && r.Intn(2) == 0 {
						m.Compressed = true
					}
					if len(m.Payload) > 1 && r.Intn(3) == 0 {
						m.Frags = []int{r.Intn(len(m.Payload)), len(m.Payload)}
					}
					last := i == nm-1
					quit := last && r.Intn(3) == 0
					if quit {
						m.Payload = append([]byte("Q"), m.Payload...)
						m.Compressed, m.Frags = false, nil
					}
					ks = append(ks, m.desc())
					wire := m.wire(true, r)
					if r.Intn(3) == 0 {
						wire = append(wire, wsFrame(9, true, false, false, pat(r.Intn(2)*r.Intn(100), 1), true, r)...) // a ping (often empty)
					}
					if _, err := cli.Write(wire); err != nil {
						break
					}
					// the echo (or the close frame): read frames until a data message / close is complete
					var msg []byte
					for {
						op, fin, p, err := readFrame(br)
						if err != nil {
							h.rep.Stat("engine.ws-read-error")
							break
						}
						if op == 8 {
							break
						}
						if op == 9 || op == 10 {
							h.scanWire(p, "engine-ws-control", replay)
							continue
						}
						msg = append(msg, p...)
						if fin {
							if d, err := inflate(msg); ext != "" && err == nil && len(d) > 0 {
								h.scanWire(d, "engine-ws-message", replay)
							}
							h.scanWire(msg, "engine-ws-message", replay)
							break
						}
					}
				}
				script = append(script, fmt.Sprintf("conn%d-ws:%v", ci, ks))
			} else {
				h.rep.Stat("engine.upgrade-failed")
			}
		}
		if r.Intn(2) == 0 {
			// leave something unfinished behind: half a request / half a frame, then close
			half := []byte("POST /echo HTTP/1.1\r\nHost: x\r\nContent-Length: 100\r\n\r\nabc")
			_, _ = cli.Write(half[:1+r.Intn(len(half))])
		}
		_ = cli.Close()
	}
	// let the engine notice the closes, then stop it (Stop closes what is left and waits)
	time.Sleep(3 * time.Millisecond)
	engine.Stop()
	// handlers still running in the executor pool finish on their own
	deadline := time.Now().Add(2 * time.Second)
	last := -1
	for time.Now().Before(deadline) {
		n := len(al.Events())
		if n == last {
			break
		}
		last = n
		time.Sleep(2 * time.Millisecond)
	}
	replay["script"] = script
	h.rep.Case(fmt.Sprintf("engine/%d/%v", idx, script), true)
	h.rep.Ops += nconn
	h.rep.Stat(fmt.Sprintf("engine.iomod=%d", iomod))
	mu.Lock()
	ps := append([]string(nil), problems...)
	mu.Unlock()
	for _, p := range ps {
		i := bytes.IndexByte([]byte(p), '|')
		h.rep.Add(hx.Finding{Kind: "oracle", Property: "C11", Signature: p[:i], What: p[i+1:], Replay: replay})
	}
	h.finish(al, "engine", replay)
	if idx < 1 {
		h.rep.Sample(map[string]interface{}{"scenario": "engine", "script": script, "events": len(al.events)})
	}
}
