// gendump: the translator half of the tie - prints Gallina definitions of finite tables/constants of /repo's
// current working tree (through overlay-added dumpers that can see unexported identifiers).
package main

import (
	"flag"
	"fmt"
	"os"

	"github.com/lesismal/nbio/nbhttp"
)

func main() {
	what := flag.String("what", "http", "which table set")
	out := flag.String("out", "-", "")
	flag.Parse()
	var s string
	switch *what {
	case "http":
		s = nbhttp.VerifGenTables()
	default:
		fmt.Fprintln(os.Stderr, "unknown table set", *what)
		os.Exit(2)
	}
	if *out == "-" {
		fmt.Print(s)
		return
	}
	if old, err := os.ReadFile(*out); err == nil && string(old) == s {
		return // unchanged: keep the .vo files valid
	}
	if err := os.WriteFile(*out, []byte(s), 0o644); err != nil {
		fmt.Fprintln(os.Stderr, err)
		os.Exit(1)
	}
}
