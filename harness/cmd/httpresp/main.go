// Harness for C09 (HTTP response framing).
//
//	part M: correspondence of nbhttp.Response with the Coq model: boundaries and bytes of every conn.Write, result of every Write
//	part O: property oracle on the implementation alone: net/http decodes the wire to the handler's status, headers,
//	        trailers and body; every successful Write reports len(data); nothing follows the response.
package main

import (
	"bufio"
	"bytes"
	"encoding/hex"
	"flag"
	"fmt"
	"io"
	"math/rand"
	"net"
	"net/http"
	"sort"
	"strings"
	"time"

	"github.com/lesismal/nbio/mempool"
	"github.com/lesismal/nbio/nbhttp"
	"verifharness/hx"
)

type wconn struct{ writes [][]byte }

func (c *wconn) Read(b []byte) (int, error) { return 0, io.EOF }
func (c *wconn) Write(b []byte) (int, error) {
	c.writes = append(c.writes, append([]byte{}, b...))
	return len(b), nil
}
func (c *wconn) Close() error                       { return nil }
func (c *wconn) LocalAddr() net.Addr                { return &net.TCPAddr{} }
func (c *wconn) RemoteAddr() net.Addr               { return &net.TCPAddr{} }
func (c *wconn) SetDeadline(t time.Time) error      { return nil }
func (c *wconn) SetReadDeadline(t time.Time) error  { return nil }
func (c *wconn) SetWriteDeadline(t time.Time) error { return nil }

type op struct {
	Kind string `json:"op"`
	N    int    `json:"n,omitempty"`
	K    string `json:"k,omitempty"`
	V    string `json:"v,omitempty"`
	Via  string `json:"via,omitempty"` // "" = Write; else the pieces of one io.Copy/io.CopyN through Response.ReadFrom
	Grp  int    `json:"grp,omitempty"`
	data []byte
}

// canonicalise the stream: mask Date, sort the header-map lines after Date (Go map order)
func canon(stream []byte) []byte {
	i := bytes.Index(stream, []byte("\r\n\r\n"))
	if i < 0 {
		return stream
	}
	lines := strings.Split(string(stream[:i]), "\r\n")
	for j, l := range lines {
		if strings.HasPrefix(l, "Date: ") {
			lines[j] = "Date: " + strings.Repeat("D", len(l)-6)
			sort.Strings(lines[j+1:])
			break
		}
	}
	return append([]byte(strings.Join(lines, "\r\n")), stream[i:]...)
}

func pat(n int, seed byte) []byte {
	b := make([]byte, n)
	x := uint32(seed) + 1
	for i := range b {
		x = x*1664525 + 1013904223
		b[i] = 'a' + byte(x>>24)%26
	}
	return b
}

type prog struct {
	Minor    int    `json:"http_minor"`
	CloseReq bool   `json:"connection_close"`
	Alloc    string `json:"allocator,omitempty"`
	Ops      []op   `json:"ops"`
	sizes    []int
}

func (p *prog) desc() []string {
	var d []string
	for _, o := range p.Ops {
		switch o.Kind {
		case "w":
			if o.Via != "" {
				d = append(d, fmt.Sprintf("%s#%d:%d", o.Via, o.Grp, len(o.data)))
			} else {
				d = append(d, fmt.Sprintf("w%d", len(o.data)))
			}
		case "f":
			d = append(d, "flush")
		case "cl", "s":
			d = append(d, fmt.Sprintf("%s%d", o.Kind, o.N))
		default:
			d = append(d, o.Kind+":"+o.K+"="+o.V)
		}
	}
	return d
}

func gen(r *rand.Rand, it int) *prog {
	p := &prog{Minor: r.Intn(2), CloseReq: r.Intn(3) == 0}
	nw := r.Intn(5)
	code := 0
	if r.Intn(2) == 0 {
		code = []int{200, 201, 404, 500, 599, 204, 304}[r.Intn(7)]
	}
	if code == 204 || code == 304 {
		nw = 0
	}
	sizes := make([]int, nw)
	for i := range sizes {
		switch r.Intn(8) {
		case 0:
			sizes[i] = r.Intn(10)
		case 1:
			sizes[i] = 65536 - 200 + r.Intn(400)
		case 2:
			sizes[i] = 60000 + r.Intn(6000)
		case 3:
			sizes[i] = 70000 + r.Intn(1000)
		case 4:
			sizes[i] = 0
		case 5:
			sizes[i] = 65536 - 4 + r.Intn(9) // exactly around the threshold
		default:
			sizes[i] = r.Intn(3000)
		}
	}
	p.sizes = sizes
	explicitCL := r.Intn(3) == 0
	trailers := !explicitCL && p.Minor == 1 && r.Intn(4) == 0 && code != 204 && code != 304
	if explicitCL {
		// the declared length is the sum of the first j writes; later writes must fail with ErrContentLength
		j := len(sizes)
		if j > 1 && r.Intn(4) == 0 {
			j = 1 + r.Intn(j-1)
		}
		t := 0
		for _, s := range sizes[:j] {
			t += s
		}
		if t == 0 { // a declared length of 0 followed by body bytes is outside wf_prog (nbio only enforces cl > 0)
			for _, s := range sizes {
				t += s
			}
		}
		p.Ops = append(p.Ops, op{Kind: "cl", N: t})
	}
	if r.Intn(2) == 0 {
		p.Ops = append(p.Ops, op{Kind: "x", K: "X-A", V: "b c"})
	}
	if r.Intn(4) == 0 { // a head that outgrows the 1024-byte buffer it is built in
		p.Ops = append(p.Ops, op{Kind: "x", K: "X-Big-1", V: strings.Repeat("v1", 300+r.Intn(100))}, op{Kind: "x", K: "X-Big-2", V: strings.Repeat("w", 500+r.Intn(300))})
	}
	if trailers {
		p.Ops = append(p.Ops, op{Kind: "t", K: "X-Sum"})
		if r.Intn(2) == 0 {
			p.Ops = append(p.Ops, op{Kind: "tv", K: "X-Sum", V: "early"})
		}
	}
	if code != 0 {
		p.Ops = append(p.Ops, op{Kind: "s", N: code})
	}
	for i, n := range sizes {
		p.Ops = append(p.Ops, op{Kind: "w", data: pat(n, byte(i+it))})
		if r.Intn(5) == 0 {
			p.Ops = append(p.Ops, op{Kind: "f"})
		}
	}
	if trailers && r.Intn(2) == 0 {
		p.Ops = append(p.Ops, op{Kind: "tv", K: "X-Sum", V: "late"})
	}
	// Response.ReadFrom: some programs hand their body bytes over with io.Copy / io.CopyN instead of Write. io.Copy reads the
	// source in pieces of at most 32 KiB and ReadFrom passes them to Write, so for the model such a call IS the sequence of
	// Writes of those pieces (ops with the same Grp). Only programs in which no Write is to be refused (io.Copy stops at the
	// first error, a handler loop need not).
	total, declared := 0, -1
	for _, o := range p.Ops {
		if o.Kind == "w" {
			total += len(o.data)
		}
		if o.Kind == "cl" {
			declared = o.N
		}
	}
	if (declared < 0 || declared >= total) && r.Intn(3) == 0 {
		via := []string{"copyn", "copyn-longer-source", "copy-reader"}[r.Intn(3)]
		var ops []op
		grp := 0
		for _, o := range p.Ops {
			if o.Kind != "w" || len(o.data) == 0 || r.Intn(4) == 0 {
				ops = append(ops, o)
				continue
			}
			grp++
			for d := o.data; len(d) > 0; {
				k := len(d)
				if k > 32768 {
					k = 32768
				}
				ops = append(ops, op{Kind: "w", data: d[:k], Via: via, Grp: grp})
				d = d[k:]
			}
		}
		p.Ops = ops
	}
	return p
}

type readerOnly struct{ io.Reader } // hides WriterTo, so that io.Copy goes through the destination's ReadFrom

func statusText(code int) string {
	txt := http.StatusText(code)
	if txt == "" && code >= 100 && code <= 999 {
		txt = fmt.Sprintf("status code %d", code)
	}
	return txt
}

// run the program on the real Response; returns conn.Write payloads and Write results
func runImpl(p *prog) ([][]byte, []string) {
	var wrets []string
	fc := &wconn{}
	engine := nbhttp.NewEngine(nbhttp.Config{Handler: http.HandlerFunc(func(rw http.ResponseWriter, rq *http.Request) {
		for oi, o := range p.Ops {
			switch o.Kind {
			case "cl":
				rw.Header().Set("Content-Length", fmt.Sprint(o.N))
			case "x":
				rw.Header().Set(o.K, o.V)
			case "t":
				rw.Header().Add("Trailer", o.K)
			case "tv":
				rw.Header().Set(o.K, o.V)
			case "s":
				rw.WriteHeader(o.N)
			case "w":
				if o.Via != "" {
					if oi > 0 && p.Ops[oi-1].Kind == "w" && p.Ops[oi-1].Grp == o.Grp && p.Ops[oi-1].Via != "" {
						continue // a later piece of a copy that has been issued with the first piece
					}
					var data []byte
					var pieces []int
					for _, q := range p.Ops[oi:] {
						if q.Kind != "w" || q.Grp != o.Grp || q.Via == "" {
							break
						}
						data = append(data, q.data...)
						pieces = append(pieces, len(q.data))
					}
					var n int64
					var err error
					switch o.Via {
					case "copyn":
						n, err = io.CopyN(rw, bytes.NewReader(data), int64(len(data)))
					case "copyn-longer-source": // the source goes on behind the requested length (a Range of a larger content)
						n, err = io.CopyN(rw, bytes.NewReader(append(append([]byte{}, data...), "TRAILING-BYTES-OF-THE-SOURCE-THAT-WERE-NOT-ASKED-FOR"...)), int64(len(data)))
					default:
						n, err = io.Copy(rw, readerOnly{bytes.NewReader(data)})
					}
					for _, k := range pieces {
						if err == nil && n == int64(len(data)) {
							wrets = append(wrets, fmt.Sprint(k))
						} else {
							wrets = append(wrets, fmt.Sprintf("COPY(%d of %d, %v)", n, len(data), err))
						}
					}
					continue
				}
				n, err := rw.Write(o.data)
				if err == http.ErrContentLength {
					wrets = append(wrets, "ECL")
				} else if err != nil {
					wrets = append(wrets, "ERR")
				} else {
					wrets = append(wrets, fmt.Sprint(n))
				}
			case "f":
				rw.(http.Flusher).Flush()
			}
		}
	})})
	ps := nbhttp.NewParser(fc, engine, nbhttp.NewServerProcessor(), false, nil)
	cl := ""
	if p.CloseReq {
		cl = "Connection: close\r\n"
	}
	if err := ps.Parse([]byte(fmt.Sprintf("GET / HTTP/1.%d\r\nHost: x\r\n%s\r\n", p.Minor, cl))); err != nil {
		hx.Fatal("request parse: %v", err)
	}
	return fc.writes, wrets
}

func modelLine(p *prog) string {
	var toks []string
	for _, o := range p.Ops {
		switch o.Kind {
		case "cl":
			toks = append(toks, fmt.Sprintf("cl:%d", o.N))
		case "x":
			toks = append(toks, "x:"+hx.Hex([]byte(o.K))+":"+hx.Hex([]byte(o.V)))
		case "t":
			toks = append(toks, "t:"+hx.Hex([]byte(o.K)))
		case "tv":
			toks = append(toks, "tv:"+hx.Hex([]byte(o.K))+":"+hx.Hex([]byte(o.V)))
		case "s":
			toks = append(toks, fmt.Sprintf("s:%d:%s", o.N, hx.Hex([]byte(statusText(o.N)))))
		case "w":
			toks = append(toks, "w:"+hx.Hex(o.data))
		case "f":
			toks = append(toks, "f")
		}
	}
	toks = append(toks, "e")
	closeBit := 0
	if p.CloseReq || p.Minor == 0 {
		closeBit = 1
	}
	return fmt.Sprintf("%d %d %s %s", p.Minor, closeBit, hx.Hex([]byte(fmt.Sprintf("HTTP/1.%d", p.Minor))), strings.Join(toks, " "))
}

// what the handler program means, independently of nbio
type expect struct {
	code    int
	body    []byte
	trailer string
	hasTr   bool
	custom  bool
	wrets   []string
}

func meaning(p *prog) expect {
	e := expect{code: 200}
	codeSet := false
	cl := -1
	written := 0
	for _, o := range p.Ops {
		switch o.Kind {
		case "cl":
			cl = o.N
		case "x":
			e.custom = true
		case "t":
			e.hasTr = true
		case "tv":
			e.trailer = o.V
		case "s":
			if !codeSet && statusText(o.N) != "" {
				e.code = o.N
				codeSet = true
			}
		case "w":
			codeSet = codeSet || len(o.data) > 0
			if len(o.data) == 0 {
				e.wrets = append(e.wrets, "0")
			} else if cl > 0 && written+len(o.data) > cl {
				e.wrets = append(e.wrets, "ECL")
			} else {
				written += len(o.data)
				e.body = append(e.body, o.data...)
				e.wrets = append(e.wrets, fmt.Sprint(len(o.data)))
			}
		case "f":
			codeSet = true
		}
	}
	return e
}

// classify: the one recorded finding (D9) is HTTP/1.0 without explicit length, Flush before the last non-empty Write
func isHTTP10FlushCase(p *prog) bool {
	if p.Minor != 0 {
		return false
	}
	for _, o := range p.Ops {
		if o.Kind == "cl" {
			return false
		}
	}
	seenFlush := false
	for _, o := range p.Ops {
		if o.Kind == "w" && len(o.data) > 0 && seenFlush {
			return true
		}
		if o.Kind == "f" {
			seenFlush = true
		}
	}
	return false
}

func oracle(p *prog, writes [][]byte, wrets []string) (string, string) {
	e := meaning(p)
	if strings.Join(wrets, ",") != strings.Join(e.wrets, ",") {
		return "write-result", fmt.Sprintf("Write results %v, the handler program requires %v", wrets, e.wrets)
	}
	var wire []byte
	for _, w := range writes {
		wire = append(wire, w...)
	}
	br := bufio.NewReader(bytes.NewReader(wire))
	resp, err := http.ReadResponse(br, &http.Request{Method: "GET"})
	if err != nil {
		return "undecodable-head", fmt.Sprintf("net/http cannot decode the response head: %v (wire starts %q)", err, trunc(wire, 80))
	}
	body, err := io.ReadAll(resp.Body)
	if err != nil {
		if isHTTP10FlushCase(p) {
			return "http10-flush-before-last-write", fmt.Sprintf("HTTP/1.0 without Content-Length, Flush before the last Write: %v", err)
		}
		return "undecodable-body", fmt.Sprintf("net/http cannot decode the response body: %v", err)
	}
	if resp.StatusCode != e.code {
		return "status", fmt.Sprintf("status %d on the wire, handler set %d", resp.StatusCode, e.code)
	}
	if !bytes.Equal(body, e.body) {
		if isHTTP10FlushCase(p) {
			return "http10-flush-before-last-write", fmt.Sprintf("HTTP/1.0 without Content-Length, Flush before the last Write: client decodes %d body bytes, handler wrote %d", len(body), len(e.body))
		}
		return "body", fmt.Sprintf("client decodes %d body bytes, handler wrote %d (first difference at %d)", len(body), len(e.body), firstDiff(body, e.body))
	}
	for _, o := range p.Ops {
		if o.Kind == "x" && resp.Header.Get(o.K) != o.V {
			got := resp.Header.Get(o.K)
			if len(got) > 80 {
				got = got[:80] + "..."
			}
			return "header", fmt.Sprintf("header %s: client decodes %q (%d bytes), handler set %d bytes", o.K, got, len(resp.Header.Get(o.K)), len(o.V))
		}
	}
	if e.hasTr {
		if v, ok := resp.Trailer["X-Sum"]; !ok || len(v) != 1 || v[0] != e.trailer {
			return "trailer", fmt.Sprintf("trailer X-Sum = %q, handler set %q", v, e.trailer)
		}
	}
	rest, _ := io.ReadAll(br)
	if len(rest) != 0 {
		if isHTTP10FlushCase(p) {
			return "http10-flush-before-last-write", fmt.Sprintf("HTTP/1.0 without Content-Length, Flush before the last Write: %d bytes follow the response", len(rest))
		}
		return "trailing-bytes", fmt.Sprintf("%d bytes follow the response: %q", len(rest), trunc(rest, 60))
	}
	// framing consistent with version / headers
	chunked := len(resp.TransferEncoding) > 0 && resp.TransferEncoding[0] == "chunked"
	if p.Minor == 0 && chunked && !e.hasTr {
		return "framing", "chunked framing chosen for an HTTP/1.0 request"
	}
	if !chunked && resp.ContentLength >= 0 && int(resp.ContentLength) != len(e.body) && e.code != 204 && e.code != 304 {
		return "content-length", fmt.Sprintf("Content-Length %d, body %d", resp.ContentLength, len(e.body))
	}
	return "", ""
}

func trunc(b []byte, n int) []byte {
	if len(b) > n {
		return b[:n]
	}
	return b
}

func firstDiff(a, b []byte) int {
	i := 0
	for i < len(a) && i < len(b) && a[i] == b[i] {
		i++
	}
	return i
}

func main() {
	seed := flag.Int64("seed", 1, "")
	n := flag.Int("n", 400, "programs")
	model := flag.String("model", "", "")
	out := flag.String("out", "-", "")
	flag.Parse()
	rep := hx.NewReport("httpresp", *seed)
	rep.Rule = "handler programs: header settings, WriteHeader (200/201/404/500/599/204/304), up to 4 Writes with sizes 0, small, 60-66 KiB, 64 KiB +- 4, +- 200, > 70 KiB, Flush after any write, explicit/absent Content-Length (also shorter than the total), declared trailer set early/late, HTTP/1.0 and 1.1, keep-alive/close; non-trivial = at least one non-empty Write; distinct = distinct op-size sequences"
	var m *hx.Model
	if *model != "" {
		m = hx.StartModel(*model)
		defer m.Close()
	}
	r := rand.New(rand.NewSource(*seed))
	for it := 0; it < *n && !rep.TooMany(); it++ {
		p := gen(r, it)
		// the allocator behind mempool.Malloc/Append/Free (package nbhttp uses the package-level pool): the in-place growing
		// default, the library's size-class allocator (relocates when a class is exceeded) and one that relocates always
		saved := mempool.DefaultMemPool
		switch it % 4 {
		case 1:
			mempool.DefaultMemPool = mempool.NewAligned()
			p.Alloc = "aligned"
		case 3:
			mempool.DefaultMemPool = &hx.MovingAllocator{}
			p.Alloc = "always-moving"
		default:
			p.Alloc = "default"
		}
		rep.Stat("allocator." + p.Alloc)
		writes, wrets := runImpl(p)
		mempool.DefaultMemPool = saved
		nz := false
		for _, s := range p.sizes {
			nz = nz || s > 0
		}
		rep.Case(fmt.Sprintf("%d/%v/%v", p.Minor, p.CloseReq, p.desc()), nz)
		rep.Ops += len(p.Ops)
		rep.Stat(fmt.Sprintf("http1.%d", p.Minor))
		replay := map[string]interface{}{"harness": "httpresp", "http_minor": p.Minor, "connection_close": p.CloseReq, "ops": p.desc(), "seed": *seed, "index": it}
		if sig, what := oracle(p, writes, wrets); sig != "" {
			rep.Add(hx.Finding{Kind: "oracle", Property: "C09", Signature: sig, What: what, Replay: replay})
		}
		if isHTTP10FlushCase(p) {
			rep.Stat("class.http10-flush")
		}
		if m != nil {
			line := m.Ask("%s", modelLine(p))
			parts := strings.SplitN(line, " OUT=", 2)
			if len(parts) != 2 {
				hx.Fatal("model answer %q", line)
			}
			mw := strings.TrimPrefix(parts[0], "W=")
			var mlens, ilens []int
			var mstream, istream []byte
			if parts[1] != "" {
				for _, h := range strings.Split(parts[1], ",") {
					if h == "-" {
						mlens = append(mlens, 0)
					} else {
						b, _ := hex.DecodeString(h)
						mlens = append(mlens, len(b))
						mstream = append(mstream, b...)
					}
				}
			}
			for _, b := range writes {
				ilens = append(ilens, len(b))
				istream = append(istream, b...)
			}
			ci, cm := canon(istream), canon(mstream)
			if strings.Join(wrets, ",") != mw || fmt.Sprint(ilens) != fmt.Sprint(mlens) || !bytes.Equal(ci, cm) {
				d := firstDiff(ci, cm)
				lo := d - 40
				if lo < 0 {
					lo = 0
				}
				hi := func(b []byte) int {
					if d+40 < len(b) {
						return d + 40
					}
					return len(b)
				}
				rep.Add(hx.Finding{Kind: "mismatch", Property: "C09", Signature: "response-model",
					What: fmt.Sprintf("impl W=%s lens=%v; model W=%s lens=%v; first stream difference at %d: impl=%q model=%q",
						strings.Join(wrets, ","), ilens, mw, mlens, d, ci[lo:hi(ci)], cm[lo:hi(cm)]), Replay: replay})
			}
		}
		if it < 3 {
			rep.Sample(map[string]interface{}{"http_minor": p.Minor, "connection_close": p.CloseReq, "ops": p.desc(), "conn_writes": len(writes), "write_results": wrets})
		}
	}
	rep.Write(*out)
}
