// Harness for C05 (per-connection job serialization) and the Timer.Async part of C19.
//
// The REAL nbio.Conn.Execute / MustExecute / ExecuteLen / Close and the REAL timer.Timer.Async run under the cooperative
// scheduler of the overlay (verifsched): submitters, a closer, observers, Async producers, the drainers and (pool
// executor) pool workers are managed threads; the harness picks who runs next at every mutex acquisition / Yield from a
// seeded PRNG or from an enumerated schedule. One case = one generated workload + one schedule.
//
//	correspondence: every critical section of c.mux / t.asyncMux (attributed to the operation in progress on the acquiring
//	        thread) and every job start / end becomes one action of the Coq LTS (Serializer.v: instance 0 = ConnV, instance
//	        1 = AsyncV), in the order in which it happened. Compared: Execute's return value, whether the submission started
//	        a drainer, the job the drainer starts, whether the drainer returns, ExecuteLen, len and cap of the list after
//	        every critical section, the start order and quiescence at the end.
//	oracle (implementation alone): no two jobs of a connection overlap; jobs start in the order in which their
//	        submissions took the mutex, each accepted one exactly once; Execute returns false exactly when its critical
//	        section comes after Close's and a refused job never runs; MustExecute jobs always run; jobs after a panicking
//	        job still run; nothing is stuck, no second drainer, the lists are empty at the end. The same for Async.
package main

import (
	"encoding/json"
	"flag"
	"fmt"
	"hash/fnv"
	"math/rand"
	"os"
	"strings"
	"syscall"

	"github.com/lesismal/nbio"
	"github.com/lesismal/nbio/logging"
	"github.com/lesismal/nbio/timer"
	"github.com/lesismal/nbio/verifsched"
	"verifharness/hx"
)

// ---------- workload ----------
type jobSpec struct {
	ID     int      `json:"id"`
	Must   bool     `json:"must,omitempty"`
	Panics bool     `json:"panics,omitempty"`
	Yields int      `json:"yields,omitempty"`
	Nested *jobSpec `json:"nested,omitempty"` // submitted from inside the job
	Async  int      `json:"async,omitempty"`  // id of a function passed to Async from inside the job (0 = none)
	Pre    int      `json:"pre,omitempty"`    // Yields of the submitter before submitting
}

type caseSpec struct {
	Executor    string      `json:"executor"` // inline | goroutine | pool
	PoolWorkers int         `json:"pool_workers,omitempty"`
	Subs        [][]jobSpec `json:"submitters"`
	Close       int         `json:"close_after_yields"` // -1: the closer waits for the submitters
	CloseTwice  bool        `json:"close_twice,omitempty"`
	Observers   int         `json:"observers,omitempty"`
	Producers   [][]jobSpec `json:"async_producers,omitempty"`
	Backlog     int         `json:"async_backlog,omitempty"` // > 0: one producer queues this many functions behind a blocked one
	During      bool        `json:"async_during,omitempty"`  // the late traffic arrives WHILE the last function of the backlog is still running (the drainer has just caught up)
}

const closeJobID = 9000 // the job the close handler submits with MustExecute
const closeFnID = 9500  // the engine's close notification (a function passed to Async by the library)

func genJob(r *rand.Rand, id *int, nested bool, allowAsync bool) jobSpec {
	*id++
	j := jobSpec{ID: *id, Yields: r.Intn(3), Pre: r.Intn(3)}
	j.Must = r.Intn(8) == 0
	j.Panics = r.Intn(7) == 0
	if nested && r.Intn(10) == 0 {
		n := genJob(r, id, false, false)
		j.Nested = &n
	}
	if allowAsync && r.Intn(12) == 0 {
		*id++
		j.Async = *id
	}
	return j
}

func gen(r *rand.Rand, focus string) caseSpec {
	var cs caseSpec
	cs.Executor = []string{"inline", "goroutine", "pool"}[r.Intn(3)]
	cs.PoolWorkers = 1 + r.Intn(2)
	id := 0
	nsub := 1 + r.Intn(6)
	maxJobs := 8
	if focus == "async" {
		nsub = 1 + r.Intn(2)
		maxJobs = 3
	}
	for i := 0; i < nsub; i++ {
		var js []jobSpec
		for k, n := 0, 1+r.Intn(maxJobs); k < n; k++ {
			js = append(js, genJob(r, &id, true, true))
		}
		cs.Subs = append(cs.Subs, js)
	}
	switch r.Intn(4) {
	case 0:
		cs.Close = -1
	default:
		cs.Close = r.Intn(4 + 3*nsub)
	}
	cs.CloseTwice = r.Intn(6) == 0
	cs.Observers = r.Intn(2)
	np := r.Intn(3)
	if focus == "async" {
		np = 1 + r.Intn(4)
	}
	for i := 0; i < np; i++ {
		var js []jobSpec
		for k, n := 0, 1+r.Intn(6); k < n; k++ {
			id++
			js = append(js, jobSpec{ID: id, Yields: r.Intn(3), Pre: r.Intn(3), Panics: r.Intn(7) == 0})
		}
		cs.Producers = append(cs.Producers, js)
	}
	return cs
}

// ---------- recording ----------
type act struct {
	inst   int
	kind   byte // s c l b t e p a ; x = a critical section the harness cannot attribute
	j      int
	must   bool
	acc    int // observed: Execute's result (1/0), -1 unknown
	head   int // observed: started a drainer
	exit   int // observed: the drainer returned after this critical section
	lenObs int // observed at the release of the mutex (-1: none)
	capObs int
	lenRet int // ExecuteLen's result
	dr     *drainerRec
	thread string
	what   string
}

type drainerRec struct {
	inst     int
	last     *act
	lazyEnd  bool // the close notification runs: its end is only seen at the drainer's next critical section
	returned bool
}

type ctxEntry struct {
	kind string // submit close len drain asubmit
	inst int
	j    int
	must bool
	act  *act
	aact *act // close: the Async submission of the close notification
	dr   *drainerRec
}

type recorder struct {
	acts      []*act
	ctx       map[int][]*ctxEntry
	pending   map[int]map[int]*act // thread -> inst -> critical section in progress
	asyncDr   map[int]*drainerRec  // async drainer by thread
	running   [2]int
	starts    [2][]int
	startCnt  [2]map[int]int
	endCnt    [2]map[int]int
	panicked  [2]map[int]bool
	live      int // conn drainers spawned and not yet returned
	oracle    []finding
	connMu    *verifsched.Mutex
	asyncMu   *verifsched.Mutex
	c         *nbio.Conn
	t         *timer.Timer
	results   map[int]int // Execute results by job id
	submitted [2]map[int]bool
}

type finding struct{ prop, sig, what string }

func (rc *recorder) fail(prop, sig, what string) {
	for _, f := range rc.oracle {
		if f.sig == sig {
			return
		}
	}
	rc.oracle = append(rc.oracle, finding{prop, sig, what})
}

func propOf(inst int) string {
	if inst == 0 {
		return "C05"
	}
	return "C19"
}

func sigOf(inst int, s string) string {
	if inst == 0 {
		return s
	}
	return "async-" + s
}

func tid() int {
	if t := verifsched.Self(); t != nil {
		return t.ID
	}
	return -1
}

func (rc *recorder) push(e *ctxEntry) { id := tid(); rc.ctx[id] = append(rc.ctx[id], e) }
func (rc *recorder) pop()             { id := tid(); rc.ctx[id] = rc.ctx[id][:len(rc.ctx[id])-1] }
func (rc *recorder) top(id int) *ctxEntry {
	st := rc.ctx[id]
	if len(st) == 0 {
		return nil
	}
	return st[len(st)-1]
}

func (rc *recorder) emit(a *act) *act {
	a.acc, a.head = -1, 0
	a.lenObs, a.capObs = -1, -1
	if t := verifsched.Self(); t != nil {
		a.thread = t.Name
	}
	rc.acts = append(rc.acts, a)
	return a
}

func (rc *recorder) onAcquire(t *verifsched.Thread, m *verifsched.Mutex) {
	inst := -1
	if m == rc.connMu {
		inst = 0
	} else if m == rc.asyncMu {
		inst = 1
	}
	if inst < 0 {
		return
	}
	top := rc.top(t.ID)
	var a *act
	if inst == 0 {
		switch {
		case top != nil && top.kind == "submit":
			if top.act != nil {
				// a submission with more than one critical section: the last one counts as the submission (for the oracle)
				top.act.kind, top.act.what = 'x', fmt.Sprintf("the submission of job %d took more than one critical section of c.mux", top.j)
			}
			a = rc.emit(&act{inst: 0, kind: 's', j: top.j, must: top.must})
			top.act = a
		case top != nil && top.kind == "close" && top.act == nil:
			a = rc.emit(&act{inst: 0, kind: 'c'})
			top.act = a
		case top != nil && top.kind == "len" && top.act == nil:
			a = rc.emit(&act{inst: 0, kind: 'l'})
			top.act = a
		case top != nil && top.kind == "drain" && top.inst == 0:
			a = rc.emit(&act{inst: 0, kind: 'a', dr: top.dr})
			top.dr.last = a
		default:
			k := "none"
			if top != nil {
				k = top.kind
			}
			a = rc.emit(&act{inst: 0, kind: 'x', what: "critical section of c.mux during operation " + k})
		}
	} else {
		switch {
		case top != nil && top.kind == "asubmit":
			if top.act != nil {
				top.act.kind, top.act.what = 'x', fmt.Sprintf("Async of function %d took more than one critical section of asyncMux", top.j)
			}
			a = rc.emit(&act{inst: 1, kind: 's', j: top.j, must: true})
			top.act = a
			rc.submitted[1][top.j] = true
		case top != nil && top.kind == "close":
			// Close -> engine.onClose -> Timer.Async(close notification)
			id := closeFnID + len(rc.submitted[1])
			if top.aact != nil {
				id = top.aact.j
				top.aact.kind, top.aact.what = 'x', "Async of the close notification took more than one critical section of asyncMux"
			}
			a = rc.emit(&act{inst: 1, kind: 's', j: id, must: true})
			rc.submitted[1][a.j] = true
			top.j = a.j
			top.aact = a
		default:
			dr := rc.asyncDr[t.ID]
			if dr == nil {
				dr = &drainerRec{inst: 1}
				rc.asyncDr[t.ID] = dr
			}
			if dr.lazyEnd {
				dr.lazyEnd = false
				rc.running[1]--
				e := rc.emit(&act{inst: 1, kind: 'e'})
				e.dr = dr
			}
			a = rc.emit(&act{inst: 1, kind: 'a', dr: dr})
			dr.last = a
		}
	}
	if rc.pending[t.ID] == nil {
		rc.pending[t.ID] = map[int]*act{}
	}
	rc.pending[t.ID][inst] = a
}

func (rc *recorder) onRelease(t *verifsched.Thread, m *verifsched.Mutex) {
	inst := -1
	if m == rc.connMu {
		inst = 0
	} else if m == rc.asyncMu {
		inst = 1
	}
	if inst < 0 || rc.pending[t.ID] == nil || rc.pending[t.ID][inst] == nil {
		return
	}
	a := rc.pending[t.ID][inst]
	rc.pending[t.ID][inst] = nil
	if inst == 0 {
		a.lenObs, a.capObs = nbio.VerifSchedJobList(rc.c)
	} else {
		a.lenObs, a.capObs = timer.VerifAsyncList(rc.t)
	}
}

// jobStart / jobEnd: called by the job wrappers, on the drainer's thread
func (rc *recorder) jobStart(inst, id int) {
	rc.emit(&act{inst: inst, kind: 't', j: id})
	rc.running[inst]++
	if rc.running[inst] != 1 {
		rc.fail(propOf(inst), sigOf(inst, "overlap"), fmt.Sprintf("job %d starts while %d other job(s) of the same queue run", id, rc.running[inst]-1))
	}
	rc.starts[inst] = append(rc.starts[inst], id)
	rc.startCnt[inst][id]++
}

func (rc *recorder) jobEnd(inst, id int, panicked bool) {
	k := byte('e')
	if panicked {
		k = 'p'
		rc.panicked[inst][id] = true
	}
	rc.emit(&act{inst: inst, kind: k, j: id})
	rc.running[inst]--
	rc.endCnt[inst][id]++
}

func (rc *recorder) during(inst, id int) {
	if rc.running[inst] != 1 {
		rc.fail(propOf(inst), sigOf(inst, "overlap"), fmt.Sprintf("%d jobs of the same queue run at once (seen by job %d)", rc.running[inst], id))
	}
}

// ---------- one case ----------
type result struct {
	ok      bool
	stuck   []string
	choices []verifsched.Choice
	rc      *recorder
	steps   int
}

func runCase(cs caseSpec, pick func(step int, enabled []int) int) *result {
	g := nbio.NewEngine(nbio.Config{})
	rc := &recorder{ctx: map[int][]*ctxEntry{}, pending: map[int]map[int]*act{}, asyncDr: map[int]*drainerRec{}, results: map[int]int{}}
	for i := 0; i < 2; i++ {
		rc.startCnt[i], rc.endCnt[i], rc.panicked[i], rc.submitted[i] = map[int]int{}, map[int]int{}, map[int]bool{}, map[int]bool{}
	}
	step := 0
	s := verifsched.New(func(en []int) int { k := pick(step, en); step++; return k })
	s.MaxSteps = 200000
	s.Exclusive = true // no engine is started: only this run's threads touch the connection and the timer
	s.OnAcquire, s.OnRelease = rc.onAcquire, rc.onRelease
	s.OnSpawn = func(parent, child *verifsched.Thread) {
		// the `go` statement of Timer.Async: the submission in progress on the parent started a drainer
		if top := rc.top(parent.ID); top != nil {
			if top.kind == "asubmit" && top.act != nil {
				top.act.head = 1
			} else if top.kind == "close" && top.aact != nil {
				top.aact.head = 1
			}
		}
	}

	// the executor (the engine's Execute hook)
	var poolQ []func()
	var workers int
	def := g.Execute // the engine's default: inline, with its own recover
	runDrainer := func(f func(), inline bool) {
		dr := &drainerRec{inst: 0}
		rc.push(&ctxEntry{kind: "drain", inst: 0, dr: dr})
		if inline {
			def(f)
		} else {
			f()
		}
		rc.pop()
		dr.returned = true
		rc.live--
		// the drainer does not yield between its last critical section and its return
		if dr.last != nil && len(rc.acts) > 0 && dr.last == rc.acts[len(rc.acts)-1] {
			dr.last.exit = 1
		} else {
			rc.emit(&act{inst: 0, kind: 'x', what: "the drainer returned without a final critical section that found the list exhausted"})
		}
	}
	g.Execute = func(f func()) {
		if top := rc.top(tid()); top != nil && top.kind == "submit" && top.act != nil {
			top.act.head = 1
		} else {
			rc.emit(&act{inst: 0, kind: 'x', what: "a drainer was started outside a submission"})
		}
		rc.live++
		if rc.live > 1 {
			rc.fail("C05", "two-drainers", "a second drainer was started while one is alive")
		}
		switch cs.Executor {
		case "inline":
			runDrainer(f, true)
		case "goroutine":
			verifsched.Go(func() { runDrainer(f, false) })
		default:
			poolQ = append(poolQ, f)
		}
	}
	var c *nbio.Conn
	var mkJob func(js jobSpec) func()
	submit := func(js jobSpec) {
		e := &ctxEntry{kind: "submit", inst: 0, j: js.ID, must: js.Must}
		rc.push(e)
		rc.submitted[0][js.ID] = true
		ok := true
		if js.Must {
			c.MustExecute(mkJob(js))
		} else {
			ok = c.Execute(mkJob(js))
		}
		rc.pop()
		r := 0
		if ok {
			r = 1
		}
		rc.results[js.ID] = r
		if e.act != nil {
			e.act.acc = r
		} else {
			rc.emit(&act{inst: 0, kind: 'x', what: fmt.Sprintf("submission of job %d took no critical section", js.ID)})
		}
	}
	async := func(js jobSpec) {
		e := &ctxEntry{kind: "asubmit", inst: 1, j: js.ID}
		rc.push(e)
		g.Async(func() {
			rc.jobStart(1, js.ID)
			defer func() {
				if r := recover(); r != nil {
					rc.jobEnd(1, js.ID, true)
					panic(r)
				}
			}()
			for y := 0; y < js.Yields; y++ {
				verifsched.Yield()
				rc.during(1, js.ID)
			}
			if js.Panics {
				panic("async function panics")
			}
			rc.jobEnd(1, js.ID, false)
		})
		rc.pop()
		if e.act != nil {
			e.act.acc = 1
		} else {
			rc.emit(&act{inst: 1, kind: 'x', what: fmt.Sprintf("Async of function %d took no critical section", js.ID)})
		}
	}
	mkJob = func(js jobSpec) func() {
		return func() {
			rc.jobStart(0, js.ID)
			defer func() {
				if r := recover(); r != nil {
					rc.jobEnd(0, js.ID, true)
					panic(r) // nbio's per-job recover takes it
				}
			}()
			for y := 0; y < js.Yields; y++ {
				verifsched.Yield()
				rc.during(0, js.ID)
			}
			if js.Nested != nil {
				submit(*js.Nested)
			}
			if js.Async != 0 {
				async(jobSpec{ID: js.Async, Yields: 1})
			}
			if js.Panics {
				panic("job panics")
			}
			rc.jobEnd(0, js.ID, false)
		}
	}
	// the close handler: what nbhttp does - queue the close handling behind the connection's jobs
	closeJobs := 0
	g.OnClose(func(cc *nbio.Conn, err error) {
		// runs inside the close notification, on the Async drainer's thread
		dr := rc.asyncDr[tid()]
		if dr == nil {
			dr = &drainerRec{inst: 1}
			rc.asyncDr[tid()] = dr
		}
		fid := 0
		for id := range rc.submitted[1] {
			if id >= closeFnID && id < 20000 && rc.startCnt[1][id] == 0 && (fid == 0 || id < fid) {
				fid = id
			}
		}
		rc.jobStart(1, fid)
		rc.endCnt[1][fid]++ // its end is recorded lazily (see onAcquire)
		dr.lazyEnd = true
		closeJobs++
		submit(jobSpec{ID: closeJobID + closeJobs - 1, Must: true, Yields: 1})
	})

	var peer int
	var err error
	c, peer, err = nbio.VerifSchedNewConn(g)
	if err != nil {
		hx.Fatal("socketpair: %v", err)
	}
	defer syscall.Close(peer)
	rc.c, rc.t = c, g.Timer
	rc.connMu, rc.asyncMu = nbio.VerifSchedConnMutex(c), timer.VerifAsyncMutex(g.Timer)

	subsLeft := len(cs.Subs)
	for i, js := range cs.Subs {
		js := js
		s.Go(fmt.Sprintf("sub%d", i), func() {
			for _, j := range js {
				for y := 0; y < j.Pre; y++ {
					verifsched.Yield()
				}
				submit(j)
			}
			subsLeft--
		})
	}
	closer := func() {
		rc.push(&ctxEntry{kind: "close"})
		c.Close()
		rc.pop()
	}
	s.Go("closer", func() {
		if cs.Close < 0 {
			verifsched.WaitUntil(func() bool { return subsLeft == 0 })
		} else {
			for y := 0; y < cs.Close; y++ {
				verifsched.Yield()
			}
		}
		closer()
		if cs.CloseTwice {
			verifsched.Yield()
			closer()
		}
	})
	for i := 0; i < cs.Observers; i++ {
		s.Go(fmt.Sprintf("obs%d", i), func() {
			for k := 0; k < 3; k++ {
				verifsched.Yield()
				e := &ctxEntry{kind: "len"}
				rc.push(e)
				n := c.ExecuteLen()
				rc.pop()
				if e.act != nil {
					e.act.lenRet = n
				}
			}
		})
	}
	for i, js := range cs.Producers {
		js := js
		s.Go(fmt.Sprintf("prod%d", i), func() {
			for _, j := range js {
				for y := 0; y < j.Pre; y++ {
					verifsched.Yield()
				}
				async(j)
			}
		})
	}
	if cs.Backlog > 0 {
		gate := false
		s.Go("backlog", func() {
			e := &ctxEntry{kind: "asubmit", inst: 1, j: 20000}
			rc.push(e)
			g.Async(func() {
				rc.jobStart(1, 20000)
				verifsched.WaitUntil(func() bool { return gate })
				rc.jobEnd(1, 20000, false)
			})
			rc.pop()
			if e.act != nil {
				e.act.acc = 1
			}
			for k := 1; k <= cs.Backlog; k++ {
				js := jobSpec{ID: 20000 + k}
				if cs.During && k == cs.Backlog {
					js.Yields = 6
				}
				async(js)
			}
			gate = true
		})
		// traffic on the same timer after the backlog has been drained (after the capacity-shrink branch)
		s.Go("late", func() {
			if cs.During {
				verifsched.WaitUntil(func() bool { return rc.startCnt[1][20000+cs.Backlog] > 0 })
			} else {
				verifsched.WaitUntil(func() bool { return rc.endCnt[1][20000+cs.Backlog] > 0 })
			}
			for k := 0; k < 50 && !cs.During; k++ {
				if n, _ := timer.VerifAsyncList(g.Timer); n == 0 {
					break
				}
				verifsched.Yield()
			}
			for k := 1; k <= 3; k++ {
				async(jobSpec{ID: 40000 + k, Yields: 1})
			}
		})
	}
	if cs.Executor == "pool" {
		workers = cs.PoolWorkers
		liveWorkers := workers
		for i := 0; i < workers; i++ {
			s.Go(fmt.Sprintf("worker%d", i), func() {
				for {
					verifsched.WaitUntil(func() bool { return len(poolQ) > 0 || s.Live() <= liveWorkers })
					if len(poolQ) == 0 {
						liveWorkers--
						return
					}
					f := poolQ[0]
					poolQ = poolQ[1:]
					rc.emit(&act{inst: 0, kind: 'b'})
					runDrainer(f, false)
				}
			})
		}
	}
	res := &result{rc: rc}
	res.ok = s.Run()
	res.choices = s.Choices
	res.steps = s.Steps
	if !res.ok {
		res.stuck = s.Stuck()
	}
	for _, dr := range rc.asyncDr {
		if dr.lazyEnd {
			dr.lazyEnd = false
			rc.running[1]--
			rc.emit(&act{inst: 1, kind: 'e', dr: dr})
		}
	}
	// the async drainers: each one's last critical section is the one after which it returned
	for _, dr := range rc.asyncDr {
		if dr.last != nil {
			dr.last.exit = 1
		}
	}
	return res
}

// ---------- oracle on the implementation alone ----------
func oracle(cs caseSpec, res *result) {
	rc := res.rc
	if !res.ok {
		rc.fail("C05", "stuck", "the run does not terminate: "+strings.Join(res.stuck, "; "))
	}
	for inst := 0; inst < 2; inst++ {
		prop := propOf(inst)
		closedSeen := false
		var accepted []int
		rejected := map[int]bool{}
		for _, a := range rc.acts {
			if a.inst != inst {
				continue
			}
			switch a.kind {
			case 'c':
				closedSeen = true
			case 's':
				if inst == 0 && !a.must {
					if a.acc == 1 && closedSeen {
						rc.fail(prop, "execute-true-after-close", fmt.Sprintf("Execute(job %d) took the mutex after Close did and returned true", a.j))
					}
					if a.acc == 0 && !closedSeen {
						rc.fail(prop, "execute-false-before-close", fmt.Sprintf("Execute(job %d) took the mutex before any Close and returned false", a.j))
					}
				}
				if a.must || a.acc == 1 {
					accepted = append(accepted, a.j)
				} else {
					rejected[a.j] = true
				}
			}
		}
		starts := rc.starts[inst]
		for id := range rejected {
			if rc.startCnt[inst][id] > 0 {
				rc.fail(prop, sigOf(inst, "rejected-job-ran"), fmt.Sprintf("job %d was refused by Execute (false) but ran", id))
			}
		}
		if !res.ok {
			continue
		}
		panicBefore := false
		for _, id := range accepted {
			n := rc.startCnt[inst][id]
			if n == 0 {
				sig := "job-never-ran"
				if panicBefore {
					sig = "job-lost-after-panic"
				}
				rc.fail(prop, sigOf(inst, sig), fmt.Sprintf("accepted job %d never ran (accepted order %v, started %v)", id, accepted, starts))
			}
			if n > 1 {
				rc.fail(prop, sigOf(inst, "job-ran-twice"), fmt.Sprintf("job %d ran %d times", id, n))
			}
			if rc.endCnt[inst][id] != n {
				rc.fail(prop, sigOf(inst, "job-unfinished"), fmt.Sprintf("job %d started %d times and ended %d times", id, n, rc.endCnt[inst][id]))
			}
			if rc.panicked[inst][id] {
				panicBefore = true
			}
		}
		if len(starts) == len(accepted) {
			for i := range starts {
				if starts[i] != accepted[i] {
					rc.fail(prop, sigOf(inst, "fifo-order"), fmt.Sprintf("jobs started in the order %v, their submissions took the mutex in the order %v", starts, accepted))
					break
				}
			}
		}
		for _, id := range starts {
			if !rc.submitted[inst][id] {
				rc.fail(prop, sigOf(inst, "unknown-job-ran"), fmt.Sprintf("job %d ran but was never submitted", id))
			}
		}
	}
	if res.ok {
		if n := rc.c.ExecuteLen(); n != 0 {
			rc.fail("C05", "list-not-empty-at-quiescence", fmt.Sprintf("ExecuteLen() = %d after everything ended", n))
		}
		if n, _ := timer.VerifAsyncListLocked(rc.t); n != 0 {
			rc.fail("C19", "async-list-not-empty-at-quiescence", fmt.Sprintf("len(asyncList) = %d after everything ended", n))
		}
		if closed, _ := rc.c.IsClosed(); !closed {
			rc.fail("C05", "not-closed", "the connection is not closed after Close")
		}
	}
}

// ---------- correspondence ----------
func modelLines(cs caseSpec, rc *recorder) []string {
	ex := map[string]string{"inline": "i", "goroutine": "g", "pool": "p"}[cs.Executor]
	lines := []string{"init 0 c " + ex + " 0", "init 1 a g 8"}
	for _, a := range rc.acts {
		switch a.kind {
		case 'x':
		case 's':
			m := 0
			if a.must {
				m = 1
			}
			nc := a.capObs
			if nc < 0 {
				nc = 0
			}
			lines = append(lines, fmt.Sprintf("%d s %d %d %d", a.inst, a.j, m, nc))
		default:
			lines = append(lines, fmt.Sprintf("%d %c", a.inst, a.kind))
		}
	}
	lines = append(lines, "0 q", "1 q")
	return lines
}

func compare(m *hx.Model, cs caseSpec, res *result) (string, string) {
	rc := res.rc
	lines := modelLines(cs, rc)
	answers := make([]string, len(lines))
	for lo := 0; lo < len(lines); lo += 400 { // chunks small enough for the pipes in both directions
		hi := lo + 400
		if hi > len(lines) {
			hi = len(lines)
		}
		for _, l := range lines[lo:hi] {
			m.Send("%s", l)
		}
		for i := lo; i < hi; i++ {
			answers[i] = m.ReadLine()
		}
	}
	k := 2
	bad := func(i int, a *act, why string) (string, string) {
		inst := 0
		if a != nil {
			inst = a.inst
		}
		lo := i - 6
		if lo < 0 {
			lo = 0
		}
		return propOf(inst), fmt.Sprintf("%s; model line %d %q answered %q; preceding lines %v", why, i, lines[i], answers[i], lines[lo:i])
	}
	for _, a := range rc.acts {
		if a.kind == 'x' {
			return propOf(a.inst), "the implementation did something the model has no action for: " + a.what + " (thread " + a.thread + ")"
		}
		ans := answers[k]
		parts := strings.SplitN(ans, " | ", 2)
		if len(parts) != 2 {
			return bad(k, a, "malformed answer")
		}
		var mlen, mcap, mlive int
		fmt.Sscanf(parts[1], "%d %d %d", &mlen, &mcap, &mlive)
		f := strings.Fields(parts[0])
		if f[0] == "X" {
			return bad(k, a, fmt.Sprintf("action %c of thread %s is not enabled in the model", a.kind, a.thread))
		}
		switch a.kind {
		case 's':
			var macc, mhead int
			fmt.Sscanf(parts[0], "S %d %d", &macc, &mhead)
			if a.acc >= 0 && macc != a.acc {
				return bad(k, a, fmt.Sprintf("submission of %d returned %d, model %d", a.j, a.acc, macc))
			}
			if a.head >= 0 && mhead != a.head {
				return bad(k, a, fmt.Sprintf("submission of %d started a drainer: %d, model %d", a.j, a.head, mhead))
			}
		case 'l':
			var n int
			fmt.Sscanf(parts[0], "L %d", &n)
			if n != a.lenRet {
				return bad(k, a, fmt.Sprintf("ExecuteLen returned %d, model %d", a.lenRet, n))
			}
		case 't':
			var j int
			fmt.Sscanf(parts[0], "J %d", &j)
			if j != a.j {
				return bad(k, a, fmt.Sprintf("job %d started, model starts %d", a.j, j))
			}
		case 'a':
			var e int
			fmt.Sscanf(parts[0], "A %d", &e)
			if e != a.exit {
				return bad(k, a, fmt.Sprintf("drainer returned after this critical section: %d, model %d", a.exit, e))
			}
		}
		if a.lenObs >= 0 && (a.lenObs != mlen || a.capObs != mcap) {
			return bad(k, a, fmt.Sprintf("list after the critical section: len %d cap %d, model len %d cap %d", a.lenObs, a.capObs, mlen, mcap))
		}
		k++
	}
	if res.ok {
		for inst := 0; inst < 2; inst++ {
			want := "Q 0 0"
			for _, id := range rc.starts[inst] {
				want += fmt.Sprintf(" %d", id)
			}
			if answers[k+inst] != want {
				return propOf(inst), fmt.Sprintf("at the end: implementation quiescent with start order %v, model says %q", rc.starts[inst], answers[k+inst])
			}
		}
	}
	return "", ""
}

// ---------- driver ----------
type runner struct {
	rep   *hx.Report
	m     *hx.Model
	seed  int64
	focus string
}

func (rn *runner) one(cs caseSpec, label string, pick func(step int, en []int) int, replay map[string]interface{}) *result {
	hx.Current("", "the process died (a panic or fatal error inside the library) while this workload ran under the cooperative scheduler; the schedule is the seeded one of this case", map[string]interface{}{"harness": "serializer", "label": label, "case": cs, "replay": replay})
	res := runCase(cs, pick)
	oracle(cs, res)
	rep := rn.rep
	njobs := 0
	for _, s := range cs.Subs {
		njobs += len(s)
	}
	rep.Ops += len(res.rc.acts)
	var ch []int
	for _, c := range res.choices {
		ch = append(ch, c.Index)
	}
	replay["case"] = cs
	replay["schedule"] = ch
	replay["harness"] = "serializer"
	for _, f := range res.rc.oracle {
		rep.Add(hx.Finding{Kind: "oracle", Property: f.prop, Signature: f.sig, What: f.what, Replay: replay})
	}
	if rn.m != nil {
		if prop, why := compare(rn.m, cs, res); why != "" {
			sig := "serializer-model"
			if prop == "C19" {
				sig = "async-model"
			}
			rep.Add(hx.Finding{Kind: "mismatch", Property: prop, Signature: sig, What: why, Replay: replay})
		}
	}
	return res
}

// schedKey: hash of the sequence of threads that ran (identifies the interleaving)
func schedKey(res *result) string {
	h := fnv.New64a()
	var b [2]byte
	for _, c := range res.choices {
		b[0], b[1] = byte(c.Thread), byte(c.Thread>>8)
		h.Write(b[:])
	}
	return fmt.Sprintf("%016x", h.Sum64())
}

// replayFile re-runs the case and schedule stored in a finding (evidence/replay/*.json or a report's finding)
func replayFile(rn *runner, path string) {
	raw, err := os.ReadFile(path)
	if err != nil {
		hx.Fatal("replay: %v", err)
	}
	var f struct {
		Replay struct {
			Case     caseSpec `json:"case"`
			Schedule []int    `json:"schedule"`
		} `json:"replay"`
	}
	if err := json.Unmarshal(raw, &f); err != nil {
		hx.Fatal("replay: %v", err)
	}
	sch := f.Replay.Schedule
	res := rn.one(f.Replay.Case, "replay", func(step int, en []int) int {
		if step < len(sch) {
			return sch[step]
		}
		return 0
	}, map[string]interface{}{"part": "replay", "file": path})
	rn.rep.Case("replay/"+schedKey(res), true)
	fmt.Printf("replay: %d actions, starts %v, async starts %v, terminated %v\n", len(res.rc.acts), res.rc.starts[0], res.rc.starts[1], res.ok)
	for _, x := range rn.rep.Findings {
		fmt.Printf("  %s %s %s: %s\n", x.Kind, x.Property, x.Signature, x.What)
	}
}

func main() {
	seed := flag.Int64("seed", 1, "")
	n := flag.Int("n", 3000, "seeded cases")
	depth := flag.Int("depth", 7, "exhaustive enumeration: number of leading scheduling decisions enumerated")
	maxEnum := flag.Int("maxenum", 4000, "exhaustive enumeration: at most this many schedules per configuration")
	focus := flag.String("focus", "conn", "conn | async: which queue the workloads stress")
	model := flag.String("model", "", "")
	out := flag.String("out", "-", "")
	replay := flag.String("replay", "", "re-run the case and schedule of a stored finding (json) instead of generating cases")
	flag.Parse()
	if *out != "-" && *out != "" {
		hx.CurrentFile = *out + ".current"
	}
	logging.SetLevel(logging.LevelNone)
	logging.Output = devNull{}
	rep := hx.NewReport("serializer", *seed)
	rep.Rule = "workload: 1-6 submitters x 1-8 jobs (Execute / MustExecute, panicking, yielding, submitting from inside a job, calling Async), Close after a random number of steps or after the submitters (sometimes twice), ExecuteLen observers, 0-4 Async producers, executor inline / goroutine per call / pool with delayed start; schedule: seeded random choice among the enabled threads at every mutex acquisition and Yield, plus all schedules of small workloads whose first <depth> decisions are enumerated, plus Async backlogs above 1024 entries; non-trivial = at least two threads act on the same queue; distinct = distinct (workload, thread order) pairs"
	rn := &runner{rep: rep, seed: *seed, focus: *focus}
	if *model != "" {
		rn.m = hx.StartModel(*model)
		defer rn.m.Close()
	}
	if *replay != "" {
		replayFile(rn, *replay)
		rep.Write(*out)
		return
	}
	// part 1: seeded workloads and schedules
	for i := 0; i < *n && !rep.TooMany(); i++ {
		cseed := *seed*1000003 + int64(i)
		r := rand.New(rand.NewSource(cseed))
		cs := gen(r, *focus)
		sr := rand.New(rand.NewSource(cseed ^ 0x5eed))
		res := rn.one(cs, "seeded", func(step int, en []int) int { return sr.Intn(len(en)) }, map[string]interface{}{"part": "seeded", "case_seed": cseed})
		nthreads := len(cs.Subs) + len(cs.Producers) + 1
		rep.Case(fmt.Sprintf("%d/%s", cseed, schedKey(res)), nthreads >= 2)
		rep.Stat("executor." + cs.Executor)
		if cs.Close < 0 {
			rep.Stat("close.late")
		} else {
			rep.Stat("close.racing")
		}
		rep.Stat(fmt.Sprintf("submitters.%d", len(cs.Subs)))
		if len(res.rc.panicked[0]) > 0 {
			rep.Stat("with-panicking-job")
		}
		for _, a := range res.rc.acts {
			if a.inst == 0 && a.kind == 's' && !a.must && a.acc == 0 {
				rep.Stat("with-refused-execute")
				break
			}
		}
		if i < 3 {
			rep.Sample(map[string]interface{}{"part": "seeded", "case": cs, "starts": res.rc.starts[0], "async_starts": res.rc.starts[1], "steps": res.steps})
		}
	}
	// part 2: small workloads, all schedules up to the depth
	small := []caseSpec{
		{Executor: "goroutine", Subs: [][]jobSpec{{{ID: 1}, {ID: 2}}, {{ID: 3}}}, Close: 1},
		{Executor: "inline", Subs: [][]jobSpec{{{ID: 1, Panics: true}}, {{ID: 2}, {ID: 3, Must: true}}}, Close: 2},
		{Executor: "pool", PoolWorkers: 1, Subs: [][]jobSpec{{{ID: 1, Yields: 1}}, {{ID: 2}}}, Close: 0},
		{Executor: "goroutine", Subs: [][]jobSpec{{{ID: 1}}}, Close: -1, Producers: [][]jobSpec{{{ID: 11}, {ID: 12}}, {{ID: 13, Panics: true}}}},
	}
	for ci, cs := range small {
		prefix := []int{}
		count := 0
		for count < *maxEnum && !rep.TooMany() {
			p := prefix
			res := rn.one(cs, "enum", func(step int, en []int) int {
				if step < len(p) {
					return p[step]
				}
				return 0
			}, map[string]interface{}{"part": "enumerated", "config": ci})
			count++
			rep.Case(fmt.Sprintf("enum%d/%s", ci, schedKey(res)), true)
			rep.Stat(fmt.Sprintf("enumerated.config%d", ci))
			// next schedule: increment the last decision (within the depth) that has an untried alternative
			ch := res.choices
			pos := -1
			lim := len(ch)
			if lim > *depth {
				lim = *depth
			}
			for i := lim - 1; i >= 0; i-- {
				if ch[i].Index+1 < ch[i].Enabled {
					pos = i
					break
				}
			}
			if pos < 0 {
				rep.Stat(fmt.Sprintf("enumeration-complete.config%d", ci))
				break
			}
			prefix = prefix[:0]
			for i := 0; i < pos; i++ {
				prefix = append(prefix, ch[i].Index)
			}
			prefix = append(prefix, ch[pos].Index+1)
		}
	}
	// part 3: Async backlog above 1024 entries (the capacity-shrink branch), then more traffic on the same timer
	for i := 0; i < 3 && !rep.TooMany(); i++ {
		cseed := *seed*7919 + int64(i)
		sr := rand.New(rand.NewSource(cseed))
		cs := caseSpec{Executor: "goroutine", Subs: [][]jobSpec{{{ID: 1}}}, Close: -1, Backlog: 1030 + 40*i,
			Producers: [][]jobSpec{{{ID: 11, Pre: 2}, {ID: 12, Pre: 2}}}}
		res := rn.one(cs, "backlog", func(step int, en []int) int { return sr.Intn(len(en)) }, map[string]interface{}{"part": "backlog", "case_seed": cseed})
		rep.Case(fmt.Sprintf("backlog%d/%d", cs.Backlog, cseed), true)
		rep.Stat("async-backlog-over-1024")
		shrunk := false
		for _, a := range res.rc.acts {
			if a.inst == 1 && a.kind == 'a' && a.exit == 1 && a.capObs == 8 {
				shrunk = true
			}
		}
		if shrunk {
			rep.Stat("async-shrink-branch-taken")
		}
	}
	// part 4: one drainer lifetime consumes exactly 1022..1026 / 2046..2050 functions and the next Async arrives while the
	// last of them is still running (the drainer has caught up with the list but is still alive)
	for i, n := range []int{1021, 1022, 1023, 1024, 1025, 2047, 2048} {
		if rep.TooMany() {
			break
		}
		cseed := *seed*7927 + int64(i)
		sr := rand.New(rand.NewSource(cseed))
		cs := caseSpec{Executor: "goroutine", Subs: [][]jobSpec{{{ID: 1}}}, Close: -1, Backlog: n, During: true}
		rn.one(cs, "caughtup", func(step int, en []int) int { return sr.Intn(len(en)) }, map[string]interface{}{"part": "caughtup", "case_seed": cseed})
		rep.Case(fmt.Sprintf("caughtup%d/%d", cs.Backlog, cseed), true)
		rep.Stat("async-next-call-while-last-of-a-long-drain-runs")
	}
	// part 5: a long job list on one connection: 126..300 jobs queue up behind a first job that takes its time, further
	// submissions arrive while the tail is being executed
	for i, n := range []int{126, 127, 128, 129, 130, 200, 257, 300} {
		if rep.TooMany() {
			break
		}
		cseed := *seed*7933 + int64(i)
		sr := rand.New(rand.NewSource(cseed))
		var first, second []jobSpec
		id := 0
		for k := 0; k < n; k++ {
			id++
			js := jobSpec{ID: id}
			if k == 0 {
				js.Yields = n + 20 // the others are submitted while this one runs
			}
			first = append(first, js)
		}
		for k := 0; k < 6; k++ {
			id++
			second = append(second, jobSpec{ID: id, Pre: n/2 + sr.Intn(n)})
		}
		cs := caseSpec{Executor: []string{"goroutine", "pool"}[i%2], PoolWorkers: 2, Subs: [][]jobSpec{first, second}, Close: -1}
		rn.one(cs, "longlist", func(step int, en []int) int { return sr.Intn(len(en)) }, map[string]interface{}{"part": "longlist", "case_seed": cseed})
		rep.Case(fmt.Sprintf("longlist%d/%d", n, cseed), true)
		rep.Stat("conn-job-list-over-128")
	}
	rep.Write(*out)
	_ = os.Stdout
}

type devNull struct{}

func (devNull) Write(b []byte) (int, error) { return len(b), nil }
