package main

import (
	"fmt"
	"math/rand"
)

// ---------- WebSocket scripts ----------

// one frame on the wire
type frame struct {
	Op   string `json:"op"` // text binary cont ping pong close
	Fin  bool   `json:"fin"`
	Seq  int    `json:"seq"`            // the message / control frame it belongs to
	Part int    `json:"part,omitempty"` // index of the fragment inside its message
	Size int    `json:"size"`           // payload size
}

// what a callback does
type behav struct {
	Hold    bool `json:"hold,omitempty"`     // blocks on the connection's gate (released by the client after everything was written)
	SleepUs int  `json:"sleep_us,omitempty"` // sleeps
	Yields  int  `json:"yields,omitempty"`   // runtime.Gosched calls
	Close   bool `json:"close,omitempty"`    // calls c.Close() before returning (ending server-close-in-handler)
	Reply   bool `json:"reply,omitempty"`    // writes an answer (echo / pong)
}

type wsScript struct {
	Cid      int              `json:"cid"`
	Handlers string           `json:"handlers"` // message | dataframe | both
	Frames   []frame          `json:"frames"`
	Cuts     []int            `json:"cuts,omitempty"` // byte offsets at which the client splits its write (no pause in between)
	End      string           `json:"end"`            // close-frame | half-close | server-close-in-handler | server-close-other
	OpenB    behav            `json:"open"`
	Behav    map[string]behav `json:"behaviour"` // by callback key
	CloseAt  string           `json:"close_at,omitempty"`
	GateMs   int              `json:"gate_ms"`
}

// callback keys: "O" open, "M<seq>" message, "D<seq>.<part>" data frame, "P<seq>" ping, "Q<seq>" pong, "C" close handler,
// "X" OnClose, "E" the engine's OnClose hook; HTTP: "H<i>" handler
func expectedWS(s *wsScript) [][]string {
	// a list of groups; the callbacks inside one group belong to the same frame and may start in either order
	exp := [][]string{{"O"}}
	for _, f := range s.Frames {
		switch f.Op {
		case "text", "binary", "cont":
			var g []string
			if f.Fin && s.Handlers != "dataframe" {
				g = append(g, fmt.Sprintf("M%d", f.Seq))
			}
			if s.Handlers != "message" && f.Size > 0 {
				g = append(g, fmt.Sprintf("D%d.%d", f.Seq, f.Part))
			}
			if len(g) > 0 {
				exp = append(exp, g)
			}
		case "ping":
			exp = append(exp, []string{fmt.Sprintf("P%d", f.Seq)})
		case "pong":
			exp = append(exp, []string{fmt.Sprintf("Q%d", f.Seq)})
		case "close":
			exp = append(exp, []string{"C"})
		}
	}
	return exp
}

func genBehav(r *rand.Rand) behav {
	b := behav{Reply: r.Intn(3) == 0}
	switch r.Intn(6) {
	case 0:
		b.SleepUs = 100 + r.Intn(1500)
	case 1:
		b.Yields = 1 + r.Intn(20)
	case 2:
		b.SleepUs = 20
	}
	return b
}

func genWS(r *rand.Rand, cid int, gateMs int, allowServerClose bool) *wsScript {
	s := &wsScript{Cid: cid, Behav: map[string]behav{}, GateMs: gateMs}
	s.Handlers = []string{"message", "message", "message", "dataframe", "both"}[r.Intn(5)]
	seq := 0
	nitems := 3 + r.Intn(8)
	control := func() frame {
		seq++
		op := "ping"
		if r.Intn(3) == 0 {
			op = "pong"
		}
		return frame{Op: op, Fin: true, Seq: seq, Size: 8 + r.Intn(40)}
	}
	// the first item is always a data message (its callback is the one that is usually held)
	for i := 0; i < nitems; i++ {
		if i > 0 && r.Intn(5) < 2 {
			s.Frames = append(s.Frames, control())
			continue
		}
		seq++
		mseq := seq
		op := "text"
		if r.Intn(2) == 0 {
			op = "binary"
		}
		frags := 1
		if r.Intn(3) == 0 {
			frags = 2 + r.Intn(3)
		}
		for p := 0; p < frags; p++ {
			f := frame{Op: op, Fin: p == frags-1, Seq: mseq, Part: p, Size: 16 + r.Intn(200)}
			if p > 0 {
				f.Op = "cont"
			}
			s.Frames = append(s.Frames, f)
			if p < frags-1 && r.Intn(3) == 0 {
				s.Frames = append(s.Frames, control()) // control frames may sit between the fragments of a message
			}
		}
	}
	ends := []string{"close-frame", "close-frame", "half-close", "half-close"}
	if allowServerClose {
		ends = append(ends, "server-close-in-handler", "server-close-other")
	}
	s.End = ends[r.Intn(len(ends))]
	if s.End == "close-frame" {
		s.Frames = append(s.Frames, frame{Op: "close", Fin: true, Seq: seq + 1, Size: 5})
	}
	exp := expectedWS(s)
	for _, g := range exp {
		for _, k := range g {
			s.Behav[k] = genBehav(r)
		}
	}
	s.Behav["X"] = genBehav(r)
	s.OpenB = behav{}
	if r.Intn(3) == 0 {
		s.OpenB.SleepUs = 500 + r.Intn(3000)
	}
	// who holds the gate: mostly the first data callback, sometimes a later callback or a control frame's handler
	holdIdx := 1
	if r.Intn(4) == 0 && len(exp) > 3 {
		holdIdx = 1 + r.Intn(len(exp)-2)
	}
	hk := exp[holdIdx][0]
	if hk == "C" {
		hk = exp[1][0]
	}
	b := s.Behav[hk]
	b.Hold = true
	s.Behav[hk] = b
	switch s.End {
	case "server-close-in-handler":
		b := s.Behav[hk]
		b.Close = true
		s.Behav[hk] = b
		s.CloseAt = hk
	case "server-close-other":
		s.CloseAt = hk // another goroutine closes the connection while this callback is held
	}
	// cut the client's write at up to two places
	for i, n := 0, r.Intn(3); i < n; i++ {
		s.Cuts = append(s.Cuts, 1+r.Intn(400))
	}
	return s
}

// ---------- HTTP scripts ----------
type httpReq struct {
	I         int   `json:"i"`
	Post      bool  `json:"post,omitempty"`
	ConnClose bool  `json:"connection_close,omitempty"`
	B         behav `json:"behaviour"`
}

type httpScript struct {
	Cid    int       `json:"cid"`
	Reqs   []httpReq `json:"requests"`
	End    string    `json:"end"` // keepalive-half-close | half-close-mid-handler | connection-close
	Cuts   []int     `json:"cuts,omitempty"`
	GateMs int       `json:"gate_ms"`
}

func genHTTP(r *rand.Rand, cid int, gateMs int) *httpScript {
	s := &httpScript{Cid: cid, GateMs: gateMs}
	n := 2 + r.Intn(7)
	for i := 0; i < n; i++ {
		s.Reqs = append(s.Reqs, httpReq{I: i, Post: r.Intn(3) == 0, B: genBehav(r)})
	}
	s.End = []string{"keepalive-half-close", "half-close-mid-handler", "half-close-mid-handler", "connection-close"}[r.Intn(4)]
	hold := 0
	if r.Intn(4) == 0 {
		hold = r.Intn(n - 1)
	}
	s.Reqs[hold].B.Hold = true
	if s.End == "connection-close" {
		j := r.Intn(n)
		s.Reqs[j].ConnClose = true
	}
	for i, k := 0, r.Intn(3); i < k; i++ {
		s.Cuts = append(s.Cuts, 1+r.Intn(300))
	}
	return s
}

// ---------- scripts of the stop phase: a callback is held, more work is queued behind it, then the engine stops ----------
func genWSStop(r *rand.Rand, cid int, gateMs int) *wsScript {
	s := genWS(r, cid, gateMs, false)
	// the first data callback holds the gate; a close frame ends the script (queued behind everything else)
	if n := len(s.Frames); n == 0 || s.Frames[n-1].Op != "close" {
		s.Frames = append(s.Frames, frame{Op: "close", Fin: true, Seq: 1000, Size: 5})
		s.Behav["C"] = genBehav(r)
	}
	s.End = "engine-stop"
	s.CloseAt = ""
	exp := expectedWS(s)
	for k, b := range s.Behav {
		b.Hold, b.Close = false, false
		s.Behav[k] = b
	}
	hk := exp[1][0]
	b := s.Behav[hk]
	b.Hold = true
	s.Behav[hk] = b
	s.OpenB = behav{}
	return s
}

func genHTTPStop(r *rand.Rand, cid int, gateMs int) *httpScript {
	s := genHTTP(r, cid, gateMs)
	s.End = "engine-stop"
	for i := range s.Reqs {
		s.Reqs[i].B.Hold = i == 0
		s.Reqs[i].ConnClose = false
	}
	return s
}
