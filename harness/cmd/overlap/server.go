package main

import (
	"fmt"
	"net"
	"net/http"
	"runtime"
	"sort"
	"strconv"
	"strings"
	"sync"
	"sync/atomic"
	"time"

	"github.com/lesismal/nbio"
	"github.com/lesismal/nbio/nbhttp"
	"github.com/lesismal/nbio/nbhttp/websocket"
)

type cellCfg struct {
	IOMod string `json:"iomod"`    // nonblocking | blocking | mixed | transferred (IOModBlocking + BlockingModTrasferConnToPoller)
	Epoll string `json:"epoll"`    // LT | ET | ET+ONESHOT | ET+ASYNCREAD
	Exec  string `json:"executor"` // default | smallpool | go | pool3
}

func (c cellCfg) String() string { return c.IOMod + "/" + c.Epoll + "/" + c.Exec }

// one entry of a connection's callback log: appended at the ENTRY of the callback under cs.mu, so the log is a
// linearisation of the callback starts that respects real time
type ev struct {
	K      string `json:"k"`
	T0     int64  `json:"start_us"`
	T1     int64  `json:"end_us"` // -1: still running
	Inside int    `json:"inside"` // callbacks of this connection in progress at the start, this one included
	With   string `json:"with,omitempty"`
}

type connState struct {
	cid   int
	kind  string // ws | http
	cell  cellCfg
	t0    time.Time
	ws    *wsScript
	hs    *httpScript
	gate  chan struct{}
	gated int32

	mu     sync.Mutex
	log    []ev
	open   map[int]bool // indices of log entries still running
	closeN int32        // OnClose (ws) / engine close hook (http) count
	done   chan struct{}
	once   sync.Once
	hurry  chan struct{} // closed when an overlap was seen: the gate need not wait any longer
	hOnce  sync.Once
	isBlk  int32
	wsc    *websocket.Conn
	raddr  string
	upErr  error
	engCls int32

	stopPhase string // "" | stop | shutdown
	failed    int32  // the client gave up before its held callback could be reached
	noClose   bool   // stop phase: no close callback although the engine has stopped (allowed: counted)
	gOnce     sync.Once
}

// giveUp: the client could not even send its script; nobody else will open the gate
func (cs *connState) giveUp() {
	atomic.StoreInt32(&cs.failed, 1)
	if cs.stopPhase == "" {
		cs.gOnce.Do(func() { close(cs.gate) })
	}
}

func newConnState(cell cellCfg, cid int, kind string) *connState {
	return &connState{cid: cid, kind: kind, cell: cell, t0: time.Now(), gate: make(chan struct{}), open: map[int]bool{},
		done: make(chan struct{}), hurry: make(chan struct{})}
}

// enter / exit: the in-callback counter is len(cs.open), kept under the same mutex as the log, so a callback counts as
// running from its first to its last instruction inside the harness's wrapper
func (cs *connState) enter(k string) int {
	cs.mu.Lock()
	e := ev{K: k, T0: time.Since(cs.t0).Microseconds(), T1: -1, Inside: len(cs.open) + 1}
	if len(cs.open) > 0 {
		var w []string
		for i := range cs.open {
			w = append(w, cs.log[i].K)
		}
		sort.Strings(w)
		e.With = strings.Join(w, ",")
	}
	idx := len(cs.log)
	cs.log = append(cs.log, e)
	cs.open[idx] = true
	cs.mu.Unlock()
	if e.Inside > 1 {
		cs.hOnce.Do(func() { close(cs.hurry) })
	}
	return idx
}

func (cs *connState) exit(idx int) {
	cs.mu.Lock()
	cs.log[idx].T1 = time.Since(cs.t0).Microseconds()
	delete(cs.open, idx)
	cs.mu.Unlock()
}

func (cs *connState) act(b behav, closer func()) {
	if b.Hold {
		atomic.StoreInt32(&cs.gated, 1)
		select {
		case <-cs.gate:
		case <-time.After(20 * time.Second):
		}
	}
	if b.SleepUs > 0 {
		time.Sleep(time.Duration(b.SleepUs) * time.Microsecond)
	}
	for i := 0; i < b.Yields; i++ {
		runtime.Gosched()
	}
	if b.Close && closer != nil {
		closer()
	}
}

func (cs *connState) snapshot() []ev {
	cs.mu.Lock()
	defer cs.mu.Unlock()
	return append([]ev{}, cs.log...)
}

// ---------- server ----------
type server struct {
	cell  cellCfg
	eng   *nbhttp.Engine
	addr  string
	conns sync.Map // cid -> *connState
	byAdr sync.Map // client address -> *connState
	pool  chan func()
	quit  chan struct{}
	// closed by the cell when Engine.Stop / Shutdown has returned (stop phase)
	stopDone chan struct{}
}

func tagOf(data []byte) string {
	// payloads start with "<tag>|"
	for i, c := range data {
		if c == '|' {
			return string(data[:i])
		}
		if i > 24 {
			break
		}
	}
	return "?" + strconv.Itoa(len(data))
}

func (sv *server) upgrader(cs *connState) *websocket.Upgrader {
	s := cs.ws
	u := websocket.NewUpgrader()
	u.Engine = sv.eng
	u.CheckOrigin = func(*http.Request) bool { return true }
	u.BlockingModTrasferConnToPoller = sv.cell.IOMod == "transferred"
	closer := func(c *websocket.Conn) func() { return func() { _ = c.Close() } }
	u.OnOpen(func(c *websocket.Conn) {
		i := cs.enter("O")
		cs.wsc = c
		if c.IsBlockingMod() {
			atomic.StoreInt32(&cs.isBlk, 1)
		}
		cs.act(s.OpenB, nil)
		cs.exit(i)
	})
	if s.Handlers != "dataframe" {
		u.OnMessage(func(c *websocket.Conn, mt websocket.MessageType, data []byte) {
			k := "M" + strings.SplitN(tagOf(data), ".", 2)[0][1:]
			i := cs.enter(k)
			b := s.Behav[k]
			if b.Reply {
				_ = c.WriteMessage(mt, data[:8])
			}
			cs.act(b, closer(c))
			cs.exit(i)
		})
	}
	if s.Handlers != "message" {
		u.OnDataFrame(func(c *websocket.Conn, mt websocket.MessageType, fin bool, data []byte) {
			k := "D" + tagOf(data)[1:]
			i := cs.enter(k)
			cs.act(s.Behav[k], closer(c))
			cs.exit(i)
		})
	}
	u.SetPingHandler(func(c *websocket.Conn, data string) {
		k := "P" + tagOf([]byte(data))[1:]
		i := cs.enter(k)
		b := s.Behav[k]
		if b.Reply {
			_ = c.WriteMessage(websocket.PongMessage, []byte(data))
		}
		cs.act(b, closer(c))
		cs.exit(i)
	})
	u.SetPongHandler(func(c *websocket.Conn, data string) {
		k := "Q" + tagOf([]byte(data))[1:]
		i := cs.enter(k)
		cs.act(s.Behav[k], closer(c))
		cs.exit(i)
	})
	u.SetCloseHandler(func(c *websocket.Conn, code int, text string) {
		i := cs.enter("C")
		_ = c.WriteMessage(websocket.CloseMessage, []byte{0x03, 0xe8})
		cs.act(s.Behav["C"], nil)
		cs.exit(i)
	})
	u.OnClose(func(c *websocket.Conn, err error) {
		i := cs.enter("X")
		atomic.AddInt32(&cs.closeN, 1)
		cs.act(s.Behav["X"], nil)
		cs.exit(i)
		cs.once.Do(func() { close(cs.done) })
	})
	return u
}

func (sv *server) lookup(r *http.Request) *connState {
	cid, _ := strconv.Atoi(r.URL.Query().Get("c"))
	v, ok := sv.conns.Load(cid)
	if !ok {
		return nil
	}
	return v.(*connState)
}

func (sv *server) handleWS(w http.ResponseWriter, r *http.Request) {
	cs := sv.lookup(r)
	if cs == nil {
		http.Error(w, "unknown connection", 400)
		return
	}
	if _, err := sv.upgrader(cs).Upgrade(w, r, nil); err != nil {
		cs.mu.Lock()
		cs.upErr = err
		cs.mu.Unlock()
	}
}

func (sv *server) handleHTTP(w http.ResponseWriter, r *http.Request) {
	cs := sv.lookup(r)
	if cs == nil {
		http.Error(w, "unknown connection", 400)
		return
	}
	i, _ := strconv.Atoi(r.URL.Query().Get("i"))
	idx := cs.enter(fmt.Sprintf("H%d", i))
	if i < len(cs.hs.Reqs) {
		cs.act(cs.hs.Reqs[i].B, nil)
	}
	w.Header().Set("X-I", strconv.Itoa(i))
	_, _ = w.Write([]byte(fmt.Sprintf("r%d", i)))
	cs.exit(idx)
}

func epollCfg(name string) (uint32, uint32, bool) {
	switch name {
	case "ET":
		return nbio.EPOLLET, 0, false
	case "ET+ONESHOT":
		return nbio.EPOLLET, nbio.EPOLLONESHOT, false
	case "ET+ASYNCREAD":
		return nbio.EPOLLET, 0, true
	}
	return nbio.EPOLLLT, 0, false
}

func startServer(cell cellCfg) (*server, error) {
	sv := &server{cell: cell, stopDone: make(chan struct{})}
	em, os1, async := epollCfg(cell.Epoll)
	mux := http.NewServeMux()
	mux.HandleFunc("/ws", sv.handleWS)
	mux.HandleFunc("/h", sv.handleHTTP)
	conf := nbhttp.Config{Network: "tcp", Addrs: []string{"127.0.0.1:0"}, NPoller: 2, EpollMod: em, EPOLLONESHOT: os1,
		AsyncReadInPoller: async, Handler: mux}
	switch cell.IOMod {
	case "nonblocking":
		conf.IOMod = nbhttp.IOModNonBlocking
	case "blocking", "transferred":
		conf.IOMod = nbhttp.IOModBlocking
	case "mixed":
		conf.IOMod = nbhttp.IOModMixed
		conf.MaxBlockingOnline = 3
	default:
		return nil, fmt.Errorf("unknown iomod %q", cell.IOMod)
	}
	switch cell.Exec {
	case "smallpool":
		conf.MessageHandlerPoolSize = 6
	case "go":
		conf.ServerExecutor = func(f func()) { go f() }
	case "pool3":
		sv.pool = make(chan func(), 4096)
		sv.quit = make(chan struct{})
		for i := 0; i < 3; i++ {
			go func() {
				for {
					select {
					case f := <-sv.pool:
						f()
					case <-sv.quit:
						return
					}
				}
			}()
		}
		conf.ServerExecutor = func(f func()) {
			select {
			case sv.pool <- f:
			case <-sv.quit:
			}
		}
	}
	sv.eng = nbhttp.NewEngine(conf)
	// the engine's close hook: for HTTP connections it is the close handling of the property
	sv.eng.OnClose(func(c net.Conn, err error) {
		ra := c.RemoteAddr()
		if ra == nil {
			return
		}
		v, ok := sv.byAdr.Load(ra.String())
		if !ok {
			return
		}
		cs := v.(*connState)
		atomic.AddInt32(&cs.engCls, 1)
		if cs.kind == "http" {
			i := cs.enter("E")
			atomic.AddInt32(&cs.closeN, 1)
			cs.exit(i)
			cs.once.Do(func() { close(cs.done) })
		} else if cell.IOMod != "transferred" {
			// (a transferred connection's blocking reader reports "closed" when it hands the connection over: not a callback of the WebSocket connection)
			i := cs.enter("E")
			cs.exit(i)
		}
	})
	if err := sv.eng.Start(); err != nil {
		return nil, err
	}
	sv.addr = sv.eng.Addrs[0]
	return sv, nil
}

func (sv *server) stop() bool {
	done := make(chan struct{})
	go func() {
		sv.eng.Stop()
		if sv.quit != nil {
			close(sv.quit)
		}
		close(done)
	}()
	select {
	case <-done:
		return true
	case <-time.After(15 * time.Second):
		return false
	}
}
