package main

import (
	"bufio"
	"encoding/binary"
	"fmt"
	"io"
	"math/rand"
	"net"
	"net/http"
	"strings"
	"time"
)

func payload(tag string, size int) []byte {
	b := make([]byte, 0, size+len(tag)+1)
	b = append(b, tag...)
	b = append(b, '|')
	for len(b) < size {
		b = append(b, byte('a'+len(b)%26))
	}
	return b
}

func appendFrame(dst []byte, opcode byte, fin bool, p []byte, key [4]byte) []byte {
	b0 := opcode
	if fin {
		b0 |= 0x80
	}
	dst = append(dst, b0)
	switch {
	case len(p) < 126:
		dst = append(dst, 0x80|byte(len(p)))
	case len(p) < 65536:
		dst = append(dst, 0x80|126, 0, 0)
		binary.BigEndian.PutUint16(dst[len(dst)-2:], uint16(len(p)))
	default:
		dst = append(dst, 0x80|127, 0, 0, 0, 0, 0, 0, 0, 0)
		binary.BigEndian.PutUint64(dst[len(dst)-8:], uint64(len(p)))
	}
	dst = append(dst, key[:]...)
	for i, v := range p {
		dst = append(dst, v^key[i%4])
	}
	return dst
}

func wireOf(s *wsScript, r *rand.Rand) []byte {
	var out []byte
	for _, f := range s.Frames {
		var key [4]byte
		r.Read(key[:])
		var op byte
		var p []byte
		switch f.Op {
		case "text":
			op, p = 1, payload(fmt.Sprintf("m%d.%d", f.Seq, f.Part), f.Size)
		case "binary":
			op, p = 2, payload(fmt.Sprintf("m%d.%d", f.Seq, f.Part), f.Size)
		case "cont":
			op, p = 0, payload(fmt.Sprintf("m%d.%d", f.Seq, f.Part), f.Size)
		case "ping":
			op, p = 9, payload(fmt.Sprintf("p%d", f.Seq), f.Size)
		case "pong":
			op, p = 10, payload(fmt.Sprintf("q%d", f.Seq), f.Size)
		case "close":
			op, p = 8, []byte{0x03, 0xe8, 'b', 'y', 'e'}
		}
		out = append(out, appendFrame(nil, op, f.Fin, p, key)...)
	}
	return out
}

func writeCut(c net.Conn, b []byte, cuts []int) error {
	pos := 0
	for _, k := range cuts {
		if k > pos && k < len(b) {
			if _, err := c.Write(b[pos:k]); err != nil {
				return err
			}
			pos = k
		}
	}
	_, err := c.Write(b[pos:])
	return err
}

func dial(addr string) (*net.TCPConn, error) {
	c, err := net.DialTimeout("tcp", addr, 5*time.Second)
	if err != nil {
		return nil, err
	}
	tc := c.(*net.TCPConn)
	_ = tc.SetNoDelay(true)
	_ = tc.SetDeadline(time.Now().Add(40 * time.Second))
	return tc, nil
}

// dialWS performs the opening handshake and returns the connection and what was already read behind the response head
func dialWS(sv *server, cs *connState) (*net.TCPConn, *bufio.Reader, error) {
	tc, err := dial(sv.addr)
	if err != nil {
		return nil, nil, err
	}
	cs.raddr = tc.LocalAddr().String()
	sv.byAdr.Store(cs.raddr, cs)
	req := fmt.Sprintf("GET /ws?c=%d HTTP/1.1\r\nHost: x\r\nUpgrade: websocket\r\nConnection: Upgrade\r\n"+
		"Sec-WebSocket-Key: dGhlIHNhbXBsZSBub25jZQ==\r\nSec-WebSocket-Version: 13\r\n\r\n", cs.cid)
	if _, err = tc.Write([]byte(req)); err != nil {
		tc.Close()
		return nil, nil, err
	}
	br := bufio.NewReader(tc)
	status, err := br.ReadString('\n')
	if err != nil {
		tc.Close()
		return nil, nil, err
	}
	if !strings.Contains(status, "101") {
		tc.Close()
		return nil, nil, fmt.Errorf("handshake answered %q", strings.TrimSpace(status))
	}
	for {
		line, err := br.ReadString('\n')
		if err != nil {
			tc.Close()
			return nil, nil, err
		}
		if line == "\r\n" {
			break
		}
	}
	return tc, br, nil
}

func drain(r io.Reader, done chan struct{}) {
	_, _ = io.Copy(io.Discard, r)
	close(done)
}

func httpWire(s *httpScript) []byte {
	var sb strings.Builder
	for _, q := range s.Reqs {
		extra := ""
		if q.ConnClose {
			extra = "Connection: close\r\n"
		}
		if q.Post {
			body := fmt.Sprintf("b%d", q.I)
			fmt.Fprintf(&sb, "POST /h?c=%d&i=%d HTTP/1.1\r\nHost: x\r\n%sContent-Length: %d\r\n\r\n%s", s.Cid, q.I, extra, len(body), body)
		} else {
			fmt.Fprintf(&sb, "GET /h?c=%d&i=%d HTTP/1.1\r\nHost: x\r\n%s\r\n", s.Cid, q.I, extra)
		}
	}
	return []byte(sb.String())
}

// readResponses reads up to n responses and returns their X-I headers
func readResponses(br *bufio.Reader, n int) []string {
	var got []string
	for i := 0; i < n; i++ {
		resp, err := http.ReadResponse(br, nil)
		if err != nil {
			break
		}
		_, _ = io.Copy(io.Discard, resp.Body)
		resp.Body.Close()
		got = append(got, resp.Header.Get("X-I"))
	}
	return got
}

func newReader(c net.Conn) *bufio.Reader { return bufio.NewReader(c) }
