// Harness for the end-to-end clause of C05: "HTTP handlers and WebSocket callbacks of one connection never overlap, and
// close handling runs after all work queued before it".
//
// Real nbhttp engines on loopback in every IOMod (non-blocking, blocking, mixed, and blocking with the upgraded connection
// transferred to the poller) x epoll mode (LT, ET, ET+ONESHOT, ET with asynchronous reads) x executor (the default task pool, a
// small one, goroutine per call, a 3-worker pool behind Config.ServerExecutor); raw TCP clients written here speak HTTP/1.1 and
// RFC 6455 themselves, so the harness controls the wire.
//
//	HTTP       one connection pipelines several requests in one write; handlers sleep / yield / block on a gate for generated
//	           durations; the peer half-closes while a handler is blocked, or after all responses, or a request carries
//	           Connection: close.
//	WebSocket  text / binary messages (also fragmented, with control frames between the fragments), Ping, Pong and Close frames are
//	           written back to back while the callback of an earlier frame is still running (it blocks on a gate that opens
//	           only well after the client has written everything); ends: Close frame, half-close, Close() inside a callback,
//	           Close() from another goroutine while a callback is blocked.
//
// Every user-visible callback of a connection (OnOpen, OnMessage, OnDataFrame, ping / pong / close handler, OnClose, the engine's
// close hook; HTTP handlers) logs its entry under a per-connection mutex and keeps an atomic in-callback counter.
// Oracle (implementation alone, exact: it does not depend on timing): the counter never exceeds 1; the entries follow the wire
// order; OnClose / the close hook comes exactly once, after everything that was queued before it. Only "a callback is missing /
// the connection did not finish in time" depends on time: such a cell is run again with four times the margins before it is reported.
// Several connections run at once in every cell (the property is per connection).
package main

import (
	"context"
	"flag"
	"fmt"
	"math/rand"
	"os"
	"sort"
	"strings"
	"sync"
	"sync/atomic"
	"time"

	"github.com/lesismal/nbio/logging"
	"verifharness/hx"
)

type quiet struct{}

func (quiet) SetLevel(int)                 {}
func (quiet) Debug(string, ...interface{}) {}
func (quiet) Info(string, ...interface{})  {}
func (quiet) Warn(string, ...interface{})  {}
func (quiet) Error(string, ...interface{}) {}

const finishDeadline = 12 * time.Second

type problem struct {
	Class string // overlap order close-early onclose missing incomplete twice unknown infra
	Sig   string
	What  string
	Exact bool // does not depend on timing
}

func waitCh(ch <-chan struct{}, d time.Duration) bool {
	select {
	case <-ch:
		return true
	case <-time.After(d):
		return false
	}
}

func waitCond(d time.Duration, f func() bool) bool {
	end := time.Now().Add(d)
	for !f() {
		if time.Now().After(end) {
			return false
		}
		time.Sleep(100 * time.Microsecond)
	}
	return true
}

// gateAfter opens the connection's gate d after now, or at once when an overlap has been seen already
func gateAfter(cs *connState, d time.Duration) {
	select {
	case <-cs.hurry:
	case <-time.After(d):
	}
	close(cs.gate)
}

// ---------- one WebSocket connection ----------
func runWS(sv *server, cs *connState, seed int64, scale int) (infra string) {
	s := cs.ws
	tc, br, err := dialWS(sv, cs)
	if err != nil {
		cs.giveUp()
		return "handshake: " + err.Error()
	}
	defer tc.Close()
	drained := make(chan struct{})
	go drain(br, drained)
	wire := wireOf(s, rand.New(rand.NewSource(seed)))
	if err := writeCut(tc, wire, s.Cuts); err != nil {
		cs.giveUp()
		return "write: " + err.Error()
	}
	gate := time.Duration(s.GateMs*scale) * time.Millisecond
	if s.End == "engine-stop" {
		// the cell stops the engine and opens the gates; whatever the engine still runs must be over soon after Stop returned
		<-sv.stopDone
		if !waitCh(cs.done, time.Duration(1500*scale)*time.Millisecond) {
			cs.noClose = true
		}
		time.Sleep(time.Duration(5*scale) * time.Millisecond)
		return ""
	}
	switch s.End {
	case "half-close":
		_ = tc.CloseWrite()
	case "server-close-other":
		if waitCond(finishDeadline, func() bool { return atomic.LoadInt32(&cs.gated) == 1 }) && cs.wsc != nil {
			time.Sleep(gate / 3)
			_ = cs.wsc.Close()
		}
	}
	gateAfter(cs, gate)
	if !waitCh(cs.done, finishDeadline+time.Duration(scale-1)*3*time.Second) {
		return ""
	}
	if sv.cell.IOMod != "transferred" {
		waitCond(300*time.Millisecond, func() bool { return atomic.LoadInt32(&cs.engCls) > 0 })
	}
	time.Sleep(time.Duration(scale) * time.Millisecond) // anything that still starts now is out of order
	return ""
}

// ---------- one HTTP connection ----------
func runHTTP(sv *server, cs *connState, scale int) (infra string) {
	s := cs.hs
	tc, err := dial(sv.addr)
	if err != nil {
		cs.giveUp()
		return "dial: " + err.Error()
	}
	defer tc.Close()
	cs.raddr = tc.LocalAddr().String()
	sv.byAdr.Store(cs.raddr, cs)
	if err := writeCut(tc, httpWire(s), s.Cuts); err != nil {
		cs.giveUp()
		return "write: " + err.Error()
	}
	gate := time.Duration(s.GateMs*scale) * time.Millisecond
	drained := make(chan struct{})
	if s.End == "engine-stop" {
		go drain(tc, drained)
		<-sv.stopDone
		if !waitCh(cs.done, time.Duration(1500*scale)*time.Millisecond) {
			cs.noClose = true
		}
		time.Sleep(time.Duration(5*scale) * time.Millisecond)
		return ""
	}
	switch s.End {
	case "keepalive-half-close":
		go gateAfter(cs, gate)
		br := newReader(tc)
		readResponses(br, len(s.Reqs))
		_ = tc.CloseWrite()
		go drain(br, drained)
	case "half-close-mid-handler":
		_ = tc.CloseWrite()
		go drain(tc, drained)
		gateAfter(cs, gate)
	default:
		go drain(tc, drained)
		gateAfter(cs, gate)
	}
	if !waitCh(cs.done, finishDeadline+time.Duration(scale-1)*3*time.Second) {
		return ""
	}
	time.Sleep(time.Duration(scale) * time.Millisecond)
	return ""
}

// ---------- the oracle ----------
func iomodLabel(cs *connState) string { return cs.cell.IOMod }

func logString(log []ev) string {
	var sb strings.Builder
	for i, e := range log {
		if i > 0 {
			sb.WriteByte(' ')
		}
		if e.T1 < 0 {
			fmt.Fprintf(&sb, "%s[%d..running", e.K, e.T0)
		} else {
			fmt.Fprintf(&sb, "%s[%d..%d", e.K, e.T0, e.T1)
		}
		if e.Inside > 1 {
			fmt.Fprintf(&sb, " INSIDE %s", e.With)
		}
		sb.WriteByte(']')
	}
	return sb.String()
}

func flatten(groups [][]string) []string {
	var out []string
	for _, g := range groups {
		out = append(out, g...)
	}
	return out
}

func checkConn(cs *connState) []problem {
	log := cs.snapshot()
	mode := iomodLabel(cs)
	oneshot := ""
	if cs.cell.Epoll == "ET+ONESHOT" {
		oneshot = "-oneshot"
	}
	var ps []problem
	add := func(class, sig, what string, exact bool) {
		for _, p := range ps {
			if p.Sig == sig {
				return
			}
		}
		ps = append(ps, problem{class, sig, what, exact})
	}
	closeKey := "X"
	var groups [][]string
	prefixFrom := -1 // >= 0: the connection is closed by the server; the callbacks may stop after this group
	pfx := "ws-callback"
	if cs.kind == "http" {
		closeKey = "E"
		pfx = "http-handler"
		for _, q := range cs.hs.Reqs {
			groups = append(groups, []string{fmt.Sprintf("H%d", q.I)})
			if q.ConnClose && prefixFrom < 0 {
				prefixFrom = q.I
			}
		}
	} else {
		groups = expectedWS(cs.ws)
		if strings.HasPrefix(cs.ws.End, "server-close") {
			for gi, g := range groups {
				for _, k := range g {
					if k == cs.ws.CloseAt {
						prefixFrom = gi
					}
				}
			}
		}
	}
	if cs.upErr != nil {
		add("infra", "upgrade-failed-"+mode, "Upgrade failed: "+cs.upErr.Error(), false)
		return ps
	}
	// (a) overlap
	for _, e := range log {
		if e.Inside <= 1 {
			continue
		}
		if cs.kind == "ws" && e.K == "E" || strings.Contains(","+e.With+",", ",E,") && cs.kind == "ws" {
			add("overlap", "ws-engine-close-hook-overlap-"+mode, fmt.Sprintf("the engine's close hook and %s / %s of one connection run at the same time", e.K, e.With), true)
			continue
		}
		sig := "ws-callbacks-overlap-" + mode
		if cs.kind == "http" {
			sig = "http-handlers-overlap-" + mode
			if e.K == "E" || strings.Contains(e.With, "E") {
				sig = "close-before-queued-work-" + mode
			}
		} else if e.K == "X" || strings.Contains(","+e.With+",", ",X,") {
			sig = "close-before-queued-work-" + mode
			if mode == "transferred" {
				// the classes recorded for C14 on the unchanged tree get their own signatures
				other := e.With
				if e.K != "X" {
					other = e.K
				}
				if other == "O" {
					sig = "ws-close-overlaps-open-transferred"
				} else {
					sig += oneshot
				}
			}
		} else if mode == "transferred" && (e.K == "O" || strings.Contains(","+e.With+",", ",O,")) {
			sig = "ws-callbacks-overlap-transferred-open"
		}
		add("overlap", sig, fmt.Sprintf("callback %s started while %s of the same connection was still running", e.K, e.With), true)
	}
	// (b) order
	var obs []string
	nClose := 0
	closeAt := -1
	for _, e := range log {
		if cs.kind == "ws" && e.K == "E" {
			continue
		}
		if e.K == closeKey {
			nClose++
			if closeAt < 0 {
				closeAt = len(obs)
			}
			continue
		}
		obs = append(obs, e.K)
	}
	exp := flatten(groups)
	pos := map[string]int{}
	grp := map[string]int{}
	for gi, g := range groups {
		for _, k := range g {
			grp[k] = gi
		}
	}
	for i, k := range exp {
		pos[k] = i
	}
	seen := map[string]bool{}
	lastGroup := -1
	for i, k := range obs {
		gi, known := grp[k]
		switch {
		case !known:
			add("unknown", pfx+"-unknown-"+mode, fmt.Sprintf("callback %s does not belong to anything the client sent", k), true)
		case seen[k]:
			add("twice", pfx+"-twice-"+mode, fmt.Sprintf("callback %s ran twice", k), true)
		case gi < lastGroup:
			sig := pfx + "-order-" + mode
			if mode == "transferred" && k == "O" {
				sig = "ws-callback-order-transferred-open"
			}
			add("order", sig, fmt.Sprintf("callback %s (frame group %d on the wire) started after a callback of group %d: started %v, wire order %v", k, gi, lastGroup, obs[:i+1], exp), true)
		}
		seen[k] = true
		if gi > lastGroup {
			lastGroup = gi
		}
	}
	// skipped callbacks: something later ran although an earlier one never did
	for _, k := range exp {
		if cs.stopPhase != "" {
			break // at shutdown the engine may drop work
		}
		if !seen[k] && grp[k] < lastGroup {
			sig := pfx + "-order-" + mode
			if mode == "transferred" && k == "O" {
				sig = "ws-callback-order-transferred-open"
			}
			add("order", sig, fmt.Sprintf("callback %s never ran although callbacks of later frames did: started %v, wire order %v", k, obs, exp), true)
			break
		}
	}
	// (c) close handling
	switch {
	case nClose == 0 && cs.stopPhase != "":
		// the close callback may be among the work the engine drops when it stops
	case nClose == 0:
		add("incomplete", pfx+"-no-close-"+mode, fmt.Sprintf("no close callback within the deadline; started %v of %v", obs, exp), false)
	case nClose > 1:
		add("onclose", pfx+"-close-twice-"+mode, fmt.Sprintf("the close callback ran %d times", nClose), true)
	}
	if nClose > 0 && closeAt < len(obs) {
		sig := "close-before-queued-work-" + mode
		if mode == "transferred" {
			sig += oneshot
		}
		add("close-early", sig, fmt.Sprintf("the close callback started before %v of the same connection", obs[closeAt:]), true)
	}
	if nClose > 0 {
		need := len(groups) - 1
		if prefixFrom >= 0 {
			need = prefixFrom
		}
		if lastGroup < need && cs.stopPhase == "" {
			add("missing", pfx+"-missing-"+mode, fmt.Sprintf("the connection was closed after %v; the client had sent %v before it closed", obs, exp), false)
		}
	}
	return ps
}

// ---------- cells ----------
type cellResult struct {
	cell     cellCfg
	problems map[string]problemAt // by signature
	stats    map[string]int
	cases    []string
	infra    []string
	samples  []interface{}
	stopMs   int
}

type problemAt struct {
	problem
	replay map[string]interface{}
}

// runCell: stopMode "" = the connections end by themselves and the engine is stopped afterwards; "stop" / "shutdown" = every
// connection has a callback held on its gate and further work queued behind it when Engine.Stop / Engine.Shutdown(ctx) begins; the
// gates open a little after that
func runCell(cell cellCfg, seed int64, nws, nhttp, gateMs, scale int, stopMode string) *cellResult {
	res := &cellResult{cell: cell, problems: map[string]problemAt{}, stats: map[string]int{}}
	sv, err := startServer(cell)
	if err != nil {
		res.infra = append(res.infra, "cannot start the engine: "+err.Error())
		return res
	}
	if stopMode != "" && (cell.Exec == "smallpool" || cell.Exec == "pool3") {
		// every connection holds one runner of the executor at the same time in this phase: keep their number below the
		// executor's size (3 workers; a pool of bound 5 = 3 workers + the dispatcher), or the remaining handshakes starve
		nws, nhttp = 1, 1
	}
	if stopMode != "" && cell.IOMod == "transferred" && cell.Epoll == "ET+ONESHOT" {
		// message callbacks run on the poller goroutine there: a held one blocks its poller for every other connection
		nws = 1
	}
	r := rand.New(rand.NewSource(seed))
	var conns []*connState
	for i := 0; i < nws+nhttp; i++ {
		var cs *connState
		if i < nws {
			cs = newConnState(cell, i+1, "ws")
			if stopMode != "" {
				cs.ws = genWSStop(r, i+1, gateMs)
			} else {
				cs.ws = genWS(r, i+1, gateMs, true)
			}
		} else {
			cs = newConnState(cell, i+1, "http")
			if stopMode != "" {
				cs.hs = genHTTPStop(r, i+1, gateMs)
			} else {
				cs.hs = genHTTP(r, i+1, gateMs)
			}
		}
		cs.stopPhase = stopMode
		sv.conns.Store(cs.cid, cs)
		conns = append(conns, cs)
	}
	// interleave the kinds so that a mixed engine gives blocking and poller service to both
	r.Shuffle(len(conns), func(i, j int) { conns[i], conns[j] = conns[j], conns[i] })
	var wg sync.WaitGroup
	var mu sync.Mutex
	for i, cs := range conns {
		wg.Add(1)
		go func(i int, cs *connState) {
			defer wg.Done()
			time.Sleep(time.Duration(i) * 300 * time.Microsecond)
			var infra string
			if cs.kind == "ws" {
				infra = runWS(sv, cs, seed+int64(cs.cid), scale)
			} else {
				infra = runHTTP(sv, cs, scale)
			}
			if infra != "" {
				mu.Lock()
				res.infra = append(res.infra, fmt.Sprintf("connection %d: %s", cs.cid, infra))
				mu.Unlock()
			}
		}(i, cs)
	}
	stopReturned := true
	if stopMode != "" {
		// wait until every connection has its callback held (or gave up), a little more for the work behind it to be queued
		waitCond(time.Second, func() bool {
			for _, cs := range conns {
				if atomic.LoadInt32(&cs.gated) == 0 && atomic.LoadInt32(&cs.failed) == 0 {
					return false
				}
			}
			return true
		})
		time.Sleep(time.Duration(3*scale) * time.Millisecond)
		stopped := make(chan struct{})
		tStop := time.Now()
		go func() {
			if stopMode == "shutdown" {
				ctx, cancel := context.WithTimeout(context.Background(), 8*time.Second)
				_ = sv.eng.Shutdown(ctx)
				cancel()
			} else {
				sv.eng.Stop()
			}
			if sv.quit != nil {
				close(sv.quit)
			}
			close(stopped)
		}()
		// the gates open a little after Stop has begun (Stop / Shutdown may wait for the handlers)
		time.Sleep(time.Duration(gateMs*scale) * time.Millisecond)
		for _, cs := range conns {
			close(cs.gate)
		}
		stopReturned = waitCh(stopped, 20*time.Second)
		res.stopMs = int(time.Since(tStop).Milliseconds())
		close(sv.stopDone)
	}
	wg.Wait()
	for _, cs := range conns {
		log := cs.snapshot()
		var script interface{} = cs.ws
		if cs.kind == "http" {
			script = cs.hs
		}
		for _, p := range checkConn(cs) {
			if _, dup := res.problems[p.Sig]; dup {
				continue
			}
			ph := ""
			if stopMode != "" {
				ph = " Engine." + stopMode + " while a callback is held"
			}
			p.What = fmt.Sprintf("[%s%s] %s connection %d: %s; callback log (us): %s", cell, ph, cs.kind, cs.cid, p.What, logString(log))
			res.problems[p.Sig] = problemAt{p, map[string]interface{}{"harness": "overlap", "cell": cell, "cell_seed": seed, "kind": cs.kind,
				"script": script, "margin_scale": scale, "callback_log": log, "connections_in_cell": len(conns), "engine_stop_phase": stopMode}}
		}
		// coverage
		m := cell.IOMod
		res.stats["conns."+cs.kind+"."+m]++
		if cs.kind == "ws" {
			res.cases = append(res.cases, fmt.Sprintf("%s/ws/%d/%s/%s/%d", cell, seed, cs.ws.Handlers, cs.ws.End, len(cs.ws.Frames)))
			for _, f := range cs.ws.Frames {
				res.stats["frames."+f.Op+"."+m]++
			}
			res.stats["ws.end."+cs.ws.End]++
			res.stats["ws.handlers."+cs.ws.Handlers]++
			if m == "mixed" {
				if atomic.LoadInt32(&cs.isBlk) == 1 {
					res.stats["ws.mixed.blocking-part"]++
				} else {
					res.stats["ws.mixed.poller-part"]++
				}
			}
			// how many callbacks were waiting while one was held
			held, later := -1, 0
			for i, e := range log {
				if b, ok := cs.ws.Behav[e.K]; ok && b.Hold && held < 0 {
					held = i
				} else if held >= 0 && e.K != "E" {
					later++
				}
			}
			if held >= 0 {
				res.stats["ws.held-callback-reached."+m]++
				res.stats["ws.callbacks-behind-a-held-one."+m] += later
			}
		} else {
			res.cases = append(res.cases, fmt.Sprintf("%s/http/%d/%s/%d", cell, seed, cs.hs.End, len(cs.hs.Reqs)))
			res.stats["http.requests."+m] += len(cs.hs.Reqs)
			res.stats["http.end."+cs.hs.End]++
		}
		for _, e := range log {
			res.stats["callbacks."+e.K[:1]]++
		}
		if stopMode != "" {
			if cs.noClose {
				res.stats["stop-phase.no-close-callback."+cs.kind+"."+cell.String()]++
			}
			if atomic.LoadInt32(&cs.gated) == 0 {
				res.stats["stop-phase.held-callback-not-reached."+cs.kind+"."+cell.String()]++
			}
		}
		if len(res.samples) < 1 && cs.kind == "ws" {
			res.samples = append(res.samples, map[string]interface{}{"cell": cell, "script": cs.ws, "callback_log": logString(log)})
		}
	}
	if stopMode != "" {
		res.stats["stop-phase."+stopMode+"."+cell.IOMod]++
		if !stopReturned {
			res.infra = append(res.infra, "Engine."+stopMode+" did not return within 20 s although every held callback was released")
		}
	} else if !sv.stop() {
		res.infra = append(res.infra, "Engine.Stop did not return within 15 s")
	}
	return res
}

func allCells(full bool) []cellCfg {
	var cs []cellCfg
	for _, e := range []string{"LT", "ET", "ET+ONESHOT"} {
		for _, x := range []string{"default", "go", "smallpool", "pool3"} {
			if !full && x == "pool3" && e != "LT" {
				continue
			}
			cs = append(cs, cellCfg{"nonblocking", e, x})
		}
	}
	cs = append(cs, cellCfg{"nonblocking", "ET+ASYNCREAD", "default"})
	cs = append(cs, cellCfg{"blocking", "LT", "default"})
	for _, e := range []string{"LT", "ET+ONESHOT"} {
		cs = append(cs, cellCfg{"mixed", e, "default"})
	}
	cs = append(cs, cellCfg{"mixed", "ET", "go"})
	for _, e := range []string{"LT", "ET", "ET+ONESHOT"} {
		cs = append(cs, cellCfg{"transferred", e, "default"})
	}
	if full {
		cs = append(cs, cellCfg{"nonblocking", "ET+ASYNCREAD", "go"}, cellCfg{"transferred", "ET+ONESHOT", "go"}, cellCfg{"blocking", "LT", "go"})
	}
	return cs
}

func main() {
	seed := flag.Int64("seed", 1, "")
	n := flag.Int("n", 1, "rounds over all cells")
	nws := flag.Int("ws", 5, "WebSocket connections per cell")
	nhttp := flag.Int("http", 3, "HTTP connections per cell")
	gateMs := flag.Int("gate", 30, "how long (ms) a held callback stays blocked after the client has written everything")
	par := flag.Int("par", 4, "cells run at the same time")
	full := flag.Bool("full", false, "more cells")
	only := flag.String("cell", "", "run only cells whose name contains this (iomod/epoll/executor)")
	_ = flag.String("model", "", "unused (no model in this harness)")
	out := flag.String("out", "-", "")
	verbose := flag.Bool("v", false, "cell timings on stderr")
	phase := flag.String("phase", "both", "normal | stop | both: connections that end by themselves / Engine.Stop or Shutdown while callbacks are held")
	stopMode := flag.String("stopmode", "", "stop | shutdown: force the kind of the stop phase (default: alternating)")
	cellSeed := flag.Int64("cellseed", 0, "replay: run the cells selected by -cell with exactly this cell_seed (from a finding's replay)")
	flag.Parse()
	logging.SetLogger(quiet{})
	rep := hx.NewReport("overlap", *seed)
	rep.Rule = "per cell (IOMod x epoll mode x executor) several WebSocket and HTTP connections at once; WebSocket: 3-10 items (text / binary messages, 1-4 fragments, Ping / Pong also between fragments), handlers message / dataframe / both, one callback held on a gate until well after the client wrote everything, others sleep / yield, client write cut at 0-2 places, ends close-frame / half-close / Close() in a callback / Close() from another goroutine; HTTP: 2-8 pipelined GET / POST requests, one handler held, ends half-close mid-handler / after the responses / Connection: close; plus, per cell, a stop phase on a fresh engine: every connection has its first callback held and more work (further requests; messages, control frames and a Close frame) queued behind it when Engine.Stop or Engine.Shutdown(ctx) begins, the gates open a little later - work may be dropped there, but nothing may run during or after the close callback; non-trivial = every connection (at least two callbacks in flight behind a held one); distinct = distinct (cell, seed, script shape)"
	cells := allCells(*full)
	type job struct {
		cell cellCfg
		seed int64
		stop string // "" | stop | shutdown
	}
	var jobs []job
	for round := 0; round < *n; round++ {
		for ci, c := range cells {
			if *only != "" && !strings.Contains(c.String(), *only) {
				continue
			}
			js := *seed*100003 + int64(round)*1009 + int64(ci)
			if *cellSeed != 0 {
				js = *cellSeed
			}
			if *phase != "stop" {
				jobs = append(jobs, job{c, js, ""})
			}
			if *phase != "normal" {
				mode := []string{"stop", "shutdown"}[(round+ci)%2]
				if *stopMode != "" {
					mode = *stopMode
				}
				jobs = append(jobs, job{c, js, mode})
			}
		}
	}
	var mu sync.Mutex
	var wg sync.WaitGroup
	// findings of the transferred-upgrade path (classes recorded for the unchanged tree) are kept once per signature and do
	// not end the run early; everything else does after a few
	serious := 0
	kept := map[string]int{}
	addFinding := func(f hx.Finding) {
		kept[f.Signature]++
		if strings.Contains(f.Signature, "transferred") {
			if kept[f.Signature] > 1 {
				rep.Stat("finding-again:" + f.Signature)
				return
			}
		} else {
			serious++
		}
		rep.Add(f)
	}
	ch := make(chan job)
	stop := int32(0)
	for w := 0; w < *par; w++ {
		wg.Add(1)
		go func() {
			defer wg.Done()
			for j := range ch {
				if atomic.LoadInt32(&stop) == 1 {
					continue
				}
				t0 := time.Now()
				res := runCell(j.cell, j.seed, *nws, *nhttp, *gateMs, 1, j.stop)
				if *verbose {
					fmt.Fprintf(os.Stderr, "%s %s seed %d: %.2fs (stop took %d ms) problems %d infra %v\n", j.cell, j.stop, j.seed, time.Since(t0).Seconds(), res.stopMs, len(res.problems), res.infra)
				}
				var again *cellResult
				if len(res.problems) > 0 || len(res.infra) > 0 {
					// once more, same scripts, four times the margins
					again = runCell(j.cell, j.seed, *nws, *nhttp, *gateMs, 4, j.stop)
					if *verbose {
						var sg []string
						for s := range again.problems {
							sg = append(sg, s)
						}
						fmt.Fprintf(os.Stderr, "  again %s seed %d: %.2fs %v infra %v\n", j.cell, j.seed, time.Since(t0).Seconds(), sg, again.infra)
					}
				}
				mu.Lock()
				for k, v := range res.stats {
					rep.StatN(k, v)
				}
				rep.Stat("cells." + j.cell.IOMod)
				rep.Stat("cell." + j.cell.String())
				for _, c := range res.cases {
					rep.Case(c, true)
				}
				for _, s := range res.samples {
					rep.Sample(s)
				}
				var sigs []string
				for s := range res.problems {
					sigs = append(sigs, s)
				}
				sort.Strings(sigs)
				for _, s := range sigs {
					p := res.problems[s]
					_, repro := again.problems[s]
					if !p.Exact && !repro {
						rep.Stat("not-reproduced-with-larger-margins:" + s)
						continue
					}
					p.replay["reproduced_on_rerun"] = repro
					if p.Class == "infra" {
						rep.Stat("infra:" + s)
						continue
					}
					addFinding(hx.Finding{Kind: "oracle", Property: "C05", Signature: p.Sig, What: p.What, Replay: p.replay})
				}
				if again != nil {
					rep.Stat("cells-run-again")
					for s, p := range again.problems {
						if _, had := res.problems[s]; !had && p.Exact && p.Class != "infra" {
							p.replay["reproduced_on_rerun"] = false
							addFinding(hx.Finding{Kind: "oracle", Property: "C05", Signature: p.Sig, What: p.What, Replay: p.replay})
						}
					}
					if len(res.infra) > 0 && len(again.infra) > 0 {
						addFinding(hx.Finding{Kind: "oracle", Property: "C05", Signature: "overlap-harness-cell-failed", What: fmt.Sprintf("[%s] %v", j.cell, again.infra),
							Replay: map[string]interface{}{"harness": "overlap", "cell": j.cell, "cell_seed": j.seed, "engine_stop_phase": j.stop}})
					}
				}
				if serious >= 6 {
					atomic.StoreInt32(&stop, 1)
				}
				mu.Unlock()
			}
		}()
	}
	for _, j := range jobs {
		ch <- j
	}
	close(ch)
	wg.Wait()
	rep.Ops = rep.Stats["callbacks.H"] + rep.Stats["callbacks.M"] + rep.Stats["callbacks.D"] + rep.Stats["callbacks.P"] + rep.Stats["callbacks.Q"] +
		rep.Stats["callbacks.C"] + rep.Stats["callbacks.X"] + rep.Stats["callbacks.O"] + rep.Stats["callbacks.E"]
	rep.Write(*out)
	_ = os.Stdout
}
