package main

import "verifharness/hx"

func runGateTier(rep *hx.Report, seed int64, n int, only int64, mpath string) {}
