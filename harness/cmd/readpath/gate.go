package main

// Tier G: the real Conn.AsyncRead gate (ET + AsyncReadInPoller, not ONESHOT) under the cooperative scheduler.
//
// One managed thread plays the poller: it lets bytes arrive on the peer end of a real non-blocking socket pair, shuts the
// peer's sending side down, and dispatches readiness events the way poller.readWriteLoop does (nbio.VerifRPAsyncEvent).
// The read tasks handed to IOExecute run as managed threads.  Scheduling points: every acquisition of Conn.mux, every
// atomic operation on readEvents / readEOF (overlay/rules_readpath.py) and explicit yields of the poller thread between
// its steps.  The schedule is drawn from the case seed, so a case is replayed by its seed.
//
//	oracle (implementation alone): never two read tasks at once; readEvents in {0,1,2} at every operation; the run
//	terminates (nobody spins); at the end everything that arrived was delivered, in order, exactly once; readEvents is 0
//	or the connection was closed; after a half-close the connection is closed, and only after the last byte.
//	correspondence: the recorded linearisation points, in the order they happened, are replayed as actions of the
//	extracted gate LTS (coq/readpath/Gate.v): every action must be enabled in the model, and readEvents, the number of
//	bytes delivered by every read, the close and the final delivered sequence must agree.

import (
	"bytes"
	"fmt"
	"math/rand"
	"strings"
	"syscall"

	"github.com/lesismal/nbio"
	"github.com/lesismal/nbio/verifsched"
	"verifharness/hx"
)

type gEvent struct {
	Op    string `json:"op"` // arrive eof mod take mark gate spawn read check dec rearm close
	A     int    `json:"a,omitempty"`
	B     int    `json:"b,omitempty"`
	R     int    `json:"readEvents"`
	Ready bool   `json:"ready"` // the harness's epoll: the descriptor is on the ready list
	Armed bool   `json:"armed"`
	Bytes []byte `json:"-"`
	Th    string `json:"thread"`
}

type gateCase struct {
	Seed     int64    `json:"case_seed"`
	BufLen   int      `json:"read_buffer"`
	Oneshot  bool     `json:"oneshot"`
	Script   []string `json:"poller_script"`
	Events   []string `json:"events,omitempty"`
	Schedule []int    `json:"schedule,omitempty"`
}

func runGateTier(rep *hx.Report, seed int64, n int, only int64, mpath string) {
	var model *hx.Model
	if mpath != "" {
		model = hx.StartModel(mpath)
		defer model.Close()
	} else {
		rep.Stat("G.no-model")
	}
	defer func() { nbio.VerifReadHook = nil }()
	if only >= 0 {
		runGateCase(rep, only, model, true)
		return
	}
	for i := 0; i < n && !rep.TooMany(); i++ {
		runGateCase(rep, seed*1000003+int64(i), model, false)
	}
}

func runGateCase(rep *hx.Report, cseed int64, model *hx.Model, verbose bool) {
	r := rand.New(rand.NewSource(cseed))
	fds, err := syscall.Socketpair(syscall.AF_UNIX, syscall.SOCK_STREAM|syscall.SOCK_NONBLOCK|syscall.SOCK_CLOEXEC, 0)
	if err != nil {
		hx.Fatal("socketpair: %v", err)
	}
	peer := fds[1]
	peerOpen := true
	defer func() {
		if peerOpen {
			syscall.Close(peer)
		}
	}()
	bufLen := 1 + r.Intn(16)
	oneshot := r.Intn(2) == 0
	gc := &gateCase{Seed: cseed, BufLen: bufLen, Oneshot: oneshot}

	conf := nbio.Config{NPoller: 1, EpollMod: nbio.EPOLLET, AsyncReadInPoller: true, ReadBufferSize: bufLen}
	if oneshot {
		conf.EPOLLONESHOT = nbio.EPOLLONESHOT
	}
	g := nbio.NewEngine(conf)
	nbio.VerifRPPrepareEngine(g, fds[0]+8)

	var (
		events    []gEvent
		delivered []byte
		sent      []byte
		running   int
		maxRun    int
		started   int
		ended     int
		closedCb  int
		badR      string
		eofSent   bool
		casRetry  int
		spawned   int
		nread     int
		marks     int
		doneReading = map[string]bool{}
		// the epoll side, simulated (K3): ET queues the descriptor on every arrival / shutdown; one-shot only while armed,
		// reporting disarms, every EPOLL_CTL_MOD arms and queues it iff it is readable
		armed = true
		ready bool
	)
	var c *nbio.Conn
	thName := func() string {
		if t := verifsched.Self(); t != nil {
			return t.Name
		}
		return "?"
	}
	rec := func(e gEvent) {
		e.R = int(nbio.VerifReadEvents(c))
		e.Th = thName()
		e.Ready, e.Armed = ready, armed
		if (e.R < 0 || e.R > 2) && badR == "" {
			badR = fmt.Sprintf("readEvents = %d after %s (event %d)", e.R, e.Op, len(events))
		}
		events = append(events, e)
	}
	kernelMod := func() {
		armed = true
		if len(sent)-nread > 0 || eofSent {
			ready = true
		}
	}
	g.IOExecute = func(f func(*[]byte)) {
		spawned++
		rec(gEvent{Op: "spawn"})
		verifsched.Go(func() {
			started++
			running++ // tasks that may still read: a task that has lowered the counter to 0 only re-arms
			if running > maxRun {
				maxRun = running
			}
			b := make([]byte, bufLen)
			f(&b)
			if th := thName(); doneReading[th] {
				delete(doneReading, th)
			} else {
				running--
			}
			ended++
		})
	}
	g.OnDataPtr(func(_ *nbio.Conn, p *[]byte) { delivered = append(delivered, *p...) })
	g.OnClose(func(_ *nbio.Conn, err error) { closedCb++ })
	c = nbio.VerifRPNewConn(g, fds[0])
	nbio.VerifReadHook = func(hc *nbio.Conn, op string, a, b int, ok bool) {
		if hc != c {
			return
		}
		switch op {
		case "load":
			if a >= 2 {
				rec(gEvent{Op: "gate", A: a}) // the event is dropped: two units are already owed
			}
		case "cas":
			if ok {
				rec(gEvent{Op: "gate", A: a, B: b})
			} else {
				casRetry++
			}
		case "add":
			if a == 0 {
				doneReading[thName()] = true
				running--
			}
			rec(gEvent{Op: "dec", A: a})
		case "eofload":
			rec(gEvent{Op: "check", A: a})
		case "eofstore":
			marks++
			if marks == 1 { // storing 1 again on a later event with RDHUP changes nothing: not an action of the model
				rec(gEvent{Op: "mark"})
			}
		case "read":
			if b > 0 {
				nread += b
			}
			rec(gEvent{Op: "read", A: a, B: b})
		case "rearm":
			if !nbio.VerifClosed(c) {
				kernelMod()
			}
			rec(gEvent{Op: "rearm"})
		}
	}

	// the poller's script
	nev := 2 + r.Intn(5)
	half := r.Intn(3) > 0 // two thirds of the cases end with a half-close
	type pstep struct {
		kind string // arrive event eof
		n    int
		in   bool
	}
	var script []pstep
	next := byte(1)
	for e := 0; e < nev; e++ {
		na := 1 + r.Intn(3)
		for a := 0; a < na; a++ {
			k := 1 + r.Intn(40)
			switch r.Intn(5) {
			case 0:
				k = bufLen
			case 1:
				k = 2 * bufLen
			case 2:
				k = 1 + r.Intn(2*bufLen+2)
			}
			script = append(script, pstep{kind: "arrive", n: k})
			if oneshot && r.Intn(4) == 0 {
				script = append(script, pstep{kind: "mod"}) // a Write / flush of the application re-arms the descriptor
			}
		}
		script = append(script, pstep{kind: "event"})
		if oneshot && r.Intn(3) == 0 {
			script = append(script, pstep{kind: "mod"}, pstep{kind: "event"})
		}
	}
	if half {
		for a := r.Intn(3); a > 0; a-- {
			script = append(script, pstep{kind: "arrive", n: 1 + r.Intn(3*bufLen)})
		}
		script = append(script, pstep{kind: "eof", in: r.Intn(4) > 0}, pstep{kind: "event"})
	}
	for _, st := range script {
		gc.Script = append(gc.Script, fmt.Sprintf("%s %d %v", st.kind, st.n, st.in))
	}

	var sched []int
	s := verifsched.New(func(en []int) int {
		k := r.Intn(len(en))
		sched = append(sched, k)
		return k
	})
	s.Exclusive = true
	s.MaxSteps = 20000
	// the critical section of closeWithError that sets Conn.closed is the linearisation point of the close
	closeSeen := false
	cmux := nbio.VerifSchedConnMutex(c)
	s.OnRelease = func(_ *verifsched.Thread, m *verifsched.Mutex) {
		if m == cmux && !closeSeen && nbio.VerifClosed(c) {
			closeSeen = true
			rec(gEvent{Op: "close"})
			ready, armed = false, false // the descriptor is about to be closed: nothing is reported for it any more
		}
	}
	raise := func() {
		if !oneshot || armed {
			ready = true
		}
	}
	eofIn := true
	dispatch := func() { // epoll_wait reports the descriptor
		ready = false
		if oneshot {
			armed = false
		}
		rec(gEvent{Op: "take"})
		nbio.VerifRPAsyncEvent(c, !eofSent || eofIn, eofSent)
	}
	s.Go("poller", func() {
		for _, st := range script {
			switch st.kind {
			case "arrive":
				b := make([]byte, st.n)
				for i := range b {
					b[i] = next
					next++
					if next == 0 {
						next = 1
					}
				}
				if _, err := syscall.Write(peer, b); err != nil {
					hx.Fatal("gate: write to the peer end: %v", err)
				}
				sent = append(sent, b...)
				raise()
				rec(gEvent{Op: "arrive", A: st.n, Bytes: b})
			case "event":
				if ready {
					dispatch()
				}
			case "eof":
				syscall.Shutdown(peer, syscall.SHUT_WR)
				eofSent = true
				eofIn = st.in
				raise()
				rec(gEvent{Op: "eof"})
			case "mod":
				if !nbio.VerifClosed(c) {
					kernelMod()
					rec(gEvent{Op: "mod"})
				}
			}
			verifsched.Yield()
			if r.Intn(3) == 0 {
				verifsched.Yield()
			}
		}
		// the poller keeps serving what epoll reports until nothing is left to report and no task is running
		for {
			verifsched.WaitUntil(func() bool { return ready || spawned == ended })
			if !ready {
				break
			}
			dispatch()
			verifsched.Yield()
		}
	})
	terminated := s.Run()
	nbio.VerifReadHook = nil
	gc.Schedule = sched
	closed := nbio.VerifClosed(c)
	finalR := int(nbio.VerifReadEvents(c))
	if !closed {
		// not through Conn.Close: its close notification would run on an unmanaged goroutine into the next case's
		// exclusive scheduler run; the Conn object is dropped with its engine
		syscall.Close(fds[0])
	}
	for _, e := range events {
		gc.Events = append(gc.Events, fmt.Sprintf("%s:%s %d %d r=%d", e.Th, e.Op, e.A, e.B, e.R))
	}
	if verbose {
		fmt.Printf("gate case %d: buf=%d script=%v\nevents=%v\nterminated=%v closed=%v r=%d delivered %d of %d tasks %d max %d\n",
			cseed, bufLen, gc.Script, gc.Events, terminated, closed, finalR, len(delivered), len(sent), started, maxRun)
	}
	rep.Ops += len(events)
	contended := false
	for _, e := range events {
		if e.Op == "gate" && e.A >= 1 {
			contended = true
		}
	}
	rep.Case(fmt.Sprint(gc.Script, sched), contended)
	rep.Stat("G.cases")
	if contended {
		rep.Stat("G.event-while-task-alive")
	}
	if half {
		rep.Stat("G.half-close")
	}
	if oneshot {
		rep.Stat("G.oneshot")
	}
	if casRetry > 0 {
		rep.Stat("G.cas-lost-against-the-task's-decrement")
	}
	if started > 1 {
		rep.Stat("G.task-ended-and-a-later-event-started-another")
	}
	for _, e := range events {
		switch {
		case e.Op == "gate" && e.B == 0 && e.A >= 2:
			rep.Stat("G.event-dropped-at-2")
		case e.Op == "gate" && e.A == 1:
			rep.Stat("G.raised-1-to-2")
		case e.Op == "dec" && e.A >= 1:
			rep.Stat("G.task-makes-another-pass")
		case e.Op == "mark" && e.R == 0:
			rep.Stat("G.half-close-with-no-task-alive")
		case e.Op == "mark" && e.R >= 1:
			rep.Stat("G.half-close-while-task-alive")
		case e.Op == "check" && e.A == 1:
			rep.Stat("G.task-sees-readEOF")
		case e.Op == "mod" && e.R >= 1:
			rep.Stat("G.oneshot-rearmed-by-the-write-side-while-a-task-is-alive")
		case e.Op == "rearm":
			rep.Stat("G.oneshot-task-rearms")
		}
	}
	if rep.Cases%997 == 0 {
		rep.Sample(gc)
	}

	// the observer hooks must have fired: without them the schedule exploration and the correspondence are blind
	nGate, nRead := 0, 0
	for _, e := range events {
		if e.Op == "gate" {
			nGate++
		}
		if e.Op == "read" {
			nRead++
		}
	}
	if nGate == 0 || (started > 0 && nRead == 0) {
		rep.Add(hx.Finding{Kind: "mismatch", Property: "C02", Signature: "gate-hooks-missing",
			What: fmt.Sprintf("gate case %d: AsyncRead ran (%d tasks) but %d gate operations and %d reads were observed: the overlay rules of "+
				"overlay/rules_readpath.py no longer match the atomic operations / the read call of conn_unix.go", cseed, started, nGate, nRead),
			Replay: map[string]interface{}{"case": gc}})
		return
	}

	// ---- oracle on the implementation alone
	add := func(sig, what string) {
		rep.Add(hx.Finding{Kind: "oracle", Property: "C02", Signature: sig, What: fmt.Sprintf("gate case %d: %s", cseed, what),
			Replay: map[string]interface{}{"case": gc, "rerun": fmt.Sprintf("readpath -noreal -gateseed %d", cseed)}})
	}
	if !terminated {
		add("idle-spin-gate", fmt.Sprintf("the run does not end within %d scheduling steps: %v (readEvents = %d): a read task never terminates", s.MaxSteps, s.Stuck(), finalR))
	}
	if maxRun > 1 {
		add("two-readers", fmt.Sprintf("%d read tasks of one connection ran at the same time", maxRun))
	}
	if badR != "" {
		add("gate-counter-out-of-range", badR)
	}
	if terminated {
		switch {
		case !bytes.Equal(delivered, sent) && len(delivered) < len(sent) && bytes.Equal(delivered, sent[:len(delivered)]):
			if closed {
				add("tail-lost-at-eof-gate", fmt.Sprintf("%d of %d bytes delivered and the connection is closed", len(delivered), len(sent)))
			} else {
				add("stall-gate", fmt.Sprintf("%d of %d bytes delivered, no task is alive and no event is owed (readEvents = %d): a readiness edge was lost", len(delivered), len(sent), finalR))
			}
		case !bytes.Equal(delivered, sent):
			add("lost-or-reordered-bytes-gate", fmt.Sprintf("delivered %d bytes, sent %d, content differs", len(delivered), len(sent)))
		}
		if !closed && finalR != 0 {
			add("gate-counter-out-of-range", fmt.Sprintf("readEvents = %d at quiescence with the connection open (must be 0)", finalR))
		}
		if eofSent && !closed {
			add("stall-gate", "the peer shut down its sending side and the event was dispatched, but the connection was never closed")
		}
		if oneshot && !closed && !armed {
			add("stall-gate", "one-shot: at quiescence the connection is open and its descriptor is disarmed: no event can ever be reported again")
		}
		if !eofSent && closed {
			add("lost-or-reordered-bytes-gate", "the connection was closed although the peer never shut down")
		}
	}

	// ---- correspondence with the extracted LTS
	if model == nil || !terminated {
		return
	}
	mism := func(what string) {
		rep.Add(hx.Finding{Kind: "mismatch", Property: "C02", Signature: "gatemodel", What: fmt.Sprintf("gate case %d: %s", cseed, what),
			Replay: map[string]interface{}{"case": gc, "rerun": fmt.Sprintf("readpath -noreal -gateseed %d -model <path>", cseed)}})
	}
	if oneshot {
		model.Ask("reset 1")
	} else {
		model.Ask("reset 0")
	}
	nd := 0
	for i, e := range events {
		var ans string
		switch e.Op {
		case "arrive":
			parts := make([]string, len(e.Bytes))
			for k, b := range e.Bytes {
				parts[k] = fmt.Sprint(int(b))
			}
			ans = model.Ask("arrive %s", strings.Join(parts, " "))
		case "read":
			ans = model.Ask("read %d", e.A)
			if e.B > 0 {
				nd += e.B
			}
		default:
			ans = model.Ask("%s", e.Op)
		}
		var en, mr, sp, ed, fl, cl, mnd, mna, mnt, mar, mre, mh int
		var ph string
		if _, err := fmt.Sscanf(ans, "%d r=%d t=%s sp=%d e=%d f=%d c=%d nd=%d na=%d nt=%d ar=%d re=%d h=%d", &en, &mr, &ph, &sp, &ed, &fl, &cl, &mnd, &mna, &mnt, &mar, &mre, &mh); err != nil {
			hx.Fatal("model answer %q: %v", ans, err)
		}
		if en != 1 {
			mism(fmt.Sprintf("event %d (%s by %s): the implementation took a step that is not enabled in the model (model state: %s)", i, e.Op, e.Th, ans))
			return
		}
		// the hook runs right behind the operation, so the counter it saw is the model's counter after the action
		// (spawn: the hand-over itself does not touch the counter)
		if mr != e.R {
			mism(fmt.Sprintf("event %d (%s by %s): readEvents = %d, model %d (%s)", i, e.Op, e.Th, e.R, mr, ans))
			return
		}
		if cl == 0 && ((ed == 1) != e.Ready || (mar == 1) != e.Armed) {
			mism(fmt.Sprintf("event %d (%s by %s): epoll side ready=%v armed=%v, model edge=%d armed=%d (%s)", i, e.Op, e.Th, e.Ready, e.Armed, ed, mar, ans))
			return
		}
		if mnd != nd {
			mism(fmt.Sprintf("event %d (%s): %d bytes read so far, model %d (%s)", i, e.Op, nd, mnd, ans))
			return
		}
	}
	ans := model.Ask("gate") // a disabled probe: only to read the final state
	var en, mr, sp, ed, fl, cl, mnd, mna, mnt, mar, mre, mh int
	var ph string
	fmt.Sscanf(ans, "%d r=%d t=%s sp=%d e=%d f=%d c=%d nd=%d na=%d nt=%d ar=%d re=%d h=%d", &en, &mr, &ph, &sp, &ed, &fl, &cl, &mnd, &mna, &mnt, &mar, &mre, &mh)
	if en != 0 || ph != "N" || sp != 0 || (ed != 0 && cl == 0) || mre != 0 || mh != 0 {
		mism(fmt.Sprintf("the implementation is quiescent (all threads ended) but the model is not: %s", ans))
		return
	}
	if (cl == 1) != closed {
		mism(fmt.Sprintf("closed = %v, model closed = %d (%s)", closed, cl, ans))
	}
	md := model.Ask("delivered")
	var want []byte
	for _, f := range strings.Fields(md) {
		var v int
		fmt.Sscan(f, &v)
		want = append(want, byte(v))
	}
	if !bytes.Equal(want, delivered) {
		mism(fmt.Sprintf("delivered sequence differs from the model's (%d vs %d bytes)", len(delivered), len(want)))
	}
}
