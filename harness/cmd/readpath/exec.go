package main

// Read buffers the engine is given by the application: custom IOExecute variants (asynchronous reading) and
// OnReadBufferAlloc / OnReadBufferFree hooks (synchronous reading), with the oracles on them.
//
//	kinds for Config.IOExecute (cells with a custom executor and ET + AsyncReadInPoller):
//	  fresh      one goroutine per task, a fresh buffer of ReadBufferSize bytes
//	  arena      windows arena[i*n:(i+1)*n] of ONE arena (len n < cap): an over-long read lands in the neighbour's window;
//	             windows are handed out from the top, so that the neighbour above is the one most likely in use
//	  varlen     a buffer of another length for every task (some shorter than ReadBufferSize), len < cap, the spare
//	             capacity is a canary region that nobody may write
//	  sync       the task runs on the caller (the poller), like taskpool.IOTaskPool.Call
//	  reorder    tasks (always of different connections: the gate admits one per connection) are started late and
//	             newest first
//	kinds for the read-buffer hooks (cells with the custom flag that read synchronously):
//	  hook-arena        OnReadBufferAlloc hands out arena windows (len n < cap) behind a fresh slice header per call
//	  hook-arena-keep   the same windows behind slice headers that are kept and handed out again as they came back
//	  hook-varlen       buffers of varying length with a canary behind them
//
//	oracles: a chunk handed to the data callback is never longer than the buffer it was read into
//	(chunk-larger-than-buffer); nothing is written behind a buffer's length (read-beyond-buffer-length: canaries);
//	the executor gets its buffer back with the length it had (executor-buffer-length-changed); the data callbacks of some
//	connections hold their slice for a few ms and find it unchanged afterwards (callback-data-overwritten).

import (
	"fmt"
	"math/rand"
	"sync"
	"sync/atomic"
	"time"

	"github.com/lesismal/nbio"
)

const canaryLen = 48

type bufSource struct {
	Kind string `json:"buffers"`
	n    int // the configured buffer length (ReadBufferSize)
	udp  bool

	mu       sync.Mutex
	arena    []byte
	free     []int    // stack of free windows; the top is the highest free index
	hdrs     [][]byte // hook-arena-keep: the kept slice headers
	lens     sync.Map // *[]byte -> configured length of the buffer behind the pointer
	backing  sync.Map // *[]byte -> the allocation whose tail is the canary
	window   sync.Map // *[]byte -> arena window index
	problems map[string]string
	seq      int64
	stack    []func() // reorder: pending tasks
	stop     chan struct{}
	wake     chan struct{}
	nExec    int64
}

const arenaWindows = 24

var (
	execKinds = []string{"arena", "varlen", "arena", "reorder", "sync", "varlen", "fresh"}
	hookKinds = []string{"hook-arena", "hook-varlen", "hook-arena-keep"}
)

// newBufSource: in the full matrix the kind is drawn per cell; in the rotating subset it is a function of the seed and of
// the (mode, transport) of the cell, so that every run has the arena and the varying-length executor in ET and in
// one-shot mode and every hook kind; force != "" overrides (replay).
func newBufSource(c cell, r *rand.Rand, seed int64, full bool, force string) *bufSource {
	s := &bufSource{Kind: "default", n: c.effRBS(), udp: c.Transport == "udp", problems: map[string]string{}}
	pick := r.Intn(1 << 20) // always drawn: the cell's other random choices do not depend on the kind
	if !c.Custom {
		return s
	}
	tr := 0
	for k, t := range transports {
		if t == c.Transport {
			tr = k
		}
	}
	if c.Async && c.Mode != 0 {
		j := (c.Mode-1)*3 + tr
		if full {
			s.Kind = execKinds[pick%len(execKinds)]
		} else {
			s.Kind = execKinds[(j+int(seed%6)+6)%6] // the first six: fresh only in the full matrix
		}
	} else {
		j := c.Mode*3 + tr + b2i(c.Async)
		if full {
			s.Kind = hookKinds[pick%len(hookKinds)]
		} else {
			s.Kind = hookKinds[(j+int(seed%3)+3)%3]
		}
	}
	if force != "" {
		s.Kind = force
	}
	switch s.Kind {
	case "arena", "hook-arena", "hook-arena-keep":
		s.arena = make([]byte, arenaWindows*s.n)
		for i := 0; i < arenaWindows; i++ {
			s.free = append(s.free, i)
			s.hdrs = append(s.hdrs, s.arena[i*s.n:(i+1)*s.n])
		}
	case "reorder":
		s.stop = make(chan struct{})
		s.wake = make(chan struct{}, 1024)
		for w := 0; w < 2; w++ {
			go s.worker()
		}
	}
	return s
}

func (s *bufSource) problem(sig, what string) {
	s.mu.Lock()
	if _, ok := s.problems[sig]; !ok {
		s.problems[sig] = what
	}
	s.mu.Unlock()
}

func (s *bufSource) close() {
	if s.stop != nil {
		close(s.stop)
	}
}

// lenOf: the length the buffer behind p was handed out with (the configured length if p is not one of ours)
func (s *bufSource) lenOf(p *[]byte) int {
	if p != nil {
		if v, ok := s.lens.Load(p); ok {
			return v.(int)
		}
	}
	return s.n
}

// needPtr: the per-buffer length is only known through the pointer the callback gets
func (s *bufSource) needPtr() bool { return s.Kind == "varlen" || s.Kind == "hook-varlen" }

func (s *bufSource) takeWindow() int {
	s.mu.Lock()
	defer s.mu.Unlock()
	if len(s.free) == 0 {
		return -1
	}
	// highest free index
	hi, at := -1, -1
	for k, i := range s.free {
		if i > hi {
			hi, at = i, k
		}
	}
	s.free = append(s.free[:at], s.free[at+1:]...)
	return hi
}

func (s *bufSource) putWindow(i int) {
	s.mu.Lock()
	s.free = append(s.free, i)
	s.mu.Unlock()
}

func (s *bufSource) varLen(id int64) int {
	min := 1 + s.n/64 // not absurdly small for a large configured size: a read per byte of a 600 KB stream costs seconds
	if s.udp && min < 3 {
		min = 3
	}
	opts := []int{s.n, s.n, s.n - 1, s.n/2 + 1, min, s.n/3 + 1}
	l := opts[int(id)%len(opts)]
	if l < min {
		l = min
	}
	if l > s.n {
		l = s.n
	}
	return l
}

func (s *bufSource) varBuf() (*[]byte, int) {
	id := atomic.AddInt64(&s.seq, 1)
	l := s.varLen(id)
	back := make([]byte, l+canaryLen)
	for i := l; i < len(back); i++ {
		back[i] = 0xA5
	}
	b := back[:l]
	p := &b
	s.lens.Store(p, l)
	s.backing.Store(p, back)
	return p, l
}

func (s *bufSource) checkVar(p *[]byte, l int, who string) {
	if v, ok := s.backing.Load(p); ok {
		back := v.([]byte)
		for i := l; i < len(back); i++ {
			if back[i] != 0xA5 {
				s.problem("read-beyond-buffer-length", fmt.Sprintf("%s: a buffer of %d bytes (cap %d) was handed to the engine and byte %d behind its length was overwritten", who, l, len(back), i-l))
				break
			}
		}
	}
	s.backing.Delete(p)
	s.lens.Delete(p)
}

// run executes one read task with a buffer of this source's kind and checks the buffer afterwards
func (s *bufSource) runTask(f func(*[]byte)) {
	atomic.AddInt64(&s.nExec, 1)
	switch s.Kind {
	case "arena":
		i := s.takeWindow()
		if i < 0 {
			b := make([]byte, s.n)
			f(&b)
			return
		}
		b := s.arena[i*s.n : (i+1)*s.n]
		p := &b
		s.lens.Store(p, s.n)
		f(p)
		s.lens.Delete(p)
		if len(b) != s.n {
			s.problem("executor-buffer-length-changed", fmt.Sprintf("IOExecute handed the read task a window of %d bytes (cap %d) of its arena and got it back with length %d", s.n, cap(s.arena[i*s.n:(i+1)*s.n]), len(b)))
		}
		s.putWindow(i)
	case "varlen":
		p, l := s.varBuf()
		f(p)
		if len(*p) != l {
			s.problem("executor-buffer-length-changed", fmt.Sprintf("IOExecute handed the read task a buffer of %d bytes (cap %d) and got it back with length %d", l, l+canaryLen, len(*p)))
		}
		s.checkVar(p, l, "IOExecute")
	default:
		b := make([]byte, s.n)
		f(&b)
		if len(b) != s.n {
			s.problem("executor-buffer-length-changed", fmt.Sprintf("IOExecute handed the read task a buffer of %d bytes and got it back with length %d", s.n, len(b)))
		}
	}
}

func (s *bufSource) worker() {
	for {
		select {
		case <-s.stop:
			return
		case <-s.wake:
		}
		time.Sleep(time.Duration(50+rand.Intn(250)) * time.Microsecond) // let more tasks pile up
		s.mu.Lock()
		var t func()
		if n := len(s.stack); n > 0 {
			t = s.stack[n-1] // newest first
			s.stack = s.stack[:n-1]
		}
		s.mu.Unlock()
		if t != nil {
			t()
		}
	}
}

// ioExecute: the Config.IOExecute of this source (nil: the engine's default pool)
func (s *bufSource) ioExecute() func(f func(*[]byte)) {
	switch s.Kind {
	case "fresh", "arena", "varlen":
		return func(f func(*[]byte)) { go s.runTask(f) }
	case "sync":
		return func(f func(*[]byte)) { s.runTask(f) }
	case "reorder":
		return func(f func(*[]byte)) {
			s.mu.Lock()
			s.stack = append(s.stack, func() { s.runTask(f) })
			s.mu.Unlock()
			s.wake <- struct{}{}
		}
	}
	return nil
}

// hooks installs OnReadBufferAlloc / OnReadBufferFree (synchronous reading borrows a buffer for every read)
func (s *bufSource) hooks(g *nbio.Engine) {
	switch s.Kind {
	case "hook-arena":
		g.OnReadBufferAlloc(func(c *nbio.Conn) *[]byte {
			atomic.AddInt64(&s.nExec, 1)
			i := s.takeWindow()
			if i < 0 {
				b := make([]byte, s.n)
				return &b
			}
			b := s.arena[i*s.n : (i+1)*s.n]
			p := &b
			s.lens.Store(p, s.n)
			s.window.Store(p, i)
			return p
		})
		g.OnReadBufferFree(func(c *nbio.Conn, p *[]byte) {
			if v, ok := s.window.Load(p); ok {
				s.window.Delete(p)
				s.lens.Delete(p)
				s.putWindow(v.(int))
			}
		})
	case "hook-arena-keep":
		// the application keeps its slice headers: what it gets back in OnReadBufferFree is what it hands out next time
		g.OnReadBufferAlloc(func(c *nbio.Conn) *[]byte {
			atomic.AddInt64(&s.nExec, 1)
			i := s.takeWindow()
			if i < 0 {
				b := make([]byte, s.n)
				return &b
			}
			p := &s.hdrs[i]
			s.lens.Store(p, s.n)
			s.window.Store(p, i)
			return p
		})
		g.OnReadBufferFree(func(c *nbio.Conn, p *[]byte) {
			if v, ok := s.window.Load(p); ok {
				if len(*p) != s.n {
					s.problem("executor-buffer-length-changed", fmt.Sprintf("OnReadBufferAlloc handed out a window of %d bytes (cap %d) of its arena; OnReadBufferFree got it back with length %d: the next read through this slice header goes into the neighbouring windows", s.n, cap(*p), len(*p)))
				}
				s.window.Delete(p)
				s.lens.Delete(p)
				s.putWindow(v.(int))
			}
		})
	case "hook-varlen":
		type vb struct{ l int }
		var m sync.Map
		g.OnReadBufferAlloc(func(c *nbio.Conn) *[]byte {
			atomic.AddInt64(&s.nExec, 1)
			p, l := s.varBuf()
			m.Store(p, vb{l})
			return p
		})
		g.OnReadBufferFree(func(c *nbio.Conn, p *[]byte) {
			if v, ok := m.Load(p); ok {
				m.Delete(p)
				s.checkVar(p, v.(vb).l, "OnReadBufferAlloc")
			}
		})
	}
}

// holder: a data callback that keeps its slice for a moment and looks at it again
type holder struct {
	on    bool
	count int32
}

func (h *holder) hold(s *bufSource, who string, data []byte) {
	if !h.on || len(data) == 0 {
		return
	}
	k := atomic.AddInt32(&h.count, 1)
	if k > 3 && (k%24 != 0 || k > 200) {
		return
	}
	cp := append([]byte(nil), data...)
	time.Sleep(time.Duration(800+200*int(k%4)) * time.Microsecond)
	for i := range cp {
		if cp[i] != data[i] {
			s.problem("callback-data-overwritten", fmt.Sprintf("%s: the %d bytes handed to the data callback changed while the callback was still running (byte %d: 0x%02x on entry, 0x%02x %d us later): another read wrote into the same memory", who, len(cp), i, cp[i], data[i], 800+200*int(k%4)))
			return
		}
	}
}
