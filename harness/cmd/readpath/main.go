// Harness for C02 (inbound delivery integrity in every poller configuration and transport; UDP demultiplexing;
// idle readers).
//
//	(R) real-socket matrix, implementation-only oracle (real.go): real engines on loopback TCP / Unix / UDP sockets in
//	    {LT, ET, ET+ONESHOT} x {sync, AsyncReadInPoller} x {default, custom IOExecute} x NPoller x ReadBufferSize x
//	    MaxConnReadTimesPerEventLoop; peers send position-tagged streams / numbered datagrams in bursts with pauses and
//	    half-close; what OnData / OnDataPtr received per connection must be exactly what was sent; after the traffic the
//	    process must be idle (CPU time over a window).
//	(G) the real Conn.AsyncRead gate under the cooperative scheduler (gate.go): random schedules of poller events
//	    against the read task on a real non-blocking socket pair; oracle on the implementation (one reader, counter in
//	    {0,1,2}, everything delivered at quiescence, termination) and step-by-step correspondence with the extracted
//	    gate LTS of coq/readpath/Gate.v.
package main

import (
	"flag"
	"fmt"
	"math/rand"
	"os"
	"strings"

	"github.com/lesismal/nbio"
	"github.com/lesismal/nbio/logging"
	"verifharness/hx"
)

type quiet struct{}

func (quiet) SetLevel(int)                 {}
func (quiet) Debug(string, ...interface{}) {}
func (quiet) Info(string, ...interface{})  {}
func (quiet) Warn(string, ...interface{})  {}
func (quiet) Error(string, ...interface{}) {}

func main() {
	seed := flag.Int64("seed", 1, "")
	per := flag.Int("n", 2, "(R) completions per (mode, read kind, transport) combination in the rotating subset")
	mpath := flag.String("model", "", "extracted gate model (tier G correspondence)")
	out := flag.String("out", "-", "")
	full := flag.Bool("full", false, "(R) the full matrix instead of the rotating subset")
	only := flag.String("cell", "", "(R) run only the cell with this name (replay)")
	reps := flag.Int("reps", 3, "(R) fresh engines per ONESHOT cell")
	gate := flag.Int("gate", 3000, "(G) number of random schedules of the AsyncRead gate (0 = skip)")
	gateSeed := flag.Int64("gateseed", -1, "(G) run only this schedule seed (replay)")
	noreal := flag.Bool("noreal", false, "skip tier R")
	buffers := flag.String("buffers", "", "(R) replay: force this kind of read buffers in cells with the custom flag (see exec.go)")
	noHC := flag.Bool("nohcnow", false, "(R) debugging aid: peers never half-close right behind their last burst")
	idleMs := flag.Int("idle", 120, "(R) idle window in ms (re-measured with 300 ms before reporting)")
	flag.Parse()
	logging.SetLogger(quiet{})
	// every engine allocates a connection table of MaxOpenFiles pointers (16 MiB by default): with hundreds of engines the
	// collector's work on these tables would drown the idle-CPU measurement. Descriptors stay far below this bound.
	nbio.MaxOpenFiles = 16384

	rep := hx.NewReport("readpath", *seed)
	rep.Rule = "(R) cell = epoll mode x sync/async read x default/custom IOExecute x NPoller{1,2,4} x ReadBufferSize{7,512,default} x " +
		"MaxConnReadTimesPerEventLoop{1,3,default} x {tcp,unix,udp}; quick: for each of the 18 (mode, read kind, transport) combinations -n " +
		"completions drawn from the seed, thorough: all 972; stream cells: 2-4 peers (accepted, one added with AddConn) send position-tagged " +
		"streams in bursts around the buffer-size and read-limit thresholds with pauses, then half-close at once / half-close later / stay open; " +
		"udp cells: 2-4 remotes send numbered datagrams of 3..min(buffer,1400) bytes in bursts of 6-20 (short-then-long pairs, some longer " +
		"than the read buffer: cut to the buffer's length and nothing shorter); cells with the custom flag get a custom IOExecute (arena windows with " +
		"len < cap, buffers of varying length with a canary behind them, synchronous, late and reordered, fresh) or, where reading is synchronous, " +
		"OnReadBufferAlloc/Free hooks (arena windows behind fresh or kept slice headers, varying lengths): kinds rotate with the seed; every other " +
		"connection's data callback holds its slice for about a millisecond and compares it afterwards; LockPoller in a quarter of the cells; ONESHOT cells run " +
		"-reps fresh engines; non-trivial = more bytes than one read buffer / more than one datagram per remote; " +
		"(G) random schedules of 2-6 readiness events (each after 0-3 arrivals of 1-40 bytes, read buffer 1-16) against the real AsyncRead " +
		"gate; non-trivial = at least one event arrives while a read task is alive"

	if !*noreal {
		dir, err := os.MkdirTemp("", "readpath")
		if err != nil {
			hx.Fatal("tempdir: %v", err)
		}
		defer os.RemoveAll(dir)
		cells := allCells()
		var pick []cell
		switch {
		case *only != "":
			for _, c := range cells {
				if c.Name() == *only {
					pick = append(pick, c)
				}
			}
			if len(pick) == 0 {
				hx.Fatal("no cell named %q (e.g. %q)", *only, cells[0].Name())
			}
		case *full:
			pick = cells
		default:
			pick = subset(cells, *seed, *per)
		}
		rt := &realTier{rep: rep, dir: dir, reps: *reps, idle: *idleMs, seed: *seed, noHCNow: *noHC, full: *full, buffers: *buffers}
		for i, c := range pick {
			if rt.tooMany() {
				break
			}
			rt.runCell(c, rand.New(rand.NewSource(*seed*1000003+int64(c.Index())*7919+int64(i))))
		}
		rep.Extra["real_cells"] = rt.ncells
		rep.Extra["real_engines"] = rt.nengines
		rep.Extra["real_bytes"] = rt.nbytes
		rep.Extra["real_datagrams"] = rt.ndgrams
		rep.Extra["idle_max_cpu_pct"] = rt.idleMax
		rep.Extra["idle_first_window_cpu_pct"] = rt.idleLog
	}
	if *gate > 0 || *gateSeed >= 0 {
		runGateTier(rep, *seed, *gate, *gateSeed, *mpath)
	}
	rep.Write(*out)
	for _, f := range rep.Findings {
		fmt.Printf("finding %s %s: %s\n", f.Kind, f.Signature, strings.SplitN(f.What, "\n", 2)[0])
	}
}

