package main

// Tier R: real engines, real sockets, implementation-only oracle.

import (
	"bytes"
	"encoding/binary"
	"fmt"
	"math/rand"
	"net"
	"os"
	"strings"
	"path/filepath"
	"runtime"
	"runtime/debug"
	"sync"
	"sync/atomic"
	"syscall"
	"time"
	"unsafe"

	"github.com/lesismal/nbio"
	"verifharness/hx"
)

// ---------------------------------------------------------------- cells

type cell struct {
	Mode      int    `json:"mode"` // 0 LT, 1 ET, 2 ET+ONESHOT
	Async     bool   `json:"async_read_in_poller"`
	Custom    bool   `json:"custom_ioexecute"`
	NPoller   int    `json:"npoller"`
	RBS       int    `json:"read_buffer_size"`                  // 0 = default (64 KiB)
	MaxRead   int    `json:"max_conn_read_times_per_eventloop"` // 0 = default (3)
	Transport string `json:"transport"`
}

var (
	modeNames  = []string{"LT", "ET", "ETOS"}
	npollers   = []int{1, 2, 4}
	rbss       = []int{7, 512, 0}
	maxreads   = []int{1, 3, 0}
	transports = []string{"tcp", "unix", "udp"}
)

func (c cell) kind() string {
	if c.Async {
		return "async"
	}
	return "sync"
}

// Class is the part of the cell that goes into oracle signatures.
func (c cell) Class() string { return modeNames[c.Mode] + "-" + c.kind() + "-" + c.Transport }

func (c cell) Name() string {
	ex := "defexec"
	if c.Custom {
		ex = "custexec"
	}
	return fmt.Sprintf("%s/%s/%s/np%d/rbs%d/max%d/%s", modeNames[c.Mode], c.kind(), ex, c.NPoller, c.RBS, c.MaxRead, c.Transport)
}

func idx(l []int, v int) int {
	for i, x := range l {
		if x == v {
			return i
		}
	}
	return 0
}

func (c cell) Index() int {
	i := c.Mode
	i = i*2 + b2i(c.Async)
	i = i*2 + b2i(c.Custom)
	i = i*3 + idx(npollers, c.NPoller)
	i = i*3 + idx(rbss, c.RBS)
	i = i*3 + idx(maxreads, c.MaxRead)
	for k, t := range transports {
		if t == c.Transport {
			return i*3 + k
		}
	}
	return i * 3
}

func b2i(b bool) int {
	if b {
		return 1
	}
	return 0
}

func allCells() []cell {
	var out []cell
	for m := 0; m < 3; m++ {
		for _, as := range []bool{false, true} {
			for _, cu := range []bool{false, true} {
				for _, np := range npollers {
					for _, rb := range rbss {
						for _, mr := range maxreads {
							for _, tr := range transports {
								out = append(out, cell{m, as, cu, np, rb, mr, tr})
							}
						}
					}
				}
			}
		}
	}
	return out
}

// subset: for every (mode, read kind, transport) combination `per` completions of the other parameters, drawn from the seed.
func subset(cells []cell, seed int64, per int) []cell {
	var out []cell
	combo := 0
	for m := 0; m < 3; m++ {
		for _, as := range []bool{false, true} {
			for _, tr := range transports {
				r := rand.New(rand.NewSource(seed*104729 + int64(combo)*31 + 7))
				combo++
				seen := map[int]bool{}
				for len(seen) < per && len(seen) < 54 {
					c := cell{m, as, r.Intn(2) == 1, npollers[r.Intn(3)], rbss[r.Intn(3)], maxreads[r.Intn(3)], tr}
					// the first completion of every combination has the custom executor / read-buffer hooks (their kinds rotate
					// with the seed, see bufSource), the second the engine's defaults
					c.Custom = len(seen) == 0
					if seen[c.Index()] {
						continue
					}
					seen[c.Index()] = true
					out = append(out, c)
				}
			}
		}
	}
	return out
}

func (c cell) effRBS() int {
	if c.RBS <= 0 {
		return nbio.DefaultReadBufferSize
	}
	return c.RBS
}

func (c cell) effMax() int {
	if c.MaxRead <= 0 {
		return nbio.DefaultMaxConnReadTimesPerEventLoop
	}
	return c.MaxRead
}

func (c cell) config(network, addr string, src *bufSource, lockPoller bool) nbio.Config {
	conf := nbio.Config{Network: network, NPoller: c.NPoller, ReadBufferSize: c.RBS,
		MaxConnReadTimesPerEventLoop: c.MaxRead, AsyncReadInPoller: c.Async, LockPoller: lockPoller}
	if addr != "" {
		conf.Addrs = []string{addr}
	}
	switch c.Mode {
	case 1:
		conf.EpollMod = nbio.EPOLLET
	case 2:
		conf.EpollMod = nbio.EPOLLET
		conf.EPOLLONESHOT = nbio.EPOLLONESHOT
	}
	if c.Custom {
		// with synchronous reading the executor is never called; the cell then gets read-buffer hooks instead (exec.go)
		conf.IOExecute = src.ioExecute()
		if conf.IOExecute == nil {
			n := c.effRBS()
			conf.IOExecute = func(f func(*[]byte)) {
				go func() {
					b := make([]byte, n)
					f(&b)
				}()
			}
		}
	}
	return conf
}

// ---------------------------------------------------------------- tier state

type realTier struct {
	rep      *hx.Report
	dir      string
	reps     int
	idle     int
	seed     int64
	ncells   int
	nengines int
	nbytes   int64
	ndgrams  int64
	idleMax  float64
	sockN    int
	slow     int  // findings that cost seconds each (stall, idle spin)
	total    int
	full     bool   // the full matrix: buffer kinds are drawn per cell; otherwise they rotate with the seed
	buffers  string // replay: force this buffer kind
	noHCNow  bool   // debugging aid: no end of stream right behind the data
	idleLog  []float64
}

func (rt *realTier) add(f hx.Finding) {
	rt.total++
	if strings.HasPrefix(f.Signature, "stall-") || strings.HasPrefix(f.Signature, "idle-spin-") {
		rt.slow++
	}
	rt.rep.Add(f)
}

// tooMany: the matrix is run to its end even when findings accumulate (a known finding must not hide the cells behind
// it); only a flood, or several findings of the kinds that cost seconds each, end the run early.
func (rt *realTier) tooMany() bool {
	return os.Getenv("READPATH_ALL") == "" && (rt.slow >= 4 || rt.total >= 150)
}

// cpuTime: CPU time consumed by the process, from CLOCK_PROCESS_CPUTIME_ID (the scheduler's exact run-time sum).
// getrusage is not used: on kernels with tick-based accounting it charges a whole 10 ms tick to whichever thread
// happens to run at the tick, and threads woken by timers (the runtime's sysmon) run exactly then - an idle process
// can show 30-100% of a core over a 300 ms window.
func cpuTime() time.Duration {
	var ts syscall.Timespec
	const clockProcessCPUTimeID = 2
	if _, _, e := syscall.Syscall(syscall.SYS_CLOCK_GETTIME, clockProcessCPUTimeID, uintptr(unsafe.Pointer(&ts)), 0); e != 0 {
		var ru syscall.Rusage
		if err := syscall.Getrusage(syscall.RUSAGE_SELF, &ru); err != nil {
			return 0
		}
		return time.Duration(ru.Utime.Nano() + ru.Stime.Nano())
	}
	return time.Duration(ts.Nano())
}

// cpuPct: process CPU time over a window in percent of one core; the calling goroutine sleeps.
func cpuPct(window time.Duration) float64 {
	// no collection may start inside the window; the background work of earlier cycles gets time to finish
	old := debug.SetGCPercent(-1)
	defer debug.SetGCPercent(old)
	time.Sleep(25 * time.Millisecond)
	var m0, m1 runtime.MemStats
	dbg := os.Getenv("READPATH_DEBUG") != ""
	if dbg {
		runtime.ReadMemStats(&m0)
	}
	t0, c0 := time.Now(), cpuTime()
	time.Sleep(window)
	c1, t1 := cpuTime(), time.Now()
	pct := 100 * float64(c1-c0) / float64(t1.Sub(t0))
	if dbg && pct > 15 {
		runtime.ReadMemStats(&m1)
		fmt.Printf("busy window %.0f%%: numgc %d->%d heap %dMB sys %dMB goroutines %d released %dMB->%dMB\n", pct, m0.NumGC, m1.NumGC,
			m1.HeapAlloc>>20, m1.Sys>>20, runtime.NumGoroutine(), m0.HeapReleased>>20, m1.HeapReleased>>20)
	}
	return pct
}

// a spinning reader burns a whole core (100%); background work of the Go runtime shows as 15-55% of a 120 ms window in
// about one cell of ten and never in three consecutive windows
const spinPct = 40.0

// idleCheck: after the traffic nothing may burn CPU. A suspicious window is re-measured twice with 300 ms; all three
// windows have to be above the threshold for a report.
func (rt *realTier) idleCheck(c cell, replay map[string]interface{}) {
	p := cpuPct(time.Duration(rt.idle) * time.Millisecond)
	all := []float64{p}
	if p > spinPct {
		for i := 0; i < 2; i++ {
			p = cpuPct(300 * time.Millisecond)
			all = append(all, p)
			if p <= spinPct {
				break
			}
		}
	}
	rt.idleLog = append(rt.idleLog, all[0])
	if os.Getenv("READPATH_DEBUG") != "" {
		fmt.Printf("idle %-50s %v goroutines=%d\n", c.Name(), all, runtime.NumGoroutine())
		if all[0] > 10 && os.Getenv("READPATH_DEBUG") == "2" {
			buf := make([]byte, 1<<20)
			os.Stdout.Write(buf[:runtime.Stack(buf, true)])
		}
	}
	if p > rt.idleMax {
		rt.idleMax = p
	}
	if p > spinPct {
		replay["cpu_pct_windows"] = all
		rt.add(hx.Finding{Kind: "oracle", Property: "C02", Signature: "idle-spin-" + c.Class(),
			What:   fmt.Sprintf("cell %s: after all traffic was delivered the process used %.0f%% of a core over 300 ms idle windows (%v): a reader spins", c.Name(), p, all),
			Replay: replay})
	}
}

func (rt *realTier) runCell(c cell, r *rand.Rand) {
	rt.ncells++
	n := 1
	if c.Mode == 2 {
		n = rt.reps // the ONESHOT start-up race (D28) shows only in some starts
	}
	for e := 0; e < n && !rt.tooMany(); e++ {
		rt.nengines++
		if c.Transport == "udp" {
			rt.runUDP(c, r, e, e == 0)
		} else {
			rt.runStream(c, r, e, e == 0)
		}
	}
}

func stopEngine(g *nbio.Engine, rep *hx.Report) {
	done := make(chan struct{})
	go func() { g.Stop(); close(done) }()
	select {
	case <-done:
	case <-time.After(10 * time.Second):
		rep.Stat("engine-stop-hang(not a C02 matter)")
	}
}

// ---------------------------------------------------------------- streams

// stream k: big-endian words (k<<24 | wordIndex): every aligned and unaligned 8-byte window identifies its position.
func streamBytes(k, n int) []byte {
	b := make([]byte, (n+3)/4*4)
	for j := 0; j*4 < len(b); j++ {
		binary.BigEndian.PutUint32(b[j*4:], uint32(k)<<24|uint32(j))
	}
	return b[:n]
}

type connState struct {
	mu         sync.Mutex
	buf        []byte
	ncb        int
	inCb       int32
	overlaps   int32
	closed     int32
	closeErr   string
	afterClose int32
	hold       holder
	blocker    func() // set for the connections that only keep the poller busy
	echo       int32  // write every chunk back this many times
}

type peerPlan struct {
	ID      int    `json:"id"`
	// accepted | added (Dial + Engine.AddConn) | dialasync-busy / dialasync-idle (Engine.DialAsync to a peer that speaks
	// first, with the pollers kept busy / idle while the connect completes) | dial-addconn-greeted (Dial, the peer has
	// already spoken when AddConn registers the connection)
	Role string `json:"role"`
	Bursts  []int  `json:"bursts"`
	PauseUs []int  `json:"pause_us"`
	End     string `json:"end"` // halfclose-now | halfclose-later | open
	// Echo > 0: the data callback writes every chunk back Echo times (a write-back load that builds a backlog, so that
	// the connection's write interest is switched on and off by Write / flush while it is being read); the peer
	// drains what comes back slowly. Only the inbound stream is checked here (the outbound one is C01's).
	Echo    int `json:"echo_factor,omitempty"`
	total   int
	greeted bool // the peer speaks first: the first burst is written by the accepting side the moment it accepts
}

func (p *peerPlan) dialed() bool { return p.greeted }

func genBursts(c cell, r *rand.Rand) ([]int, []int) {
	rbs, mx := c.effRBS(), c.effMax()
	capTotal := 600 << 10
	if rbs <= 7 {
		capTotal = 24 << 10
	} else if rbs <= 512 {
		capTotal = 200 << 10
	}
	cands := []int{1, 2, rbs - 1, rbs, rbs + 1, 2 * rbs, 2*rbs + 1, mx*rbs - 1, mx * rbs, mx*rbs + 1, (mx + 1) * rbs, 3*mx*rbs + 5}
	nb := 2 + r.Intn(8)
	var bs, ps []int
	total := 0
	for i := 0; i < nb; i++ {
		var n int
		switch r.Intn(6) {
		case 0, 1, 2:
			n = cands[r.Intn(len(cands))]
		case 3:
			n = 1 + r.Intn(3*rbs+3)
		case 4:
			n = []int{65535, 65536, 65537, 4096, 100}[r.Intn(5)]
		default:
			n = 1 + r.Intn(capTotal/3)
		}
		if n < 1 {
			n = 1
		}
		if total+n > capTotal {
			n = capTotal - total
			if n <= 0 {
				break
			}
		}
		total += n
		bs = append(bs, n)
		p := 0
		switch r.Intn(4) {
		case 0:
			p = 50 + r.Intn(400)
		case 1:
			p = 1000 + r.Intn(3000)
		}
		ps = append(ps, p)
	}
	return bs, ps
}

type streamEnv struct {
	src    *bufSource
	nstate int32
	mu     sync.Mutex
	opened []*nbio.Conn
	states sync.Map // *nbio.Conn -> *connState
	openCh chan struct{}
}

func (e *streamEnv) state(c *nbio.Conn) *connState {
	if v, ok := e.states.Load(c); ok {
		return v.(*connState)
	}
	ns := &connState{}
	v, loaded := e.states.LoadOrStore(c, ns)
	if !loaded {
		ns.hold.on = atomic.AddInt32(&e.nstate, 1)%2 == 0 // every other connection holds on to its callback data
	}
	return v.(*connState)
}

func (e *streamEnv) onData(c *nbio.Conn, data []byte) { e.onDataP(c, nil, data) }

func (e *streamEnv) onDataP(c *nbio.Conn, p *[]byte, data []byte) {
	st := e.state(c)
	if st.blocker != nil {
		st.blocker()
		return
	}
	if l := e.src.lenOf(p); len(data) > l {
		e.src.problem("chunk-larger-than-buffer", fmt.Sprintf("the data callback was handed %d bytes in one call; the buffer the engine was given for the read has %d", len(data), l))
	}
	if atomic.AddInt32(&st.inCb, 1) > 1 {
		atomic.AddInt32(&st.overlaps, 1)
	}
	st.mu.Lock()
	st.buf = append(st.buf, data...)
	st.ncb++
	n := st.ncb
	st.mu.Unlock()
	st.hold.hold(e.src, "stream connection", data)
	if k := atomic.LoadInt32(&st.echo); k > 0 {
		cp := append([]byte(nil), data...)
		for i := int32(0); i < k; i++ {
			c.Write(cp)
		}
	}
	if atomic.LoadInt32(&st.closed) != 0 {
		atomic.AddInt32(&st.afterClose, 1)
	}
	if n%61 == 0 {
		runtime.Gosched() // widen the window in which a second reader of the same connection would be seen
	}
	atomic.AddInt32(&st.inCb, -1)
}

func (rt *realTier) runStream(c cell, r *rand.Rand, engineNo int, doIdle bool) {
	rep := rt.rep
	network := c.Transport
	addr := "127.0.0.1:0"
	if network == "unix" {
		rt.sockN++
		addr = filepath.Join(rt.dir, fmt.Sprintf("s%d.sock", rt.sockN))
	}
	src := newBufSource(c, r, rt.seed, rt.full, rt.buffers)
	defer src.close()
	lockPoller := r.Intn(4) == 0
	env := &streamEnv{openCh: make(chan struct{}, 64), src: src}
	g := nbio.NewEngine(c.config(network, addr, src, lockPoller))
	src.hooks(g)
	g.OnOpen(func(nc *nbio.Conn) {
		env.state(nc)
		env.mu.Lock()
		env.opened = append(env.opened, nc)
		env.mu.Unlock()
		env.openCh <- struct{}{}
	})
	g.OnClose(func(nc *nbio.Conn, err error) {
		st := env.state(nc)
		st.mu.Lock()
		st.closeErr = fmt.Sprint(err)
		st.mu.Unlock()
		atomic.StoreInt32(&st.closed, 1)
	})
	usePtr := r.Intn(2) == 0 || src.needPtr()
	if usePtr {
		g.OnDataPtr(func(nc *nbio.Conn, p *[]byte) { env.onDataP(nc, p, *p) })
	} else {
		g.OnData(env.onData)
	}
	if err := g.Start(); err != nil {
		rep.Stat("R.start-failed")
		return
	}
	defer stopEngine(g, rep)
	srvAddr := g.Addrs[0]

	// plans
	np := 2 + r.Intn(3)
	plans := make([]*peerPlan, np)
	for k := range plans {
		p := &peerPlan{ID: k + 1, Role: "accepted"}
		p.Bursts, p.PauseUs = genBursts(c, r)
		for _, b := range p.Bursts {
			p.total += b
		}
		p.End = []string{"halfclose-now", "halfclose-later", "open", "open"}[r.Intn(4)]
		if rt.noHCNow && p.End == "halfclose-now" {
			p.End = "halfclose-later"
		}
		plans[k] = p
	}
	if r.Intn(2) == 0 {
		plans[0].Role = "added"
	}
	// every cell has the half-close pattern: end of stream right behind the data on one peer, after delivery on another
	if !rt.noHCNow {
		plans[r.Intn(np)].End = "halfclose-now"
	}
	plans[r.Intn(np)].End = "halfclose-later"
	hasNow := false
	for _, p := range plans {
		hasNow = hasNow || p.End == "halfclose-now"
	}
	if !hasNow && !rt.noHCNow {
		plans[0].End = "halfclose-now"
	}
	// one accepted peer with a write-back load
	if r.Intn(2) == 0 {
		p := plans[np-1]
		if p.Role == "accepted" && p.total > 0 {
			p.Echo = 1 + (3<<20)/p.total
			if p.Echo > 64 {
				p.Echo = 64
			}
		}
	}
	// connections the engine dials, to a peer that speaks first
	nAcc := np
	for _, role := range []string{"dialasync-busy", "dialasync-idle", "dial-addconn-greeted"} {
		if role == "dial-addconn-greeted" && r.Intn(2) == 0 {
			continue
		}
		p := &peerPlan{ID: len(plans) + 1, Role: role, greeted: true}
		p.Bursts, p.PauseUs = genBursts(c, r)
		if len(p.Bursts) > 4 {
			p.Bursts, p.PauseUs = p.Bursts[:4], p.PauseUs[:4]
		}
		for _, b := range p.Bursts {
			p.total += b
		}
		p.End = []string{"halfclose-later", "open", "open"}[r.Intn(3)]
		if !rt.noHCNow && r.Intn(4) == 0 {
			p.End = "halfclose-now"
		}
		plans = append(plans, p)
	}
	np = len(plans)
	exp := make([][]byte, np)
	for k, p := range plans {
		exp[k] = streamBytes(p.ID, p.total)
	}
	replay := map[string]interface{}{"cell": c, "cell_name": c.Name(), "seed": rt.seed, "engine_no": engineNo,
		"on_data_ptr": usePtr, "buffers": src.Kind, "lock_poller": lockPoller, "peers": plans, "rerun": fmt.Sprintf("readpath -seed %d -cell %s -gate 0", rt.seed, c.Name())}

	// connections, one at a time, so that the order of OnOpen identifies them
	var ext net.Listener
	peers := make([]net.Conn, np)
	srv := make([]*nbio.Conn, np)
	var srvMu sync.Mutex
	getSrv := func(k int) *nbio.Conn {
		srvMu.Lock()
		defer srvMu.Unlock()
		return srv[k]
	}
	setSrv := func(k int, nc *nbio.Conn) {
		srvMu.Lock()
		srv[k] = nc
		srvMu.Unlock()
	}
	var dl net.Listener
	var blockerPeers []net.Conn
	defer func() {
		for _, p := range blockerPeers {
			if p != nil {
				p.Close()
			}
		}
		if dl != nil {
			dl.Close()
		}
	}()
	defer func() {
		for _, p := range peers {
			if p != nil {
				p.Close()
			}
		}
		if ext != nil {
			ext.Close()
		}
	}()
	waitOpen := func() *nbio.Conn {
		select {
		case <-env.openCh:
			env.mu.Lock()
			defer env.mu.Unlock()
			return env.opened[len(env.opened)-1]
		case <-time.After(8 * time.Second):
			return nil
		}
	}
	for k, p := range plans[:nAcc] {
		if p.Role == "added" {
			var err error
			extAddr := "127.0.0.1:0"
			if network == "unix" {
				rt.sockN++
				extAddr = filepath.Join(rt.dir, fmt.Sprintf("x%d.sock", rt.sockN))
			}
			ext, err = net.Listen(network, extAddr)
			if err != nil {
				hx.Fatal("listen: %v", err)
			}
			acc := make(chan net.Conn, 1)
			go func() {
				x, _ := ext.Accept()
				acc <- x
			}()
			nc, err := nbio.Dial(network, ext.Addr().String())
			if err != nil {
				hx.Fatal("dial: %v", err)
			}
			peers[k] = <-acc
			if _, err := g.AddConn(nc); err != nil {
				hx.Fatal("AddConn: %v", err)
			}
		} else {
			x, err := net.Dial(network, srvAddr)
			if err != nil {
				hx.Fatal("dial %s %s: %v", network, srvAddr, err)
			}
			peers[k] = x
		}
		srv[k] = waitOpen()
		if srv[k] == nil {
			rt.add(hx.Finding{Kind: "oracle", Property: "C02", Signature: "stall-" + c.Class(),
				What: fmt.Sprintf("cell %s: connection %d was never opened by the engine (no OnOpen within 8 s)", c.Name(), k+1), Replay: replay})
			return
		}
		if p.Echo > 0 {
			atomic.StoreInt32(&env.state(srv[k]).echo, int32(p.Echo))
			go func(x net.Conn) { // slow reader of what comes back
				b := make([]byte, 32<<10)
				for {
					if _, err := x.Read(b); err != nil {
						return
					}
					time.Sleep(300 * time.Microsecond)
				}
			}(peers[k])
		}
	}

	// data blockers: accepted connections whose data callback sleeps (it runs on the poller where reading is synchronous)
	nBlk := c.NPoller + 1
	const blockFor = 25 * time.Millisecond
	var blkDone int32
	for i := 0; i < nBlk; i++ {
		x, err := net.Dial(network, srvAddr)
		if err != nil {
			hx.Fatal("dial %s %s: %v", network, srvAddr, err)
		}
		blockerPeers = append(blockerPeers, x)
		bc := waitOpen()
		if bc == nil {
			rt.add(hx.Finding{Kind: "oracle", Property: "C02", Signature: "stall-" + c.Class(),
				What: fmt.Sprintf("cell %s: a connection was never opened by the engine (no OnOpen within 8 s)", c.Name()), Replay: replay})
			return
		}
		st := env.state(bc)
		st.blocker = func() { time.Sleep(blockFor); atomic.AddInt32(&blkDone, 1) }
	}
	// the plain listener the engine dials: it greets the moment it accepts
	{
		dlAddr := "127.0.0.1:0"
		if network == "unix" {
			rt.sockN++
			dlAddr = filepath.Join(rt.dir, fmt.Sprintf("d%d.sock", rt.sockN))
		}
		var err error
		dl, err = net.Listen(network, dlAddr)
		if err != nil {
			hx.Fatal("listen: %v", err)
		}
	}
	greetCh := make(chan []byte, 64)
	accCh := make(chan net.Conn, 64)
	go func() {
		for {
			x, err := dl.Accept()
			if err != nil {
				return
			}
			gr := <-greetCh
			accCh <- x
			if gr != nil {
				// a greeting larger than the socket buffers is finished once the engine reads; the accept loop must
				// not wait for that (the next connection may be the one whose registration lets the engine read)
				go x.Write(gr)
			}
		}
	}()
	takeAcc := func() net.Conn {
		select {
		case x := <-accCh:
			return x
		case <-time.After(8 * time.Second):
			hx.Fatal("the plain listener did not accept the engine's dial")
			return nil
		}
	}
	dialErr := make([]string, np)
	dialAsync := func(k int) {
		greetCh <- exp[k][:plans[k].Bursts[0]]
		err := g.DialAsync(network, dl.Addr().String(), func(nc *nbio.Conn, err error) {
			if err != nil {
				dialErr[k] = fmt.Sprint(err)
				return
			}
			setSrv(k, nc)
		})
		if err != nil {
			hx.Fatal("DialAsync: %v", err)
		}
		peers[k] = takeAcc()
	}
	for k, p := range plans[nAcc:] {
		k += nAcc
		switch p.Role {
		case "dialasync-busy":
			// keep the pollers busy while the connect completes and the greeting arrives: dial callbacks that sleep
			// (they run on the poller when the connect was still in progress) and sleeping data callbacks
			var cbDone int32
			for i := 0; i < nBlk; i++ {
				greetCh <- nil
				err := g.DialAsync(network, dl.Addr().String(), func(nc *nbio.Conn, err error) {
					time.Sleep(blockFor)
					atomic.AddInt32(&cbDone, 1)
				})
				if err != nil {
					hx.Fatal("DialAsync: %v", err)
				}
				blockerPeers = append(blockerPeers, takeAcc())
			}
			for _, x := range blockerPeers[:nBlk] {
				x.Write([]byte{0})
			}
			time.Sleep(3 * time.Millisecond)
			dialAsync(k)
			// let the blockers finish before the next connection is made
			dlb := time.Now().Add(8 * time.Second)
			for (atomic.LoadInt32(&cbDone) < int32(nBlk) || atomic.LoadInt32(&blkDone) < int32(nBlk)) && time.Now().Before(dlb) {
				time.Sleep(time.Millisecond)
			}
		case "dialasync-idle":
			time.Sleep(2 * time.Millisecond)
			dialAsync(k)
		case "dial-addconn-greeted":
			greetCh <- exp[k][:p.Bursts[0]]
			nc, err := nbio.Dial(network, dl.Addr().String())
			if err != nil {
				hx.Fatal("dial: %v", err)
			}
			peers[k] = takeAcc()
			time.Sleep(time.Millisecond) // the greeting is in the socket before the engine registers it
			rc, err := g.AddConn(nc)
			if err != nil {
				hx.Fatal("AddConn: %v", err)
			}
			waitOpen()
			setSrv(k, rc)
		}
	}

	// traffic
	var wg sync.WaitGroup
	sendErr := make([]string, np)
	greetStall := make([]bool, np)
	delivered := func(k int) int {
		nc := getSrv(k)
		if nc == nil {
			return 0
		}
		st := env.state(nc)
		st.mu.Lock()
		defer st.mu.Unlock()
		return len(st.buf)
	}
	for k, p := range plans {
		wg.Add(1)
		go func(k int, p *peerPlan) {
			defer wg.Done()
			off := 0
			for i, b := range p.Bursts {
				if p.greeted && i == 0 {
					// the greeting was written on accept; it has to be delivered without any further input (in pure
					// ET nothing would report it again)
					off += b
					dl := time.Now().Add(8 * time.Second)
					for delivered(k) < b && time.Now().Before(dl) {
						time.Sleep(500 * time.Microsecond)
					}
					greetStall[k] = delivered(k) < b
					continue
				}
				peers[k].SetWriteDeadline(time.Now().Add(10 * time.Second))
				if _, err := peers[k].Write(exp[k][off : off+b]); err != nil {
					sendErr[k] = fmt.Sprintf("burst %d at offset %d: %v", i, off, err)
					return
				}
				off += b
				if p.PauseUs[i] > 0 {
					time.Sleep(time.Duration(p.PauseUs[i]) * time.Microsecond)
				}
			}
			hc := func() {
				switch x := peers[k].(type) {
				case *net.TCPConn:
					x.CloseWrite()
				case *net.UnixConn:
					x.CloseWrite()
				}
			}
			switch p.End {
			case "halfclose-now":
				hc()
			case "halfclose-later":
				dl := time.Now().Add(8 * time.Second)
				for delivered(k) < p.total && time.Now().Before(dl) {
					time.Sleep(500 * time.Microsecond)
				}
				hc()
			}
		}(k, p)
	}
	wg.Wait()
	// everything has been handed to the kernel: wait until it is delivered, the connection is closed, or time is up
	deadline := time.Now().Add(8 * time.Second)
	for {
		done := true
		for k := range plans {
			nc := getSrv(k)
			if nc == nil {
				continue
			}
			st := env.state(nc)
			if delivered(k) < plans[k].total && atomic.LoadInt32(&st.closed) == 0 && sendErr[k] == "" {
				done = false
			}
		}
		if done || time.Now().After(deadline) {
			break
		}
		time.Sleep(time.Millisecond)
	}
	time.Sleep(20 * time.Millisecond) // a callback in flight / a duplicate would arrive now

	// oracle
	bad := false
	for k, p := range plans {
		suffix := ""
		if p.dialed() {
			suffix = "-dialed"
		}
		if getSrv(k) == nil {
			bad = true
			rt.add(hx.Finding{Kind: "oracle", Property: "C02", Signature: "stall-" + c.Class() + suffix,
				What:   fmt.Sprintf("cell %s peer %d (%s): the dial callback never reported the connection (%s)", c.Name(), p.ID, p.Role, dialErr[k]),
				Replay: replay})
			continue
		}
		if greetStall[k] {
			bad = true
			rt.add(hx.Finding{Kind: "oracle", Property: "C02", Signature: "stall-" + c.Class() + suffix,
				What: fmt.Sprintf("cell %s peer %d (%s): the %d bytes the peer sent the moment it accepted the engine's connection were not delivered within 8 s "+
					"although nothing else was pending (they arrived together with the completion of the connect)", c.Name(), p.ID, p.Role, p.Bursts[0]),
				Replay: replay})
		}
		st := env.state(getSrv(k))
		st.mu.Lock()
		got := append([]byte(nil), st.buf...)
		ncb := st.ncb
		cerr := st.closeErr
		st.mu.Unlock()
		closed := atomic.LoadInt32(&st.closed) != 0
		rt.nbytes += int64(len(got))
		rep.Ops += ncb
		if ov := atomic.LoadInt32(&st.overlaps); ov > 0 {
			bad = true
			rt.add(hx.Finding{Kind: "oracle", Property: "C02", Signature: "two-readers",
				What:   fmt.Sprintf("cell %s peer %d: the data callback of one connection was entered %d times while another call for the same connection was still running", c.Name(), p.ID, ov),
				Replay: replay})
		}
		if bytes.Equal(got, exp[k]) {
			continue
		}
		bad = true
		sig, what := classifyStream(exp[k], got, closed, p.End, c)
		if sig != "duplicate-delivery" {
			sig += suffix
		}
		rt.add(hx.Finding{Kind: "oracle", Property: "C02", Signature: sig,
			What: fmt.Sprintf("cell %s peer %d (%s, end=%s): sent %d bytes, data callback got %d in %d calls; closed=%v (%s) sendErr=%q: %s",
				c.Name(), p.ID, p.Role, p.End, len(exp[k]), len(got), ncb, closed, cerr, sendErr[k], what),
			Replay: replay})
	}
	if srcFindings(rt, c, src, replay) {
		bad = true
	}
	rep.Stat("R.buffers." + src.Kind)
	if lockPoller {
		rep.Stat("R.lock-poller")
	}
	key := c.Name()
	nontrivial := false
	for _, p := range plans {
		if p.total > c.effRBS() {
			nontrivial = true
		}
		key += fmt.Sprint(p.Bursts, p.End)
	}
	rep.Case(key, nontrivial)
	rep.Stat("R.class." + c.Class())
	for _, p := range plans {
		rep.Stat("R.end." + p.End)
		rep.Stat("R.role." + p.Role)
		if p.Echo > 0 {
			rep.Stat("R.write-back-load")
		}
	}
	if len(rep.Samples) < 2 {
		rep.Sample(replay)
	}
	if !bad && doIdle {
		rt.idleCheck(c, replay)
	}
}

// classifyStream names the way in which what was delivered differs from what was sent.
func classifyStream(exp, got []byte, closed bool, end string, c cell) (string, string) {
	p := 0
	for p < len(exp) && p < len(got) && exp[p] == got[p] {
		p++
	}
	if p == len(got) && len(got) < len(exp) {
		// strict prefix
		if closed && end == "halfclose-now" {
			return "tail-lost-at-eof-" + c.Class(), fmt.Sprintf("the last %d bytes the peer sent before its end of stream (shutdown of its sending side right behind the data) were never delivered: the engine closed the connection on the hang-up event with the data still unread", len(exp)-len(got))
		}
		if closed {
			return "lost-or-reordered-bytes-" + c.Class(), fmt.Sprintf("the last %d bytes the peer sent were never delivered: the connection was closed first", len(exp)-len(got))
		}
		return "stall-" + c.Class(), fmt.Sprintf("%d bytes are still undelivered 8 s after the peer sent them and the connection is open: nobody reads", len(exp)-len(got))
	}
	// where does the data at the first difference come from?
	w := got[p:]
	if len(w) > 8 {
		w = w[:8]
	}
	q := -1
	if len(w) == 8 {
		q = bytes.Index(exp, w)
	}
	switch {
	case p == len(exp):
		return "duplicate-delivery", fmt.Sprintf("%d bytes more than were sent (data after offset %d comes from offset %d of the stream)", len(got)-len(exp), p, q)
	case q >= 0 && q < p:
		return "duplicate-delivery", fmt.Sprintf("at offset %d the callback was handed the bytes of offset %d again", p, q)
	case q > p:
		return "lost-or-reordered-bytes-" + c.Class(), fmt.Sprintf("at offset %d the callback was handed the bytes of offset %d: %d bytes skipped or out of order", p, q, q-p)
	}
	return "lost-or-reordered-bytes-" + c.Class(), fmt.Sprintf("content differs from offset %d on (not a copy of another part of the stream)", p)
}

// ---------------------------------------------------------------- udp

func dgram(id, seq, n int) []byte {
	b := make([]byte, n)
	for i := range b {
		b[i] = byte(id*31 + seq*7 + i*13 + 1)
	}
	b[0] = byte(id)
	if n > 1 {
		b[1] = byte(seq >> 8)
	}
	if n > 2 {
		b[2] = byte(seq)
	}
	return b
}

type remotePlan struct {
	ID     int     `json:"id"`
	Bursts [][]int `json:"bursts"` // datagram sizes
	// CloseAfter >= 0: after this burst has been delivered the harness closes the remote's session (Conn.Close on the
	// logical connection); the datagrams behind it must open a new session on another *Conn.
	CloseAfter int `json:"close_session_after_burst"`
	n          int
	closeSeq   int32 // first datagram number of the second session (atomic; -1: none)
}

type udpRec struct {
	conn *nbio.Conn
	id   int
	seq  int
	data []byte
	addr string
	l    int // length of the buffer the datagram was read into
}

func (rt *realTier) runUDP(c cell, r *rand.Rand, engineNo int, doIdle bool) {
	rep := rt.rep
	src := newBufSource(c, r, rt.seed, rt.full, rt.buffers)
	defer src.close()
	lockPoller := r.Intn(4) == 0
	g := nbio.NewEngine(c.config("udp", "127.0.0.1:0", src, lockPoller))
	src.hooks(g)
	var holders [16]holder
	for i := range holders {
		holders[i].on = i%2 == 1
	}
	var mu sync.Mutex
	var recs []udpRec
	var counts [16]int32
	var inCb, overlaps int32
	var opens, sessClosed int32
	g.OnOpen(func(nc *nbio.Conn) { atomic.AddInt32(&opens, 1) })
	onData := func(nc *nbio.Conn, p *[]byte, data []byte) {
		if atomic.AddInt32(&inCb, 1) > 1 {
			atomic.AddInt32(&overlaps, 1)
		}
		rec := udpRec{conn: nc, id: -1, seq: -1, data: append([]byte(nil), data...), l: src.lenOf(p)}
		if ra := nc.RemoteAddr(); ra != nil {
			rec.addr = ra.String()
		}
		if len(data) >= 1 {
			rec.id = int(data[0])
		}
		if len(data) >= 3 {
			rec.seq = int(data[1])<<8 | int(data[2])
		}
		mu.Lock()
		recs = append(recs, rec)
		n := len(recs)
		mu.Unlock()
		if rec.id >= 0 && rec.id < len(counts) {
			holders[rec.id].hold(src, "udp listener", data)
			atomic.AddInt32(&counts[rec.id], 1)
		}
		if n%17 == 0 {
			runtime.Gosched()
		}
		atomic.AddInt32(&inCb, -1)
	}
	usePtr := r.Intn(2) == 0 || src.needPtr()
	if usePtr {
		g.OnDataPtr(func(nc *nbio.Conn, p *[]byte) { onData(nc, p, *p) })
	} else {
		g.OnData(func(nc *nbio.Conn, data []byte) { onData(nc, nil, data) })
	}
	if err := g.Start(); err != nil {
		rep.Stat("R.start-failed")
		return
	}
	defer stopEngine(g, rep)
	saddr, err := net.ResolveUDPAddr("udp", g.Addrs[0])
	if err != nil {
		hx.Fatal("resolve %v", err)
	}
	maxLen := c.effRBS()
	if maxLen > 1400 {
		maxLen = 1400
	}
	nr := 2 + r.Intn(3)
	plans := make([]*remotePlan, nr)
	socks := make([]*net.UDPConn, nr)
	defer func() {
		for _, s := range socks {
			if s != nil {
				s.Close()
			}
		}
	}()
	size := func() int { return 3 + r.Intn(maxLen-2) }
	// datagrams longer than the read buffer: the kernel cuts them to the buffer's length, and to nothing shorter
	overLong := 0
	if c.effRBS() <= 700 {
		overLong = 2 * c.effRBS()
	}
	for k := range plans {
		p := &remotePlan{ID: k + 1}
		nb := 1 + r.Intn(3)
		for b := 0; b < nb; b++ {
			cnt := 6 + r.Intn(15)
			var sz []int
			for len(sz) < cnt {
				switch r.Intn(4) {
				case 0: // a longer one right after a shorter one
					a := size()
					sz = append(sz, 3+r.Intn(a-2), a)
				case 1:
					sz = append(sz, maxLen)
					if overLong > 0 && r.Intn(2) == 0 {
						sz = append(sz, maxLen+1+r.Intn(overLong-maxLen))
					}
				case 2:
					sz = append(sz, 3)
				default:
					sz = append(sz, size())
				}
			}
			p.Bursts = append(p.Bursts, sz)
			p.n += len(sz)
		}
		p.CloseAfter = -1
		p.closeSeq = -1
		if nb >= 2 && r.Intn(2) == 0 {
			p.CloseAfter = r.Intn(nb - 1)
		}
		plans[k] = p
		s, err := net.DialUDP("udp", &net.UDPAddr{IP: net.IPv4(127, 0, 0, 1)}, saddr)
		if err != nil {
			hx.Fatal("dial udp: %v", err)
		}
		socks[k] = s
	}
	replay := map[string]interface{}{"cell": c, "cell_name": c.Name(), "seed": rt.seed, "engine_no": engineNo,
		"on_data_ptr": usePtr, "buffers": src.Kind, "lock_poller": lockPoller, "remotes": plans, "rerun": fmt.Sprintf("readpath -seed %d -cell %s -gate 0", rt.seed, c.Name())}

	var wg sync.WaitGroup
	sent := make([]int32, nr)
	for k, p := range plans {
		wg.Add(1)
		go func(k int, p *remotePlan) {
			defer wg.Done()
			seq := 0
			for bi, b := range p.Bursts {
				if bi > 0 && p.CloseAfter == bi-1 {
					// everything sent so far has been delivered: close the session the datagrams were attributed to
					mu.Lock()
					var sc *nbio.Conn
					for i := len(recs) - 1; i >= 0; i-- {
						if recs[i].id == p.ID {
							sc = recs[i].conn
							break
						}
					}
					mu.Unlock()
					if sc != nil {
						sc.Close()
						atomic.StoreInt32(&p.closeSeq, int32(seq))
						atomic.AddInt32(&sessClosed, 1)
					}
				}
				for _, n := range b {
					socks[k].Write(dgram(p.ID, seq, n))
					seq++
					atomic.StoreInt32(&sent[k], int32(seq))
				}
				// pace: the next burst starts when this one has been delivered (so the socket buffer cannot overflow)
				dl := time.Now().Add(3 * time.Second)
				for int(atomic.LoadInt32(&counts[p.ID])) < seq && time.Now().Before(dl) {
					time.Sleep(200 * time.Microsecond)
				}
				if int(atomic.LoadInt32(&counts[p.ID])) < seq {
					return
				}
				if r2 := seq % 3; r2 == 0 {
					time.Sleep(time.Duration(300*(k+1)) * time.Microsecond)
				}
			}
		}(k, p)
	}
	wg.Wait()
	time.Sleep(20 * time.Millisecond)

	mu.Lock()
	got := append([]udpRec(nil), recs...)
	mu.Unlock()
	rt.ndgrams += int64(len(got))
	rep.Ops += len(got)
	bad := false
	add := func(sig, what string) {
		bad = true
		rt.add(hx.Finding{Kind: "oracle", Property: "C02", Signature: sig, What: "cell " + c.Name() + ": " + what, Replay: replay})
	}
	if ov := atomic.LoadInt32(&overlaps); ov > 0 {
		add("two-readers", fmt.Sprintf("the data callback of the UDP listener was entered %d times while another call was still running", ov))
	}
	sizeOf := func(p *remotePlan, seq int) int {
		for _, b := range p.Bursts {
			if seq < len(b) {
				return b[seq]
			}
			seq -= len(b)
		}
		return -1
	}
	connOf := map[[2]int]*nbio.Conn{} // (remote, session number) -> connection
	idOf := map[*nbio.Conn][2]int{}
	next := map[int]int{}
	seen := map[[2]int]bool{}
	var trunc, mixup, dup, order, corrupt string
	for _, rec := range got {
		if rec.id < 1 || rec.id > nr || rec.seq < 0 {
			if trunc == "" {
				trunc = fmt.Sprintf("a datagram of %d bytes was delivered (every datagram sent has at least 3): % x", len(rec.data), rec.data)
			}
			continue
		}
		p := plans[rec.id-1]
		want := sizeOf(p, rec.seq)
		if want < 0 {
			if corrupt == "" {
				corrupt = fmt.Sprintf("remote %d: datagram number %d was never sent", rec.id, rec.seq)
			}
			continue
		}
		full := dgram(rec.id, rec.seq, want)
		if want > rec.l && len(rec.data) <= rec.l {
			// longer than the buffer it was read into: the kernel delivers the first len(buffer) bytes
			want = rec.l
			full = full[:want]
		}
		switch {
		case bytes.Equal(full, rec.data):
		case len(rec.data) > rec.l:
			src.problem("chunk-larger-than-buffer", fmt.Sprintf("remote %d datagram %d: %d bytes sent, %d handed to the data callback, but the buffer the engine was given for the read has %d", rec.id, rec.seq, want, len(rec.data), rec.l))
		case len(rec.data) < want && bytes.Equal(full[:len(rec.data)], rec.data):
			if trunc == "" {
				prev := -1
				if rec.seq > 0 {
					prev = sizeOf(p, rec.seq-1)
				}
				trunc = fmt.Sprintf("remote %d datagram %d: %d bytes sent, %d delivered (read buffer %d; previous datagram of this remote had %d bytes)", rec.id, rec.seq, want, len(rec.data), rec.l, prev)
			}
		default:
			if corrupt == "" {
				corrupt = fmt.Sprintf("remote %d datagram %d: content differs (%d bytes sent, %d delivered)", rec.id, rec.seq, want, len(rec.data))
			}
		}
		k := [2]int{rec.id, rec.seq}
		if seen[k] {
			if dup == "" {
				dup = fmt.Sprintf("remote %d datagram %d was delivered twice", rec.id, rec.seq)
			}
			continue
		}
		seen[k] = true
		if rec.seq != next[rec.id] && order == "" {
			order = fmt.Sprintf("remote %d: datagram %d delivered where %d was due", rec.id, rec.seq, next[rec.id])
		}
		next[rec.id] = rec.seq + 1
		// sessions
		sk := [2]int{rec.id, 0}
		if cs := atomic.LoadInt32(&p.closeSeq); cs >= 0 && rec.seq >= int(cs) {
			sk[1] = 1
		}
		if pc, ok := connOf[sk]; ok && pc != rec.conn && mixup == "" {
			mixup = fmt.Sprintf("remote %d: datagram %d was attributed to another *Conn than the earlier datagrams of the same session", rec.id, rec.seq)
		}
		connOf[sk] = rec.conn
		if pid, ok := idOf[rec.conn]; ok && pid != sk && mixup == "" {
			if pid[0] != sk[0] {
				mixup = fmt.Sprintf("datagrams of remotes %d and %d were attributed to the same *Conn", pid[0], rec.id)
			} else {
				mixup = fmt.Sprintf("remote %d: datagram %d, sent after the remote's session had been closed, was attributed to the closed *Conn", rec.id, rec.seq)
			}
		}
		idOf[rec.conn] = sk
		if la := socks[rec.id-1].LocalAddr().String(); rec.addr != la && mixup == "" {
			mixup = fmt.Sprintf("remote %d (%s): the *Conn handed to the callback has remote address %s", rec.id, la, rec.addr)
		}
	}
	if trunc != "" {
		add("udp-truncated", trunc)
	}
	if mixup != "" {
		add("udp-session-mixup", mixup)
	}
	if dup != "" {
		add("duplicate-delivery", dup)
	}
	if corrupt != "" {
		add("lost-or-reordered-bytes-"+c.Class(), corrupt)
	}
	if order != "" {
		add("lost-or-reordered-bytes-"+c.Class(), order)
	}
	missing := 0
	first := ""
	for k, p := range plans {
		for s := 0; s < int(atomic.LoadInt32(&sent[k])); s++ {
			if !seen[[2]int{p.ID, s}] {
				missing++
				if first == "" {
					first = fmt.Sprintf("remote %d datagram %d of %d", p.ID, s, p.n)
				}
			}
		}
	}
	if missing > 0 && order == "" {
		add("stall-"+c.Class(), fmt.Sprintf("%d datagrams were sent but not delivered within 3 s (first: %s); the delivered ones are in order: the rest sits unread in the socket", missing, first))
	}
	if srcFindings(rt, c, src, replay) {
		bad = true
	}
	rep.Stat("R.buffers." + src.Kind)
	key := c.Name()
	for _, p := range plans {
		key += fmt.Sprint(p.Bursts)
	}
	rep.Case(key, true)
	rep.Stat("R.class." + c.Class())
	if c.Transport == "udp" && len(rep.Samples) < 3 && rt.ncells%5 == 0 {
		rep.Sample(replay)
	}
	if want := nr + int(atomic.LoadInt32(&sessClosed)); int(atomic.LoadInt32(&opens)) != want && !bad {
		add("udp-session-mixup", fmt.Sprintf("%d remotes sent datagrams and %d sessions were closed in between, but %d sessions were opened (expected %d)", nr, sessClosed, opens, want))
	}
	if sessClosed > 0 {
		rep.Stat("R.udp-session-closed-and-reopened")
	}
	if !bad && doIdle {
		rt.idleCheck(c, replay)
	}
}


// srcFindings reports what the buffer oracles of exec.go saw in this cell
func srcFindings(rt *realTier, c cell, src *bufSource, replay map[string]interface{}) bool {
	src.mu.Lock()
	defer src.mu.Unlock()
	for sig, what := range src.problems {
		rt.add(hx.Finding{Kind: "oracle", Property: "C02", Signature: sig,
			What: fmt.Sprintf("cell %s (buffers: %s, configured length %d): %s", c.Name(), src.Kind, src.n, what), Replay: replay})
	}
	return len(src.problems) > 0
}
