// Harness for C06 (segmentation independence) and C08 (robustness and bounds) of nbhttp.Parser.
//
//	part M : correspondence with the Coq per-byte model (events, accept/reject/too-long, retained length)
//	part O6: property oracle on the implementation alone: one piece vs every segmentation (ReadLimit = 0)
//	part O8: property oracle: no recovered panic, no slow call, retained bytes bounded, malformed framing rejected
package main

import (
	"encoding/hex"
	"errors"
	"flag"
	"fmt"
	"io"
	"math/rand"
	"net"
	"strings"
	"sync/atomic"
	"time"

	"github.com/lesismal/nbio/logging"
	"github.com/lesismal/nbio/mempool"
	"github.com/lesismal/nbio/nbhttp"
	"verifharness/hx"
)

type fconn struct{}

func (c *fconn) Read(b []byte) (int, error)         { return 0, io.EOF }
func (c *fconn) Write(b []byte) (int, error)        { return len(b), nil }
func (c *fconn) Close() error                       { return nil }
func (c *fconn) LocalAddr() net.Addr                { return &net.TCPAddr{} }
func (c *fconn) RemoteAddr() net.Addr               { return &net.TCPAddr{} }
func (c *fconn) SetDeadline(t time.Time) error      { return nil }
func (c *fconn) SetReadDeadline(t time.Time) error  { return nil }
func (c *fconn) SetWriteDeadline(t time.Time) error { return nil }

type recp struct{ ev []string }

func h(s string) string                                  { return hex.EncodeToString([]byte(s)) }
func (p *recp) OnMethod(_ *nbhttp.Parser, m string)      { p.ev = append(p.ev, "M:"+h(m)) }
func (p *recp) OnURL(_ *nbhttp.Parser, u string) error   { p.ev = append(p.ev, "U:"+h(u)); return nil }
func (p *recp) OnProto(_ *nbhttp.Parser, s string) error { p.ev = append(p.ev, "P:"+h(s)); return nil }
func (p *recp) OnStatus(_ *nbhttp.Parser, c int, s string) {
	p.ev = append(p.ev, fmt.Sprintf("S:%d:%s", c, h(s)))
}
func (p *recp) OnHeader(_ *nbhttp.Parser, k, v string)  { p.ev = append(p.ev, "H:"+h(k)+"="+h(v)) }
func (p *recp) OnContentLength(_ *nbhttp.Parser, n int) { p.ev = append(p.ev, fmt.Sprintf("CL:%d", n)) }
func (p *recp) OnBody(_ *nbhttp.Parser, d []byte) error {
	p.ev = append(p.ev, "B:"+hex.EncodeToString(d))
	return nil
}
func (p *recp) OnTrailerHeader(_ *nbhttp.Parser, k, v string) {
	p.ev = append(p.ev, "T:"+h(k)+"="+h(v))
}
func (p *recp) OnComplete(_ *nbhttp.Parser)       { p.ev = append(p.ev, "C") }
func (p *recp) Close(_ *nbhttp.Parser, err error) {}
func (p *recp) Clean(_ *nbhttp.Parser)            {}

// counts error-level log lines (a recovered panic inside Parse is only logged)
type cntLogger struct{ errs int64 }

func (l *cntLogger) SetLevel(lvl int)                      {}
func (l *cntLogger) Debug(format string, v ...interface{}) {}
func (l *cntLogger) Info(format string, v ...interface{})  {}
func (l *cntLogger) Warn(format string, v ...interface{})  {}
func (l *cntLogger) Error(format string, v ...interface{}) { atomic.AddInt64(&l.errs, 1) }

var clog = &cntLogger{}

var engines = map[int]*nbhttp.Engine{}

func engineFor(limit int) *nbhttp.Engine {
	e := engines[limit]
	if e == nil {
		e = nbhttp.NewEngine(nbhttp.Config{})
		e.ReadLimit = limit // 0 = unlimited
		engines[limit] = e
	}
	return e
}

type result struct {
	out      string // events|ERR:class|RET:n
	events   []string
	cls      string
	maxRet   int // largest retained length observed after any call
	maxSeg   int
	slowest  time.Duration
	panicked bool
}

// allocIndex selects the allocator behind the parser's cache (package-level mempool functions): the in-place growing
// default, the library's size-class allocator (relocates when a class is exceeded), one that relocates on every Append
var allocIndex int
var allocs = []struct {
	name string
	mk   func() mempool.Allocator
}{
	{"default", nil},
	{"aligned", func() mempool.Allocator { return mempool.NewAligned() }},
	{"always-moving", func() mempool.Allocator { return &hx.MovingAllocator{} }},
}

func implRun(client bool, limit int, segs [][]byte) result {
	if mk := allocs[allocIndex%len(allocs)].mk; mk != nil {
		saved := mempool.DefaultMemPool
		mempool.DefaultMemPool = mk()
		defer func() { mempool.DefaultMemPool = saved }()
	}
	rp := &recp{}
	p := nbhttp.NewParser(&fconn{}, engineFor(limit), rp, client, nil)
	var err error
	var res result
	before := atomic.LoadInt64(&clog.errs)
	for _, s := range segs {
		t0 := time.Now()
		err = p.Parse(s)
		if d := time.Since(t0); d > res.slowest {
			res.slowest = d
		}
		if len(s) > res.maxSeg {
			res.maxSeg = len(s)
		}
		if err != nil {
			break
		}
		if r := nbhttp.VerifCached(p); r > res.maxRet {
			res.maxRet = r
		}
	}
	res.panicked = atomic.LoadInt64(&clog.errs) != before
	res.cls = "nil"
	ret := nbhttp.VerifCached(p)
	if err != nil {
		ret = -1
		switch {
		case errors.Is(err, nbhttp.ErrTooLong):
			res.cls = "toolong"
		case errors.Is(err, net.ErrClosed):
			res.cls = "closed"
		default:
			res.cls = "err"
		}
	}
	res.events = rp.ev
	res.out = strings.Join(rp.ev, "|") + fmt.Sprintf("|ERR:%s|RET:%d", res.cls, ret)
	return res
}

func sp(r *rand.Rand) string { return strings.Repeat(" ", r.Intn(3)) }

// one message from the HTTP/1.x grammar and its near neighbours; returns the text and a tag for the distribution
func genMsg(r *rand.Rand, client bool) (string, string) {
	var sb strings.Builder
	clean := r.Intn(2) == 0 // half of the messages use only well-formed alternatives
	pick := func(n, cleanN int) int {
		if clean {
			return r.Intn(cleanN)
		}
		return r.Intn(n)
	}
	if client {
		sb.WriteString(fmt.Sprintf("HTTP/1.%d %d %s\r\n", r.Intn(2), []int{200, 204, 404, 304, 100, 99999, 1}[pick(7, 5)], []string{"OK", "Not Found", "X", "a-b c"}[r.Intn(4)]))
	} else {
		sb.WriteString([]string{"GET", "POST", "DELETE", "PATCH", "OPTIONS", "TRACE", "HEAD", "CONNECT", "put", "pri"}[pick(10, 8)] + " " + sp(r) + []string{"/", "/a/b?x=1", "*", "/%zz", "http://h/p"}[pick(5, 3)] + " " + sp(r) + "HTTP/1." + fmt.Sprint(r.Intn(2)) + sp(r) + "\r\n")
	}
	nh := r.Intn(4)
	for i := 0; i < nh; i++ {
		if i > 0 && !clean && r.Intn(4) == 0 {
			sb.WriteString(" ")
		}
		sb.WriteString(fmt.Sprintf("%s%s:%s%s%s\r\n", []string{"K0", "content-type", "x-a-b", "A!#", "Host", "Connection"}[r.Intn(6)], sp(r), sp(r), []string{"v", "a b", "", "x,y", "\tq", "close", "keep-alive"}[r.Intn(7)], sp(r)))
	}
	if r.Intn(6) == 0 {
		sb.WriteString("Trailer: " + []string{"A", "X-Checksum", "A, B"}[r.Intn(3)] + "\r\n") // also on non-chunked messages
	}
	body := strings.Repeat("b", r.Intn(12))
	if r.Intn(10) == 0 {
		body = strings.Repeat("xyz\r\n", r.Intn(40))
	}
	switch r.Intn(5) {
	case 0:
		sb.WriteString("\r\n")
		return sb.String(), "nobody"
	case 1:
		sb.WriteString(fmt.Sprintf("Content-Length:%s%s%s\r\n", sp(r), []string{fmt.Sprint(len(body)), "+" + fmt.Sprint(len(body)), "-0", "0" + fmt.Sprint(len(body)), "4611686018427387903", "4611686018427387904", "9223372036854775808", "x", "-1", " ", "1 2"}[pick(11, 1)%(1+r.Intn(11))], sp(r)))
		sb.WriteString("\r\n" + body)
		return sb.String(), "content-length"
	default:
		tr := r.Intn(2) == 0
		sb.WriteString("Transfer-Encoding:" + sp(r) + []string{"chunked", "Chunked", " CHUNKED\t", "gzip", "chunked, x", "gzip, chunked"}[pick(6, 3)%(1+r.Intn(6))] + "\r\n")
		if !clean && r.Intn(8) == 0 {
			sb.WriteString("Content-Length: 3\r\n")
		}
		if !clean && r.Intn(16) == 0 {
			sb.WriteString("Transfer-Encoding: chunked\r\n")
		}
		if tr {
			sb.WriteString("Trailer:" + []string{"A,B,A-b", " a-b ,, B, A", " A, B", "A", "Content-Length", ""}[pick(6, 2)] + "\r\n")
		}
		sb.WriteString("\r\n")
		for len(body) > 0 {
			n := 1 + r.Intn(len(body))
			sz := []string{fmt.Sprintf("%x", n), fmt.Sprintf("%X", n), fmt.Sprintf("0%x", n)}[r.Intn(3)]
			if !clean && r.Intn(40) == 0 {
				sz = []string{"g", "7fffffffffffffff", "ffffffffffffffffff", "-1", ""}[r.Intn(5)]
			}
			sb.WriteString(fmt.Sprintf("%s%s%s\r\n%s\r\n", sz, sp(r), []string{"", ";ext=1", "zz", ";a;b=\"q\""}[r.Intn(4)], body[:n]))
			body = body[n:]
		}
		sb.WriteString("0\r\n")
		if tr {
			sb.WriteString("A:" + sp(r) + "1\r\nB: two words\r\nA-b:\r\n")
		}
		sb.WriteString("\r\n")
		if tr {
			return sb.String(), "chunked+trailer"
		}
		return sb.String(), "chunked"
	}
}

func mutate(r *rand.Rand, b []byte) ([]byte, string) {
	if len(b) == 0 {
		return b, "none"
	}
	i := r.Intn(len(b))
	switch r.Intn(5) {
	case 0:
		b[i] = byte(r.Intn(256))
		return b, "flip"
	case 1:
		return append(b[:i], b[i+1:]...), "delete"
	case 2:
		return append(b[:i], append([]byte{"\r\n :;x0"[r.Intn(7)]}, b[i:]...)...), "insert"
	case 3:
		return b[:i], "truncate"
	default:
		// drop a CR or an LF somewhere
		for k := 0; k < len(b); k++ {
			j := (i + k) % len(b)
			if b[j] == '\r' || b[j] == '\n' {
				return append(b[:j], b[j+1:]...), "drop-crlf"
			}
		}
		return b, "none"
	}
}

func segmentations(r *rand.Rand, b []byte, allCuts bool, ncuts int) [][][]byte {
	var out [][][]byte
	out = append(out, [][]byte{b})
	var bytewise [][]byte
	for i := range b {
		bytewise = append(bytewise, b[i:i+1])
	}
	out = append(out, bytewise)
	if len(b) > 1 {
		if allCuts {
			for i := 1; i < len(b); i++ {
				out = append(out, [][]byte{b[:i], b[i:]})
			}
		} else {
			for k := 0; k < ncuts; k++ {
				i := 1 + r.Intn(len(b)-1)
				out = append(out, [][]byte{b[:i], b[i:]})
			}
		}
		// random multi-cuts
		for k := 0; k < 3; k++ {
			var segs [][]byte
			rest := b
			for len(rest) > 0 {
				n := 1 + r.Intn(1+len(rest)/(1+r.Intn(4)))
				if n > len(rest) {
					n = len(rest)
				}
				segs = append(segs, rest[:n])
				rest = rest[n:]
			}
			out = append(out, segs)
		}
	}
	return out
}

func stripRet(s string) string {
	if i := strings.LastIndex(s, "|RET:"); i >= 0 {
		return s[:i]
	}
	return s
}

func hexSegs(segs [][]byte) []string {
	var hs []string
	for _, s := range segs {
		hs = append(hs, hex.EncodeToString(s))
	}
	return hs
}

func main() {
	seed := flag.Int64("seed", 1, "")
	n := flag.Int("n", 4000, "streams")
	model := flag.String("model", "", "")
	out := flag.String("out", "-", "")
	allcuts := flag.Bool("allcuts", false, "every single cut position (thorough)")
	flag.Parse()
	logging.SetLogger(clog)
	rep := hx.NewReport("httpparse", *seed)
	rep.Rule = "streams of 1-4 pipelined messages from the HTTP/1.x grammar (requests/responses, Content-Length, chunked with extensions and trailers, OWS variants) and mutated neighbours (33%); each fed in one piece, byte at a time, single cuts and random multi-cuts, under ReadLimit in {0,16,64,300}; a case (stream x segmentation x limit) is non-trivial when the parser reported at least one event; distinct = distinct (stream, segmentation, limit)"
	var m *hx.Model
	if *model != "" {
		m = hx.StartModel(*model)
		defer m.Close()
	}
	r := rand.New(rand.NewSource(*seed))
	seen := map[string]bool{}
	for it := 0; it < *n && !rep.TooMany(); it++ {
		client := r.Intn(2) == 0
		var s string
		var tags []string
		for k := 0; k < 1+r.Intn(4); k++ {
			t, tag := genMsg(r, client)
			s += t
			tags = append(tags, tag)
		}
		b := []byte(s)
		mut := "none"
		if r.Intn(3) == 0 {
			b, mut = mutate(r, b)
		}
		rep.Stat("mutation." + mut)
		for _, t := range tags {
			rep.Stat("msg." + t)
		}
		limit := []int{0, 0, 0, 16, 64, 300, -1, -2}[r.Intn(8)]
		segsets := segmentations(r, b, *allcuts && len(b) <= 400, 4)
		if limit < 0 {
			// a read limit that the whole stream just fits: whatever is retained plus the next read never exceeds it, so
			// no segmentation may be refused as too long (the boundary of the guard)
			limit = len(b) + (-1-limit)*r.Intn(3)
			rep.Stat("readlimit.exact-or-just-above")
			for k := 1; k <= 3 && k < len(b); k++ {
				segsets = append(segsets, [][]byte{b[:k], b[k:]})
			}
			if len(b) > 8 {
				segsets = append(segsets, [][]byte{b[:len(b)/2], b[len(b)/2:]}, [][]byte{b[:len(b)-1], b[len(b)-1:]})
			}
		}
		ci := 0
		if client {
			ci = 1
		}
		var onePiece result
		mismatched := false
		allocIndex = r.Intn(6) // 0,3: default; 1,4: aligned; 2,5: always-moving
		rep.Stat("allocator." + allocs[allocIndex%len(allocs)].name)
		for si, segs := range segsets {
			got := implRun(client, limit, segs)
			rep.Ops += len(segs)
			key := fmt.Sprintf("%x/%d/%d", b, limit, si)
			rep.Case(key, len(got.events) > 0)
			rep.Stat("result." + got.cls)
			replay := map[string]interface{}{"harness": "httpparse", "client": client, "readlimit": limit, "segments_hex": hexSegs(segs), "stream": string(b), "allocator": allocs[allocIndex%len(allocs)].name}
			// ---- O8: robustness and bounds (implementation alone)
			if got.panicked {
				rep.Add(hx.Finding{Kind: "oracle", Property: "C08", Signature: "parse-panic", What: "a panic was recovered inside Parse (error-level log line)", Replay: replay})
			}
			if got.slowest > 2*time.Second {
				rep.Add(hx.Finding{Kind: "oracle", Property: "C08", Signature: "parse-slow", What: fmt.Sprintf("one Parse call took %v", got.slowest), Replay: replay})
			}
			if limit > 0 && got.maxRet > limit+got.maxSeg {
				rep.Add(hx.Finding{Kind: "oracle", Property: "C08", Signature: "retained-exceeds-limit", What: fmt.Sprintf("retained %d bytes with ReadLimit %d and reads of at most %d", got.maxRet, limit, got.maxSeg), Replay: replay})
			}
			// ---- M: model correspondence
			if m != nil {
				sg := strings.Join(hexSegs(segs), ",")
				if len(segs) == 0 || len(b) == 0 {
					sg = "-"
				}
				want := m.Ask("%d %d %s", ci, limit, sg)
				if got.out != want && !mismatched {
					mismatched = true // keep going: the property oracle below may turn this into a concrete failing input
					for _, p := range []string{"C06", "C08"} {
						rep.Add(hx.Finding{Kind: "mismatch", Property: p, Signature: "httpparser-model", What: "implementation and model disagree\n impl =" + got.out + "\n model=" + want, Replay: replay})
					}
				}
			}
			// ---- O6: segmentation independence (implementation alone; the property is stated for the parser, limits aside)
			if si == 0 {
				onePiece = got
			} else if (limit == 0 || limit >= len(b)) && stripRet(got.out) != stripRet(onePiece.out) {
				rep.Add(hx.Finding{Kind: "oracle", Property: "C06", Signature: "segmentation-dependent", What: "one piece and segmented feeding differ\n one  =" + stripRet(onePiece.out) + "\n segs =" + stripRet(got.out), Replay: replay})
				break
			}
		}
		if !seen[tags[0]+mut] && len(rep.Samples) < 5 {
			seen[tags[0]+mut] = true
			rep.Sample(map[string]interface{}{"client": client, "stream": string(b), "mutation": mut, "readlimit": limit, "segmentations": len(segsets), "one_piece_result": onePiece.out})
		}
	}
	malformed(rep)
	strayFraming(rep)
	rep.Write(*out)
}

// a CR or LF that the framing requires, replaced by any other byte, must be rejected (C08: "a missing CR or LF is
// rejected with an error rather than guessed"): systematic over the framing positions of well-formed messages
func strayFraming(rep *hx.Report) {
	type piece struct {
		s    string
		kind string // "" or the class of the LAST byte of s (a framing CR or LF)
	}
	type base struct {
		name   string
		client bool
		ps     []piece
	}
	chunkedTail := []piece{{"3\r", "cr-chunk-size"}, {"\n", "lf-chunk-size"}, {"abc\r", "cr-chunk-data"}, {"\n", "lf-chunk-data"},
		{"1;x=y\r", "cr-chunk-size-ext"}, {"\n", "lf-chunk-size"}, {"z\r", "cr-chunk-data"}, {"\n", "lf-chunk-data"}, {"0\r", "cr-last-chunk"}, {"\n", "lf-last-chunk"}}
	bases := []base{
		{"req-cl", false, []piece{{"POST /a HTTP/1.1\r", ""}, {"\n", "lf-start-line"}, {"Host: h\r", ""}, {"\n", "lf-header"}, {"Content-Length: 2\r", ""}, {"\n", "lf-header"},
			{"\r", "cr-end-of-head"}, {"\n", "lf-end-of-head"}, {"ab", ""}}},
		{"req-chunked", false, append(append([]piece{{"POST /a HTTP/1.1\r", ""}, {"\n", "lf-start-line"}, {"Transfer-Encoding: chunked\r", ""}, {"\n", "lf-header"},
			{"\r", "cr-end-of-head"}, {"\n", "lf-end-of-head"}}, chunkedTail...), piece{"\r", "cr-tail"}, piece{"\n", "lf-tail"})},
		{"req-chunked-trailer", false, append(append([]piece{{"POST /a HTTP/1.1\r", ""}, {"\n", "lf-start-line"}, {"Trailer: X-T\r", ""}, {"\n", "lf-header"}, {"Transfer-Encoding: chunked\r", ""}, {"\n", "lf-header"},
			{"\r", "cr-end-of-head"}, {"\n", "lf-end-of-head"}}, chunkedTail...), piece{"X-T: v\r", ""}, piece{"\n", "lf-trailer"}, piece{"\r", "cr-tail-after-trailers"}, piece{"\n", "lf-tail"})},
		{"resp-chunked", true, append(append([]piece{{"HTTP/1.1 200 OK\r", ""}, {"\n", "lf-start-line"}, {"Transfer-Encoding: chunked\r", ""}, {"\n", "lf-header"},
			{"\r", "cr-end-of-head"}, {"\n", "lf-end-of-head"}}, chunkedTail...), piece{"\r", "cr-tail"}, piece{"\n", "lf-tail"})},
	}
	for _, b := range bases {
		var whole []byte
		for _, p := range b.ps {
			whole = append(whole, p.s...)
		}
		if got := implRun(b.client, 0, [][]byte{whole}); got.cls != "nil" {
			rep.Add(hx.Finding{Kind: "oracle", Property: "C08", Signature: "stray-framing-base-rejected", What: "harness: base message " + b.name + " is rejected: " + got.out,
				Replay: map[string]interface{}{"harness": "httpparse", "stream": string(whole)}})
			continue
		}
		pos := 0
		for _, p := range b.ps {
			pos += len(p.s)
			if p.kind == "" {
				continue
			}
			strays := []byte{'X', ' ', '\t', 0, '(', ':', '\r'}
			if p.kind[:2] == "cr" {
				strays = []byte{'X', ' ', '\t', 0, '(', ':', '\n'}
			}
			type variant struct {
				how string
				sb  byte
			}
			var vs []variant
			for _, sb := range strays {
				vs = append(vs, variant{"replaced by", sb})
			}
			if p.kind == "cr-tail" || p.kind == "cr-chunk-data" {
				// where nothing but the CR may come next, a byte INSERTED in front of it is a framing error too
				for _, sb := range []byte{' ', '\t', 'X', 0, '\n'} {
					vs = append(vs, variant{"preceded by an inserted", sb})
				}
			}
			for _, v := range vs {
				sb := v.sb
				m := append([]byte{}, whole[:pos-1]...)
				m = append(m, sb)
				if v.how != "replaced by" {
					m = append(m, whole[pos-1])
				}
				m = append(m, whole[pos:]...)
				m = append(m, "\r\n\r\n"...) // room for a parser that skips on
				var bytewise [][]byte
				for i := range m {
					bytewise = append(bytewise, m[i:i+1])
				}
				for k, segs := range [][][]byte{{m}, bytewise} {
					got := implRun(b.client, 0, segs)
					rep.Case(fmt.Sprintf("stray/%s/%s/%s/%d/%d", b.name, p.kind, v.how, sb, k), true)
					rep.Stat("stray." + p.kind + "." + got.cls)
					completes := 0
					for _, e := range got.events {
						if e == "C" {
							completes++
						}
					}
					if strayAllowed[p.kind] {
						continue
					}
					if got.cls == "nil" || completes > 0 {
						rep.Add(hx.Finding{Kind: "oracle", Property: "C08", Signature: "stray-byte-accepted-" + p.kind,
							What:   fmt.Sprintf("%s: the %s at offset %d %s byte 0x%02x was not rejected: result %s", b.name, p.kind, pos-1, v.how, sb, got.out),
							Replay: map[string]interface{}{"harness": "httpparse", "client": b.client, "readlimit": 0, "segments_hex": hexSegs(segs), "stream": string(m)}})
					}
				}
			}
		}
	}
}

// positions where another byte in place of the CR is not a framing error of THIS message (the byte becomes part of a
// value / an extension and the line ends at the next CR): no expectation
var strayAllowed = map[string]bool{}

// malformed framing metadata must be rejected, never guessed (C08), in one piece and byte at a time
func malformed(rep *hx.Report) {
	type mc struct{ name, req string }
	cases := []mc{
		{"cl-nonnumeric", "POST / HTTP/1.1\r\nContent-Length: x1\r\n\r\nab"},
		{"cl-negative", "POST / HTTP/1.1\r\nContent-Length: -1\r\n\r\nab"},
		{"cl-overflow", "POST / HTTP/1.1\r\nContent-Length: 9223372036854775808\r\n\r\nab"},
		{"cl-inner-space", "POST / HTTP/1.1\r\nContent-Length: 1 2\r\n\r\nabcdefghijklm"},
		{"te-unsupported", "POST / HTTP/1.1\r\nTransfer-Encoding: gzip\r\n\r\n0\r\n\r\n"},
		{"te-list", "POST / HTTP/1.1\r\nTransfer-Encoding: gzip, chunked\r\n\r\n0\r\n\r\n"},
		{"te-repeated", "POST / HTTP/1.1\r\nTransfer-Encoding: chunked\r\nTransfer-Encoding: chunked\r\n\r\n0\r\n\r\n"},
		{"te-repeated-empty-second", "POST / HTTP/1.1\r\nTransfer-Encoding: chunked\r\nTransfer-Encoding:\r\n\r\n0\r\n\r\n"},
		{"te-repeated-blank-first", "POST / HTTP/1.1\r\nTransfer-Encoding:  \r\nTransfer-Encoding: chunked\r\n\r\n0\r\n\r\n"},
		{"te-empty-with-cl", "POST / HTTP/1.1\r\nTransfer-Encoding:\r\nContent-Length: 5\r\n\r\nhello"},
		{"cl-blank", "POST / HTTP/1.1\r\nContent-Length:   \r\n\r\nab"},
		{"chunk-size-junk", "POST / HTTP/1.1\r\nTransfer-Encoding: chunked\r\n\r\n2g\r\nab\r\n0\r\n\r\n"},
		{"chunk-size-two-numbers", "POST / HTTP/1.1\r\nTransfer-Encoding: chunked\r\n\r\n2 3\r\nab\r\n0\r\n\r\n"},
		{"chunk-nonhex", "POST / HTTP/1.1\r\nTransfer-Encoding: chunked\r\n\r\ng\r\nab\r\n0\r\n\r\n"},
		{"chunk-overflow", "POST / HTTP/1.1\r\nTransfer-Encoding: chunked\r\n\r\nffffffffffffffffff\r\nab\r\n0\r\n\r\n"},
		{"chunk-negative", "POST / HTTP/1.1\r\nTransfer-Encoding: chunked\r\n\r\n-2\r\nab\r\n0\r\n\r\n"},
		{"missing-lf-request-line", "GET / HTTP/1.1\rHost: a\r\n\r\n"},
		{"missing-lf-header", "GET / HTTP/1.1\r\nHost: a\rX: y\r\n\r\n"},
		{"missing-lf-end-of-head", "GET / HTTP/1.1\r\nHost: a\r\n\rGET / HTTP/1.1\r\n\r\n"},
		{"missing-lf-chunk-size", "POST / HTTP/1.1\r\nTransfer-Encoding: chunked\r\n\r\n2\rab\r\n0\r\n\r\n"},
		{"missing-cr-after-chunk", "POST / HTTP/1.1\r\nTransfer-Encoding: chunked\r\n\r\n2\r\nabXX0\r\n\r\n"},
		{"missing-lf-after-chunk", "POST / HTTP/1.1\r\nTransfer-Encoding: chunked\r\n\r\n2\r\nab\rX0\r\n\r\n"},
		{"missing-lf-last-chunk", "POST / HTTP/1.1\r\nTransfer-Encoding: chunked\r\n\r\n0\r\r\n"},
		{"missing-lf-tail", "POST / HTTP/1.1\r\nTransfer-Encoding: chunked\r\n\r\n0\r\n\rX"},
	}
	for _, c := range cases {
		b := []byte(c.req)
		var bytewise [][]byte
		for i := range b {
			bytewise = append(bytewise, b[i:i+1])
		}
		for k, segs := range [][][]byte{{b}, bytewise} {
			got := implRun(false, 0, segs)
			rep.Case("malformed/"+c.name+fmt.Sprint(k), true)
			rep.Stat("malformed." + got.cls)
			completes := 0
			for _, e := range got.events {
				if e == "C" {
					completes++
				}
			}
			if got.cls == "nil" || completes > 0 {
				rep.Add(hx.Finding{Kind: "oracle", Property: "C08", Signature: "malformed-accepted-" + c.name,
					What:   fmt.Sprintf("malformed framing metadata (%s) was not rejected: result %s", c.name, got.out),
					Replay: map[string]interface{}{"harness": "httpparse", "client": false, "readlimit": 0, "segments_hex": hexSegs(segs), "stream": c.req}})
			}
		}
	}
}
