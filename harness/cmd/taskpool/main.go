// Harness for C19 (executors): the real taskpool.TaskPool / IOTaskPool and the real timer.Timer.Async under the real
// Go scheduler (no cooperative scheduling here: channels are not under it), with start / end events.
//
//	correspondence (quiescent points only): while every task blocks on a gate the pool's state after each Go call is
//	        determined; the same calls are fed to the Coq LTS (TaskPool.v) and the counter `concurrent`, the queue length
//	        and the number of started tasks are compared after every call, after the gate opens (everything finished), after
//	        an overload, and after Stop. The largest number of tasks seen running at once is compared with the model's bound
//	        max(1, maxConcurrent).
//	oracle (implementation alone): the number of tasks running at once never exceeds the configured bound; every task whose
//	        Go call returned before Stop runs exactly once (after Stop too), no task runs twice, Go never hangs; a panicking
//	        task is contained; after an overload the pool is idle again with the counter at 0 and a barrier of as many
//	        mutually waiting tasks as a fresh pool admits completes; Async functions run exactly once, one at a time, in the
//	        order of each producer, also behind a backlog of more than 1024 entries and after it.
//
// All waits are one-sided with generous deadlines (a slow machine only makes the run longer).
package main

import (
	"flag"
	"fmt"
	"math/rand"
	"os"
	"strings"
	"sync"
	"sync/atomic"
	"time"

	"github.com/lesismal/nbio/logging"
	"github.com/lesismal/nbio/taskpool"
	"github.com/lesismal/nbio/timer"
	"verifharness/hx"
)

const deadline = 10 * time.Second

var failures int // findings of any kind so far: a failing scenario costs up to a deadline, stop after a few

func waitFor(cond func() bool) bool { return waitForD(cond, deadline) }

func waitForD(cond func() bool, d time.Duration) bool {
	end := time.Now().Add(d)
	for i := 0; ; i++ {
		if cond() {
			return true
		}
		if time.Now().After(end) {
			return false
		}
		if i < 200 {
			time.Sleep(20 * time.Microsecond)
		} else {
			time.Sleep(time.Millisecond)
		}
	}
}

// stable: cond holds now and still holds a little later (for "nothing more happens" checks)
func stable(cond func() bool) bool {
	if !waitFor(cond) {
		return false
	}
	time.Sleep(2 * time.Millisecond)
	return cond()
}

type pool struct {
	tp      *taskpool.TaskPool
	bound   int
	qsize   int
	custom  bool
	io      *taskpool.IOTaskPool
	started int64
	ended   int64
	cur     int64
	max     int64
	runs    sync.Map // task id -> *int64 (number of runs)
}

func newPool(bound, qsize int, custom, io bool) *pool {
	p := &pool{bound: bound, qsize: qsize, custom: custom}
	caller := func(f func()) {
		defer func() { _ = recover() }()
		f()
	}
	switch {
	case io && custom:
		p.io = taskpool.NewIO(bound, qsize, 64, caller)
	case io:
		p.io = taskpool.NewIO(bound, qsize, 64)
	case custom:
		p.tp = taskpool.New(bound, qsize, caller)
	default:
		p.tp = taskpool.New(bound, qsize)
	}
	if p.io != nil {
		p.tp = taskpool.VerifTaskPool(p.io)
	}
	return p
}

func (p *pool) stop() {
	if p.io != nil {
		p.io.Stop()
	} else {
		p.tp.Stop()
	}
}

// task returns the function to submit; body runs between the start and end events
func (p *pool) task(id int, body func()) func() {
	cnt := new(int64)
	p.runs.Store(id, cnt)
	return func() {
		atomic.AddInt64(cnt, 1)
		n := atomic.AddInt64(&p.cur, 1)
		for {
			m := atomic.LoadInt64(&p.max)
			if n <= m || atomic.CompareAndSwapInt64(&p.max, m, n) {
				break
			}
		}
		atomic.AddInt64(&p.started, 1)
		defer func() {
			atomic.AddInt64(&p.cur, -1)
			atomic.AddInt64(&p.ended, 1)
		}()
		if body != nil {
			body()
		}
	}
}

func (p *pool) submit(f func()) {
	if p.io != nil {
		p.io.Go(func(pb *[]byte) { f() })
	} else {
		p.tp.Go(f)
	}
}

// submitNil: Go(nil). The unchanged code treats a nil task as a task that does nothing: a worker forked for it calls it,
// panics inside the caller, recovers (default caller; the harness's custom caller recovers too) and gives its slot back by
// the deferred decrement; the consumers of the queue skip it. An IOTaskPool wraps it into a non-nil closure that panics.
func (p *pool) submitNil() bool {
	done := make(chan struct{})
	go func() {
		if p.io != nil {
			p.io.Go(nil)
		} else {
			p.tp.Go(nil)
		}
		close(done)
	}()
	select {
	case <-done:
		return true
	case <-time.After(deadline):
		return false
	}
}

// submitTimed: Go from a helper goroutine; false if it has not returned by the deadline
func (p *pool) submitTimed(f func()) bool {
	done := make(chan struct{})
	go func() { p.submit(f); close(done) }()
	select {
	case <-done:
		return true
	case <-time.After(deadline):
		return false
	}
}

func (p *pool) runsOf(id int) int64 {
	v, ok := p.runs.Load(id)
	if !ok {
		return 0
	}
	return atomic.LoadInt64(v.(*int64))
}

func (p *pool) state() string {
	return fmt.Sprintf("concurrent=%d queue=%d started=%d ended=%d running=%d max=%d", taskpool.VerifConcurrent(p.tp), taskpool.VerifQueueLen(p.tp),
		atomic.LoadInt64(&p.started), atomic.LoadInt64(&p.ended), atomic.LoadInt64(&p.cur), atomic.LoadInt64(&p.max))
}

type tsum struct {
	c, q, running, started, finished, units int
	d, extra                                string
}

func ask(m *hx.Model, format string, args ...interface{}) tsum {
	ans := m.Ask("tp "+format, args...)
	var t tsum
	f := strings.Fields(ans)
	if len(f) < 8 || f[0] != "T" {
		hx.Fatal("model answer %q", ans)
	}
	fmt.Sscanf(strings.Join(f[1:7], " "), "%d %d %d %d %d %d", &t.c, &t.q, &t.running, &t.started, &t.finished, &t.units)
	t.d = f[7]
	if len(f) > 8 {
		t.extra = f[8]
	}
	return t
}

type scenario struct {
	Bound   int   `json:"bound"`
	Queue   int   `json:"queue"`
	Custom  bool  `json:"custom_caller"`
	IO      bool  `json:"io_pool"`
	Rounds  int   `json:"overload_rounds"`
	Burst   int   `json:"burst"`
	Subs    int   `json:"submitters"`
	Panics  bool  `json:"panicking_tasks"`
	PreStop int   `json:"tasks_before_stop"`
	Racing  int   `json:"submissions_racing_stop"`
	Nils    bool  `json:"nil_tasks"` // Go(nil) mixed into the overload bursts, and bursts of nil tasks on the idle pool
	Seed    int64 `json:"seed"`
}

func admitted(bound int) int {
	if bound-1 > 1 {
		return bound - 1
	}
	return 1
}

func runScenario(rep *hx.Report, m *hx.Model, sc scenario) {
	p := newPool(sc.Bound, sc.Queue, sc.Custom, sc.IO)
	stopped := false
	defer func() {
		if !stopped {
			p.stop()
		}
	}()
	replay := map[string]interface{}{"harness": "taskpool", "scenario": sc}
	oracle := func(sig, what string) {
		if sc.Custom && sig == "bound-exceeded" {
			sig = "taskpool-custom-caller-bound"
		}
		rep.Add(hx.Finding{Kind: "oracle", Property: "C19", Signature: sig, What: what + " [" + p.state() + "]", Replay: replay})
		failures++
	}
	mismatch := func(what string) {
		rep.Add(hx.Finding{Kind: "mismatch", Property: "C19", Signature: "taskpool-model", What: what + " [" + p.state() + "]", Replay: replay})
		m = nil // the model is out of step from here on: go on with the oracle alone
		failures++
	}
	M := sc.Bound - 1
	if m != nil {
		ask(m, "init %d %d", M, sc.Queue)
	}
	nextID := 0
	offset := 0 // tasks the implementation ran that the model was not told about (the overload rounds)
	agree := func(when string, t tsum) bool {
		cond := func() bool {
			return int(taskpool.VerifConcurrent(p.tp)) == t.c && taskpool.VerifQueueLen(p.tp) == t.q && int(atomic.LoadInt64(&p.started))-offset == t.started
		}
		ok := false
		if strings.Contains(when, "after Go #") {
			ok = waitForD(cond, deadline/2) // the next step's comparison shows that nothing more happened
		} else {
			ok = waitForD(cond, deadline/2) && stable(cond)
		}
		if !ok {
			mismatch(fmt.Sprintf("%s: model concurrent=%d queue=%d started=%d (dispatcher %s)", when, t.c, t.q, t.started, t.d))
		}
		return true
	}
	// finishFill opens the gate and compares the completed state
	finishFill := func(label string, n int, gate chan struct{}) bool {
		target := atomic.LoadInt64(&p.ended)
		close(gate)
		if !waitFor(func() bool { return atomic.LoadInt64(&p.ended) >= target+int64(n) }) {
			oracle("task-never-ran", fmt.Sprintf("%s: %d blocked tasks were released, %d ended", label, n, atomic.LoadInt64(&p.ended)-target))
			return false
		}
		if m != nil {
			agree(label+": after the gate opened", ask(m, "finish"))
		}
		return true
	}
	// fillBlocked: the model says that the next Go call (task id) blocks: queue full, every runner busy. It must return
	// once the gate opens; in the model the blocked submitter's send goes through after the running tasks ended.
	fillBlocked := func(label string, n int, gate chan struct{}, id int) bool {
		ret := make(chan struct{})
		go func() {
			p.submit(p.task(id, nil))
			close(ret)
		}()
		select {
		case <-ret:
			mismatch(label + ": a Go call returned that blocks in the model (queue full, every runner busy)")
		case <-time.After(3 * time.Millisecond):
		}
		target := atomic.LoadInt64(&p.ended)
		close(gate)
		select {
		case <-ret:
		case <-time.After(deadline):
			oracle("go-hangs", label+": a Go call blocked on a full queue did not return after the running tasks ended")
			return false
		}
		if !waitFor(func() bool { return atomic.LoadInt64(&p.ended) >= target+int64(n)+1 }) {
			oracle("task-never-ran", fmt.Sprintf("%s: %d tasks were released, %d ended", label, n+1, atomic.LoadInt64(&p.ended)-target))
			return false
		}
		if m != nil {
			ask(m, "finish")
			ask(m, "enq %d", id)
			ask(m, "drecv %d", id) // Q = 0: rendezvous (no effect otherwise)
			agree(label+": after the gate opened (with one Go call that had blocked)", ask(m, "finish"))
		}
		return true
	}
	// fill: every task blocks on the gate; state after each Go is determined
	fill := func(label string) bool {
		gate := make(chan struct{})
		defer func() {
			select {
			case <-gate:
			default:
				close(gate)
			}
		}()
		limit := admitted(sc.Bound) + sc.Queue + 3
		n := 0
		for k := 0; k < limit; k++ {
			nextID++
			id := nextID
			if m == nil && n >= admitted(sc.Bound)+sc.Queue {
				break
			}
			if m != nil {
				t := ask(m, "go %d", id)
				if t.extra == "blocked" {
					// this Go call would block: undo nothing in the implementation, rebuild the model state without it
					return fillBlocked(label, n, gate, id)
				}
				if !p.submitTimed(p.task(id, func() { <-gate })) {
					oracle("go-hangs", fmt.Sprintf("%s: Go #%d does not return although a runner or a queue slot is free (model: %s)", label, n+1, t.extra))
					return false
				}
				n++
				if !agree(fmt.Sprintf("%s: after Go #%d", label, n), t) {
					return false
				}
			} else {
				if !p.submitTimed(p.task(id, func() { <-gate })) {
					oracle("go-hangs", fmt.Sprintf("%s: Go #%d does not return although a runner or a queue slot is free", label, n+1))
					return false
				}
				n++
			}
		}
		return finishFill(label, n, gate)
	}
	if !fill("fresh pool") {
		return
	}
	// barrier on the fresh pool: as many mutually waiting tasks as it admits
	barrier := func(label string) bool {
		w := admitted(sc.Bound)
		var arrived int64
		release := make(chan struct{})
		base := atomic.LoadInt64(&p.ended)
		for k := 0; k < w; k++ {
			nextID++
			if !p.submitTimed(p.task(nextID, func() {
				if int(atomic.AddInt64(&arrived, 1)) == w {
					close(release)
				}
				<-release
			})) {
				oracle("capacity-lost", fmt.Sprintf("%s: Go call %d of a barrier of %d mutually waiting tasks (what a fresh pool with bound %d runs at once) does not return", label, k+1, w, sc.Bound))
				select {
				case <-release:
				default:
					close(release)
				}
				return false
			}
		}
		if !waitFor(func() bool { return atomic.LoadInt64(&p.ended) == base+int64(w) }) {
			oracle("capacity-lost", fmt.Sprintf("%s: a barrier of %d mutually waiting tasks (what a fresh pool with bound %d runs at once) does not complete: %d arrived", label, w, sc.Bound, atomic.LoadInt64(&arrived)))
			select {
			case <-release:
			default:
				close(release)
			}
			return false
		}
		if m != nil {
			for k := 0; k < w; k++ {
				ask(m, "go %d", 100000+nextID*10+k)
			}
			t := ask(m, "finish")
			if !agree(label+": after the barrier", t) {
				return false
			}
		}
		return true
	}
	if !barrier("fresh pool") {
		return
	}
	// nil tasks on the idle pool: bursts of `bound` (then more) Go(nil). They do nothing; afterwards the pool must be as good as
	// new: counter 0, and the same fill (lock step with the model, which was never told about them: a task that does nothing
	// leaves no trace at a quiescent point) and barrier as on the fresh pool.
	nilBurst := func(label string) bool {
		b := sc.Bound
		if b < 2 {
			b = 2
		}
		sent := 0
		counterOff := false
		for _, n := range []int{b, 3 * b} {
			for k := 0; k < n; k++ {
				if !p.submitNil() {
					oracle("go-hangs", fmt.Sprintf("%s: Go(nil) #%d does not return on an idle pool", label, sent+1))
					return false
				}
				sent++
			}
			if !stable(func() bool { return taskpool.VerifConcurrent(p.tp) == 0 && taskpool.VerifQueueLen(p.tp) == 0 }) {
				oracle("counter-not-restored", fmt.Sprintf("%s: after %d Go(nil) calls the pool is idle but the running-worker counter is %d (queue %d)", label, sent, taskpool.VerifConcurrent(p.tp), taskpool.VerifQueueLen(p.tp)))
				m = nil // the implementation's counter is off: no lock step any more, the barrier decides about the capacity
				counterOff = true
				break
			}
		}
		rep.StatN("nil-tasks.idle-burst", sent)
		if counterOff {
			barrier(label)
			return false
		}
		return fill(label) && barrier(label)
	}
	if sc.Nils && !nilBurst("after nil tasks") {
		return
	}
	// overload: bursts above the bound from several submitters, queue full, short tasks, some panicking
	r := rand.New(rand.NewSource(sc.Seed))
	for round := 0; round < sc.Rounds; round++ {
		var wg sync.WaitGroup
		base := atomic.LoadInt64(&p.ended)
		total := 0
		var ids []int
		for s := 0; s < sc.Subs; s++ {
			var mine []int
			for k := 0; k < sc.Burst; k++ {
				nextID++
				mine = append(mine, nextID)
				ids = append(ids, nextID)
				total++
			}
			spin := r.Intn(3)
			wg.Add(1)
			go func(mine []int, spin int) {
				defer wg.Done()
				for k, id := range mine {
					id := id
					if sc.Nils && (k+spin)%6 == 2 {
						if p.io != nil {
							p.io.Go(nil)
						} else {
							p.tp.Go(nil)
						}
					}
					p.submit(p.task(id, func() {
						if spin == 0 {
							time.Sleep(30 * time.Microsecond)
						} else {
							for i := 0; i < spin*200; i++ {
								_ = i * i
							}
						}
						if sc.Panics && id%5 == 0 {
							panic("task panics")
						}
					}))
				}
			}(mine, spin)
		}
		done := make(chan struct{})
		go func() { wg.Wait(); close(done) }()
		select {
		case <-done:
		case <-time.After(deadline):
			oracle("go-hangs", fmt.Sprintf("overload round %d: Go calls did not return", round))
			return
		}
		if !waitFor(func() bool { return atomic.LoadInt64(&p.ended) >= base+int64(total) }) {
			oracle("task-never-ran", fmt.Sprintf("overload round %d: %d of %d accepted tasks ran", round, atomic.LoadInt64(&p.ended)-base, total))
			return
		}
		for _, id := range ids {
			if n := p.runsOf(id); n != 1 {
				oracle("task-ran-twice", fmt.Sprintf("overload round %d: task %d ran %d times", round, id, n))
				return
			}
		}
		if !stable(func() bool { return taskpool.VerifConcurrent(p.tp) == 0 && taskpool.VerifQueueLen(p.tp) == 0 }) {
			oracle("counter-not-restored", fmt.Sprintf("overload round %d: the pool is idle but the running-worker counter is %d (queue %d)", round, taskpool.VerifConcurrent(p.tp), taskpool.VerifQueueLen(p.tp)))
			return
		}
		offset += total
	}
	checkBound := func(when string) bool {
		mx := int(atomic.LoadInt64(&p.max))
		b := sc.Bound
		if b < 1 {
			b = 1
		}
		if mx > b {
			oracle("bound-exceeded", fmt.Sprintf("%s: %d tasks were running at once, the configured bound is %d", when, mx, sc.Bound))
			return false
		}
		if mx > admitted(sc.Bound) {
			mismatch(fmt.Sprintf("%s: %d tasks were running at once, the model's bound is max(1, maxConcurrent) = %d", when, mx, admitted(sc.Bound)))
		}
		return true
	}
	if !checkBound("after the overload") {
		return
	}
	if sc.Rounds > 0 {
		// the model at a quiescent point after any history has the same shape as a fresh one (c19_counter);
		// the same fill and barrier must behave as on the fresh pool
		if !fill("after overload") || !barrier("after overload") {
			return
		}
		if sc.Nils && !nilBurst("after overload and nil tasks") {
			return
		}
	}
	// Stop: tasks accepted before it run exactly once; submissions racing it run at most once; Go returns
	var pre []int
	gate := make(chan struct{})
	nPre := sc.PreStop
	if lim := admitted(sc.Bound) + sc.Queue; nPre > lim {
		nPre = lim
	}
	if m != nil {
		// model: the same tasks, all blocked, then Stop, then everything completes
		for k := 0; k < nPre; k++ {
			t := ask(m, "go %d", 500000+k)
			if t.extra == "blocked" {
				hx.Fatal("model blocks on pre-stop task %d of %d", k, nPre)
			}
		}
	}
	for k := 0; k < nPre; k++ {
		nextID++
		pre = append(pre, nextID)
		if !p.submitTimed(p.task(nextID, func() { <-gate })) {
			oracle("go-hangs", fmt.Sprintf("Go call %d of %d before Stop does not return although a runner or a queue slot is free", k+1, nPre))
			close(gate)
			return
		}
	}
	var racing []int
	var rwg sync.WaitGroup
	for k := 0; k < sc.Racing; k++ {
		nextID++
		id := nextID
		racing = append(racing, id)
		rwg.Add(1)
		go func() {
			defer rwg.Done()
			p.submit(p.task(id, nil))
		}()
	}
	p.stop()
	stopped = true
	close(gate)
	rdone := make(chan struct{})
	go func() { rwg.Wait(); close(rdone) }()
	select {
	case <-rdone:
	case <-time.After(deadline):
		oracle("go-hangs", "a Go call racing Stop did not return")
		return
	}
	if !waitFor(func() bool {
		for _, id := range pre {
			if p.runsOf(id) < 1 {
				return false
			}
		}
		return true
	}) {
		missing := 0
		for _, id := range pre {
			if p.runsOf(id) < 1 {
				missing++
			}
		}
		oracle("task-lost-at-stop", fmt.Sprintf("%d of %d tasks whose Go call returned before Stop never ran", missing, len(pre)))
		return
	}
	waitFor(func() bool {
		return atomic.LoadInt64(&p.cur) == 0 && atomic.LoadInt64(&p.started) == atomic.LoadInt64(&p.ended)
	})
	time.Sleep(2 * time.Millisecond)
	for _, id := range append(append([]int{}, pre...), racing...) {
		if n := p.runsOf(id); n > 1 {
			oracle("task-ran-twice", fmt.Sprintf("task %d ran %d times around Stop", id, n))
			return
		}
	}
	if !checkBound("around Stop") {
		return
	}
	if m != nil && sc.Racing == 0 {
		ask(m, "stop")
		t := ask(m, "finish")
		ok := stable(func() bool { return int(taskpool.VerifConcurrent(p.tp)) == t.c && taskpool.VerifQueueLen(p.tp) == t.q })
		if !ok {
			mismatch(fmt.Sprintf("after Stop and completion: model concurrent=%d queue=%d (dispatcher %s)", t.c, t.q, t.d))
		}
	}
}

// ---------- Timer.Async under the real scheduler ----------
func asyncPart(rep *hx.Report, seed int64, rounds int) {
	for round := 0; round < rounds && !rep.TooMany() && failures < 7; round++ {
		r := rand.New(rand.NewSource(seed*31 + int64(round)))
		tm := timer.New("verif")
		producers := 1 + r.Intn(4)
		per := 20 + r.Intn(200)
		backlog := round%2 == 0
		replay := map[string]interface{}{"harness": "taskpool", "part": "async", "producers": producers, "per_producer": per, "backlog_over_1024": backlog, "seed": seed, "round": round}
		hx.Current("C19", "the process died (a panic or fatal error inside the library) while this Timer.Async workload ran", replay)
		fail := func(sig, what string) {
			rep.Add(hx.Finding{Kind: "oracle", Property: "C19", Signature: sig, What: what, Replay: replay})
			failures++
		}
		var mu sync.Mutex
		var order [][2]int
		var cur, overlap int64
		runs := map[[2]int]int{}
		mk := func(pi, k int, body func()) func() {
			return func() {
				if atomic.AddInt64(&cur, 1) != 1 {
					atomic.StoreInt64(&overlap, 1)
				}
				mu.Lock()
				order = append(order, [2]int{pi, k})
				runs[[2]int{pi, k}]++
				mu.Unlock()
				if body != nil {
					body()
				}
				atomic.AddInt64(&cur, -1)
				if k%17 == 3 {
					panic("async function panics")
				}
			}
		}
		total := 0
		gate := make(chan struct{})
		if backlog {
			// one function blocks while more than 1024 are queued behind it
			tm.Async(mk(99, 0, func() { <-gate }))
			total++
			for k := 1; k <= 1100+r.Intn(300); k++ {
				tm.Async(mk(99, k, nil))
				total++
			}
			if _, c := timer.VerifAsyncListLocked(tm); c > 1024 {
				rep.Stat("async.backlog-over-1024")
			}
		}
		var wg sync.WaitGroup
		for pi := 0; pi < producers; pi++ {
			wg.Add(1)
			go func(pi int) {
				defer wg.Done()
				for k := 0; k < per; k++ {
					tm.Async(mk(pi, k, nil))
					if k%50 == 49 {
						time.Sleep(50 * time.Microsecond)
					}
				}
			}(pi)
			total += per
		}
		close(gate)
		wg.Wait()
		count := func() int { mu.Lock(); defer mu.Unlock(); return len(order) }
		if !waitFor(func() bool { return count() >= total }) {
			fail("async-job-never-ran", fmt.Sprintf("%d of %d functions passed to Async ran", count(), total))
			continue
		}
		// after everything is drained: later calls still run (also after the capacity-shrink branch)
		if !stable(func() bool { n, _ := timer.VerifAsyncListLocked(tm); return n == 0 }) {
			n, c := timer.VerifAsyncListLocked(tm)
			fail("async-list-not-empty-at-quiescence", fmt.Sprintf("every function ran but the list has len %d cap %d", n, c))
		}
		if backlog {
			if _, c := timer.VerifAsyncListLocked(tm); c > 1024 {
				rep.Stat("async.capacity-kept-after-backlog")
			} else {
				rep.Stat("async.shrink-branch-taken")
			}
		}
		for k := 0; k < 5; k++ {
			tm.Async(mk(100, k, nil))
			total++
		}
		if !waitFor(func() bool { return count() >= total }) {
			fail("async-job-never-ran", fmt.Sprintf("functions passed to Async after the queue was drained never ran: %d of %d ran in total", count(), total))
			continue
		}
		time.Sleep(time.Millisecond)
		mu.Lock()
		if atomic.LoadInt64(&overlap) != 0 {
			fail("async-overlap", "two functions passed to Async ran at the same time")
		}
		last := map[int]int{}
		for _, o := range order {
			if n := runs[o]; n != 1 {
				fail("async-job-ran-twice", fmt.Sprintf("function %v ran %d times", o, n))
				break
			}
			if prev, ok := last[o[0]]; ok && o[1] != prev+1 {
				fail("async-fifo-order", fmt.Sprintf("producer %d: function %d ran right after its function %d", o[0], o[1], prev))
				break
			}
			last[o[0]] = o[1]
		}
		mu.Unlock()
		rep.Case(fmt.Sprintf("async/%d/%d/%v", producers, per, backlog), producers > 1 || backlog)
		rep.Ops += total
	}
}

func main() {
	seed := flag.Int64("seed", 1, "")
	n := flag.Int("n", 60, "task pool scenarios")
	model := flag.String("model", "", "")
	out := flag.String("out", "-", "")
	verbose := flag.Bool("v", false, "progress on stderr")
	flag.Parse()
	if *out != "-" && *out != "" {
		hx.CurrentFile = *out + ".current"
	}
	logging.SetLevel(logging.LevelNone)
	rep := hx.NewReport("taskpool", *seed)
	rep.Rule = "task pool scenarios: bound 0-8, queue 0-64, default and custom caller, plain and IO pool; blocked fill (state compared with the model after every Go), barrier of mutually waiting tasks, 0-3 overload rounds of 2-6 submitters x 5-60 short tasks (some panicking) above the bound with the queue full, the same fill and barrier after the overload; in half of the scenarios nil tasks: Go(nil) mixed into the bursts and bursts of bound / 3 x bound Go(nil) on the idle pool followed by counter check, fill and barrier; then Stop with blocked accepted tasks and Go calls racing it; Async: 1-4 producers x 20-220 functions, every second round behind a blocked function with a backlog of 1100-1400; non-trivial = overload rounds > 0 or submissions racing Stop; distinct = distinct scenario parameters"
	var m *hx.Model
	if *model != "" {
		m = hx.StartModel(*model)
		defer m.Close()
	}
	r := rand.New(rand.NewSource(*seed))
	bounds := []int{0, 1, 2, 3, 4, 5, 8}
	queues := []int{0, 1, 2, 5, 64}
	for i := 0; i < *n && !rep.TooMany() && failures < 5; i++ {
		sc := scenario{Bound: bounds[r.Intn(len(bounds))], Queue: queues[r.Intn(len(queues))], Custom: r.Intn(3) == 0, IO: r.Intn(5) == 0,
			Rounds: r.Intn(4), Burst: 5 + r.Intn(56), Subs: 2 + r.Intn(5), Panics: r.Intn(2) == 0, PreStop: r.Intn(12), Racing: []int{0, 0, 3, 8}[r.Intn(4)], Nils: r.Intn(2) == 0, Seed: *seed*1009 + int64(i)}
		if i == 0 {
			sc = scenario{Bound: 0, Queue: 0, IO: true, Rounds: 2, Burst: 20, Subs: 3, PreStop: 1, Nils: true, Seed: *seed} // the engine's default IO pool
		}
		if i == 1 {
			sc = scenario{Bound: 5, Queue: 2, Rounds: 3, Burst: 60, Subs: 6, Panics: true, PreStop: 6, Nils: true, Seed: *seed}
		}
		if i == 2 {
			sc = scenario{Bound: 4, Queue: 64, Custom: true, Rounds: 3, Burst: 40, Subs: 5, PreStop: 20, Racing: 8, Seed: *seed}
		}
		if *verbose {
			fmt.Fprintf(os.Stderr, "scenario %d %+v\n", i, sc)
		}
		t0 := time.Now()
		runScenario(rep, m, sc)
		if *verbose {
			fmt.Fprintf(os.Stderr, "  %.3fs findings=%d\n", time.Since(t0).Seconds(), len(rep.Findings))
		}
		rep.Case(fmt.Sprintf("%d/%d/%v/%v/%d/%d/%d/%v/%d/%d/%v", sc.Bound, sc.Queue, sc.Custom, sc.IO, sc.Rounds, sc.Burst, sc.Subs, sc.Panics, sc.PreStop, sc.Racing, sc.Nils), sc.Rounds > 0 || sc.Racing > 0)
		rep.Ops += sc.Rounds * sc.Burst * sc.Subs
		rep.Stat(fmt.Sprintf("bound.%d", sc.Bound))
		rep.Stat(fmt.Sprintf("queue.%d", sc.Queue))
		if sc.Custom {
			rep.Stat("custom-caller")
		}
		if sc.IO {
			rep.Stat("io-pool")
		}
		if sc.Rounds > 0 {
			rep.Stat("with-overload")
		}
		if sc.Racing > 0 {
			rep.Stat("with-submissions-racing-stop")
		}
		if sc.Nils {
			rep.Stat("with-nil-tasks")
			if sc.IO {
				rep.Stat("with-nil-tasks.io-pool")
			}
			if sc.Custom {
				rep.Stat("with-nil-tasks.custom-caller")
			}
		}
		if i < 3 {
			rep.Sample(sc)
		}
	}
	asyncPart(rep, *seed, 2+*n/10)
	rep.Write(*out)
}
