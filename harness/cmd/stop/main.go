// Harness for C18 (Stop/Shutdown always terminate and reclaim connections, goroutines, descriptors).
// Real engines (core nbio and nbhttp), real sockets on 127.0.0.1, histories of connection activity, then Stop or
// Shutdown under a watchdog.
//
//	oracle (implementation alone): Stop returns within the bound; at return #OnClose == #OnOpen (core engine);
//	every peer connection is closed; goroutines and descriptors return to the level before Start.
//	model correspondence: the engine's counters (opened, close notifications) are replayed through the Coq
//	StopModel accounting by the recipe (see lib/props.py) - the harness exports the per-case history.
package main

import (
	"context"
	"flag"
	"fmt"
	"io"
	"math/rand"
	"net"
	"net/http"
	"net/url"
	"os"
	"runtime"
	"sort"
	"strconv"
	"strings"
	"sync"
	"sync/atomic"
	"syscall"
	"time"

	"github.com/lesismal/nbio"
	"github.com/lesismal/nbio/logging"
	"github.com/lesismal/nbio/nbhttp"
	"verifharness/hx"
)

func fdCount() int {
	d, err := os.ReadDir("/proc/self/fd")
	if err != nil {
		return -1
	}
	return len(d)
}

// settle waits until goroutines/fds are back at (or below) the given levels or the time is up
func settle(g0, f0 int, d time.Duration) (int, int) {
	deadline := time.Now().Add(d)
	for {
		runtime.GC()
		g, f := runtime.NumGoroutine(), fdCount()
		if (g <= g0 && f <= f0) || time.Now().After(deadline) {
			return g, f
		}
		time.Sleep(20 * time.Millisecond)
	}
}

// highest descriptor number currently open in this process
func maxFd() int {
	d, err := os.ReadDir("/proc/self/fd")
	if err != nil {
		return 64
	}
	m := 0
	for _, e := range d {
		if n, err := strconv.Atoi(e.Name()); err == nil && n > m {
			m = n
		}
	}
	return m
}

// fdLimit makes the next engine use a connection table (sized by Engine.Start from the package variable MaxOpenFiles)
// that ends a few descriptors above the ones in use, so that some of the history's connections are refused with
// "too many open files" (fd >= MaxOpenFiles). Call restore() right after Start. Returns the table size (0: unlimited).
func fdLimit(r *rand.Rand, np int) (int, func()) {
	old := nbio.MaxOpenFiles
	lim := maxFd() + 1 + 3*np + 12 + 2*r.Intn(5)
	if lim >= old {
		return 0, func() {}
	}
	nbio.MaxOpenFiles = lim
	return lim, func() { nbio.MaxOpenFiles = old }
}

// fillFds opens descriptors until only `room` descriptor numbers are left below lim, so that after about room/2
// connections (each uses one descriptor on either side, both in this process) the engine refuses the next ones.
func fillFds(lim, room int, h *history) []*os.File {
	var fs []*os.File
	for lim > 0 && maxFd()+1 < lim-room && len(fs) < 4096 {
		f, err := os.Open("/dev/null")
		if err != nil {
			break
		}
		fs = append(fs, f)
	}
	if lim > 0 {
		h.Steps = append(h.Steps, fmt.Sprintf("fd-table-room-%d", room))
	}
	return fs
}

// forced configuration of a corpus case (zero value: everything drawn from the seed)
type force struct {
	fdlimit    bool
	room       int
	iomod      int // 1 + nbhttp.IOMod*, 0 = random
	stopKind   string
	minSteps   int
	panicFirst bool
	lateDial   bool
}

// blackhole returns the address of a TCP socket that listens with backlog 0 and never accepts
func blackhole() (string, func()) {
	fd, err := syscall.Socket(syscall.AF_INET, syscall.SOCK_STREAM, 0)
	if err != nil {
		return "", func() {}
	}
	if err := syscall.Bind(fd, &syscall.SockaddrInet4{Addr: [4]byte{127, 0, 0, 1}}); err != nil {
		syscall.Close(fd)
		return "", func() {}
	}
	if err := syscall.Listen(fd, 0); err != nil {
		syscall.Close(fd)
		return "", func() {}
	}
	sa, err := syscall.Getsockname(fd)
	if err != nil {
		syscall.Close(fd)
		return "", func() {}
	}
	// fill the accept queue so that further connects stay in progress
	var fill []net.Conn
	for i := 0; i < 2; i++ {
		if c, err := net.DialTimeout("tcp", fmt.Sprintf("127.0.0.1:%d", sa.(*syscall.SockaddrInet4).Port), 200*time.Millisecond); err == nil {
			fill = append(fill, c)
		}
	}
	return fmt.Sprintf("127.0.0.1:%d", sa.(*syscall.SockaddrInet4).Port), func() {
		for _, c := range fill {
			c.Close()
		}
		syscall.Close(fd)
	}
}

// libGoroutines summarises the goroutines that are inside the library (top library frame and count)
func libGoroutines() string {
	buf := make([]byte, 1<<20)
	buf = buf[:runtime.Stack(buf, true)]
	counts := map[string]int{}
	for _, g := range strings.Split(string(buf), "\n\n") {
		for _, line := range strings.Split(g, "\n") {
			if strings.HasPrefix(line, "github.com/lesismal/nbio") {
				if k := strings.Index(line, "("); k > 0 {
					line = line[:strings.LastIndex(line, "(")]
				}
				counts[strings.TrimPrefix(line, "github.com/lesismal/nbio")]++
				break
			}
		}
	}
	var out []string
	for k, v := range counts {
		out = append(out, fmt.Sprintf("%s x%d", k, v))
	}
	sort.Strings(out)
	if len(out) == 0 {
		return "none"
	}
	return strings.Join(out, ", ")
}

// serverSide looks up, in /proc/net/tcp, the socket at the other end of the loopback connection c
func serverSide(c net.Conn) string {
	la, ok1 := c.LocalAddr().(*net.TCPAddr)
	ra, ok2 := c.RemoteAddr().(*net.TCPAddr)
	if !ok1 || !ok2 {
		return "?"
	}
	b, err := os.ReadFile("/proc/net/tcp")
	if err != nil {
		return "?"
	}
	want := fmt.Sprintf("0100007F:%04X 0100007F:%04X", ra.Port, la.Port)
	for _, line := range strings.Split(string(b), "\n") {
		if strings.Contains(line, want) {
			f := strings.Fields(line)
			if len(f) > 9 {
				owner := "no descriptor refers to it"
				if ents, err := os.ReadDir("/proc/self/fd"); err == nil {
					for _, e := range ents {
						if l, err := os.Readlink("/proc/self/fd/" + e.Name()); err == nil && l == "socket:["+f[9]+"]" {
							owner = "descriptor " + e.Name() + " of this process"
						}
					}
				}
				return fmt.Sprintf("state %s inode %s (%s)", f[3], f[9], owner)
			}
		}
	}
	return "no such socket"
}

func freePort() string {
	ln, err := net.Listen("tcp", "127.0.0.1:0")
	if err != nil {
		hx.Fatal("listen: %v", err)
	}
	a := ln.Addr().String()
	ln.Close()
	return a
}

type history struct {
	Engine    string   `json:"engine"`
	Mode      string   `json:"mode"`
	NPoller   int      `json:"npoller"`
	Steps     []string `json:"steps"`
	StopKind  string   `json:"stop"`
	Opened    int64    `json:"opened"`
	Closed    int64    `json:"close_notifications"`
	Returned  bool     `json:"stop_returned"`
	StopMs    int64    `json:"stop_ms"`
	Seed      int64    `json:"seed"`
	Transport string   `json:"transport,omitempty"`
	Log       string   `json:"event_log,omitempty"` // o=open n=close notification s=Stop called r=Stop returned, in real-time order
}

func epollCfg(mode int) (uint32, uint32, string) {
	switch mode {
	case 1:
		return nbio.EPOLLET, 0, "ET"
	case 2:
		return nbio.EPOLLET, nbio.EPOLLONESHOT, "ET+ONESHOT"
	}
	return nbio.EPOLLLT, 0, "LT"
}

const watchdog = 12 * time.Second

// ---------------- core engine ----------------
func coreCase(rep *hx.Report, seed int64, fo force) {
	r := rand.New(rand.NewSource(seed))
	g0, f0 := settle(0, 0, 0)
	em, os1, mname := epollCfg(r.Intn(3))
	np := 1 + r.Intn(3)
	addr := freePort()
	h := &history{Engine: "nbio", Mode: mname, NPoller: np, Seed: seed}
	hx.Current("C18", "the process died while this history of the core engine was running (steps are appended as they are issued; the forced configuration is part of the seed)", h)
	var opened, closed int64
	var logMu sync.Mutex
	var evlog []byte
	ev := func(c byte) { logMu.Lock(); evlog = append(evlog, c); logMu.Unlock() }
	maxw := 0
	overflowCase := r.Intn(4) == 0
	if overflowCase {
		maxw = 4096
	}
	var g *nbio.Engine
	mkEngine := func() {
		g = nbio.NewEngine(nbio.Config{Network: "tcp", Addrs: []string{addr}, NPoller: np, EpollMod: em, EPOLLONESHOT: os1, MaxWriteBufferSize: maxw})
	}
	lim, restoreLimit := 0, func() {}
	if r.Intn(4) == 0 || fo.fdlimit {
		lim, restoreLimit = fdLimit(r, np)
	}
	mkEngine()
	var mu sync.Mutex
	var sconns []*nbio.Conn
	// what the open / data handlers do with the k-th connection comes from a generator of its own (the histories of the
	// corpus seeds stay what they were): bit k of rejectMask = the open handler closes the connection at once (an admission
	// reject), bit k of hangupMask = the data handler answers and closes
	r2 := rand.New(rand.NewSource(seed ^ 0x5eed0c18))
	var rejectMask, hangupMask uint64
	if r2.Intn(3) == 0 {
		rejectMask = r2.Uint64() & r2.Uint64()
		if r2.Intn(3) == 0 {
			rejectMask = ^uint64(0)
		}
		h.Steps = append(h.Steps, fmt.Sprintf("open-handler-closes-mask=%x", rejectMask))
	}
	if r2.Intn(4) == 0 {
		hangupMask = r2.Uint64() & r2.Uint64()
		h.Steps = append(h.Steps, fmt.Sprintf("data-handler-closes-mask=%x", hangupMask))
	}
	var nth int64
	var hang sync.Map
	g.OnOpen(func(c *nbio.Conn) {
		ev('o')
		atomic.AddInt64(&opened, 1)
		k := uint(atomic.AddInt64(&nth, 1)-1) % 64
		mu.Lock()
		sconns = append(sconns, c)
		mu.Unlock()
		if hangupMask>>k&1 == 1 {
			hang.Store(c, true)
		}
		if rejectMask>>k&1 == 1 {
			c.Close()
		}
	})
	g.OnClose(func(c *nbio.Conn, err error) { ev('n'); atomic.AddInt64(&closed, 1) })
	g.OnData(func(c *nbio.Conn, data []byte) {
		c.Write(append([]byte{}, data...))
		if _, ok := hang.Load(c); ok {
			c.Close()
		}
	})
	err := g.Start()
	restoreLimit()
	if err != nil {
		rep.Stat("core.start-failed")
		return
	}
	// a plain listener for connections that are ADDED / dialed rather than accepted
	ext, _ := net.Listen("tcp", "127.0.0.1:0")
	var extConns []net.Conn
	var extMu sync.Mutex
	go func() {
		for {
			c, err := ext.Accept()
			if err != nil {
				return
			}
			extMu.Lock()
			extConns = append(extConns, c)
			extMu.Unlock()
		}
	}()
	var clients []net.Conn
	room := 2 * r.Intn(4)
	if fo.fdlimit {
		room = fo.room
	}
	fillers := fillFds(lim, room, h)
	closeFillers := func() {
		for _, f := range fillers {
			f.Close()
		}
		fillers = nil
	}
	defer closeFillers()
	nsteps := r.Intn(9)
	if nsteps < fo.minSteps {
		nsteps = fo.minSteps
	}
	for i := 0; i < nsteps; i++ {
		switch r.Intn(8) {
		case 0, 1: // accepted connection, some traffic
			c, err := net.Dial("tcp", addr)
			if err == nil {
				clients = append(clients, c)
				c.Write([]byte("hello"))
				h.Steps = append(h.Steps, "accept+echo")
			}
		case 2: // connection added with AddConn
			c, err := net.Dial("tcp", ext.Addr().String())
			if err == nil {
				if _, err := g.AddConn(c); err == nil {
					h.Steps = append(h.Steps, "addconn")
				}
			}
		case 3: // asynchronous dial
			// a dialed connection has no OnOpen; its close notification is owed from the moment DialAsync accepted it
			logMu.Lock() // the open event must precede any close notification of this dial in the log
			if err := g.DialAsync("tcp", ext.Addr().String(), func(c *nbio.Conn, err error) {}); err == nil {
				evlog = append(evlog, 'o')
				atomic.AddInt64(&opened, 1)
			}
			logMu.Unlock()
			h.Steps = append(h.Steps, "dialasync")
		case 4: // in-flight backlog towards a peer that does not read
			c, err := net.Dial("tcp", addr)
			if err == nil {
				clients = append(clients, c)
				time.Sleep(5 * time.Millisecond)
				mu.Lock()
				if n := len(sconns); n > 0 {
					sc := sconns[n-1]
					mu.Unlock()
					if overflowCase {
						// vectored write beyond MaxWriteBufferSize: fails hard, the connection must still be reclaimed
						sc.Writev([][]byte{make([]byte, 3000), make([]byte, 3000), make([]byte, 3000)})
						h.Steps = append(h.Steps, "writev-overflow")
					} else {
						sc.Write(make([]byte, 4<<20))
						h.Steps = append(h.Steps, "backlog")
					}
				} else {
					mu.Unlock()
				}
			}
		case 5: // pending timer
			mu.Lock()
			if n := len(sconns); n > 0 {
				sconns[r.Intn(n)].SetDeadline(time.Now().Add(time.Hour))
				h.Steps = append(h.Steps, "deadline")
			}
			mu.Unlock()
		case 6: // peer closes
			if n := len(clients); n > 0 {
				clients[r.Intn(n)].Close()
				h.Steps = append(h.Steps, "peer-close")
			}
		case 7: // server side close
			mu.Lock()
			if n := len(sconns); n > 0 {
				sconns[r.Intn(n)].Close()
				h.Steps = append(h.Steps, "server-close")
			}
			mu.Unlock()
		}
	}
	// the engine's serial Async queue (close notifications, Stop's closes) with a long history behind it: more than 1024
	// calls pending at once behind a blocked one, drained before the history goes on (drawn from r2)
	if r2.Intn(3) == 0 {
		gate := make(chan struct{})
		var ran int64
		g.Async(func() { <-gate })
		nb := 1025 + r2.Intn(600)
		for k := 0; k < nb; k++ {
			g.Async(func() { atomic.AddInt64(&ran, 1) })
		}
		close(gate)
		for w := 0; w < 400 && atomic.LoadInt64(&ran) < int64(nb); w++ {
			time.Sleep(5 * time.Millisecond)
		}
		h.Steps = append(h.Steps, fmt.Sprintf("async-backlog-%d-drained(%d ran)", nb, atomic.LoadInt64(&ran)))
	}
	closeBlackhole := func() {}
	// asynchronous dials that are still PENDING when Stop begins: a listening socket with backlog 0 that never accepts takes
	// one connection and drops the further SYNs, so the connects stay in progress (drawn from r2: corpus seeds unchanged)
	if r2.Intn(3) == 0 {
		if bh, closeBH := blackhole(); bh != "" {
			closeBlackhole = closeBH
			np := 2 + r2.Intn(6)
			for k := 0; k < np; k++ {
				logMu.Lock()
				var derr error
				if r2.Intn(2) == 0 {
					derr = g.DialAsync("tcp", bh, func(c *nbio.Conn, err error) {})
				} else {
					derr = g.DialAsyncTimeout("tcp", bh, time.Duration(20+r2.Intn(2000))*time.Millisecond, func(c *nbio.Conn, err error) {})
				}
				if derr == nil {
					evlog = append(evlog, 'o')
					atomic.AddInt64(&opened, 1)
				}
				logMu.Unlock()
			}
			h.Steps = append(h.Steps, fmt.Sprintf("dialasync-pending x%d", np))
			if r2.Intn(2) == 0 {
				time.Sleep(time.Duration(r2.Intn(60)) * time.Millisecond) // some of the dial timeouts fire before Stop
			}
		}
	}
	time.Sleep(time.Duration(5+r.Intn(30)) * time.Millisecond)
	// closes racing with Stop
	if r.Intn(2) == 0 {
		mu.Lock()
		cs := append([]*nbio.Conn{}, sconns...)
		mu.Unlock()
		for _, c := range cs {
			cc := c
			go cc.Close()
		}
		h.Steps = append(h.Steps, "concurrent-closes")
	}
	h.StopKind = []string{"Stop", "Shutdown"}[r.Intn(2)]
	if fo.stopKind != "" {
		h.StopKind = fo.stopKind
	}
	done := make(chan struct{})
	t0 := time.Now()
	go func() {
		ev('s')
		if h.StopKind == "Stop" {
			g.Stop()
		} else {
			ctx, cancel := context.WithTimeout(context.Background(), watchdog+5*time.Second)
			g.Shutdown(ctx)
			cancel()
		}
		ev('r')
		close(done)
	}()
	select {
	case <-done:
		h.Returned = true
	case <-time.After(watchdog):
	}
	h.StopMs = time.Since(t0).Milliseconds()
	h.Opened, h.Closed = atomic.LoadInt64(&opened), atomic.LoadInt64(&closed)
	time.Sleep(30 * time.Millisecond) // a notification after the return would be logged behind 'r'
	logMu.Lock()
	h.Log = string(evlog)
	logMu.Unlock()
	ext.Close()
	closeFillers()
	closeBlackhole()
	finish(rep, h, g0, f0, func() {
		for _, c := range clients {
			c.Close()
		}
		extMu.Lock()
		for _, c := range extConns {
			c.Close()
		}
		extMu.Unlock()
	}, clients)
}

// ---------------- nbhttp engine ----------------
type faultListener struct {
	net.Listener
	at    int32
	calls int32
}

func (l *faultListener) Accept() (net.Conn, error) {
	if atomic.AddInt32(&l.calls, 1) == l.at {
		return nil, &net.OpError{Op: "accept", Net: "tcp", Err: syscall.EMFILE}
	}
	return l.Listener.Accept()
}

// diagnostic (STOP_TRACE=1): logs what the standard library's Accept hands to the engine
type traceListener struct{ net.Listener }

func (l *traceListener) Accept() (net.Conn, error) {
	c, err := l.Listener.Accept()
	if err == nil {
		pcs := make([]uintptr, 8)
		n := runtime.Callers(2, pcs)
		var who []string
		fr := runtime.CallersFrames(pcs[:n])
		for {
			f, more := fr.Next()
			who = append(who, f.Function)
			if !more {
				break
			}
		}
		fmt.Fprintf(os.Stderr, "TRACE stdlib-accept %v by %p %v\n", c.RemoteAddr(), l, who)
	} else {
		fmt.Fprintf(os.Stderr, "TRACE stdlib-accept-error %v\n", err)
	}
	return c, err
}

func (l *traceListener) Close() error {
	fmt.Fprintf(os.Stderr, "TRACE listener-close\n")
	return l.Listener.Close()
}

func httpCase(rep *hx.Report, seed int64, fo force) {
	r := rand.New(rand.NewSource(seed))
	g0, f0 := settle(0, 0, 0)
	em, os1, mname := epollCfg(r.Intn(3))
	iomod := []int{nbhttp.IOModNonBlocking, nbhttp.IOModBlocking, nbhttp.IOModMixed}[r.Intn(3)]
	if fo.iomod > 0 {
		iomod = fo.iomod - 1
	}
	addr := freePort()
	h := &history{Engine: "nbhttp", Mode: fmt.Sprintf("%s/iomod=%d", mname, iomod), NPoller: 1 + r.Intn(2), Seed: seed}
	conf := nbhttp.Config{Network: "tcp", Addrs: []string{addr}, NPoller: h.NPoller, EpollMod: em, EPOLLONESHOT: os1, IOMod: iomod,
		Handler: http.HandlerFunc(func(w http.ResponseWriter, req *http.Request) {
			io.Copy(io.Discard, req.Body)
			if req.URL.Path == "/panic" {
				panic("harness: handler panics (must be contained: C05/C19)")
			}
			w.Write([]byte("ok:" + req.URL.Path))
		})}
	hx.Current("C18", fmt.Sprintf("the process died while this nbhttp history was running (forced configuration %+v)", fo), h)
	acceptFault := r.Intn(4) == 0
	if acceptFault {
		at := int32(1 + r.Intn(3))
		conf.Listen = func(network, a string) (net.Listener, error) {
			ln, err := net.Listen(network, a)
			if err != nil {
				return nil, err
			}
			return &faultListener{Listener: ln, at: at}, nil
		}
		h.Steps = append(h.Steps, fmt.Sprintf("accept-error-at-call-%d", at))
	}
	if os.Getenv("STOP_TRACE") != "" && conf.Listen == nil {
		conf.Listen = func(network, a string) (net.Listener, error) {
			ln, err := net.Listen(network, a)
			if err != nil {
				return nil, err
			}
			return &traceListener{ln}, nil
		}
	}
	var e *nbhttp.Engine
	mkEngine := func() { e = nbhttp.NewEngine(conf) }
	lim, restoreLimit := 0, func() {}
	if r.Intn(3) == 0 || fo.fdlimit {
		lim, restoreLimit = fdLimit(r, h.NPoller)
	}
	mkEngine()
	err := e.Start()
	restoreLimit()
	if err != nil {
		rep.Stat("http.start-failed")
		return
	}
	var clients []net.Conn
	room := 2 * r.Intn(4)
	if fo.fdlimit {
		room = fo.room
	}
	fillers := fillFds(lim, room, h)
	closeFillers := func() {
		for _, f := range fillers {
			f.Close()
		}
		fillers = nil
	}
	defer closeFillers()
	nsteps := r.Intn(7)
	if nsteps < fo.minSteps {
		nsteps = fo.minSteps
	}
	for i := 0; i < nsteps; i++ {
		c, err := net.DialTimeout("tcp", addr, time.Second)
		if err != nil {
			h.Steps = append(h.Steps, "dial-failed")
			continue
		}
		clients = append(clients, c)
		kind := r.Intn(5)
		if fo.panicFirst && i == 0 {
			kind = 4
		}
		switch kind {
		case 4: // a handler that panics on a keep-alive connection, then an ordinary request behind it
			c.Write([]byte("GET /panic HTTP/1.1\r\nHost: x\r\n\r\nGET /after HTTP/1.1\r\nHost: x\r\n\r\n"))
			c.SetReadDeadline(time.Now().Add(300 * time.Millisecond))
			buf := make([]byte, 4096)
			c.Read(buf)
			c.SetReadDeadline(time.Time{})
			h.Steps = append(h.Steps, "handler-panic")
			hx.Current("C18", "the process died after a handler panic on a kept-alive connection (nbhttp)", h)
		case 0: // complete exchange, keep-alive
			c.Write([]byte("GET /a HTTP/1.1\r\nHost: x\r\n\r\n"))
			c.SetReadDeadline(time.Now().Add(2 * time.Second))
			buf := make([]byte, 4096)
			c.Read(buf)
			c.SetReadDeadline(time.Time{})
			h.Steps = append(h.Steps, "exchange")
		case 1: // half a request
			c.Write([]byte("POST /b HTTP/1.1\r\nHost: x\r\nContent-Length: 100\r\n\r\nabc"))
			h.Steps = append(h.Steps, "half-request")
		case 2: // idle
			h.Steps = append(h.Steps, "idle-conn")
		case 3: // request without reading the answer
			c.Write([]byte("GET /c HTTP/1.1\r\nHost: x\r\n\r\n"))
			h.Steps = append(h.Steps, "unread-response")
		}
	}
	time.Sleep(time.Duration(20+r.Intn(40)) * time.Millisecond)
	h.StopKind = []string{"Stop", "Shutdown"}[r.Intn(2)]
	if fo.stopKind != "" {
		h.StopKind = fo.stopKind
	}
	// the engine used as a CLIENT too: a dial that completes a few ms after Stop/Shutdown has begun registers a
	// connection behind the first sweep over the connection tables
	stopBegins := make(chan struct{})
	lateCleanup := func() {}
	var lateLn net.Listener
	if fo.lateDial || r.Intn(4) == 0 {
		lateLn, _ = net.Listen("tcp", "127.0.0.1:0")
	}
	if lateLn != nil {
		var held []net.Conn
		var heldMu sync.Mutex
		go func() {
			for {
				c, err := lateLn.Accept()
				if err != nil {
					return
				}
				heldMu.Lock()
				held = append(held, c) // accepted, never answered
				heldMu.Unlock()
			}
		}()
		delay := time.Duration(5+r.Intn(60)) * time.Millisecond
		var cc *nbhttp.ClientConn
		lateCleanup = func() {
			// the harness's own side of the late dial: not the engine's to reclaim
			time.Sleep(delay + 50*time.Millisecond)
			cc.Close()
			lateLn.Close()
			heldMu.Lock()
			for _, c := range held {
				c.Close()
			}
			heldMu.Unlock()
			time.Sleep(20 * time.Millisecond)
		}
		cc = &nbhttp.ClientConn{Engine: e, Timeout: 20 * time.Second, Dial: func(network, addr string) (net.Conn, error) {
			<-stopBegins
			time.Sleep(delay)
			return net.DialTimeout(network, addr, 2*time.Second)
		}}
		u, _ := url.Parse("http://" + lateLn.Addr().String() + "/late")
		go cc.Do(&http.Request{Method: "GET", URL: u, Host: u.Host, Header: http.Header{}, Proto: "HTTP/1.1", ProtoMajor: 1, ProtoMinor: 1},
			func(res *http.Response, conn net.Conn, err error) {})
		h.Steps = append(h.Steps, fmt.Sprintf("client-dial-completes-%v-after-stop-begins", delay))
		hx.Current("C18", "the process died while this nbhttp history (with a late client dial) was running", h)
	}
	// peers that connect WHILE Stop/Shutdown is closing the listeners (drawn from a generator of its own: the histories of
	// the corpus seeds stay what they were): a connection the kernel has established is either served and closed or closed
	// at once - never accepted and then forgotten
	r2 := rand.New(rand.NewSource(seed ^ 0x5eed0c18))
	var storm []net.Conn
	var stormWG sync.WaitGroup
	if r2.Intn(3) == 0 {
		nstorm := 8 + r2.Intn(40)
		lead := time.Duration(r2.Intn(3000)) * time.Microsecond
		stormWG.Add(1)
		go func() {
			defer stormWG.Done()
			for k := 0; k < nstorm; k++ {
				c, err := net.DialTimeout("tcp", addr, 300*time.Millisecond)
				if err != nil {
					return // the listener is gone
				}
				storm = append(storm, c)
				if k%3 == 0 {
					c.Write([]byte("GET /s HTTP/1.1\r\nHost: x\r\n\r\n"))
				}
			}
		}()
		time.Sleep(lead)
		h.Steps = append(h.Steps, fmt.Sprintf("%d-peers-connecting-while-stop-begins(lead %v)", nstorm, lead))
	}
	done := make(chan struct{})
	t0 := time.Now()
	go func() {
		close(stopBegins)
		if h.StopKind == "Stop" {
			e.Stop()
		} else {
			ctx, cancel := context.WithTimeout(context.Background(), watchdog+5*time.Second)
			e.Shutdown(ctx)
			cancel()
		}
		close(done)
	}()
	select {
	case <-done:
		h.Returned = true
	case <-time.After(watchdog):
	}
	h.StopMs = time.Since(t0).Milliseconds()
	h.Opened, h.Closed = -1, -1
	stormWG.Wait()
	clients = append(clients, storm...)
	closeFillers()
	lateCleanup()
	finish(rep, h, g0, f0, func() {
		for _, c := range clients {
			c.Close()
		}
	}, clients)
}

func finish(rep *hx.Report, h *history, g0, f0 int, cleanup func(), peers []net.Conn) {
	key := fmt.Sprintf("%s/%s/%d/%v/%s", h.Engine, h.Mode, h.NPoller, h.Steps, h.StopKind)
	rep.Case(key, len(h.Steps) > 0)
	rep.Ops += len(h.Steps) + 1
	rep.Stat(h.Engine + "." + h.StopKind)
	for _, s := range h.Steps {
		rep.Stat("step." + s)
	}
	sigp := h.Engine + "-" + h.StopKind
	if model != nil && h.Log != "" && h.Returned {
		rep.Stat("model.logs-checked")
		if ans := model.Ask("%s", h.Log); ans != "legal" {
			rep.Add(hx.Finding{Kind: "mismatch", Property: "C18", Signature: "stop-model-log", What: "the engine's event log " + h.Log + " is not a behaviour of the Stop model (checker says " + ans + ")", Replay: h})
		}
	}
	if !h.Returned {
		rep.Add(hx.Finding{Kind: "oracle", Property: "C18", Signature: "stop-hangs-" + sigp,
			What: fmt.Sprintf("%s did not return within %v (opened=%d, close notifications=%d)", h.StopKind, watchdog, h.Opened, h.Closed), Replay: h})
		cleanup()
		return
	}
	if h.Opened >= 0 && h.Opened != h.Closed {
		rep.Add(hx.Finding{Kind: "oracle", Property: "C18", Signature: "close-notifications-missing-" + sigp,
			What: fmt.Sprintf("%s returned with %d open notifications but %d close notifications", h.StopKind, h.Opened, h.Closed), Replay: h})
	}
	// every managed connection is closed: each peer sees EOF / an error promptly
	for i, c := range peers {
		c.SetReadDeadline(time.Now().Add(3 * time.Second))
		buf := make([]byte, 1<<16)
		var err error
		for err == nil {
			_, err = c.Read(buf)
		}
		if ne, ok := err.(net.Error); ok && ne.Timeout() {
			side := serverSide(c)
			if side == "no such socket" {
				// the kernel told the peer "established" but never completed a server-side socket for it (the listener was
				// closed while the handshake was still in its queues): the library never saw this connection
				rep.Stat("peer-connection-never-reached-accept(kernel)")
				continue
			}
			gor := libGoroutines()
			runtime.GC()
			time.Sleep(50 * time.Millisecond)
			runtime.GC()
			time.Sleep(50 * time.Millisecond)
			after := serverSide(c)
			rep.Add(hx.Finding{Kind: "oracle", Property: "C18", Signature: "connection-left-open-" + sigp,
				What: fmt.Sprintf("peer connection %d (%v) is still open 3s after %s returned; library goroutines still alive: %s; server side of it: %s; after two forced garbage collections: %s", i, c.LocalAddr(), h.StopKind, gor, side, after), Replay: h})
			break
		}
	}
	cleanup()
	g1, f1 := settle(g0, f0, 4*time.Second)
	if g1 > g0 {
		buf := make([]byte, 1<<16)
		buf = buf[:runtime.Stack(buf, true)]
		rep.Add(hx.Finding{Kind: "oracle", Property: "C18", Signature: "goroutines-leaked-" + sigp,
			What: fmt.Sprintf("%d goroutines before Start, %d four seconds after %s returned\n%s", g0, g1, h.StopKind, trunc(string(buf), 3000)), Replay: h})
	}
	if f1 > f0 {
		rep.Add(hx.Finding{Kind: "oracle", Property: "C18", Signature: "descriptors-leaked-" + sigp,
			What: fmt.Sprintf("%d descriptors before Start, %d after %s returned", f0, f1, h.StopKind), Replay: h})
	}
	if len(rep.Samples) < 4 {
		rep.Sample(h)
	}
	if hs := histories(rep); len(hs) < 30 {
		rep.Extra["histories"] = append(hs, h)
	}
}

func histories(rep *hx.Report) []*history {
	if v, ok := rep.Extra["histories"].([]*history); ok {
		return v
	}
	return nil
}

func trunc(s string, n int) string {
	if len(s) > n {
		return s[:n]
	}
	return s
}

// ---------------- Stop racing with the start of the poller goroutines ----------------
// Engine.Start returns as soon as the poller goroutines are created; they begin to run whenever the scheduler gets to
// them. With a single P and no yield between Start and Stop the stop request reaches every poller BEFORE its goroutine
// has run at all - the extreme point of the race, made deterministic. Runs last: a hang leaves this goroutine stuck in
// Stop, so the watchdog writes the report and ends the process.
func immediateStops(rep *hx.Report, out string, seed int64) {
	prev := runtime.GOMAXPROCS(1)
	defer runtime.GOMAXPROCS(prev)
	r := rand.New(rand.NewSource(seed))
	type cur struct {
		h  *history
		t0 time.Time
	}
	var mu sync.Mutex
	var now *cur
	stopWatch := make(chan struct{})
	go func() {
		tk := time.NewTicker(200 * time.Millisecond)
		defer tk.Stop()
		for {
			select {
			case <-stopWatch:
				return
			case <-tk.C:
				mu.Lock()
				c := now
				mu.Unlock()
				if c != nil && time.Since(c.t0) > watchdog {
					c.h.StopMs = time.Since(c.t0).Milliseconds()
					rep.Case(fmt.Sprintf("%s/%s/%d/immediate/%s", c.h.Engine, c.h.Mode, c.h.NPoller, c.h.StopKind), true)
					rep.Add(hx.Finding{Kind: "oracle", Property: "C18", Signature: "stop-hangs-right-after-start-" + c.h.Engine + "-" + c.h.StopKind,
						What: fmt.Sprintf("%s called right after Start (before the poller goroutines had run, GOMAXPROCS=1) did not return within %v", c.h.StopKind, watchdog), Replay: c.h})
					rep.Write(out)
					os.Exit(0)
				}
			}
		}
	}()
	for i := 0; i < 18; i++ {
		em, os1, mname := epollCfg(i % 3)
		np := 1 + r.Intn(4)
		h := &history{Engine: "nbio", Mode: mname, NPoller: np, Seed: seed, Steps: []string{"stop-right-after-start"}, Opened: -1, Closed: -1}
		h.StopKind = []string{"Stop", "Shutdown"}[i/3%2]
		var start func() error
		var stop func()
		if i >= 9 {
			h.Engine = "nbhttp"
			iomod := []int{nbhttp.IOModNonBlocking, nbhttp.IOModBlocking, nbhttp.IOModMixed}[r.Intn(3)]
			h.Mode = fmt.Sprintf("%s/iomod=%d", mname, iomod)
			e := nbhttp.NewEngine(nbhttp.Config{Network: "tcp", Addrs: []string{freePort()}, NPoller: np, EpollMod: em, EPOLLONESHOT: os1, IOMod: iomod,
				Handler: http.HandlerFunc(func(w http.ResponseWriter, req *http.Request) {})})
			start = e.Start
			stop = func() {
				if h.StopKind == "Stop" {
					e.Stop()
				} else {
					ctx, cancel := context.WithTimeout(context.Background(), watchdog+5*time.Second)
					e.Shutdown(ctx)
					cancel()
				}
			}
		} else {
			var addrs []string
			if i%2 == 0 {
				addrs = []string{freePort()}
			}
			g := nbio.NewEngine(nbio.Config{Network: "tcp", Addrs: addrs, NPoller: np, EpollMod: em, EPOLLONESHOT: os1})
			start = g.Start
			stop = func() {
				if h.StopKind == "Stop" {
					g.Stop()
				} else {
					ctx, cancel := context.WithTimeout(context.Background(), watchdog+5*time.Second)
					g.Shutdown(ctx)
					cancel()
				}
			}
		}
		if err := start(); err != nil {
			rep.Stat("immediate.start-failed")
			continue
		}
		c := &cur{h: h, t0: time.Now()}
		mu.Lock()
		now = c
		mu.Unlock()
		stop() // no yield since Start returned
		mu.Lock()
		now = nil
		mu.Unlock()
		h.Returned = true
		h.StopMs = time.Since(c.t0).Milliseconds()
		rep.Case(fmt.Sprintf("%s/%s/%d/immediate/%s", h.Engine, h.Mode, h.NPoller, h.StopKind), true)
		rep.Ops += 2
		rep.Stat("immediate." + h.Engine + "." + h.StopKind)
	}
	close(stopWatch)
}

type quiet struct{}

func (quiet) SetLevel(int)                 {}
func (quiet) Debug(string, ...interface{}) {}
func (quiet) Info(string, ...interface{})  {}
func (quiet) Warn(string, ...interface{})  {}
func (quiet) Error(string, ...interface{}) {}

var model *hx.Model

func main() {
	seed := flag.Int64("seed", 1, "")
	n := flag.Int("n", 40, "histories per engine kind")
	mpath := flag.String("model", "", "")
	out := flag.String("out", "-", "")
	oneHTTP := flag.Int64("http", 0, "replay: run only the nbhttp history of this case seed (the `seed` field of a replay file), -reps times")
	oneCore := flag.Int64("core", 0, "replay: run only the core-engine history of this case seed, -reps times")
	reps := flag.Int("reps", 1, "")
	flag.Parse()
	logging.SetLogger(quiet{})
	if *oneHTTP != 0 || *oneCore != 0 {
		rep := hx.NewReport("stop", *seed)
		coreCase(hx.NewReport("warmup", 0), 12345, force{})
		httpCase(hx.NewReport("warmup", 0), 12345, force{})
		for i := 0; i < *reps; i++ {
			if *oneHTTP != 0 {
				httpCase(rep, *oneHTTP, force{})
			} else {
				coreCase(rep, *oneCore, force{})
			}
		}
		rep.Write(*out)
		return
	}
	if *mpath != "" {
		model = hx.StartModel(*mpath)
		defer model.Close()
	}
	rep := hx.NewReport("stop", *seed)
	if *out != "" && *out != "-" {
		hx.CurrentFile = *out + ".current"
	}
	rep.Rule = "histories of accepts, AddConn, DialAsync, echo traffic, multi-MiB backlogs to non-reading peers, vectored writes beyond MaxWriteBufferSize, pending deadlines, peer and server closes, closes racing Stop; nbhttp: exchanges, half requests, idle and unread-response connections, an injected Accept error, a handler that panics on a kept-alive connection, a client dial on the same engine that completes just after Stop/Shutdown began; connections refused because the descriptor table (MaxOpenFiles) is full, for accepted / added / dialed / nbhttp connections (corpus + random); Stop/Shutdown right after Start before any poller goroutine has run (single P, no yield); x {LT, ET, ET+ONESHOT} x NPoller x IOMod x {Stop, Shutdown}; non-trivial = at least one step before Stop; distinct = distinct (configuration, step list)"
	// warm up lazily started runtime goroutines so the baseline is stable
	coreCase(hx.NewReport("warmup", 0), 12345, force{})
	httpCase(hx.NewReport("warmup", 0), 12345, force{})
	// corpus first: connections refused because the descriptor table is full, for every way a connection enters
	for i, sk := range []string{"Shutdown", "Stop"} {
		for room := 0; room <= 4; room += 2 {
			coreCase(rep, *seed*100043+int64(10*i+room), force{fdlimit: true, room: room, stopKind: sk, minSteps: 5})
			for _, im := range []int{nbhttp.IOModNonBlocking, nbhttp.IOModMixed, nbhttp.IOModBlocking} {
				httpCase(rep, *seed*100057+int64(100*i+10*room+im), force{fdlimit: true, room: room, iomod: 1 + im, stopKind: sk, minSteps: 3})
			}
		}
	}
	// corpus: a client dial on the same engine that completes just after Stop / Shutdown began
	for i, sk := range []string{"Shutdown", "Stop", "Shutdown"} {
		httpCase(rep, *seed*100079+int64(i), force{iomod: 1 + nbhttp.IOModNonBlocking, stopKind: sk, minSteps: 1, lateDial: true})
	}
	// corpus: a handler panic on a kept-alive connection before Stop / Shutdown, in every IOMod
	for i, sk := range []string{"Shutdown", "Stop"} {
		for _, im := range []int{nbhttp.IOModNonBlocking, nbhttp.IOModMixed, nbhttp.IOModBlocking} {
			httpCase(rep, *seed*100073+int64(10*i+im), force{iomod: 1 + im, stopKind: sk, minSteps: 2, panicFirst: true})
		}
	}
	for i := 0; i < *n && !rep.TooMany(); i++ {
		coreCase(rep, *seed*100003+int64(i), force{})
		httpCase(rep, *seed*100019+int64(i), force{})
	}
	if !rep.TooMany() {
		immediateStops(rep, *out, *seed*100069)
	}
	rep.Write(*out)
}
