package main

// Parts B and C: keep-alive of idle nbhttp connections and of silent WebSocket connections, on a real nbhttp
// engine (127.0.0.1:0), driven by plain TCP clients.  The keep-alive renewals happen inside the engine, so their
// instants are only known as intervals: not before the client sent the request / frame (B), and - up to the
// scheduling latency covered by the margin - not after it received the answer (A).

import (
	"bufio"
	"errors"
	"fmt"
	"io"
	"net"
	"net/http"
	"os"
	"strconv"
	"strings"
	"sync"
	"syscall"
	"time"

	"github.com/lesismal/nbio/nbhttp"
	"github.com/lesismal/nbio/nbhttp/websocket"
)

type webEnv struct {
	e    *nbhttp.Engine
	addr string
	recs sync.Map // client address -> *closeRec
	ka2  int
	wt2  int
}

func halfSlots(rd *round, h2 int) time.Duration { return time.Duration(h2) * rd.unit / 2 }

func startWebEnv(rd *round, ka2, wt2 int, wska2s []int) (*webEnv, error) {
	env := &webEnv{ka2: ka2, wt2: wt2}
	mux := &http.ServeMux{}
	mux.HandleFunc("/", func(w http.ResponseWriter, r *http.Request) {
		_, _ = w.Write([]byte("ok"))
	})
	for _, k := range wska2s {
		u := websocket.NewUpgrader()
		u.KeepaliveTime = halfSlots(rd, k)
		u.CheckOrigin = func(r *http.Request) bool { return true }
		u.OnMessage(func(c *websocket.Conn, mt websocket.MessageType, data []byte) {
			_ = c.WriteMessage(mt, data)
		})
		mux.HandleFunc("/ws/"+strconv.Itoa(k), func(w http.ResponseWriter, r *http.Request) {
			_, _ = u.Upgrade(w, r, nil)
		})
	}
	lnCh := make(chan net.Listener, 1)
	e := nbhttp.NewEngine(nbhttp.Config{
		Name:          "c16web",
		Network:       "tcp",
		Addrs:         []string{"127.0.0.1:0"},
		Handler:       mux,
		NPoller:       2,
		KeepaliveTime: halfSlots(rd, ka2),
		WriteTimeout:  halfSlots(rd, wt2),
		Listen: func(network, addr string) (net.Listener, error) {
			ln, err := net.Listen(network, addr)
			if err == nil {
				select {
				case lnCh <- ln:
				default:
				}
			}
			return ln, err
		},
	})
	e.OnClose(func(c net.Conn, err error) {
		if v, ok := env.recs.Load(c.RemoteAddr().String()); ok {
			v.(*closeRec).notify(err)
		}
	})
	if err := e.Start(); err != nil {
		return nil, err
	}
	select {
	case ln := <-lnCh:
		env.addr = ln.Addr().String()
	case <-time.After(5 * time.Second):
		e.Stop()
		return nil, errors.New("no listener")
	}
	env.e = e
	return env, nil
}

func (env *webEnv) stop() { env.e.Stop() }

// gone: the error of a client read / write says that the server closed the connection
func gone(err error) bool {
	return errors.Is(err, io.EOF) || errors.Is(err, io.ErrUnexpectedEOF) || errors.Is(err, syscall.ECONNRESET) || errors.Is(err, syscall.EPIPE)
}

type webClient struct {
	c  net.Conn
	br *bufio.Reader
}

func (w *webClient) request() error {
	_ = w.c.SetDeadline(time.Now().Add(8 * time.Second))
	if _, err := w.c.Write([]byte("GET / HTTP/1.1\r\nHost: c16\r\n\r\n")); err != nil {
		return err
	}
	resp, err := http.ReadResponse(w.br, nil)
	if err != nil {
		return err
	}
	_, err = io.Copy(io.Discard, resp.Body)
	resp.Body.Close()
	if err == nil && resp.StatusCode != 200 {
		err = fmt.Errorf("status %d", resp.StatusCode)
	}
	return err
}

func (w *webClient) upgrade(path string) error {
	_ = w.c.SetDeadline(time.Now().Add(8 * time.Second))
	req := "GET " + path + " HTTP/1.1\r\nHost: c16\r\nUpgrade: websocket\r\nConnection: Upgrade\r\n" +
		"Sec-WebSocket-Key: dGhlIHNhbXBsZSBub25jZQ==\r\nSec-WebSocket-Version: 13\r\n\r\n"
	if _, err := w.c.Write([]byte(req)); err != nil {
		return err
	}
	status, err := w.br.ReadString('\n')
	if err != nil {
		return err
	}
	if !strings.Contains(status, "101") {
		return fmt.Errorf("handshake answer %q", strings.TrimSpace(status))
	}
	for {
		line, err := w.br.ReadString('\n')
		if err != nil {
			return err
		}
		if line == "\r\n" {
			return nil
		}
	}
}

// one masked frame (text or ping) and its unmasked answer (echo or pong)
func (w *webClient) frame(opcode byte, payload []byte) error {
	_ = w.c.SetDeadline(time.Now().Add(8 * time.Second))
	mask := [4]byte{0x11, 0x22, 0x33, 0x44}
	f := []byte{0x80 | opcode, 0x80 | byte(len(payload)), mask[0], mask[1], mask[2], mask[3]}
	for j, b := range payload {
		f = append(f, b^mask[j%4])
	}
	if _, err := w.c.Write(f); err != nil {
		return err
	}
	head := make([]byte, 2)
	if _, err := io.ReadFull(w.br, head); err != nil {
		return err
	}
	want := opcode
	if opcode == 0x9 {
		want = 0xA
	}
	if head[0] != 0x80|want || int(head[1]) != len(payload) {
		return fmt.Errorf("unexpected frame head %x", head)
	}
	body := make([]byte, len(payload))
	if _, err := io.ReadFull(w.br, body); err != nil {
		return err
	}
	if string(body) != string(payload) {
		return fmt.Errorf("unexpected payload %q", body)
	}
	return nil
}

func runWeb(rd *round, env *webEnv, p *plan, phase time.Duration) *observation {
	o := &observation{}
	clk := clock{time.Now().Add(phase + 2*time.Millisecond)}
	rec := newCloseRec()
	ka := int64(halfSlots(rd, p.KA2) / time.Microsecond)
	wt := int64(halfSlots(rd, p.WT2) / time.Microsecond)
	wska := int64(halfSlots(rd, p.WSKA2) / time.Microsecond)
	var wc *webClient
	defer func() {
		if wc != nil {
			wc.c.Close()
		}
	}()
	dead := false
	for i, po := range p.Ops {
		clk.sleepUntil(rd.slotUS(2 * po.Slot))
		op := obsOp{}
		op.B = clk.us()
		var err error
		// every request passes the server's OnComplete: write deadline (if configured), dropped again by the
		// response's Write, which leaves no backlog
		reqEff := func(b, a int64) {
			if wt > 0 {
				op.Eff = append(op.Eff, effect{Kind: "set", Dir: dirW, Lo: b + wt, Hi: a + wt}, effect{Kind: "clear", Dir: dirW, Why: "autoclear"})
				op.Cmds = append(op.Cmds, fmt.Sprintf("ka w %d", wt), "w 1")
			}
		}
		switch po.Op {
		case "connect":
			c, derr := net.Dial("tcp", env.addr)
			if derr != nil {
				o.Infra = "dial: " + derr.Error()
				return o
			}
			env.recs.Store(c.LocalAddr().String(), rec)
			defer env.recs.Delete(c.LocalAddr().String())
			wc = &webClient{c, bufio.NewReader(c)}
			op.A = clk.us()
			op.Name = "accept"
			op.Eff = append(op.Eff, effect{Kind: "set", Dir: dirR, Lo: op.B + ka, Hi: op.A + ka})
			op.Cmds = []string{fmt.Sprintf("ka r %d", ka)}
		case "req":
			op.Name = "request + response"
			if !dead {
				err = wc.request()
			}
			op.A = clk.us()
			if !dead && err == nil {
				reqEff(op.B, op.A)
				op.Eff = append(op.Eff, effect{Kind: "set", Dir: dirR, Lo: op.B + ka, Hi: op.A + ka})
			} else if wt > 0 {
				op.Cmds = append(op.Cmds, fmt.Sprintf("ka w %d", wt), "w 1")
			}
			op.Cmds = append(op.Cmds, fmt.Sprintf("ka r %d", ka))
		case "upgrade":
			op.Name = fmt.Sprintf("websocket upgrade (KeepaliveTime %d us)", wska)
			if !dead {
				err = wc.upgrade("/ws/" + strconv.Itoa(p.WSKA2))
			}
			op.A = clk.us()
			if !dead && err == nil {
				reqEff(op.B, op.A)
				if wska > 0 {
					op.Eff = append(op.Eff, effect{Kind: "set", Dir: dirR, Lo: op.B + wska, Hi: op.A + wska})
				} else {
					op.Eff = append(op.Eff, effect{Kind: "clear", Dir: dirR, Why: "zero"})
				}
			} else if wt > 0 {
				op.Cmds = append(op.Cmds, fmt.Sprintf("ka w %d", wt), "w 1")
			}
			op.Cmds = append(op.Cmds, fmt.Sprintf("wsup %d", wska))
		case "msg", "ping":
			op.Name = "websocket " + po.Op + " + answer"
			if !dead {
				if po.Op == "msg" {
					err = wc.frame(0x1, []byte(fmt.Sprintf("m%d-%d", p.ID, i)))
				} else {
					err = wc.frame(0x9, []byte("p"))
				}
			}
			op.A = clk.us()
			if !dead && err == nil && wska > 0 {
				op.Eff = append(op.Eff, effect{Kind: "set", Dir: dirR, Lo: op.B + wska, Hi: op.A + wska})
			}
			op.Cmds = []string{fmt.Sprintf("wsmsg %d", wska)}
		}
		if err != nil {
			if gone(err) {
				dead = true
			} else if ne, ok := err.(net.Error); ok && ne.Timeout() || errors.Is(err, os.ErrDeadlineExceeded) {
				o.Infra = "client: no answer within 8 s: " + err.Error()
				return o
			} else {
				o.Infra = "client: " + err.Error()
				return o
			}
		}
		op.SeenClosed = dead
		o.Ops = append(o.Ops, op)
	}
	finish(rd, p, o, clk, rec, func() bool {
		rec.mu.Lock()
		defer rec.mu.Unlock()
		return rec.closed
	})
	return o
}
