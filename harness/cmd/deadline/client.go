package main

// Parts D and E: the CLIENT side of nbhttp.
//   wscli    websocket.Dialer (DialTimeout 0 / > 0, client-side KeepaliveTime 0 / > 0): the connection is then silent,
//            pinged by the server, receives messages, sends messages, all on the time grid;
//   httpcli  nbhttp.ClientConn (Timeout 0 / > 0, IdleConnTimeout 0 / > 0): answered requests, idle periods, a request
//            that is never answered.
// What is observed is the close of the UNDERLYING connection (OnClose of the client's engine: cause and instant), never
// the success of a later Do.  The server is a real nbhttp engine whose own keep-alive is far beyond the window, so
// every close within the window is the client's doing.
//
// What the client code does to the read deadline (nbhttp/client_conn.go), in the terms of the model:
//   Do, Timeout > 0, nothing else pending        SetReadDeadline(now + Timeout)            model: cdo T 0
//   onResponse, nothing else pending             IdleConnTimeout > 0 ? now + Idle : zero    model: cresp I
//   websocket.Dialer.Dial = Do (Timeout = DialTimeout) + onResponse (IdleConnTimeout = 0)
//   websocket client, every handled message      KeepaliveTime > 0 ? now + KeepaliveTime    model: wsmsg K
// Two requests in flight on one ClientConn are exercised by a probe whose result is only reported (Extra), see
// probePipelined: C16 does not say which deadline applies to the second request.

import (
	"errors"
	"fmt"
	"net"
	"net/http"
	"net/url"
	"sync"
	"time"

	"github.com/lesismal/nbio/nbhttp"
	"github.com/lesismal/nbio/nbhttp/websocket"
)

type earlyClose struct {
	err  error
	when time.Time
}

type cliEnv struct {
	rd      *round
	srv     *nbhttp.Engine
	cli     *nbhttp.Engine
	addr    string
	done    chan struct{}
	recs    sync.Map // local address of a client connection -> *closeRec
	early   sync.Map // closes that came before the connection was registered -> earlyClose
	srvWS   sync.Map // remote address (= client's local address) -> *websocket.Conn on the server
	options map[int]*websocket.Upgrader
}

// what the client-side handlers tell the history goroutine
type wsEvent struct {
	kind string
	when time.Time
}

func startCliEnv(rd *round, wska2s []int) (*cliEnv, error) {
	env := &cliEnv{rd: rd, done: make(chan struct{}), options: map[int]*websocket.Upgrader{}}
	mux := &http.ServeMux{}
	mux.HandleFunc("/", func(w http.ResponseWriter, r *http.Request) { _, _ = w.Write([]byte("ok")) })
	mux.HandleFunc("/hang", func(w http.ResponseWriter, r *http.Request) {
		<-env.done // never answered within the window
	})
	mux.HandleFunc("/delay", func(w http.ResponseWriter, r *http.Request) {
		h2 := 0
		fmt.Sscanf(r.URL.Query().Get("h2"), "%d", &h2)
		select {
		case <-time.After(halfSlots(rd, h2)):
		case <-env.done:
		}
		_, _ = w.Write([]byte("late"))
	})
	su := websocket.NewUpgrader()
	su.KeepaliveTime = 0 // the server never closes a silent connection
	su.CheckOrigin = func(r *http.Request) bool { return true }
	su.OnOpen(func(c *websocket.Conn) { env.srvWS.Store(c.RemoteAddr().String(), c) })
	su.OnMessage(func(c *websocket.Conn, mt websocket.MessageType, data []byte) {})
	mux.HandleFunc("/ws", func(w http.ResponseWriter, r *http.Request) { _, _ = su.Upgrade(w, r, nil) })
	lnCh := make(chan net.Listener, 1)
	srv := nbhttp.NewEngine(nbhttp.Config{
		Name: "c16clisrv", Network: "tcp", Addrs: []string{"127.0.0.1:0"}, Handler: mux, NPoller: 2,
		KeepaliveTime: time.Hour,
		Listen: func(network, addr string) (net.Listener, error) {
			ln, err := net.Listen(network, addr)
			if err == nil {
				select {
				case lnCh <- ln:
				default:
				}
			}
			return ln, err
		},
	})
	if err := srv.Start(); err != nil {
		return nil, err
	}
	select {
	case ln := <-lnCh:
		env.addr = ln.Addr().String()
	case <-time.After(5 * time.Second):
		srv.Stop()
		return nil, errors.New("no listener")
	}
	cli := nbhttp.NewEngine(nbhttp.Config{Name: "c16cli", NPoller: 2})
	cli.OnClose(func(c net.Conn, err error) {
		key := c.LocalAddr().String()
		if v, ok := env.recs.Load(key); ok {
			v.(*closeRec).notify(err)
			return
		}
		env.early.Store(key, earlyClose{err, time.Now()})
	})
	if err := cli.Start(); err != nil {
		srv.Stop()
		return nil, err
	}
	env.srv, env.cli = srv, cli
	for _, k := range wska2s {
		u := websocket.NewUpgrader()
		u.Engine = cli
		u.KeepaliveTime = halfSlots(rd, k)
		u.OnMessage(func(c *websocket.Conn, mt websocket.MessageType, data []byte) {
			if ch, ok := c.Session().(chan wsEvent); ok {
				select {
				case ch <- wsEvent{"msg", time.Now()}:
				default:
				}
			}
		})
		u.SetPingHandler(func(c *websocket.Conn, data string) {
			if ch, ok := c.Session().(chan wsEvent); ok {
				select {
				case ch <- wsEvent{"ping", time.Now()}:
				default:
				}
			}
			_ = c.WriteMessage(websocket.PongMessage, []byte(data))
		})
		env.options[k] = u
	}
	return env, nil
}

func (env *cliEnv) stop() {
	close(env.done)
	env.cli.Stop()
	env.srv.Stop()
}

// register: from now on the close of the connection with this local address is recorded in rec
func (env *cliEnv) register(local string, rec *closeRec) {
	env.recs.Store(local, rec)
	if v, ok := env.early.LoadAndDelete(local); ok {
		e := v.(earlyClose)
		rec.mu.Lock()
		if !rec.closed {
			rec.closed, rec.count, rec.cause, rec.when = true, 1, causeOf(e.err), e.when
			close(rec.ch)
		}
		rec.mu.Unlock()
	}
}

func (rec *closeRec) isClosed() bool {
	rec.mu.Lock()
	defer rec.mu.Unlock()
	return rec.closed
}

// ---- websocket client ----
func runWSCli(rd *round, env *cliEnv, p *plan, phase time.Duration) *observation {
	o := &observation{}
	clk := clock{time.Now().Add(phase + 2*time.Millisecond)}
	rec := newCloseRec()
	dt := int64(halfSlots(rd, p.DT2) / time.Microsecond)
	ka := int64(halfSlots(rd, p.WSKA2) / time.Microsecond)
	var wc, sc *websocket.Conn
	events := make(chan wsEvent, 16)
	local := ""
	defer func() {
		if wc != nil {
			_ = wc.Close()
		}
		if local != "" {
			env.recs.Delete(local)
			env.srvWS.Delete(local)
		}
	}()
	for i, po := range p.Ops {
		clk.sleepUntil(rd.slotUS(2 * po.Slot))
		op := obsOp{}
		op.B = clk.us()
		switch po.Op {
		case "dial":
			d := &websocket.Dialer{Engine: env.cli, Options: env.options[p.WSKA2], DialTimeout: halfSlots(rd, p.DT2)}
			c, _, err := d.Dial("ws://"+env.addr+"/ws", nil)
			op.A = clk.us()
			if err != nil {
				o.Infra = "websocket dial: " + err.Error()
				return o
			}
			wc = c
			wc.SetSession(events)
			local = wc.LocalAddr().String()
			env.register(local, rec)
			for j := 0; j < 8000 && sc == nil; j++ {
				if v, ok := env.srvWS.Load(local); ok {
					sc = v.(*websocket.Conn)
				} else {
					time.Sleep(250 * time.Microsecond)
				}
			}
			if sc == nil {
				o.Infra = "the server did not report the upgraded connection"
				return o
			}
			op.Name = fmt.Sprintf("websocket.Dialer.Dial (DialTimeout %d us, client KeepaliveTime %d us)", dt, ka)
			op.Cmds = []string{fmt.Sprintf("cdo %d 0", dt), "cresp 0"}
			if dt > 0 {
				op.Eff = append(op.Eff, effect{Kind: "set", Dir: dirR, Lo: op.B + dt, Hi: op.A + dt})
			}
			op.Eff = append(op.Eff, effect{Kind: "clear", Dir: dirR, Why: "response"})
		case "srvmsg", "srvping":
			// the server sends; the client's handler runs, and AFTER it the client renews its read deadline
			var err error
			if po.Op == "srvmsg" {
				op.Name = "message from the server handled by the client"
				err = sc.WriteMessage(websocket.TextMessage, []byte(fmt.Sprintf("s%d-%d", p.ID, i)))
			} else {
				op.Name = "ping from the server handled by the client"
				err = sc.WriteMessage(websocket.PingMessage, []byte("p"))
			}
			got := false
			if err == nil {
				limit := time.After(4 * time.Second)
			wait:
				for {
					select {
					case <-events:
						got = true
						break wait
					case <-rec.ch:
						break wait
					case <-limit:
						o.Infra = "the client did not handle the server's " + po.Op + " within 4 s"
						return o
					}
				}
			}
			op.A = clk.us()
			op.Cmds = []string{fmt.Sprintf("wsmsg %d", ka)}
			if got && ka > 0 {
				op.Eff = append(op.Eff, effect{Kind: "set", Dir: dirR, Lo: op.B + ka, Hi: op.A + ka})
			}
		case "climsg":
			op.Name = "message sent by the client"
			_ = wc.WriteMessage(websocket.TextMessage, []byte(fmt.Sprintf("c%d-%d", p.ID, i)))
			op.A = clk.us()
		}
		if op.A == 0 {
			op.A = clk.us()
		}
		op.SeenClosed = rec.isClosed()
		o.Ops = append(o.Ops, op)
	}
	finish(rd, p, o, clk, rec, rec.isClosed)
	return o
}

// ---- nbhttp.ClientConn ----
type cliAnswer struct {
	err  error
	when time.Time
}

func runHTTPCli(rd *round, env *cliEnv, p *plan, phase time.Duration) *observation {
	o := &observation{}
	clk := clock{time.Now().Add(phase + 2*time.Millisecond)}
	rec := newCloseRec()
	t := int64(halfSlots(rd, p.T2) / time.Microsecond)
	idle := int64(halfSlots(rd, p.I2) / time.Microsecond)
	local := ""
	cc := &nbhttp.ClientConn{
		Engine:          env.cli,
		Timeout:         halfSlots(rd, p.T2),
		IdleConnTimeout: halfSlots(rd, p.I2),
		Dial: func(network, addr string) (net.Conn, error) {
			c, err := net.Dial(network, addr)
			if err == nil {
				local = c.LocalAddr().String()
				env.register(local, rec)
			}
			return c, err
		},
	}
	defer func() {
		cc.Close()
		if local != "" {
			env.recs.Delete(local)
		}
	}()
	hung := false
	for _, po := range p.Ops {
		clk.sleepUntil(rd.slotUS(2 * po.Slot))
		path := "/"
		if po.Op == "hang" {
			path = "/hang"
		}
		req := &http.Request{Method: "GET", URL: &url.URL{Scheme: "http", Host: env.addr, Path: path}, Host: env.addr,
			Proto: "HTTP/1.1", ProtoMajor: 1, ProtoMinor: 1, Header: http.Header{}}
		ans := make(chan cliAnswer, 1)
		op := obsOp{Name: "ClientConn.Do " + path}
		op.B = clk.us()
		cc.Do(req, func(res *http.Response, conn net.Conn, err error) {
			now := time.Now()
			if err == nil && res != nil && res.Body != nil {
				res.Body.Close()
			}
			ans <- cliAnswer{err, now}
		})
		op.A = clk.us()
		refused := false
		select {
		case a := <-ans:
			// answered (or refused) before Do returned
			if a.err != nil {
				refused = true
			} else {
				ans <- a
			}
		default:
		}
		op.Cmds = []string{fmt.Sprintf("cdo %d 0", t)}
		if !refused && t > 0 {
			op.Eff = append(op.Eff, effect{Kind: "set", Dir: dirR, Lo: op.B + t, Hi: op.A + t})
		}
		op.SeenClosed = refused || rec.isClosed()
		o.Ops = append(o.Ops, op)
		if refused || po.Op == "hang" {
			hung = hung || po.Op == "hang"
			continue
		}
		// the response: the handler runs, and AFTER it onResponse replaces / clears the deadline
		rop := obsOp{Name: "response handled by the client"}
		var a cliAnswer
		select {
		case a = <-ans:
		case <-time.After(6 * time.Second):
			o.Infra = "no answer to an answered request within 6 s"
			return o
		}
		rop.B = origin + int64(a.when.Sub(clk.base)/time.Microsecond)
		rop.A = clk.us()
		if rop.B < op.A {
			rop.B = op.A
		}
		rop.Cmds = []string{fmt.Sprintf("cresp %d", idle)}
		if a.err == nil {
			if idle > 0 {
				rop.Eff = append(rop.Eff, effect{Kind: "set", Dir: dirR, Lo: rop.B + idle, Hi: rop.A + idle})
			} else {
				rop.Eff = append(rop.Eff, effect{Kind: "clear", Dir: dirR, Why: "response"})
			}
		}
		rop.SeenClosed = a.err != nil || rec.isClosed()
		o.Ops = append(o.Ops, rop)
	}
	finish(rd, p, o, clk, rec, rec.isClosed)
	return o
}

// ---- probe: two requests in flight on one ClientConn (reported, not judged) ----
// variant A: Timeout = 0; request 1 is answered at once, request 2 after 2 slots.
// variant B: Timeout = 4 slots; request 1 (sent at slot 0) is answered after 3 slots, request 2 (sent at slot 2) 2 slots
//
//	after request 1, i.e. at slot 5: after Timeout counted from request 1, within Timeout counted from request 2.
func probePipelined(rd *round, env *cliEnv) map[string]interface{} {
	out := map[string]interface{}{"unit_ms": rd.unit.Milliseconds()}
	type outcome struct {
		Err    string  `json:"err"`
		AtSlot float64 `json:"at_slot"`
	}
	run := func(t2 int, path1, path2 string, gap2 int) map[string]interface{} {
		rec := newCloseRec()
		cc := &nbhttp.ClientConn{Engine: env.cli, Timeout: halfSlots(rd, t2),
			Dial: func(network, addr string) (net.Conn, error) {
				c, err := net.Dial(network, addr)
				if err == nil {
					env.register(c.LocalAddr().String(), rec)
				}
				return c, err
			}}
		defer cc.Close()
		base := time.Now()
		slot := func(tm time.Time) float64 { return float64(tm.Sub(base)) / float64(rd.unit) }
		res := make([]chan outcome, 2)
		do := func(i int, path string) {
			res[i] = make(chan outcome, 1)
			u, _ := url.Parse("http://" + env.addr + path)
			req := &http.Request{Method: "GET", URL: u, Host: env.addr, Proto: "HTTP/1.1", ProtoMajor: 1, ProtoMinor: 1, Header: http.Header{}}
			ch := res[i]
			cc.Do(req, func(r *http.Response, conn net.Conn, err error) {
				e := "nil"
				if err != nil {
					e = err.Error()
				} else if r != nil && r.Body != nil {
					r.Body.Close()
				}
				ch <- outcome{e, slot(time.Now())}
			})
		}
		do(0, path1)
		time.Sleep(halfSlots(rd, gap2))
		do(1, path2)
		m := map[string]interface{}{"timeout_halfslots": t2, "request1": path1, "request2": path2, "request2_sent_at_halfslot": gap2}
		for i := 0; i < 2; i++ {
			select {
			case oc := <-res[i]:
				m[fmt.Sprintf("callback%d", i+1)] = oc
			case <-time.After(12 * rd.unit):
				m[fmt.Sprintf("callback%d", i+1)] = "not called within 12 slots"
			}
		}
		rec.mu.Lock()
		if rec.closed {
			m["connection_closed"] = map[string]interface{}{"cause": rec.cause, "at_slot": slot(rec.when)}
		} else {
			m["connection_closed"] = "no"
		}
		rec.done = true
		rec.mu.Unlock()
		return m
	}
	var wg sync.WaitGroup
	var a, b map[string]interface{}
	wg.Add(2)
	go func() { defer wg.Done(); a = run(0, "/", "/delay?h2=4", 0) }()
	go func() { defer wg.Done(); b = run(8, "/delay?h2=6", "/delay?h2=4", 4) }()
	wg.Wait()
	out["timeout_0"] = a
	out["timeout_4_slots"] = b
	return out
}
