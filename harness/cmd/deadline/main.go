// Harness for C16 (deadlines fire on time, never early, can be renewed or cleared; keep-alive of nbhttp and websocket).
//
// REAL engines and REAL timers.  Histories are laid out on a time grid (operations at whole slots, expiries at half
// slots), many of them run concurrently on independent loopback connections, every operation is bracketed by two
// readings of the monotonic clock.  On each observed history
//   - the property oracle (oracle.go) applies the interval rules of the property directly to the history, and
//   - the extracted Coq model is run on the same operations (once at the beginning, once at the end of each
//     operation's interval) and must give the same answers: closed?, which timers are armed, backlog, result of
//     Write after every operation; cause and logical close time T at the end, with T <= observed < T + margin.
//
// A history with any problem is run again, up to four times, each time with the grid unit and the margin doubled;
// only what survives all re-runs is reported.
package main

import (
	"flag"
	"fmt"
	"math/rand"
	"sort"
	"sync"
	"time"

	"github.com/lesismal/nbio/logging"
	"verifharness/hx"
)

type result struct {
	p     *plan
	o     *observation
	probs []problem
	round int
	unit  time.Duration
}

type webCfg struct {
	ka2, wt2 int
	wska2s   []int
}

var webCfgs = []webCfg{{7, 0, []int{0, 5}}, {9, 5, []int{0, 7}}}

// client side: websocket (DialTimeout, client KeepaliveTime) and ClientConn (Timeout, IdleConnTimeout), in half slots
var cliWSKA2s = []int{0, 7}
var wsCliCfgs = [][2]int{{5, 0}, {0, 0}, {5, 7}, {0, 7}}
var httpCliCfgs = [][2]int{{5, 0}, {0, 0}, {5, 7}, {0, 7}, {7, 3}}

func cfgOf(p *plan) int {
	for i, c := range webCfgs {
		if c.ka2 == p.KA2 && c.wt2 == p.WT2 {
			return i
		}
	}
	return 0
}

// runBatch: fresh engines, all plans concurrently, engines stopped afterwards
func runBatch(rd *round, plans []*plan, probe *map[string]interface{}) []*observation {
	out := make([]*observation, len(plans))
	needConn, needCli := false, probe != nil
	needWeb := make([]bool, len(webCfgs))
	for _, p := range plans {
		switch p.Part {
		case "conn":
			needConn = true
		case "wscli", "httpcli":
			needCli = true
		default:
			needWeb[cfgOf(p)] = true
		}
	}
	var cenv *connEnv
	wenv := make([]*webEnv, len(webCfgs))
	fail := func(msg string) []*observation {
		for i := range out {
			out[i] = &observation{Infra: msg}
		}
		return out
	}
	var err error
	if needConn {
		if cenv, err = startConnEnv(); err != nil {
			return fail("engine start: " + err.Error())
		}
		defer cenv.stop()
	}
	for i, c := range webCfgs {
		if needWeb[i] {
			if wenv[i], err = startWebEnv(rd, c.ka2, c.wt2, c.wska2s); err != nil {
				return fail("nbhttp engine start: " + err.Error())
			}
			defer wenv[i].stop()
		}
	}
	var clienv *cliEnv
	if needCli {
		if clienv, err = startCliEnv(rd, cliWSKA2s); err != nil {
			return fail("client engines start: " + err.Error())
		}
		defer clienv.stop()
	}
	var wg sync.WaitGroup
	if probe != nil {
		wg.Add(1)
		go func() {
			defer wg.Done()
			*probe = probePipelined(rd, clienv)
		}()
	}
	for i, p := range plans {
		wg.Add(1)
		// spread the histories over three grid units so that they do not all wake up at the same instants
		phase := time.Duration((uint64(p.ID)*2654435761+uint64(i)*40503)%1000) * 3 * rd.unit / 1000
		go func(i int, p *plan) {
			defer wg.Done()
			switch p.Part {
			case "conn":
				out[i] = runConn(rd, cenv, p, phase)
			case "wscli":
				out[i] = runWSCli(rd, clienv, p, phase)
			case "httpcli":
				out[i] = runHTTPCli(rd, clienv, p, phase)
			default:
				out[i] = runWeb(rd, wenv[cfgOf(p)], p, phase)
			}
		}(i, p)
	}
	wg.Wait()
	return out
}

func main() {
	seed := flag.Int64("seed", 1, "")
	n := flag.Int("n", 300, "number of connection histories (plus n/5 each of http, websocket, websocket-client and http-client histories)")
	model := flag.String("model", "", "path of the extracted model")
	out := flag.String("out", "-", "")
	unitMS := flag.Int("unit", 80, "grid unit of the first round, milliseconds")
	marginMS := flag.Int("margin", 500, "lateness margin of the first round, milliseconds")
	batch := flag.Int("batch", 540, "histories run concurrently")
	debug := flag.Bool("debug", false, "print the problems of every round")
	flag.Parse()
	logging.SetLevel(logging.LevelNone)
	rep := hx.NewReport("deadline", *seed)
	rep.Rule = "histories on a time grid (operations at whole slots, expiries at half slots): 32 named scenarios, then random sequences of SetDeadline/SetReadDeadline/SetWriteDeadline (future, past, zero), small Write/Writev, big Write to a peer that does not read, peer drains, Close; " +
		"http: connect + requests before/after the keep-alive expiry (with and without WriteTimeout); websocket: upgrade with KeepaliveTime 0 / >0, messages and pings; websocket client: Dial with DialTimeout 0 / >0, client KeepaliveTime 0 / >0, then silent / messages and pings from the server / messages to the server; http client: ClientConn with Timeout and IdleConnTimeout 0 / >0, answered requests, idle periods, a request that is never answered; the connection histories rotate over the transports tcp accepted / DialAsyncTimeout / DialAsync / AddConn, unix AddConn, udp DialUDP+AddConn / DialAsync / per-peer server session, with and without traffic (drained to EAGAIN) before the first deadline; non-trivial = at least one deadline is set; distinct = distinct plans"

	var m *hx.Model
	if *model != "" {
		m = hx.StartModel(*model)
		defer m.Close()
	}

	// ---- plans ----
	var plans []*plan
	for i := 0; i < *n; i++ {
		s := *seed*1000003 + int64(i)
		plans = append(plans, genConn(rand.New(rand.NewSource(s)), i, s))
	}
	nweb := *n / 5
	for i := 0; i < nweb; i++ {
		s := *seed*7919 + int64(i)
		c := webCfgs[i%len(webCfgs)]
		plans = append(plans, genHTTP(rand.New(rand.NewSource(s)), *n+i, s, c.ka2, c.wt2))
	}
	for i := 0; i < nweb; i++ {
		s := *seed*104729 + int64(i)
		c := webCfgs[i%len(webCfgs)]
		plans = append(plans, genWS(rand.New(rand.NewSource(s)), *n+nweb+i, s, c.ka2, c.wt2, c.wska2s[(i/len(webCfgs))%len(c.wska2s)]))
	}
	for i := 0; i < nweb; i++ {
		s := *seed*15485863 + int64(i)
		c := wsCliCfgs[i%len(wsCliCfgs)]
		plans = append(plans, genWSCli(rand.New(rand.NewSource(s)), *n+2*nweb+i, s, c[0], c[1]))
	}
	for i := 0; i < nweb; i++ {
		s := *seed*32452843 + int64(i)
		c := httpCliCfgs[i%len(httpCliCfgs)]
		plans = append(plans, genHTTPCli(rand.New(rand.NewSource(s)), *n+3*nweb+i, s, c[0], c[1]))
	}
	// interleave the parts so that every batch has all of them
	sort.SliceStable(plans, func(a, b int) bool { return plans[a].ID%(*batch) < plans[b].ID%(*batch) })

	evaluate := func(rd *round, p *plan, o *observation) []problem {
		margin := int64(rd.margin / time.Microsecond)
		guard := int64(rd.unit/time.Microsecond) / 4
		ps := oracle(o, margin, guard)
		if m != nil {
			ps = append(ps, compare(m, o, margin, guard)...)
		}
		return ps
	}

	var probeResult map[string]interface{}
	var direct []*result // failures that involve no timing: reported as they are, whatever a re-run says
	final := map[int]*result{}
	softRounds := map[int]int{} // rounds in which the history was late by more than the guard (but within the margin)
	const maxRounds = 5
	maxLat := int64(0)
	todo := plans
	for r := 0; r < maxRounds && len(todo) > 0; r++ {
		rd := &round{unit: time.Duration(*unitMS) * time.Millisecond << uint(r), margin: time.Duration(*marginMS) * time.Millisecond << uint(r)}
		var again []*plan
		t0 := time.Now()
		for lo := 0; lo < len(todo); lo += *batch {
			hi := lo + *batch
			if hi > len(todo) {
				hi = len(todo)
			}
			var probe *map[string]interface{}
			if r == 0 && lo == 0 {
				probe = &probeResult
			}
			obs := runBatch(rd, todo[lo:hi], probe)
			for i, o := range obs {
				p := todo[lo+i]
				ps := evaluate(rd, p, o)
				for _, d := range o.Direct {
					direct = append(direct, &result{p, o, []problem{d}, r, rd.unit})
				}
				final[p.ID] = &result{p, o, ps, r, rd.unit}
				for _, pr := range ps {
					if pr.Kind == "soft" {
						softRounds[p.ID]++
						break
					}
				}
				if len(ps) > 0 {
					again = append(again, p)
					rep.Stat(fmt.Sprintf("round%d:problem:%s", r, ps[0].Kind))
					if *debug {
						fmt.Printf("round %d plan %d %s %s: %s: %s\n   %+v\n", r, p.ID, p.Part, p.Template, ps[0].Kind, ps[0].What, p.Ops)
					}
				}
				if r == 0 {
					rep.Ops += len(o.Ops)
				}
			}
			if rep.TooMany() {
				break
			}
		}
		rep.StatN(fmt.Sprintf("round%d:histories", r), len(todo))
		rep.Extra[fmt.Sprintf("round%d_wall_ms", r)] = time.Since(t0).Milliseconds()
		todo = again
	}

	// ---- report ----
	ids := make([]int, 0, len(final))
	for id := range final {
		ids = append(ids, id)
	}
	sort.Ints(ids)
	inconclusive := map[string]int{}
	total := map[string]int{}
	for _, id := range ids {
		res := final[id]
		p, o := res.p, res.o
		total[p.Part]++
		nontrivial := p.Part != "conn"
		for _, op := range p.Ops {
			rep.Stat(p.Part + ".op." + op.Op)
			if (op.Op == "sd" || op.Op == "srd" || op.Op == "swd") && op.Dl != zeroTime {
				nontrivial = true
			}
			if op.Dl == zeroTime {
				rep.Stat(p.Part + ".op.zero-time")
			} else if (op.Op == "sd" || op.Op == "srd" || op.Op == "swd") && op.Dl < op.Slot {
				rep.Stat(p.Part + ".op.past-deadline")
			}
		}
		rep.Case(p.key(), nontrivial)
		if p.Part == "conn" {
			rep.Stat("conn.transport." + p.Transport)
			if p.Pre {
				rep.Stat("conn.traffic-before." + p.Transport)
			}
		}
		for i := range o.Ops {
			if c := o.Ops[i].Chk; c != nil && len(o.Ops[i].Cmds) == 1 && (o.Ops[i].Cmds[0] == "w 0" || o.Ops[i].Cmds[0] == "w 1") && c.Res == "ok" {
				if c.Backlog {
					rep.Stat("conn.write.leaves-backlog")
				} else {
					rep.Stat("conn.write.empties-backlog")
				}
			}
			for _, e := range o.Ops[i].Eff {
				if e.Kind == "set" && !o.Ops[i].SeenClosed {
					rep.Stat(p.Part + ".deadline-set." + dirName[e.Dir])
				}
			}
		}
		switch {
		case o.Infra != "":
			rep.Stat(p.Part + ".outcome.infra")
		case o.Closed && o.EndClosed || o.Closed && anySeen(o):
			rep.Stat(p.Part + ".outcome." + o.Cause)
			if p.Part == "conn" && isUDP(p.Transport) {
				rep.Stat(fmt.Sprintf("conn.udp-outcome.%s.pre=%v.%s", p.Transport, p.Pre, o.Cause))
			}
		default:
			rep.Stat(p.Part + ".outcome.open-at-end")
		}
		if o.Closed && (o.Cause == "rto" || o.Cause == "wto") && len(res.probs) == 0 {
			if l := lateness(o); l > maxLat {
				maxLat = l
			}
		}
		if len(rep.Samples) < 5 && (id < 3 || p.Part != "conn") && len(res.probs) == 0 {
			rep.Sample(map[string]interface{}{"plan": p, "unit_ms": res.unit.Milliseconds(), "closed": o.Closed, "cause": o.Cause, "close_time_us": o.Tau, "ops": o.Ops})
		}
		seen := map[string]bool{}
		for _, pr := range res.probs {
			if pr.Kind == "soft" && softRounds[id] == maxRounds {
				pr.Kind = "oracle" // late in every round, proportionally to the grid: not a hiccup
			}
			switch pr.Kind {
			case "oracle", "mismatch":
				sig := pr.Sig
				if pr.Kind == "oracle" {
					sig = p.Part + ":" + sig
				}
				if seen[pr.Kind+sig] {
					continue
				}
				seen[pr.Kind+sig] = true
				rep.Add(hx.Finding{Kind: pr.Kind, Property: "C16", Signature: sig, What: pr.What,
					Replay: map[string]interface{}{"harness": "deadline", "seed": *seed, "n": *n, "plan": p, "template": p.Template,
						"rounds_run": res.round + 1, "unit_ms_last_round": res.unit.Milliseconds(), "observation_last_round": o,
						"note": "times are logical microseconds, 1000000 = base instant of the history; slot s = 1000000 + s*unit"}})
			default:
				if !seen["inc"] {
					seen["inc"] = true
					inconclusive[p.Part]++
					rep.Stat(p.Part + ".inconclusive." + pr.Kind)
					if len(inconclusive) < 4 {
						rep.Extra[fmt.Sprintf("inconclusive_example_%s", p.Part)] = pr.What
					}
				}
			}
		}
	}
	for _, res := range direct {
		pr := res.probs[0]
		rep.Add(hx.Finding{Kind: pr.Kind, Property: "C16", Signature: res.p.Part + ":" + pr.Sig, What: pr.What,
			Replay: map[string]interface{}{"harness": "deadline", "seed": *seed, "n": *n, "plan": res.p, "round": res.round,
				"note": "race in the library between the dialing goroutine and the poller; the same plan may pass on another run"}})
	}
	rep.Extra["max_observed_fire_latency_us"] = maxLat
	// two requests in flight on one ClientConn: what the code does is reported, not judged (C16 does not say which
	// deadline applies to the second request)
	rep.Extra["probe_pipelined_requests"] = probeResult
	rep.Extra["unit_ms"] = *unitMS
	rep.Extra["margin_ms"] = *marginMS
	for part, t := range total {
		if inconclusive[part]*2 > t {
			// no report: the driver must not take this run for a clean one
			hx.Fatal("%d of %d %s histories stayed inconclusive after all re-runs (%v)", inconclusive[part], t, part, rep.Extra["inconclusive_example_"+part])
		}
	}
	rep.Write(*out)
}

func anySeen(o *observation) bool {
	for i := range o.Ops {
		if o.Ops[i].SeenClosed {
			return true
		}
	}
	return false
}

// lateness of a timeout close relative to the earliest deadline that can explain it (diagnostics only)
func lateness(o *observation) int64 {
	x := dirR
	if o.Cause == "wto" {
		x = dirW
	}
	best := int64(-1)
	for i := range o.Ops {
		if o.Ops[i].SeenClosed {
			break
		}
		for _, e := range o.Ops[i].Eff {
			if e.Kind == "set" && e.Dir == x {
				due := e.Hi
				if o.Ops[i].A > due {
					due = o.Ops[i].A
				}
				best = due
			}
		}
	}
	if best < 0 || o.Tau < best {
		return 0
	}
	return o.Tau - best
}
