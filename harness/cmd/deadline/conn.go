package main

// Part A: Set*Deadline / Write / Close on real nbio connections (accepted by a real engine on 127.0.0.1:0,
// real time.AfterFunc timers), one goroutine per history.

import (
	"errors"
	"fmt"
	"net"
	"sync"
	"time"

	"github.com/lesismal/nbio"
)

type clock struct{ base time.Time }

func (c clock) us() int64 { return origin + int64(time.Since(c.base)/time.Microsecond) }
func (c clock) at(us int64) time.Time {
	return c.base.Add(time.Duration(us-origin) * time.Microsecond)
}
func (c clock) sleepUntil(us int64) {
	if d := time.Until(c.at(us)); d > 0 {
		time.Sleep(d)
	}
}

// close notification of one connection
type closeRec struct {
	mu     sync.Mutex
	clk    clock
	hasClk bool
	done   bool  // the history is over: a close from now on is the harness's own cleanup
	got    int32 // data callbacks seen (atomic)
	closed bool
	count  int // close notifications received while the history was running
	cause  string
	tau    int64
	when   time.Time
	ch     chan struct{}
}

func newCloseRec() *closeRec { return &closeRec{ch: make(chan struct{})} }

func causeOf(err error) string {
	switch {
	case err == nil:
		return "user"
	case err == nbio.ErrReadTimeout: // the exact error values
		return "rto"
	case err == nbio.ErrWriteTimeout:
		return "wto"
	}
	return "other:" + err.Error()
}

func (r *closeRec) notify(err error) {
	now := time.Now()
	r.mu.Lock()
	if !r.done {
		r.count++
	}
	if !r.closed && !r.done {
		r.closed = true
		r.cause = causeOf(err)
		r.when = now
		close(r.ch)
	}
	r.mu.Unlock()
}

func (r *closeRec) fill(o *observation, clk clock) {
	r.mu.Lock()
	r.done = true
	o.Notifications = r.count
	if r.closed {
		o.Closed = true
		o.Cause = r.cause
		o.Tau = origin + int64(r.when.Sub(clk.base)/time.Microsecond)
	}
	r.mu.Unlock()
}

// one round = one grid unit; engines live for one batch
type round struct {
	unit   time.Duration
	margin time.Duration
}

func (rd *round) slotUS(half2 int) int64 { // half slots -> logical us
	return origin + int64(half2)*int64(rd.unit/time.Microsecond)/2
}

type connEnv struct {
	g     *nbio.Engine
	addr  string
	conns sync.Map     // remote address of the accepted connection -> *nbio.Conn
	ln    net.Listener // plain listener for the histories whose nbio side dials
	peers sync.Map     // remote address of a connection accepted by ln -> net.Conn
	x     xportEnv     // the other transports (transport.go)
}

func startConnEnv() (*connEnv, error) {
	env := &connEnv{}
	g := nbio.NewEngine(nbio.Config{Name: "c16", Network: "tcp", Addrs: []string{"127.0.0.1:0"}, NPoller: 2})
	g.OnOpen(func(c *nbio.Conn) {
		env.conns.Store(c.RemoteAddr().String(), c)
	})
	env.handlers(g)
	if err := g.Start(); err != nil {
		return nil, err
	}
	env.g = g
	env.addr = g.Addrs[0]
	ln, err := net.Listen("tcp", "127.0.0.1:0")
	if err != nil {
		g.Stop()
		return nil, err
	}
	env.ln = ln
	go func() {
		for {
			c, err := ln.Accept()
			if err != nil {
				return
			}
			env.peers.Store(c.RemoteAddr().String(), c)
		}
	}()
	if err := env.startXport(); err != nil {
		ln.Close()
		g.Stop()
		return nil, err
	}
	return env, nil
}

func (env *connEnv) stop() {
	env.stopXport()
	env.ln.Close()
	env.g.Stop()
}

func (env *connEnv) accepted(remote string) *nbio.Conn {
	for i := 0; i < 20000; i++ {
		if v, ok := env.conns.LoadAndDelete(remote); ok {
			return v.(*nbio.Conn)
		}
		time.Sleep(250 * time.Microsecond)
	}
	return nil
}

var bigPayload = make([]byte, 256<<10)
var smallPayload = []byte("0123456789")

func runConn(rd *round, env *connEnv, p *plan, phase time.Duration) *observation {
	o := &observation{StrictCause: true}
	c, pr, err := env.open(p.Transport)
	if err != nil {
		o.Infra = "open " + p.Transport + ": " + err.Error()
		return o
	}
	defer pr.close()
	rec := newCloseRec()
	c.SetSession(rec)
	startReader := pr.discard
	if p.NoRead {
		pr.setReadBuffer(4096)
		_ = c.SetWriteBuffer(4096)
	} else {
		startReader()
	}
	if p.Pre {
		if err := preTraffic(c, pr, rec, isUDP(p.Transport)); err != nil {
			o.Infra = "traffic before the history: " + err.Error()
			return o
		}
	}
	clk := clock{time.Now().Add(phase + 2*time.Millisecond)}
	if p.Transport == "udp-session" {
		// the engine armed the session's idle timer when it opened it (and again on every datagram)
		far := int64(udpSessionIdle / time.Microsecond)
		o.Ops = append(o.Ops, obsOp{Name: "UDP session opened: the engine sets the read deadline now + UDPReadTimeout (1 h)",
			Cmds: []string{fmt.Sprintf("ka r %d", far)}, B: origin - 2000, A: origin - 1000,
			Eff: []effect{{Kind: "set", Dir: dirR, Lo: origin - 2000000 + far, Hi: origin + far}}, Chk: &stateChk{R: true, Res: "ok"}})
	}
	clk.sleepUntil(origin)
	if p.Transport == "tcp-dialed-timeout" || p.Transport == "tcp-dialed" || p.Transport == "udp-dialasync" {
		// the connection is established (the dial callback has run) and nobody has set a deadline: the dial timer, which
		// lives in the write-timer slot, must be gone.  No timing is involved: this is reported without a re-run.
		if _, wA, _, closed := nbio.VerifDeadlineState(c); wA && !closed {
			o.Direct = append(o.Direct, problem{"oracle", "stale-dial-timer",
				fmt.Sprintf("%s to a loopback peer: %d us after the dial callback reported success the connection's write timer (the dial timer, error ErrDialTimeout) is still armed although nobody set a deadline; it will close the established connection with \"dial timeout\", and a later SetWriteDeadline only re-arms it with that error", p.Transport, clk.us()-origin+int64((phase+2*time.Millisecond)/time.Microsecond))})
		}
	}
	for _, po := range p.Ops {
		clk.sleepUntil(rd.slotUS(2 * po.Slot))
		op := obsOp{}
		dl := int64(0)
		if po.Dl != zeroTime {
			dl = rd.slotUS(2*po.Dl + 1)
		}
		var t time.Time
		if dl != 0 {
			t = clk.at(dl)
		}
		_, _, backlogBefore, _ := nbio.VerifDeadlineState(c)
		res := "ok"
		op.B = clk.us()
		switch po.Op {
		case "sd":
			_ = c.SetDeadline(t)
			op.Name = fmt.Sprintf("SetDeadline(%s)", dlName(po.Dl))
			op.Cmds = []string{fmt.Sprintf("sd %d", dl)}
		case "srd":
			_ = c.SetReadDeadline(t)
			op.Name = fmt.Sprintf("SetReadDeadline(%s)", dlName(po.Dl))
			op.Cmds = []string{fmt.Sprintf("srd %d", dl)}
		case "swd":
			_ = c.SetWriteDeadline(t)
			op.Name = fmt.Sprintf("SetWriteDeadline(%s)", dlName(po.Dl))
			op.Cmds = []string{fmt.Sprintf("swd %d", dl)}
		case "wsmall", "wvsmall", "wbig":
			data := smallPayload
			if po.Op == "wbig" {
				data = bigPayload
			}
			var n int
			var werr error
			if po.Op == "wvsmall" {
				n, werr = c.Writev([][]byte{data[:4], data[4:]})
			} else {
				n, werr = c.Write(data)
			}
			if werr != nil {
				if errors.Is(werr, net.ErrClosed) {
					res = "closed"
				} else {
					res = "error:" + werr.Error()
				}
			} else if n != len(data) {
				res = fmt.Sprintf("short:%d", n)
			}
			op.Name = fmt.Sprintf("Write(%d bytes)", len(data))
			if po.Op == "wvsmall" {
				op.Name = fmt.Sprintf("Writev(4+%d bytes)", len(data)-4)
			}
		case "drain":
			pr.setReadBuffer(1 << 20)
			_ = c.SetWriteBuffer(1 << 20)
			startReader()
			for i := 0; i < 4000; i++ {
				_, _, bl, closed := nbio.VerifDeadlineState(c)
				if bl == 0 || closed {
					break
				}
				time.Sleep(500 * time.Microsecond)
			}
			op.Name = "peer reads; flush empties the backlog"
		case "close":
			_ = c.Close()
			op.Name = "Close()"
			op.Cmds = []string{"close"}
		}
		rA, wA, bl, closed := nbio.VerifDeadlineState(c)
		op.A = clk.us()
		op.SeenClosed = closed
		op.Chk = &stateChk{R: rA, W: wA, Backlog: bl > 0, Closed: closed, Res: res}
		// what the operation means for the deadlines, by the property's text
		open := !closed || po.Op == "close"
		switch po.Op {
		case "sd", "srd", "swd":
			for x := dirR; x <= dirW; x++ {
				if (po.Op == "srd" && x == dirW) || (po.Op == "swd" && x == dirR) {
					continue
				}
				if dl == 0 {
					op.Eff = append(op.Eff, effect{Kind: "clear", Dir: x, Why: "zero"})
				} else {
					op.Eff = append(op.Eff, effect{Kind: "set", Dir: x, Lo: dl, Hi: dl})
				}
			}
		case "wsmall", "wvsmall", "wbig":
			full := "0"
			if backlogBefore == 0 && bl == 0 {
				full = "1"
			}
			op.Cmds = []string{"w " + full}
			if open && res == "ok" && bl == 0 {
				op.Eff = append(op.Eff, effect{Kind: "clear", Dir: dirW, Why: "autoclear"})
			}
		case "drain":
			if bl == 0 {
				op.Cmds = []string{"drain"}
			} else if !closed {
				o.Infra = "the backlog did not drain within 2 s"
			}
		case "close":
			op.Eff = append(op.Eff, effect{Kind: "close"})
		}
		o.Ops = append(o.Ops, op)
	}
	finish(rd, p, o, clk, rec, func() bool {
		_, _, _, closed := nbio.VerifDeadlineState(c)
		return closed
	})
	_ = c.Close()
	return o
}

// finish: wait until the connection is closed or nothing can happen any more (largest deadline + margin), take the
// final look, collect the close notification.
func finish(rd *round, p *plan, o *observation, clk clock, rec *closeRec, isClosed func() bool) {
	limit := rd.slotUS(p.horizon2()) + int64(rd.margin/time.Microsecond) + int64(rd.unit/time.Microsecond)/4
	stale := rd.slotUS(p.horizon2()) + int64(rd.unit/time.Microsecond)/2
	for clk.us() < limit {
		if isClosed() {
			// closed by the user: keep watching until every deadline ever set has passed (a timer that Close did not
			// cancel would show up as a second close notification)
			rec.mu.Lock()
			user := rec.closed && rec.cause == "user"
			rec.mu.Unlock()
			if !user || clk.us() >= stale {
				break
			}
		}
		time.Sleep(2 * time.Millisecond)
	}
	o.EndB = clk.us()
	o.EndClosed = isClosed()
	o.EndA = clk.us()
	seen := o.EndClosed
	for i := range o.Ops {
		seen = seen || o.Ops[i].SeenClosed
	}
	if seen {
		select {
		case <-rec.ch:
		case <-time.After(3 * time.Second):
		}
	}
	rec.fill(o, clk)
}

func dlName(dl int) string {
	if dl == zeroTime {
		return "zero time"
	}
	return fmt.Sprintf("slot %d.5", dl)
}
