package main

// The transport / origin of the nbio connection is a dimension of the part-A histories:
//   tcp-accepted        accepted by the engine's listener
//   tcp-dialed-timeout  engine.DialAsyncTimeout (its dial timer lives in the write-timer slot until connected)
//   tcp-dialed          engine.DialAsync
//   tcp-addconn         net.Dial + engine.AddConn
//   unix-addconn        net.Dial("unix") + engine.AddConn
//   udp-addconn         net.DialUDP + engine.AddConn            (ConnTypeUDPClientFromDial)
//   udp-dialasync       engine.DialAsync("udp")                  (ConnTypeUDPClientFromDial)
//   udp-session         per-peer session of a UDP server engine  (ConnTypeUDPClientFromRead); the engine itself arms
//                       the read deadline now + UDPReadTimeout (1 h here) when the session is opened
// and so is "traffic before the first deadline is armed": none, or a few datagrams / segments received (the poller
// drains the socket until EAGAIN) and one written.  UDP has no write backlog: big writes, drains and Writev are
// replaced by small writes there (gen.go).

import (
	"errors"
	"fmt"
	"io"
	"net"
	"os"
	"path/filepath"
	"sync"
	"sync/atomic"
	"time"

	"github.com/lesismal/nbio"
)

var transports = []string{"tcp-accepted", "tcp-dialed-timeout", "udp-addconn", "tcp-addconn", "unix-addconn", "udp-dialasync", "tcp-dialed", "udp-session"}

var streamTransports = []string{"tcp-accepted", "tcp-dialed-timeout", "tcp-addconn", "unix-addconn", "tcp-dialed"}

func isUDP(tr string) bool { return len(tr) >= 3 && tr[:3] == "udp" }

const udpSessionIdle = time.Hour

// the other end of the connection, owned by the harness
type peer struct {
	conn    net.Conn     // stream peer, or connected UDP peer (udp-session)
	udp     *net.UDPConn // unconnected UDP peer
	to      *net.UDPAddr // address of the nbio side, for the unconnected UDP peer
	reading bool
}

func (p *peer) send(b []byte) error {
	if p.udp != nil {
		_, err := p.udp.WriteToUDP(b, p.to)
		return err
	}
	_, err := p.conn.Write(b)
	return err
}

func (p *peer) discard() {
	if p.reading {
		return
	}
	p.reading = true
	if p.udp != nil {
		go func() {
			buf := make([]byte, 2048)
			for {
				if _, _, err := p.udp.ReadFromUDP(buf); err != nil {
					return
				}
			}
		}()
		return
	}
	go io.Copy(io.Discard, p.conn)
}

func (p *peer) setReadBuffer(n int) {
	switch c := p.conn.(type) {
	case *net.TCPConn:
		_ = c.SetReadBuffer(n)
	case *net.UnixConn:
		_ = c.SetReadBuffer(n)
	}
}

func (p *peer) close() {
	if p.udp != nil {
		p.udp.Close()
	}
	if p.conn != nil {
		p.conn.Close()
	}
}

// more environment for the other transports (created in startConnEnv)
type xportEnv struct {
	gu        *nbio.Engine // UDP server engine
	uaddr     string
	sessions  sync.Map // remote address of a UDP session -> *nbio.Conn
	dir       string
	uln       net.Listener // unix listener
	unixMu    sync.Mutex
	unixPeers chan net.Conn
}

func (env *connEnv) handlers(g *nbio.Engine) {
	g.OnData(func(c *nbio.Conn, data []byte) {
		if r, ok := c.Session().(*closeRec); ok {
			atomic.AddInt32(&r.got, 1)
		}
	})
	g.OnClose(func(c *nbio.Conn, err error) {
		if r, ok := c.Session().(*closeRec); ok {
			r.notify(err)
		}
	})
}

func (env *connEnv) startXport() error {
	x := &env.x
	gu := nbio.NewEngine(nbio.Config{Name: "c16udp", Network: "udp", Addrs: []string{"127.0.0.1:0"}, NPoller: 1, UDPReadTimeout: udpSessionIdle})
	gu.OnOpen(func(c *nbio.Conn) { x.sessions.Store(c.RemoteAddr().String(), c) })
	env.handlers(gu)
	if err := gu.Start(); err != nil {
		return err
	}
	x.gu, x.uaddr = gu, gu.Addrs[0]
	dir, err := os.MkdirTemp("", "c16unix")
	if err != nil {
		gu.Stop()
		return err
	}
	x.dir = dir
	uln, err := net.Listen("unix", filepath.Join(dir, "s"))
	if err != nil {
		gu.Stop()
		os.RemoveAll(dir)
		return err
	}
	x.uln = uln
	x.unixPeers = make(chan net.Conn, 1)
	go func() {
		for {
			c, err := uln.Accept()
			if err != nil {
				return
			}
			x.unixPeers <- c
		}
	}()
	return nil
}

func (env *connEnv) stopXport() {
	env.x.uln.Close()
	os.RemoveAll(env.x.dir)
	env.x.gu.Stop()
}

func udpAddrOf(a net.Addr) *net.UDPAddr {
	switch v := a.(type) {
	case *net.UDPAddr:
		return v
	case *net.TCPAddr: // DialAsync("udp") records its local address in a TCPAddr
		return &net.UDPAddr{IP: v.IP, Port: v.Port, Zone: v.Zone}
	}
	return nil
}

func (env *connEnv) dialAsync(network, addr string, timeout time.Duration) (*nbio.Conn, error) {
	type res struct {
		c   *nbio.Conn
		err error
	}
	ch := make(chan res, 1)
	cb := func(c *nbio.Conn, err error) { ch <- res{c, err} }
	var err error
	if timeout > 0 {
		err = env.g.DialAsyncTimeout(network, addr, timeout, cb)
	} else {
		err = env.g.DialAsync(network, addr, cb)
	}
	if err != nil {
		return nil, err
	}
	select {
	case r := <-ch:
		return r.c, r.err
	case <-time.After(5 * time.Second):
		return nil, errors.New("DialAsync: no callback within 5 s")
	}
}

func (env *connEnv) tcpPeer(key string) (net.Conn, error) {
	for i := 0; i < 20000; i++ {
		if v, ok := env.peers.LoadAndDelete(key); ok {
			return v.(net.Conn), nil
		}
		time.Sleep(250 * time.Microsecond)
	}
	return nil, errors.New("the listener did not accept the dialed connection")
}

// open: the nbio connection of the history's transport and the harness's end of it
func (env *connEnv) open(tr string) (*nbio.Conn, *peer, error) {
	switch tr {
	case "tcp-accepted":
		cl, err := net.Dial("tcp", env.addr)
		if err != nil {
			return nil, nil, err
		}
		c := env.accepted(cl.LocalAddr().String())
		if c == nil {
			cl.Close()
			return nil, nil, errors.New("the engine did not report the accepted connection")
		}
		return c, &peer{conn: cl}, nil
	case "tcp-dialed-timeout", "tcp-dialed":
		to := time.Duration(0)
		if tr == "tcp-dialed-timeout" {
			to = 3 * time.Second
		}
		c, err := env.dialAsync("tcp", env.ln.Addr().String(), to)
		if err != nil {
			return nil, nil, err
		}
		env.conns.Delete(c.LocalAddr().String())
		pc, err := env.tcpPeer(c.LocalAddr().String())
		if err != nil {
			return nil, nil, err
		}
		return c, &peer{conn: pc}, nil
	case "tcp-addconn":
		sc, err := net.Dial("tcp", env.ln.Addr().String())
		if err != nil {
			return nil, nil, err
		}
		key := sc.LocalAddr().String()
		c, err := env.g.AddConn(sc)
		if err != nil {
			return nil, nil, err
		}
		pc, err := env.tcpPeer(key)
		if err != nil {
			return nil, nil, err
		}
		return c, &peer{conn: pc}, nil
	case "unix-addconn":
		env.x.unixMu.Lock()
		sc, err := net.Dial("unix", env.x.uln.Addr().String())
		var pc net.Conn
		if err == nil {
			select {
			case pc = <-env.x.unixPeers:
			case <-time.After(5 * time.Second):
				err = errors.New("the unix listener did not accept")
			}
		}
		env.x.unixMu.Unlock()
		if err != nil {
			return nil, nil, err
		}
		c, err := env.g.AddConn(sc)
		if err != nil {
			pc.Close()
			return nil, nil, err
		}
		return c, &peer{conn: pc}, nil
	case "udp-addconn", "udp-dialasync":
		pu, err := net.ListenUDP("udp", &net.UDPAddr{IP: net.IPv4(127, 0, 0, 1)})
		if err != nil {
			return nil, nil, err
		}
		var c *nbio.Conn
		if tr == "udp-addconn" {
			var sc *net.UDPConn
			if sc, err = net.DialUDP("udp", nil, pu.LocalAddr().(*net.UDPAddr)); err == nil {
				c, err = env.g.AddConn(sc)
			}
		} else {
			c, err = env.dialAsync("udp", pu.LocalAddr().String(), 0)
		}
		if err != nil {
			pu.Close()
			return nil, nil, err
		}
		to := udpAddrOf(c.LocalAddr())
		if to == nil {
			pu.Close()
			return nil, nil, fmt.Errorf("local address of the udp connection: %v", c.LocalAddr())
		}
		return c, &peer{udp: pu, to: to}, nil
	case "udp-session":
		pc, err := net.DialUDP("udp", nil, func() *net.UDPAddr { a, _ := net.ResolveUDPAddr("udp", env.x.uaddr); return a }())
		if err != nil {
			return nil, nil, err
		}
		if _, err = pc.Write([]byte("hello")); err != nil {
			pc.Close()
			return nil, nil, err
		}
		key := pc.LocalAddr().String()
		for i := 0; i < 20000; i++ {
			if v, ok := env.x.sessions.LoadAndDelete(key); ok {
				return v.(*nbio.Conn), &peer{conn: pc}, nil
			}
			time.Sleep(250 * time.Microsecond)
		}
		pc.Close()
		return nil, nil, errors.New("the UDP server engine did not open a session")
	}
	return nil, nil, errors.New("unknown transport " + tr)
}

// preTraffic: three datagrams / segments to the nbio side, each one waited for (its data handler has seen it and the
// poller has drained the socket to EAGAIN), then one small write from the nbio side
func preTraffic(c *nbio.Conn, pr *peer, rec *closeRec, udp bool) error {
	// one at a time: after each of them the poller reads once more and meets EAGAIN (three at once could exhaust
	// MaxConnReadTimesPerEventLoop without ever reaching EAGAIN)
	_ = udp
	for i := 0; i < 3; i++ {
		before := atomic.LoadInt32(&rec.got)
		if err := pr.send([]byte("ping")); err != nil {
			return err
		}
		for j := 0; atomic.LoadInt32(&rec.got) == before; j++ {
			if j > 8000 {
				return errors.New("the nbio side did not receive the traffic sent before the history")
			}
			time.Sleep(250 * time.Microsecond)
		}
	}
	time.Sleep(time.Millisecond)
	if _, err := c.Write([]byte("pong")); err != nil {
		return err
	}
	return nil
}
