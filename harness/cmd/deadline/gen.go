package main

// Generation of the histories.  Everything is laid out on a grid: operations happen at whole slots, deadlines
// expire at half slots (slot + 0.5), keep-alive times are (k + 0.5) slots, so that by plan no operation lies
// closer than half a slot to an expiry.

import (
	"fmt"
	"math/rand"
)

const zeroTime = -1000 // "dl" value of a Set*Deadline call with the zero time

type planOp struct {
	Slot int    `json:"slot"`
	Op   string `json:"op"` // conn: sd srd swd wsmall wvsmall wbig drain close; http: connect req; ws: connect upgrade msg ping; wscli: dial srvmsg srvping climsg; httpcli: do hang
	Dl   int    `json:"dl,omitempty"`
}

type plan struct {
	Part      string   `json:"part"`                     // conn | http | ws | wscli | httpcli
	Transport string   `json:"transport,omitempty"`      // conn: see transport.go
	Pre       bool     `json:"traffic_before,omitempty"` // conn: datagrams / bytes exchanged (and drained to EAGAIN) before the first operation
	ID        int      `json:"id"`
	Seed      int64    `json:"seed"`
	Template  string   `json:"template,omitempty"`
	NoRead    bool     `json:"peer_not_reading,omitempty"`
	KA2       int      `json:"keepalive_halfslots,omitempty"`    // http keep-alive, in half slots
	WT2       int      `json:"writetimeout_halfslots,omitempty"` // http write timeout, in half slots (0 = none)
	WSKA2     int      `json:"ws_keepalive_halfslots,omitempty"` // websocket keep-alive, in half slots (0 = disabled)
	DT2       int      `json:"dialtimeout_halfslots,omitempty"`  // wscli: Dialer.DialTimeout (0 = none)
	T2        int      `json:"timeout_halfslots,omitempty"`      // httpcli: ClientConn.Timeout (0 = none)
	I2        int      `json:"idletimeout_halfslots,omitempty"`  // httpcli: ClientConn.IdleConnTimeout (0 = none)
	Ops       []planOp `json:"ops"`
}

func (p *plan) key() string {
	s := fmt.Sprintf("%s/%v/%v/%d/%d/%d/%d/%d/%d", p.Part, p.NoRead, p.Transport+fmt.Sprint(p.Pre), p.KA2, p.WT2, p.WSKA2, p.DT2, p.T2, p.I2)
	for _, o := range p.Ops {
		s += fmt.Sprintf(";%d%s%d", o.Slot, o.Op, o.Dl)
	}
	return s
}

// last instant (in half slots) at which anything can still happen by plan: the largest deadline ever set
func (p *plan) horizon2() int {
	h := 0
	for _, o := range p.Ops {
		if 2*o.Slot > h {
			h = 2 * o.Slot
		}
		switch o.Op {
		case "sd", "srd", "swd":
			if o.Dl != zeroTime && 2*o.Dl+1 > h {
				h = 2*o.Dl + 1
			}
		case "req", "connect":
			if 2*o.Slot+p.KA2 > h {
				h = 2*o.Slot + p.KA2
			}
			if 2*o.Slot+p.WT2 > h {
				h = 2*o.Slot + p.WT2
			}
		case "upgrade", "msg", "ping", "srvmsg", "srvping":
			if 2*o.Slot+p.WSKA2 > h {
				h = 2*o.Slot + p.WSKA2
			}
		case "dial":
			if 2*o.Slot+p.DT2 > h {
				h = 2*o.Slot + p.DT2
			}
		case "do", "hang":
			if 2*o.Slot+p.T2 > h {
				h = 2*o.Slot + p.T2
			}
			if 2*o.Slot+p.I2 > h {
				h = 2*o.Slot + p.I2
			}
		}
	}
	if (p.Part == "http" || p.Part == "ws") && p.KA2 > h {
		h = p.KA2
	}
	return h
}

type tmpl struct {
	name   string
	noRead bool
	ops    []planOp
}

var connTemplates = []tmpl{
	{"read-deadline-fires", false, []planOp{{0, "srd", 2}}},
	{"write-deadline-fires", false, []planOp{{0, "swd", 2}}},
	{"combined-deadline-fires", false, []planOp{{0, "sd", 2}}},
	{"read-renewed-twice-just-before-expiry", false, []planOp{{0, "srd", 1}, {1, "srd", 3}, {3, "srd", 5}}},
	{"write-renewed-just-before-expiry", false, []planOp{{0, "swd", 1}, {1, "swd", 4}}},
	{"combined-renewed", false, []planOp{{0, "sd", 2}, {2, "sd", 4}}},
	{"combined-renewed-earlier", false, []planOp{{0, "sd", 5}, {1, "sd", 2}}},
	{"read-cleared", false, []planOp{{0, "srd", 2}, {2, "srd", zeroTime}}},
	{"write-cleared", false, []planOp{{0, "swd", 2}, {2, "swd", zeroTime}}},
	{"combined-cleared", false, []planOp{{0, "sd", 2}, {2, "sd", zeroTime}}},
	{"combined-cleared-by-halves", false, []planOp{{0, "sd", 3}, {1, "srd", zeroTime}, {2, "swd", zeroTime}}},
	{"write-autocleared-by-write", false, []planOp{{0, "swd", 2}, {1, "wsmall", 0}}},
	{"combined-write-half-autocleared", false, []planOp{{0, "sd", 2}, {1, "wsmall", 0}}},
	{"write-deadline-with-backlog-fires", true, []planOp{{0, "wbig", 0}, {1, "swd", 2}}},
	{"write-deadline-before-backlog-fires", true, []planOp{{0, "swd", 3}, {1, "wbig", 0}}},
	{"write-deadline-survives-flush", true, []planOp{{0, "wbig", 0}, {1, "swd", 3}, {2, "drain", 0}}},
	{"write-deadline-survives-queued-write", true, []planOp{{0, "wbig", 0}, {1, "swd", 3}, {2, "wsmall", 0}}},
	{"autoclear-after-flush", true, []planOp{{0, "wbig", 0}, {1, "swd", 4}, {2, "drain", 0}, {3, "wsmall", 0}}},
	{"autoclear-after-drained-backlog", true, []planOp{{0, "wbig", 0}, {1, "drain", 0}, {2, "swd", 4}, {3, "wsmall", 0}}},
	{"autoclear-by-writev-after-drained-backlog", true, []planOp{{0, "wbig", 0}, {1, "drain", 0}, {2, "sd", 4}, {3, "wvsmall", 0}, {4, "srd", zeroTime}}},
	{"close-cancels", false, []planOp{{0, "sd", 2}, {1, "close", 0}}},
	{"close-cancels-separate", false, []planOp{{0, "srd", 2}, {0, "swd", 3}, {1, "close", 0}, {2, "srd", 4}}},
	{"set-after-timeout-is-noop", false, []planOp{{0, "srd", 1}, {2, "srd", 4}, {3, "wsmall", 0}}},
	{"past-read-deadline", false, []planOp{{2, "srd", 0}}},
	{"past-combined-deadline", false, []planOp{{2, "sd", 1}}},
	{"read-then-write-later", false, []planOp{{0, "srd", 4}, {1, "swd", 2}}},
	{"split-then-renew-read", false, []planOp{{0, "sd", 3}, {1, "swd", zeroTime}, {2, "srd", 5}}},
	{"renew-write-keeps-read", false, []planOp{{0, "sd", 3}, {1, "swd", 6}}},
	{"clear-then-set-again", false, []planOp{{0, "srd", 2}, {1, "srd", zeroTime}, {3, "srd", 4}}},
	{"nothing-set", false, []planOp{{1, "wsmall", 0}}},
	{"write-autocleared-by-writev", false, []planOp{{0, "swd", 2}, {1, "wvsmall", 0}}},
	{"write-deadline-survives-queued-writev", true, []planOp{{0, "wbig", 0}, {1, "swd", 3}, {2, "wvsmall", 0}}},
}

// planned outcome of a conn history (used only to shape the generation: quiet tails after the expected close)
func plannedClose2(ops []planOp, noRead bool) int {
	r, w := -1, -1 // deadlines in half slots, -1 = none
	backlog := false
	fired := func(now2 int) int {
		best := -1
		for _, d := range []int{r, w} {
			if d >= 0 && d < now2 && (best < 0 || d < best) {
				best = d
			}
		}
		return best
	}
	for _, o := range ops {
		if f := fired(2 * o.Slot); f >= 0 {
			return f
		}
		d := 2*o.Dl + 1
		if o.Dl == zeroTime {
			d = -1
		}
		switch o.Op {
		case "sd":
			r, w = d, d
		case "srd":
			r = d
		case "swd":
			w = d
		case "wsmall", "wvsmall":
			if !backlog {
				w = -1
			}
		case "wbig":
			if noRead {
				backlog = true
			} else {
				w = -1
			}
		case "drain":
			backlog = false
		case "close":
			return 2 * o.Slot
		}
	}
	return fired(1 << 30)
}

func genConn(rnd *rand.Rand, id int, seed int64) *plan {
	// the transport rotates with the run's seed, so that every named scenario meets every transport over the seeds
	k := id + int(seed/1000003)
	p := &plan{Part: "conn", ID: id, Seed: seed, Transport: transports[k%len(transports)], Pre: (k/len(transports))%2 == 1}
	if p.Transport == "udp-session" {
		p.Pre = true // a session exists only because a datagram arrived
	}
	defer p.fitTransport()
	if id < len(connTemplates) {
		t := connTemplates[id]
		p.Template, p.NoRead, p.Ops = t.name, t.noRead, append([]planOp{}, t.ops...)
		if t.noRead && isUDP(p.Transport) {
			// the scenarios about a write backlog need a stream: they rotate over the stream transports only
			p.Transport = streamTransports[k%len(streamTransports)]
		}
		return p
	}
	p.NoRead = rnd.Intn(3) == 0
	slots := 4 + rnd.Intn(6)
	quiet := rnd.Intn(10) < 6
	big, drained := false, false
	first := 0
	if p.NoRead && !isUDP(p.Transport) && rnd.Intn(3) == 0 {
		// a backlog that the poller flushes completely (the drain waits until the write queue is empty), then a write
		// deadline and a small write that goes out at once: the write must drop the deadline
		w := []string{"wsmall", "wvsmall"}[rnd.Intn(2)]
		d := []string{"swd", "sd"}[rnd.Intn(2)]
		p.Ops = append(p.Ops, planOp{Slot: 0, Op: "wbig"}, planOp{Slot: 1, Op: "drain"}, planOp{Slot: 2, Op: d, Dl: 3 + rnd.Intn(3)}, planOp{Slot: 3, Op: w})
		big, drained, first = true, true, 4
		if d == "sd" {
			p.Ops = append(p.Ops, planOp{Slot: 4, Op: "srd", Dl: zeroTime})
			first = 5
		}
		slots += first
	}
	for s := first; s < slots; s++ {
		if rnd.Intn(100) < 25 {
			continue
		}
		if quiet {
			if c := plannedClose2(p.Ops, p.NoRead); c >= 0 && c < 2*s {
				break
			}
		}
		var o planOp
		o.Slot = s
		k := rnd.Intn(100)
		switch {
		case k < 20:
			o.Op = "sd"
		case k < 44:
			o.Op = "srd"
		case k < 68:
			o.Op = "swd"
		case k < 80:
			o.Op = "wsmall"
		case k < 89:
			if p.NoRead && !big {
				o.Op = "wbig"
				big = true
			} else {
				o.Op = "wsmall"
			}
		case k < 97:
			if p.NoRead && big && !drained {
				o.Op = "drain"
				drained = true
			} else if p.NoRead && !big {
				o.Op = "wbig"
				big = true
			} else {
				o.Op = "srd"
			}
		default:
			o.Op = "close"
		}
		if o.Op == "wsmall" && rnd.Intn(3) == 0 {
			o.Op = "wvsmall"
		}
		if o.Op == "sd" || o.Op == "srd" || o.Op == "swd" {
			q := rnd.Intn(100)
			switch {
			case q < 15:
				o.Dl = zeroTime
			case q < 21 && s > 0:
				o.Dl = s - 1 - rnd.Intn(minInt(s, 2))
			default:
				o.Dl = s + rnd.Intn(4)
			}
		}
		p.Ops = append(p.Ops, o)
		// sometimes a second operation in the same slot (read and write deadlines set back to back)
		if rnd.Intn(8) == 0 && (o.Op == "srd" || o.Op == "swd") && (o.Dl == zeroTime || o.Dl >= s) {
			o2 := planOp{Slot: s, Op: map[string]string{"srd": "swd", "swd": "srd"}[o.Op], Dl: s + rnd.Intn(4)}
			p.Ops = append(p.Ops, o2)
		}
	}
	return p
}

// http: connect at slot 0, requests at whole slots; keep-alive (k + 0.5) slots
func genHTTP(rnd *rand.Rand, id int, seed int64, ka2, wt2 int) *plan {
	p := &plan{Part: "http", ID: id, Seed: seed, KA2: ka2, WT2: wt2}
	p.Ops = append(p.Ops, planOp{Slot: 0, Op: "connect"})
	n := rnd.Intn(4)
	if id%7 == 0 {
		n = 0 // idle from the start
	}
	last := 0
	for i := 0; i < n; i++ {
		gap := 1 + rnd.Intn((ka2-1)/2) // strictly before the expiry at last + ka2/2
		if rnd.Intn(12) == 0 {
			gap = (ka2+1)/2 + rnd.Intn(2) // after the expiry: the connection is gone
		}
		last += gap
		p.Ops = append(p.Ops, planOp{Slot: last, Op: "req"})
	}
	return p
}

// websocket: connect, upgrade before the http keep-alive expires, then messages / pings
func genWS(rnd *rand.Rand, id int, seed int64, ka2, wt2, wska2 int) *plan {
	p := &plan{Part: "ws", ID: id, Seed: seed, KA2: ka2, WT2: wt2, WSKA2: wska2}
	p.Ops = append(p.Ops, planOp{Slot: 0, Op: "connect"})
	up := rnd.Intn((ka2-1)/2 + 1)
	p.Ops = append(p.Ops, planOp{Slot: up, Op: "upgrade"})
	last := up
	n := rnd.Intn(4)
	for i := 0; i < n; i++ {
		var gap int
		if wska2 == 0 {
			gap = 1 + rnd.Intn(3)
		} else {
			gap = 1 + rnd.Intn((wska2-1)/2)
			if rnd.Intn(12) == 0 {
				gap = (wska2+1)/2 + rnd.Intn(2)
			}
		}
		last += gap
		op := "msg"
		if rnd.Intn(4) == 0 {
			op = "ping"
		}
		p.Ops = append(p.Ops, planOp{Slot: last, Op: op})
	}
	return p
}

// websocket client: Dial at slot 0 (DialTimeout dt2 half slots, 0 = none), then the server sends messages / pings, the
// client sends messages; client-side keep-alive wska2 half slots (0 = disabled).  Nothing is armed after the dial, so
// the first event may come at any time - in particular after the dial timeout would have expired.
func genWSCli(rnd *rand.Rand, id int, seed int64, dt2, wska2 int) *plan {
	p := &plan{Part: "wscli", ID: id, Seed: seed, DT2: dt2, WSKA2: wska2}
	p.Ops = append(p.Ops, planOp{Slot: 0, Op: "dial"})
	n := rnd.Intn(4)
	if id%4 == 0 {
		n = 0 // silent from the dial on
	}
	last := 0
	armed := false
	for i := 0; i < n; i++ {
		gap := 1 + rnd.Intn(4)
		if armed && wska2 > 0 {
			gap = 1 + rnd.Intn((wska2-1)/2)
			if rnd.Intn(10) == 0 {
				gap = (wska2+1)/2 + rnd.Intn(2)
			}
		}
		last += gap
		op := []string{"srvmsg", "srvmsg", "srvping", "climsg"}[rnd.Intn(4)]
		if op != "climsg" {
			armed = true
		}
		p.Ops = append(p.Ops, planOp{Slot: last, Op: op})
	}
	return p
}

// nbhttp.ClientConn: answered requests with idle periods in between, possibly a last request that is never answered
func genHTTPCli(rnd *rand.Rand, id int, seed int64, t2, i2 int) *plan {
	p := &plan{Part: "httpcli", ID: id, Seed: seed, T2: t2, I2: i2}
	n := 1 + rnd.Intn(3)
	last := 0
	for i := 0; i < n; i++ {
		if i > 0 {
			gap := 1 + rnd.Intn(4)
			if i2 > 0 {
				gap = 1 + rnd.Intn((i2-1)/2)
				if rnd.Intn(8) == 0 {
					gap = (i2+1)/2 + rnd.Intn(2) // after the idle timeout: the connection is gone
				}
			}
			last += gap
		}
		p.Ops = append(p.Ops, planOp{Slot: last, Op: "do"})
	}
	if rnd.Intn(3) == 0 {
		gap := 1 + rnd.Intn(2)
		if i2 > 0 && gap > (i2-1)/2 {
			gap = (i2 - 1) / 2
		}
		p.Ops = append(p.Ops, planOp{Slot: last + gap, Op: "hang"})
	}
	return p
}

// UDP has no write backlog and no Writev of several buffers: big writes and Writev become small writes, drains vanish
func (p *plan) fitTransport() {
	if !isUDP(p.Transport) {
		return
	}
	p.NoRead = false
	var ops []planOp
	for _, o := range p.Ops {
		switch o.Op {
		case "wbig", "wvsmall":
			o.Op = "wsmall"
		case "drain":
			continue
		}
		ops = append(ops, o)
	}
	p.Ops = ops
}
