package main

// The property oracle of C16 on the implementation alone, and the comparison with the model.
//
// An observation is what the harness saw of ONE connection: the operations it performed, each with the interval
// [B, A] of logical microseconds in which it took effect, what each operation does to the deadlines according to
// the property's text (set a deadline, clear one, close), which operation was the first to find the connection
// closed, and the close notification (cause, time).  Nothing of the model is used here.
//
// Rules (timers never fire early - exact; they may fire late by less than `margin`):
//   never early  the connection was closed by the timeout of direction x at some instant c <= hi; then some deadline
//                of direction x with lower bound lo <= hi must have been set and not CERTAINLY been renewed / cleared
//                before it expired (an operation that ended before lo certainly came first);
//   on time      a deadline that was not possibly renewed / cleared before it fired (no such operation began before
//                due + margin) must have closed the connection by due + margin;
//   on time, 2   the same with a quarter of the grid unit instead of the margin counts only if it is violated in
//                EVERY round (the unit doubles from round to round: a lateness that grows with the grid is no hiccup).

import (
	"fmt"
	"strconv"
	"strings"

	"verifharness/hx"
)

const origin = int64(1000000) // logical clock (microseconds) at the base instant of a history

const (
	dirR = 0
	dirW = 1
)

var dirName = []string{"read", "write"}
var dirCause = []string{"rto", "wto"}

type effect struct {
	Kind string `json:"kind"` // set | clear | close
	Dir  int    `json:"dir"`
	Lo   int64  `json:"lo,omitempty"` // deadline interval (logical us); Lo == Hi for absolute deadlines
	Hi   int64  `json:"hi,omitempty"`
	Why  string `json:"why,omitempty"` // clear: zero | autoclear
}

type stateChk struct {
	R       bool   `json:"rArmed"`
	W       bool   `json:"wArmed"`
	Backlog bool   `json:"backlog"`
	Closed  bool   `json:"closed"`
	Res     string `json:"res"` // ok | closed
}

type obsOp struct {
	Name       string    `json:"op"`
	Cmds       []string  `json:"model_cmds"`
	B          int64     `json:"b"`
	A          int64     `json:"a"`
	Eff        []effect  `json:"effects,omitempty"`
	SeenClosed bool      `json:"seen_closed"`
	Chk        *stateChk `json:"state,omitempty"`
}

type observation struct {
	Ops           []obsOp `json:"ops"`
	EndB          int64   `json:"end_b"`
	EndA          int64   `json:"end_a"`
	EndClosed     bool    `json:"end_closed"`
	Closed        bool    `json:"close_notified"`
	Cause         string  `json:"cause"` // rto | wto | user | other:<err>
	Tau           int64   `json:"close_time"`
	Notifications int     `json:"close_notifications"`
	Infra         string  `json:"infra,omitempty"`
	// Direct: failures that involve no timing (reported without re-run)
	Direct []problem `json:"-"`
	// StrictCause: the harness owns both ends and never closes the peer, so a close with any error other than the
	// two timeout errors is the library's doing
	StrictCause bool `json:"strict_cause,omitempty"`
}

type problem struct {
	Kind string // oracle | mismatch | ambiguous | infra
	Sig  string
	What string
}

type tinst struct {
	j      int
	dir    int
	lo, hi int64
	armA   int64
	canc   []canceller
}

type canceller struct {
	m   int
	why string
	b   int64
	a   int64
}

func (t *tinst) certainlyCancelled() *canceller {
	for i := range t.canc {
		if t.canc[i].a < t.lo {
			return &t.canc[i]
		}
	}
	return nil
}

func (t *tinst) possiblyCancelledBefore(at int64) bool {
	for i := range t.canc {
		if t.canc[i].b < at {
			return true
		}
	}
	return false
}

func (t *tinst) dueHi() int64 {
	if t.armA > t.hi {
		return t.armA
	}
	return t.hi
}

// oracle: the interval rules, computed directly from the history.
func oracle(o *observation, margin, guard int64) []problem {
	var ps []problem
	if o.Infra != "" {
		return []problem{{"infra", "infra", o.Infra}}
	}
	if o.Notifications > 1 {
		ps = append(ps, problem{"oracle", "second-close-notification", fmt.Sprintf("%d close notifications for one connection (first cause %s)", o.Notifications, o.Cause)})
	}
	n := len(o.Ops)
	k := -1 // first operation that found the connection closed; n = the final look
	for i := range o.Ops {
		if o.Ops[i].SeenClosed {
			k = i
			break
		}
	}
	if k < 0 && o.EndClosed {
		k = n
	}
	// the operation that was the first to find the connection closed may itself have taken effect before the close
	// (a deadline in the past fires at once): its deadlines can explain the close, but they create no obligation
	lim := k + 1
	if k < 0 {
		lim = n
	}
	ts := timersOf(o, lim)
	onTime := func(loC int64, word string) {
		for _, t := range ts {
			due := t.dueHi()
			if t.j != k && !t.possiblyCancelledBefore(due+margin) && loC >= due+margin {
				ps = append(ps, problem{"oracle", word + ":" + dirName[t.dir],
					fmt.Sprintf("the %s deadline set by operation %d (%s, due at %d us) was neither renewed nor cleared, but the connection was still open at %d us (%d us after it was due)",
						dirName[t.dir], t.j, o.Ops[t.j].Name, due, loC, loC-due)})
				return
			}
		}
		// late by more than a quarter of a grid unit, but within the margin: a scheduling hiccup unless it happens
		// in every round (the unit doubles from round to round)
		for _, t := range ts {
			due := t.dueHi()
			if t.j != k && !t.possiblyCancelledBefore(due+guard) && loC >= due+guard {
				ps = append(ps, problem{"soft", "late-in-every-round:" + dirName[t.dir],
					fmt.Sprintf("the %s deadline set by operation %d (%s, due at %d us) was neither renewed nor cleared, but the connection was still open at %d us, %d us after it was due (more than a quarter of the grid unit; seen in every one of the rounds, whose units were doubled each time)",
						dirName[t.dir], t.j, o.Ops[t.j].Name, due, loC, loC-due)})
				return
			}
		}
	}
	if k < 0 {
		// open at the end of the window
		onTime(o.EndB, "missed")
		return ps
	}
	if !o.Closed {
		return append(ps, problem{"oracle", "close-not-notified", "the connection was found closed but no close notification arrived within 3 s"})
	}
	loC := int64(0)
	if k > 0 {
		loC = o.Ops[k-1].B
	}
	hiC := o.Tau
	aK := o.EndA
	if k < n {
		aK = o.Ops[k].A
	}
	if aK < hiC {
		hiC = aK
	}
	switch o.Cause {
	case "rto", "wto":
		x := dirR
		if o.Cause == "wto" {
			x = dirW
		}
		admissible := false
		any := false
		var stale *tinst
		for _, t := range ts {
			if t.dir != x {
				continue
			}
			any = true
			if t.lo <= hiC {
				if t.certainlyCancelled() == nil {
					admissible = true
				} else {
					stale = t
				}
			}
		}
		if !admissible {
			switch {
			case !any:
				ps = append(ps, problem{"oracle", "timeout-without-deadline:" + dirName[x],
					fmt.Sprintf("closed with the %s timeout at <= %d us although no %s deadline was ever set", dirName[x], hiC, dirName[x])})
			case stale != nil:
				c := stale.certainlyCancelled()
				ps = append(ps, problem{"oracle", "stale-after-" + c.why + ":" + dirName[x],
					fmt.Sprintf("closed with the %s timeout at <= %d us by the deadline %d us of operation %d (%s), which operation %d (%s, finished at %d us) had cancelled (%s) before it expired; no other %s deadline was due",
						dirName[x], hiC, stale.lo, stale.j, o.Ops[stale.j].Name, c.m, o.Ops[c.m].Name, c.a, c.why, dirName[x])})
			default:
				ps = append(ps, problem{"oracle", "early:" + dirName[x],
					fmt.Sprintf("closed with the %s timeout at <= %d us, before every %s deadline in force", dirName[x], hiC, dirName[x])})
			}
		}
		onTime(loC, "late")
	case "user":
		if k >= n || !hasClose(&o.Ops[k]) {
			ps = append(ps, problem{"oracle", "closed-without-cause", "the connection was closed with a nil error although the history contains no Close at that point"})
		}
		if n > 0 {
			onTime(o.Ops[minInt(k, n-1)].B, "late")
		}
	default:
		if o.StrictCause {
			ps = append(ps, problem{"oracle", "unexpected-close-error", fmt.Sprintf("the connection was closed at %d us with the error %q, instead of the corresponding timeout error nbio.ErrReadTimeout / nbio.ErrWriteTimeout (nobody but the deadline timers and the history's own Close closes this connection)", o.Tau, strings.TrimPrefix(o.Cause, "other:"))})
		} else {
			ps = append(ps, problem{"infra", "unexpected-close-cause", "close cause " + o.Cause})
		}
	}
	return ps
}

// timersOf: the deadlines set by the first lim operations, each with the later operations that renew / clear it
func timersOf(o *observation, lim int) []*tinst {
	var ts []*tinst
	for m := 0; m < lim && m < len(o.Ops); m++ {
		op := &o.Ops[m]
		for _, e := range op.Eff {
			switch e.Kind {
			case "set":
				for _, t := range ts {
					if t.dir == e.Dir {
						t.canc = append(t.canc, canceller{m, "renew", op.B, op.A})
					}
				}
				ts = append(ts, &tinst{j: m, dir: e.Dir, lo: e.Lo, hi: e.Hi, armA: op.A})
			case "clear":
				for _, t := range ts {
					if t.dir == e.Dir {
						t.canc = append(t.canc, canceller{m, e.Why, op.B, op.A})
					}
				}
			case "close":
				for _, t := range ts {
					t.canc = append(t.canc, canceller{m, "close", op.B, op.A})
				}
			}
		}
	}
	return ts
}

func hasClose(op *obsOp) bool {
	for _, e := range op.Eff {
		if e.Kind == "close" {
			return true
		}
	}
	return false
}

func minInt(a, b int) int {
	if a < b {
		return a
	}
	return b
}

// ---- comparison with the model ----

type proj struct {
	cause   string
	t       int64
	r, w, b bool
	res     string
}

func parseProj(s string) (proj, bool) {
	f := strings.Fields(s)
	if len(f) != 6 {
		return proj{}, false
	}
	t, err := strconv.ParseInt(f[1], 10, 64)
	if err != nil {
		return proj{}, false
	}
	return proj{f[0], t, f[2] == "1", f[3] == "1", f[4] == "1", f[5]}, true
}

type mrun struct {
	ops   [][2]proj // per operation: projection after it (read preferred, write preferred)
	final [2]proj
}

func modelRun(m *hx.Model, o *observation, upper bool, margin int64) (*mrun, string) {
	lines := 0
	m.Send("init %d", origin)
	for i := range o.Ops {
		t := o.Ops[i].B
		if upper {
			t = o.Ops[i].A
		}
		m.Send("at %d", t)
		lines++
		for _, c := range o.Ops[i].Cmds {
			m.Send("%s", c)
			lines++
		}
	}
	end := o.EndB
	if upper {
		end = o.EndA
	}
	if o.EndClosed {
		// the connection is closed: whatever closes it in the model must have happened by now (plus the margin)
		end = o.EndA + margin
	}
	m.Send("at %d", end)
	lines++
	if got := m.ReadLine(); got != "OK" {
		return nil, "model init: " + got
	}
	read := func() ([2]proj, string) {
		got := m.ReadLine()
		parts := strings.Split(got, " | ")
		var out [2]proj
		if len(parts) != 2 {
			return out, "model answer " + got
		}
		for i := 0; i < 2; i++ {
			p, ok := parseProj(parts[i])
			if !ok {
				return out, "model answer " + got
			}
			out[i] = p
		}
		return out, ""
	}
	res := &mrun{}
	bad := ""
	for i := range o.Ops {
		last, e := read() // answer to "at"
		if e != "" && bad == "" {
			bad = e
		}
		for range o.Ops[i].Cmds {
			last, e = read()
			if e != "" && bad == "" {
				bad = e
			}
		}
		res.ops = append(res.ops, last)
	}
	fin, e := read()
	if e != "" && bad == "" {
		bad = e
	}
	res.final = fin
	if bad != "" {
		return nil, bad
	}
	return res, ""
}

func sameShape(a, b proj) bool {
	return (a.cause == "open") == (b.cause == "open") && a.r == b.r && a.w == b.w && a.b == b.b && a.res == b.res
}

// compare: the eager model, run once with every operation at the beginning and once at the end of its interval.
func compare(m *hx.Model, o *observation, margin, guard int64) []problem {
	if o.Infra != "" {
		return nil
	}
	// an operation that begins less than `guard` after a deadline became due races with the timer's callback:
	// the eager model cannot tell who comes first
	for i := range o.Ops {
		for _, t := range timersOf(o, i) {
			if t.certainlyCancelled() != nil {
				continue
			}
			dueLo, dueHi := t.lo, t.dueHi()
			if o.Ops[t.j].B > dueLo {
				dueLo = o.Ops[t.j].B
			}
			if dueLo <= o.Ops[i].A && o.Ops[i].B < dueHi+guard {
				return []problem{{"ambiguous", "ambiguous", fmt.Sprintf("operation %d (%s at [%d,%d] us) lies within %d us of the deadline [%d,%d] us set by operation %d", i, o.Ops[i].Name, o.Ops[i].B, o.Ops[i].A, guard, dueLo, dueHi, t.j)}}
			}
		}
	}
	lo, e1 := modelRun(m, o, false, margin)
	if e1 != "" {
		return []problem{{"infra", "model", e1}}
	}
	hi, e2 := modelRun(m, o, true, margin)
	if e2 != "" {
		return []problem{{"infra", "model", e2}}
	}
	for i := range o.Ops {
		for v := 0; v < 2; v++ {
			if !sameShape(lo.ops[i][v], hi.ops[i][v]) {
				return []problem{{"ambiguous", "ambiguous", fmt.Sprintf("operation %d (%s) lies too close to an expiry: the model's answer depends on where in [%d,%d] it took effect", i, o.Ops[i].Name, o.Ops[i].B, o.Ops[i].A)}}
			}
		}
	}
	for v := 0; v < 2; v++ {
		if lo.final[v].cause != hi.final[v].cause {
			return []problem{{"ambiguous", "ambiguous", "the final look lies too close to an expiry"}}
		}
	}
	var ps []problem
	for i := range o.Ops {
		op := &o.Ops[i]
		p := lo.ops[i][0]
		racy := false // a deadline that is already due when it is set fires at once: the state right after the call is a race
		for _, e := range op.Eff {
			if e.Kind == "set" && e.Lo <= op.A+guard {
				racy = true
			}
		}
		if racy {
			continue
		}
		mclosed := p.cause != "open"
		if mclosed != op.SeenClosed {
			ps = append(ps, problem{"mismatch", "deadline-model", fmt.Sprintf("after operation %d (%s at [%d,%d] us): model closed=%v (%s at %d us), implementation closed=%v", i, op.Name, op.B, op.A, mclosed, p.cause, p.t, op.SeenClosed)})
			return ps
		}
		if op.Chk != nil {
			c := op.Chk
			if p.r != c.R || p.w != c.W || p.b != c.Backlog || p.res != c.Res {
				ps = append(ps, problem{"mismatch", "deadline-model", fmt.Sprintf("after operation %d (%s at [%d,%d] us): model rArmed=%v wArmed=%v backlog=%v result=%s, implementation rArmed=%v wArmed=%v backlog=%v result=%s",
					i, op.Name, op.B, op.A, p.r, p.w, p.b, p.res, c.R, c.W, c.Backlog, c.Res)})
				return ps
			}
		}
	}
	fl, fh := lo.final, hi.final
	if fl[0].cause == "open" {
		if o.EndClosed {
			ps = append(ps, problem{"mismatch", "deadline-model", fmt.Sprintf("model: still open at the end of the window (%d us); implementation: closed (%s at %d us)", o.EndB, o.Cause, o.Tau)})
		}
		return ps
	}
	if !o.EndClosed {
		ps = append(ps, problem{"mismatch", "deadline-model", fmt.Sprintf("model: closed (%s at %d us); implementation: still open at the end of the window (%d us)", fl[0].cause, fl[0].t, o.EndB)})
		return ps
	}
	if !o.Closed {
		return ps // reported by the oracle (close-not-notified)
	}
	v := -1
	for i := 0; i < 2; i++ {
		if fl[i].cause == o.Cause {
			v = i
		}
	}
	if v < 0 {
		ps = append(ps, problem{"mismatch", "deadline-model", fmt.Sprintf("model: closed by %s/%s at %d us; implementation: closed by %s at %d us", fl[0].cause, fl[1].cause, fl[0].t, o.Cause, o.Tau)})
		return ps
	}
	if o.Cause == "rto" || o.Cause == "wto" {
		if o.Tau < fl[v].t {
			ps = append(ps, problem{"mismatch", "deadline-model", fmt.Sprintf("model: %s at %d us; implementation: %s already at %d us (early)", fl[v].cause, fl[v].t, o.Cause, o.Tau)})
		} else if o.Tau >= fh[v].t+margin {
			ps = append(ps, problem{"mismatch", "deadline-model", fmt.Sprintf("model: %s at %d..%d us; implementation: %s only at %d us (margin %d us)", fl[v].cause, fl[v].t, fh[v].t, o.Cause, o.Tau, margin)})
		}
	}
	return ps
}
