package main

// Client-side end-to-end tier: the connection under test is the one a real websocket.Dialer makes on its own nbhttp
// engine (the other tiers only have server-side endpoints under test).
//   server    a real nbhttp/websocket server that GREETS from its open handler: 1-3 messages and possibly a ping, written
//             right behind the 101 answer, so they reach the client together with (or immediately after) the answer; later a
//             second batch from another goroutine, then one of the endings (server closes / client closes / close frame)
//   client    websocket.Dialer x {synchronous Dial, asynchronous Dial with a result handler} x client engine epoll mode x
//             {fast, slow (50-200 ms)} open handler, slow / fast message handlers
//   oracle    the client connection's callbacks, logged under a per-connection mutex: the open callback completes before
//             any message / ping / close callback starts, callbacks never overlap, messages and the ping in wire order,
//             close exactly once and last.
// Signatures are client-<class>/<sync|async>: distinct from the server-side classes (and their -transferred variants).
// The overlap / order classes are also emitted with Property "C05" (per-connection job serialization seen end to end).

import (
	"fmt"
	"math/rand"
	"net/http"
	"strconv"
	"strings"
	"sync"
	"time"

	"github.com/lesismal/nbio/nbhttp"
	"github.com/lesismal/nbio/nbhttp/websocket"
	"verifharness/hx"
)

type cliPlan struct {
	Cid     int    `json:"connection"`
	Async   bool   `json:"async_dial"`
	Greet   int    `json:"greetings_from_server_open_handler"`
	PingAt  int    `json:"ping_before_greeting"` // -1: no ping
	Batch2  int    `json:"second_batch"`
	OpenMs  int    `json:"client_open_handler_ms"`
	SlowMsg []int  `json:"client_message_handler_ms"`
	End     string `json:"end"` // server-close | client-close | close-frame
}

type cliState struct {
	plan     cliPlan
	mu       sync.Mutex
	log      []string // O o  M<i> m<i>  P p  C
	active   string   // callback in progress
	overlap  string
	handled  int
	nclose   int
	result   string // what the Dial reported
	closeCh  chan struct{}
	handledC chan struct{}
	srvConn  *websocket.Conn
	srvOpen  chan struct{}
}

func (cs *cliState) begin(name string) {
	cs.mu.Lock()
	if cs.active != "" && cs.overlap == "" {
		cs.overlap = fmt.Sprintf("%s began while %s was still running (event %d)", name, cs.active, len(cs.log))
	}
	cs.active = name
	cs.log = append(cs.log, name)
	cs.mu.Unlock()
}

func (cs *cliState) end(name, ev string) {
	cs.mu.Lock()
	if cs.active == name {
		cs.active = ""
	}
	cs.log = append(cs.log, ev)
	cs.mu.Unlock()
}

func greetPayload(cid, i int) []byte {
	return []byte(fmt.Sprintf("G|%d|%d|%s", cid, i, strings.Repeat("x", 10+(i*37+cid)%200)))
}

type cliServer struct {
	eng   *nbhttp.Engine
	addr  string
	conns sync.Map
}

func startCliServer(epoll string) (*cliServer, error) {
	sv := &cliServer{}
	em, os1 := epollCfg(epoll)
	mux := http.NewServeMux()
	mux.HandleFunc("/ws", func(w http.ResponseWriter, r *http.Request) {
		cid, _ := strconv.Atoi(r.URL.Query().Get("c"))
		v, ok := sv.conns.Load(cid)
		if !ok {
			http.Error(w, "unknown", 400)
			return
		}
		cs := v.(*cliState)
		u := websocket.NewUpgrader()
		u.Engine = sv.eng
		u.CheckOrigin = func(*http.Request) bool { return true }
		u.OnOpen(func(c *websocket.Conn) {
			// the greeting goes out right behind the 101 answer
			for i := 0; i < cs.plan.Greet; i++ {
				if cs.plan.PingAt == i {
					c.WriteMessage(websocket.PingMessage, []byte("hello"))
				}
				c.WriteMessage(websocket.BinaryMessage, greetPayload(cs.plan.Cid, i))
			}
			cs.mu.Lock()
			cs.srvConn = c
			cs.mu.Unlock()
			close(cs.srvOpen)
		})
		u.OnMessage(func(*websocket.Conn, websocket.MessageType, []byte) {})
		u.Upgrade(w, r, nil)
	})
	sv.eng = nbhttp.NewEngine(nbhttp.Config{Network: "tcp", Addrs: []string{"127.0.0.1:0"}, NPoller: 2, EpollMod: em, EPOLLONESHOT: os1, Handler: mux})
	if err := sv.eng.Start(); err != nil {
		return nil, err
	}
	sv.addr = sv.eng.Addrs[0]
	return sv, nil
}

// the expected order of message / ping callbacks of the client
func (p cliPlan) expected() []string {
	var e []string
	for i := 0; i < p.Greet+p.Batch2; i++ {
		if p.PingAt == i {
			e = append(e, "P")
		}
		e = append(e, fmt.Sprintf("M%d", i))
	}
	return e
}

func checkCliLog(cs *cliState, dialed bool) []problem {
	cs.mu.Lock()
	log := append([]string(nil), cs.log...)
	overlap := cs.overlap
	cs.mu.Unlock()
	var ps []problem
	add := func(sig, f string, a ...interface{}) {
		for _, p := range ps {
			if p.Sig == sig {
				return
			}
		}
		ps = append(ps, problem{Sig: sig, What: fmt.Sprintf(f, a...)})
	}
	if overlap != "" {
		add("client-callback-overlap", "callbacks of one client connection overlap: %s", overlap)
	}
	opened, openEnded, closes := false, false, 0
	var seen []string
	for i, e := range log {
		switch {
		case e == "O":
			if opened {
				add("client-open-twice", "the client's open callback ran twice (event %d)", i)
			}
			opened = true
		case e == "o":
			openEnded = true
		case e == "C":
			closes++
			if opened && !openEnded {
				add("client-close-before-open-end", "the client's close callback ran while its open callback was still running (event %d)", i)
			}
		case e == "P" || strings.HasPrefix(e, "M"):
			if !openEnded {
				what := "message callback " + e[1:]
				if e == "P" {
					what = "ping callback"
				}
				add("client-open-after-message", "the client's %s began before its open callback had completed (event %d of the log)", what, i)
			}
			if closes > 0 {
				add("client-close-before-message-end", "the client's callback %s began after its close callback (event %d)", e, i)
			}
			seen = append(seen, e)
		}
	}
	// wire order, each once (a prefix when the connection ended early)
	exp := cs.plan.expected()
	for i, e := range seen {
		if i >= len(exp) || exp[i] != e {
			want := "nothing more"
			if i < len(exp) {
				want = exp[i]
			}
			add("client-callback-order", "callback %d of the client connection is %s, the wire order says %s (expected sequence %v)", i, e, want, exp)
			break
		}
	}
	if dialed {
		if !opened {
			add("client-open-missing", "the Dial succeeded but the client's open callback never ran")
		}
		if len(seen) < len(exp) {
			add("client-callback-missing", "only %d of the %d messages / pings the server sent reached the client's callbacks while the connection was open", len(seen), len(exp))
		}
		if closes == 0 {
			add("client-close-missing", "the client's close callback never ran (waited 8s after the connection ended)")
		}
	}
	if closes > 1 {
		add("client-close-twice", "the client's close callback ran %d times", closes)
	}
	// close last
	for i, e := range log {
		if e == "C" && i != len(log)-1 {
			for _, l := range log[i+1:] {
				if l != "C" {
					add("client-close-before-message-end", "the client's close callback (event %d) is not the last event of the log: %s follows", i, l)
					break
				}
			}
			break
		}
	}
	return ps
}

func runCliConn(sv *cliServer, ce *nbhttp.Engine, cs *cliState) (probs []problem, infra string) {
	p := cs.plan
	u := websocket.NewUpgrader()
	u.Engine = ce
	u.OnOpen(func(c *websocket.Conn) {
		cs.begin("O")
		if p.OpenMs > 0 {
			time.Sleep(time.Duration(p.OpenMs) * time.Millisecond)
		}
		cs.end("O", "o")
	})
	u.OnMessage(func(c *websocket.Conn, mt websocket.MessageType, data []byte) {
		parts := strings.SplitN(string(data), "|", 4)
		name := "M?"
		idx := -1
		if len(parts) == 4 && parts[0] == "G" && parts[1] == strconv.Itoa(p.Cid) {
			idx, _ = strconv.Atoi(parts[2])
			if string(greetPayload(p.Cid, idx)) == string(data) {
				name = fmt.Sprintf("M%d", idx)
			}
		}
		cs.begin(name)
		if idx >= 0 && idx < len(p.SlowMsg) && p.SlowMsg[idx] > 0 {
			time.Sleep(time.Duration(p.SlowMsg[idx]) * time.Millisecond)
		}
		cs.end(name, "m"+name[1:])
		cs.mu.Lock()
		cs.handled++
		cs.mu.Unlock()
		select {
		case cs.handledC <- struct{}{}:
		default:
		}
	})
	u.SetPingHandler(func(c *websocket.Conn, s string) {
		cs.begin("P")
		c.WriteMessage(websocket.PongMessage, []byte(s))
		cs.end("P", "p")
	})
	u.OnClose(func(c *websocket.Conn, err error) {
		cs.mu.Lock()
		cs.nclose++
		cs.log = append(cs.log, "C")
		cs.mu.Unlock()
		select {
		case cs.closeCh <- struct{}{}:
		default:
		}
	})
	d := &websocket.Dialer{Engine: ce, Upgrader: u, DialTimeout: 10 * time.Second}
	url := fmt.Sprintf("ws://%s/ws?c=%d", sv.addr, p.Cid)
	var cc *websocket.Conn
	var derr error
	if p.Async {
		done := make(chan struct{})
		_, _, err := d.Dial(url, nil, func(c *websocket.Conn, res *http.Response, e error) {
			cc, derr = c, e
			close(done)
		})
		if err != nil {
			return nil, "dial: " + err.Error()
		}
		if !wait(done, 12*time.Second) {
			return []problem{{Sig: "client-dial-result-missing", What: "the result handler of an asynchronous Dial was not called within 12s"}}, ""
		}
	} else {
		cc, _, derr = d.Dial(url, nil)
	}
	if derr != nil || cc == nil {
		return nil, fmt.Sprintf("dial: %v", derr)
	}
	waitHandled := func(n int) bool {
		deadline := time.After(10 * time.Second)
		for {
			cs.mu.Lock()
			h := cs.handled
			cs.mu.Unlock()
			if h >= n {
				return true
			}
			select {
			case <-cs.handledC:
			case <-time.After(50 * time.Millisecond):
			case <-deadline:
				return false
			}
		}
	}
	ok := waitHandled(p.Greet)
	if ok && wait(cs.srvOpen, 5*time.Second) {
		cs.mu.Lock()
		sc := cs.srvConn
		cs.mu.Unlock()
		for i := p.Greet; i < p.Greet+p.Batch2; i++ {
			if p.PingAt == i {
				sc.WriteMessage(websocket.PingMessage, []byte("hello"))
			}
			sc.WriteMessage(websocket.BinaryMessage, greetPayload(p.Cid, i))
		}
		ok = waitHandled(p.Greet + p.Batch2)
		switch p.End {
		case "server-close":
			sc.Close()
		case "client-close":
			cc.Close()
		case "close-frame":
			sc.WriteClose(1000, "bye")
		}
	} else {
		cc.Close()
	}
	if wait(cs.closeCh, 8*time.Second) {
		time.Sleep(40 * time.Millisecond)
	} else {
		cc.Close()
	}
	return checkCliLog(cs, true), ""
}

// clientPart: n client connections in cells of 8, {sync, async} x client epoll mode rotating
func clientPart(rep *hx.Report, seed int64, n int) {
	if n <= 0 {
		return
	}
	r := rand.New(rand.NewSource(seed ^ 0xc11e))
	eps := []string{"LT", "ET", "ET+ONESHOT"}
	cid := 0
	for cell := 0; n > 0; cell++ {
		k := 8
		if k > n {
			k = n
		}
		n -= k
		async := cell%2 == 0
		epoll := eps[(cell/2+int(seed))%3]
		cellName := map[bool]string{true: "async", false: "sync"}[async]
		sv, err := startCliServer(eps[(cell+int(seed))%3])
		if err != nil {
			rep.Stat("infra.client-tier-server")
			return
		}
		em, os1 := epollCfg(epoll)
		ce := nbhttp.NewEngine(nbhttp.Config{NPoller: 2, EpollMod: em, EPOLLONESHOT: os1})
		if err := ce.Start(); err != nil {
			rep.Stat("infra.client-tier-engine")
			sv.eng.Stop()
			return
		}
		type out struct {
			cs    *cliState
			probs []problem
			infra string
		}
		outs := make([]out, k)
		var wg sync.WaitGroup
		for i := 0; i < k; i++ {
			cid++
			p := cliPlan{Cid: cid, Async: async, Greet: 1 + r.Intn(3), PingAt: -1, Batch2: 1 + r.Intn(3),
				End: []string{"server-close", "client-close", "close-frame"}[r.Intn(3)]}
			if r.Intn(2) == 0 {
				p.PingAt = r.Intn(p.Greet + p.Batch2)
			}
			if r.Intn(2) == 0 {
				p.OpenMs = 50 + r.Intn(151)
			}
			for j := 0; j < p.Greet+p.Batch2; j++ {
				p.SlowMsg = append(p.SlowMsg, []int{0, 0, 1, 5}[r.Intn(4)])
			}
			cs := &cliState{plan: p, closeCh: make(chan struct{}, 8), handledC: make(chan struct{}, 64), srvOpen: make(chan struct{})}
			sv.conns.Store(cid, cs)
			outs[i].cs = cs
			wg.Add(1)
			go func(i int) {
				defer wg.Done()
				outs[i].probs, outs[i].infra = runCliConn(sv, ce, outs[i].cs)
			}(i)
		}
		wg.Wait()
		stopped := make(chan struct{})
		go func() { ce.Stop(); sv.eng.Stop(); close(stopped) }()
		if !wait(stopped, 15*time.Second) {
			rep.Stat("infra.client-tier-stop-did-not-return")
		}
		for _, o := range outs {
			p := o.cs.plan
			rep.Case(fmt.Sprintf("client/%s/%s/%+v", cellName, epoll, p), true)
			rep.Ops += p.Greet + p.Batch2
			rep.Stat("client." + cellName + "." + epoll)
			if p.OpenMs > 0 {
				rep.Stat("client.slow-open")
			}
			if o.infra != "" {
				rep.Stat("infra.client-" + strings.SplitN(o.infra, ":", 2)[0])
				continue
			}
			o.cs.mu.Lock()
			logs := strings.Join(o.cs.log, " ")
			o.cs.mu.Unlock()
			for _, pr := range o.probs {
				sig := pr.Sig + "/" + cellName
				replay := map[string]interface{}{"harness": "wsconc", "part": "client", "dial": cellName, "client_engine_epoll": epoll, "plan": p, "client_callback_log": logs,
					"rerun": "wsconc -seed <seed> -only client -cn <n>"}
				what := fmt.Sprintf("[websocket.Dialer %s Dial, client engine %s] connection %d: %s", cellName, epoll, p.Cid, pr.What)
				allFindings++
				seriousFindings++
				rep.Add(hx.Finding{Kind: "oracle", Property: "C14", Signature: sig, What: what, Replay: replay})
				switch pr.Sig {
				case "client-callback-overlap", "client-callback-order", "client-open-after-message", "client-close-before-message-end", "client-close-before-open-end":
					// the same failure is a violation of the per-connection job serialization seen end to end
					rep.Add(hx.Finding{Kind: "oracle", Property: "C05", Signature: sig, What: what + " (callbacks of one connection must run one at a time, in submission order)", Replay: replay})
				}
			}
		}
		if len(rep.Samples) < 5 {
			o := outs[0]
			o.cs.mu.Lock()
			rep.Sample(map[string]interface{}{"part": "client", "dial": cellName, "plan": o.cs.plan, "client_callback_log": strings.Join(o.cs.log, " ")})
			o.cs.mu.Unlock()
		}
		if tooMany() {
			return
		}
	}
}
