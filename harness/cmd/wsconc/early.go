package main

// Early frames: the raw client sends the handshake request and its first frame(s) in ONE write, or breaks off around the
// hand-over from the HTTP parser to the websocket connection (rejected handshake, hang-up right after the request).
// RFC 6455 4.1 tells a client to wait for the handshake answer, so the server may fail such a connection - but its own
// callback contract stays: the open callback at most once and before anything else, message callbacks one at a time in
// wire order, and a connection whose open callback ran gets its close callback exactly once, last.

import (
	"bufio"
	"fmt"
	"math/rand"
	"net"
	"strings"
	"time"
)

var earlyKinds = []string{"valid", "toolong", "rsv", "badop", "unmasked", "close", "reject-version", "reject-key", "hangup"}

// kinds whose first frame makes websocket.Conn.Parse fail
var earlyFailing = map[string]bool{"toolong": true, "rsv": true, "badop": true}

func earlyBytes(r *rand.Rand, p connPlan, addr string) []byte {
	ver, key := "13", "Sec-WebSocket-Key: dGhlIHNhbXBsZSBub25jZQ==\r\n"
	switch p.Early {
	case "reject-version":
		ver = "12"
	case "reject-key":
		key = ""
	}
	b := []byte(fmt.Sprintf("GET /ws?c=%d HTTP/1.1\r\nHost: %s\r\nUpgrade: websocket\r\nConnection: Upgrade\r\n%sSec-WebSocket-Version: %s\r\n\r\n", p.Cid, addr, key, ver))
	key4 := [4]byte{byte(r.Intn(256)), byte(r.Intn(256)), byte(r.Intn(256)), byte(r.Intn(256))}
	seq := 0
	valid := func() {
		b = append(b, clientMessage(r, opBin, clientPayload(p.Cid, seq, 20+r.Intn(200), 0, 0), 1+r.Intn(2))...)
		seq++
	}
	switch p.Early {
	case "valid", "hangup", "reject-version", "reject-key":
		valid()
	case "toolong":
		// a binary frame announcing 70000 bytes (MessageLengthLimit of this connection is 2000), 100 of them present
		b = append(b, 0x82, 0x80|127, 0, 0, 0, 0, 0, 1, 0x11, 0x70)
		b = append(b, key4[:]...)
		b = append(b, make([]byte, 100)...)
	case "rsv":
		f := appendFrame(nil, opBin, true, clientPayload(p.Cid, 0, 30, 0, 0), key4)
		f[0] |= 0x20
		b = append(b, f...)
	case "badop":
		b = append(b, appendFrame(nil, 3, true, []byte("reserved opcode"), key4)...)
	case "unmasked":
		pl := clientPayload(p.Cid, seq, 40, 0, 0)
		seq++
		b = append(b, 0x82, byte(len(pl)))
		b = append(b, pl...)
	case "close":
		b = append(b, appendFrame(nil, opClose, true, []byte{0x03, 0xe8}, key4)...)
	}
	for i := 0; i < p.EarlyMore; i++ {
		valid()
	}
	return b
}

func runEarly(sv *server, cs *connState) (res connResult) {
	p := cs.plan
	res.plan = p
	t0 := time.Now()
	defer func() { res.took = time.Since(t0) }()
	r := rand.New(rand.NewSource(p.Seed))
	conn, err := net.DialTimeout("tcp", sv.addr, 5*time.Second)
	if err != nil {
		res.infra = "dial: " + err.Error()
		return
	}
	defer conn.Close()
	conn.SetWriteDeadline(time.Now().Add(5 * time.Second))
	if _, err := conn.Write(earlyBytes(r, p, sv.addr)); err != nil {
		res.infra = "client write: " + err.Error()
		return
	}
	status := ""
	if p.Early == "hangup" {
		conn.Close()
	} else {
		// read what comes: the answer, then frames, until the server closes, sends a close frame, or falls silent
		br := bufio.NewReaderSize(conn, 1<<16)
		conn.SetReadDeadline(time.Now().Add(3 * time.Second))
		status, _ = br.ReadString('\n')
		if strings.Contains(status, " 101 ") {
			for {
				line, err := br.ReadString('\n')
				if err != nil || line == "\r\n" {
					break
				}
			}
			wc := &wireCheck{cid: p.Cid, mode: "%MODE%"}
			end := time.Now().Add(3 * time.Second)
			for !wc.closeRx && time.Now().Before(end) {
				conn.SetReadDeadline(time.Now().Add(300 * time.Millisecond))
				f, err := readFrame(br)
				if err != nil {
					break
				}
				wc.feed(f)
			}
			res.probs = append(res.probs, wc.probs...)
			res.frames = wc.frames
		}
		conn.Close()
	}
	res.mode = "direct"
	// the callbacks
	time.Sleep(30 * time.Millisecond)
	cs.mu.Lock()
	opened := len(cs.log) > 0
	if cs.queued {
		res.mode = "queued"
	}
	cs.mu.Unlock()
	if !opened {
		// the open handler may still be on its way (the upgrade runs on the server's own schedule)
		wait(cs.openDone, 300*time.Millisecond)
		cs.mu.Lock()
		opened = len(cs.log) > 0
		cs.mu.Unlock()
	}
	rejected := strings.HasPrefix(p.Early, "reject")
	if rejected {
		if strings.Contains(status, " 101 ") {
			res.probs = append(res.probs, problem{Sig: "handshake-not-rejected", What: fmt.Sprintf("a handshake that must be refused (%s) was answered %q", p.Early, strings.TrimSpace(status))})
		}
		if opened {
			res.probs = append(res.probs, problem{Sig: "open-after-rejected-handshake", What: "the open callback ran for a handshake the upgrader refused"})
		}
	}
	if opened {
		if wait(cs.closeCh, 8*time.Second) {
			time.Sleep(60 * time.Millisecond)
		}
		for _, pr := range checkLog(cs, 0) {
			if pr.Sig == "close-missing" {
				if earlyFailing[p.Early] {
					pr.Sig = "close-missing-after-early-parse-error-" + sv.cfg.Path
				} else {
					pr.Sig = "close-missing-after-early-frame-" + sv.cfg.Path
				}
				pr.What = fmt.Sprintf("handshake request and first frame (%s) sent in one write: the open callback ran, the connection is gone, but %s", p.Early, pr.What)
			}
			res.probs = append(res.probs, pr)
		}
	} else {
		time.Sleep(60 * time.Millisecond)
		cs.mu.Lock()
		n := cs.nclose
		cs.mu.Unlock()
		if n > 0 {
			res.probs = append(res.probs, problem{Sig: "close-without-open", What: fmt.Sprintf("%d close callback(s) for a connection whose open callback never ran", n)})
		}
	}
	for i := range res.probs {
		res.probs[i].Sig = strings.Replace(res.probs[i].Sig, "%MODE%", res.mode, 1)
	}
	res.log = logString(cs)
	res.phase = status
	return
}
