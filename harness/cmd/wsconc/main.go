// Harness for C14 (WebSocket callbacks ordered and exactly-once; concurrent writes stay whole).
// Part 1 (queue.go): the real websocket.Conn over a socket whose writes the harness holds, in lock step with the extracted
// write-side model (coq/wsconc/SendQueue.v) - findings of kind "mismatch", signature sendqueue-model.
// Part 2, implementation-only oracle: real nbhttp servers / net/http servers with the real websocket.Upgrader on loopback in every
// upgrade path (poller-driven, blocking with the engine's parser loop, blocking with the connection's own HandleRead loop,
// transferred to the poller from a blocking engine and from net/http, mixed) x epoll mode x write mode (direct / send queue),
// raw TCP clients speaking RFC 6455 themselves.
//
//	wire oracle      many goroutines call WriteMessage / WriteFrame on one connection with messages larger than
//	                 MaxWebsocketFramePayloadSize while message callbacks write echoes and pongs: every message must arrive
//	                 as ONE uninterrupted frame sequence, exactly once per writer and sequence number, in per-writer order.
//	callback oracle  per connection log of open / message begin / message end / close: open completed before the first
//	                 message callback, message callbacks never overlap and follow wire order, close exactly once and after
//	                 the last message callback - also when the peer disconnects, or another goroutine closes the connection,
//	                 or the engine stops, while a handler is running.
package main

import (
	"flag"
	"fmt"
	"math/rand"
	"os"
	"strings"
	"sync"
	"time"

	"github.com/lesismal/nbio/logging"
	"github.com/lesismal/nbio/nbhttp/websocket"
	"verifharness/hx"
)

type quiet struct{}

func (quiet) SetLevel(int)                 {}
func (quiet) Debug(string, ...interface{}) {}
func (quiet) Info(string, ...interface{})  {}
func (quiet) Warn(string, ...interface{})  {}
func (quiet) Error(string, ...interface{}) {}

var verbose = flag.Bool("v", false, "print slow connections")

// findings outside the transferred path (whose classes are recorded findings of the unchanged tree): only these end the run early
var seriousFindings, allFindings int

func tooMany() bool { return seriousFindings >= 6 || allFindings >= 400 }

var ends = []string{"close-frame", "abort", "abort-in-handler", "server-close-in-handler", "server-close-idle",
	"abort-during-writes", "engine-stop", "engine-stop-in-handler", "engine-stop-during-open"}

func genPlan(r *rand.Rand, cfg cellCfg, cid int, heavy bool) connPlan {
	F := cfg.Frame
	p := connPlan{Cid: cid, Seed: r.Int63()}
	sizes := []int{1, 40, F - 1, F, F + 1, 2 * F, 2*F + 1, 3*F + 7, 8 * F}
	nw := 1 + r.Intn(4)
	per := 1 + r.Intn(12)
	if heavy {
		nw = 6 + r.Intn(5)
		per = 40 + r.Intn(40)
	}
	if cfg.QMax > 0 {
		nw, per, heavy = 4, 60, true
	}
	for w := 0; w < nw; w++ {
		wp := writerPlan{Text: r.Intn(2) == 0}
		if !heavy && r.Intn(4) == 0 {
			wp.UseFrame = true
		}
		for k := 0; k < per; k++ {
			s := sizes[r.Intn(len(sizes))]
			if heavy {
				s = sizes[5+r.Intn(3)] // always several fragments
			}
			wp.Sizes = append(wp.Sizes, s)
		}
		p.Writers = append(p.Writers, wp)
	}
	p.WritersFrom = []string{"open", "message"}[r.Intn(2)]
	p.OpenMs = []int{0, 0, 2, 6}[r.Intn(4)]
	nm := 1 + r.Intn(10)
	for i := 0; i < nm; i++ {
		m := msgPlan{Size: []int{0, 1, 30, 125, 126, 300, 4000, 70000}[r.Intn(8)], Frags: 1 + r.Intn(4), Text: r.Intn(2) == 0}
		if r.Intn(3) == 0 {
			m.SlowMs = 1 + r.Intn(3)
		}
		m.Echo = r.Intn(2) == 0
		p.Msgs = append(p.Msgs, m)
	}
	if p.WritersFrom == "message" {
		p.Msgs[r.Intn(len(p.Msgs))].Go = true
	}
	if cfg.Path == "poller" && len(p.Msgs) >= 2 && r.Intn(4) != 0 {
		// the handler of one of the first three messages panics once; the callbacks behind it (and the close callback) must still
		// run. Only where callbacks are jobs of the connection's executor (recovered per job): a panic inside the blocking
		// reader's Parse fails the connection by design.
		k := r.Intn(3)
		if k > len(p.Msgs)-2 {
			k = len(p.Msgs) - 2
		}
		p.Msgs[k].Panic = true
	}
	p.Pings = r.Intn(4)
	if r.Intn(3) == 0 {
		p.ReaderPause = 5 + r.Intn(40)
	}
	if cfg.QMax > 0 {
		// a refused pong makes the library's ping handler close the connection, a refused echo is one more refused call: keep the bounded case to the writers
		p.Pings = 0
		for i := range p.Msgs {
			p.Msgs[i].Echo = false
		}
	}
	p.End = ends[r.Intn(len(ends))]
	if cfg.Path == "own-loop" && strings.HasPrefix(p.End, "engine-stop") {
		// the engine of this path is never started and does not know the connection
		p.End = map[string]string{"engine-stop": "abort", "engine-stop-in-handler": "abort-in-handler", "engine-stop-during-open": "abort"}[p.End]
	}
	if p.End == "engine-stop-during-open" {
		// the connection is made when all others are done; Engine.Stop is called while its open handler still runs
		p.OpenMs, p.Writers, p.Msgs, p.Pings, p.WritersFrom = 150, nil, nil, 0, "open"
	}
	return p
}

type connResult struct {
	took   time.Duration
	phase  string
	plan   connPlan
	mode   string
	probs  []problem
	infra  string
	log    string
	trail  []string
	frames int
	msgs   int
}

func wait(ch <-chan struct{}, d time.Duration) bool {
	select {
	case <-ch:
		return true
	case <-time.After(d):
		return false
	}
}

// checkLog: the callback oracle
func checkLog(cs *connState, nExpected int) []problem {
	cs.mu.Lock()
	log := append([]ev(nil), cs.log...)
	bad := append([]string(nil), cs.badMsg...)
	cs.mu.Unlock()
	var ps []problem
	add := func(sig, f string, a ...interface{}) {
		for _, p := range ps {
			if p.Sig == sig {
				return
			}
		}
		ps = append(ps, problem{Sig: sig, What: fmt.Sprintf(f, a...)})
	}
	openBegun, openEnded, cur, next, closes := false, false, -1, 0, 0
	for i, e := range log {
		switch e.K {
		case 'O':
			if openBegun {
				add("open-twice", "the open callback ran twice (event %d)", i)
			}
			openBegun = true
		case 'o':
			openEnded = true
		case 'M':
			if !openEnded {
				add("open-after-message", "message callback %d began before the open callback had completed (event %d of the log)", e.Seq, i)
			}
			if cur != -1 {
				add("callback-overlap", "message callback %d began while message callback %d was still running (event %d)", e.Seq, cur, i)
			}
			if closes > 0 {
				add("close-before-message-end", "message callback %d began after the close callback (event %d)", e.Seq, i)
			}
			if e.Seq != next {
				add("callback-order", "message callback for client message %d, expected %d (wire order, each once) (event %d)", e.Seq, next, i)
			}
			if e.Seq >= next {
				next = e.Seq + 1
			}
			cur = e.Seq
		case 'm':
			if cur == e.Seq {
				cur = -1
			}
		case 'C':
			closes++
			if cur != -1 {
				add("close-before-message-end", "the close callback ran while message callback %d was still running (event %d)", cur, i)
			}
			if openBegun && !openEnded {
				add("close-before-open-end", "the close callback ran while the open callback was still running (event %d)", i)
			}
		}
	}
	if closes > 1 {
		add("close-twice", "the close callback ran %d times", closes)
	}
	if closes == 0 {
		add("close-missing", "the close callback never ran (waited 8s after the connection ended)")
	}
	if len(bad) > 0 {
		add("callback-order", "message callback with a payload that is no client message: %s", bad[0])
	}
	if next < nExpected {
		add("callback-missing", "only the first %d of %d client messages reached the message callback although the connection stayed open", next, nExpected)
	}
	return ps
}

func logString(cs *connState) string {
	cs.mu.Lock()
	defer cs.mu.Unlock()
	var sb strings.Builder
	for i, e := range cs.log {
		if i > 0 {
			sb.WriteByte(' ')
		}
		sb.WriteString(e.String())
		if sb.Len() > 1500 {
			sb.WriteString(" ...")
			break
		}
	}
	return sb.String()
}

// The connections that end with Engine.Stop form a second wave: they wait until every other connection of the cell is
// completely finished (a handler that is held open blocks a whole poller when callbacks run inline, as they do for
// transferred connections under EPOLLONESHOT), then park; the cell calls Stop when all of them are parked.
type cellSync struct {
	others     sync.WaitGroup // connections with another ending, until they are finished
	ready      sync.WaitGroup // Stop-ending connections, until they are parked (or have given up)
	stopCalled chan struct{}
}

func stopEnding(e string) bool { return strings.HasPrefix(e, "engine-stop") }

func runConn(sv *server, cs *connState, cy *cellSync) (res connResult) {
	p := cs.plan
	res.plan = p
	parked := false
	t0 := time.Now()
	defer func() { res.took = time.Since(t0) }()
	defer func() {
		if !stopEnding(p.End) {
			cy.others.Done()
		} else if !parked {
			cy.ready.Done()
		}
	}()
	r := rand.New(rand.NewSource(p.Seed))
	if p.End == "engine-stop-during-open" {
		cy.others.Wait()
	}
	c, err := dialWS(sv.addr, p.Cid, r)
	if err != nil {
		res.infra = "dial/handshake: " + err.Error()
		return
	}
	defer c.conn.Close()
	if p.End == "engine-stop-during-open" {
		// the 101 answer is here, the open handler is running
		parked = true
		cy.ready.Done()
		<-cy.stopCalled
		if wait(cs.closeCh, 8*time.Second) {
			time.Sleep(60 * time.Millisecond)
		}
		res.mode = "direct"
		res.probs = append(res.probs, checkLog(cs, 0)...)
		res.log = logString(cs)
		return
	}
	wc := &wireCheck{cid: p.Cid, mode: "%MODE%"}
	addp := func(sig, f string, a ...interface{}) {
		res.probs = append(res.probs, problem{Sig: sig, What: fmt.Sprintf(f, a...)})
	}
	finish := func() {
		mode := "direct"
		cs.mu.Lock()
		if cs.queued {
			mode = "queued"
		}
		cs.mu.Unlock()
		res.mode = mode
		for _, pr := range wc.probs {
			// a message cut short because ITS OWN call was refused by the bounded queue half-way is a class of its own
			if pr.Unfinished != nil && cs.fullErrs[*pr.Unfinished] {
				pr.Sig = "partial-message-queue-full"
				pr.What += " - that call returned ErrMessageSendQuqueIsFull after some of its fragments had been queued"
			}
			res.probs = append(res.probs, pr)
		}
		for i := range res.probs {
			res.probs[i].Sig = strings.Replace(res.probs[i].Sig, "%MODE%", mode, 1)
		}
		res.log = logString(cs)
		res.trail = wc.trail
		res.frames = wc.frames
		res.msgs = len(wc.got)
	}
	defer finish()

	// reader: everything up to the END marker (or a bounded number of frames for abort-during-writes)
	limit := -1
	if p.End == "abort-during-writes" {
		limit = 3 + r.Intn(40)
	}
	rdDone := make(chan error, 1)
	go func() {
		if limit >= 0 {
			// some frames, or whatever arrives until the stream pauses for 150ms
			for wc.frames < limit {
				n := wc.frames
				if err := c.readUntil(wc, 150*time.Millisecond, func(w *wireCheck) bool { return w.frames > n }); err != nil {
					break
				}
			}
			rdDone <- nil
			return
		}
		if p.ReaderPause > 0 {
			time.Sleep(time.Duration(p.ReaderPause) * time.Millisecond)
		}
		rdDone <- c.readUntil(wc, 30*time.Second, func(w *wireCheck) bool { return w.endRx })
	}()
	// writer: the client's messages, pings in between
	pingAt := map[int]int{}
	for k := 0; k < p.Pings; k++ {
		pingAt[r.Intn(len(p.Msgs))]++
	}
	npings := 0
	for i, m := range p.Msgs {
		for k := 0; k < pingAt[i]; k++ {
			if err := c.sendControl(opPing, []byte(fmt.Sprintf("p%d", npings))); err != nil {
				res.infra = "client write: " + err.Error()
				return
			}
			npings++
		}
		if err := c.sendMsg(m, i, 0); err != nil {
			res.infra = "client write: " + err.Error()
			return
		}
	}
	nmsg := len(p.Msgs)

	if p.End == "abort-during-writes" {
		<-rdDone
		c.conn.Close()
		wd := make(chan struct{})
		go func() { cs.wg.Wait(); close(wd) }()
		if !wait(wd, 15*time.Second) {
			addp("writer-stuck-%MODE%", "a WriteMessage/WriteFrame caller is still blocked 15s after the peer went away")
		}
		if !wait(cs.closeCh, 8*time.Second) {
			res.probs = append(res.probs, checkLog(cs, 0)...)
			return
		}
		time.Sleep(60 * time.Millisecond)
		res.probs = append(res.probs, checkLog(cs, 0)...)
		return
	}

	// all client messages handled, all writers returned
	deadline := time.After(20 * time.Second)
	for {
		cs.mu.Lock()
		h := cs.handled
		cs.mu.Unlock()
		if h >= nmsg {
			break
		}
		select {
		case <-cs.handledC:
		case <-time.After(50 * time.Millisecond):
		case <-deadline:
			res.probs = append(res.probs, checkLog(cs, nmsg)...)
			if len(res.probs) == 0 {
				addp("callback-missing", "only %d of %d client messages were handled after 20s", h, nmsg)
			}
			return
		}
	}
	wd := make(chan struct{})
	go func() { cs.wg.Wait(); close(wd) }()
	if !wait(wd, 20*time.Second) {
		addp("writer-stuck-%MODE%", "a WriteMessage/WriteFrame caller is still blocked after 20s on an open connection whose peer reads")
		return
	}
	cs.mu.Lock()
	ws, werrs, started := cs.ws, append([]string(nil), cs.wErrs...), cs.started
	cs.mu.Unlock()
	if ws == nil {
		res.infra = "no open callback"
		return
	}
	if len(werrs) > 0 {
		addp("message-lost-%MODE%", "a write on the open connection failed: %s", werrs[0])
	}
	var endErr error
	for try := 0; try < 2000; try++ {
		endErr = ws.WriteMessage(websocket.BinaryMessage, serverPayload(p.Cid, endWriter, 0, 0))
		if endErr != websocket.ErrMessageSendQuqueIsFull || sv.cfg.QMax == 0 {
			break
		}
		time.Sleep(time.Millisecond)
	}
	if endErr != nil && len(werrs) == 0 {
		addp("message-lost-%MODE%", "writing the end marker on the open connection failed: %v", endErr)
	}
	if err := <-rdDone; err != nil && !wc.endRx {
		addp("message-lost-%MODE%", "the end marker (written after every writer had returned) did not arrive: %v; %d messages / %d frames received", err, len(wc.got), wc.frames)
	}
	// exactly once per writer and sequence number, in per-writer order
	if wc.endRx {
		seen := map[rxMsg]int{}
		last := map[int]int{}
		for _, m := range wc.got {
			seen[m]++
			if seen[m] == 2 {
				addp("message-duplicated", "message seq %d of writer %d arrived twice", m.Seq, m.W)
			}
			if l, ok := last[m.W]; ok && m.Seq < l {
				addp("message-order-%MODE%", "writer %d: message %d arrived after message %d", m.W, m.Seq, l)
			}
			last[m.W] = m.Seq
		}
		if started && len(werrs) == 0 {
			for w, wp := range p.Writers {
				for seq := range wp.Sizes {
					cs.mu.Lock()
					refused := cs.fullErrs[rxMsg{w, seq}]
					cs.mu.Unlock()
					if refused {
						continue
					}
					if seen[rxMsg{w, seq}] == 0 {
						addp("message-lost-%MODE%", "message seq %d of writer %d (WriteMessage returned nil) never arrived although the end marker written later did", seq, w)
						goto lostDone
					}
				}
			}
			for i, m := range p.Msgs {
				if m.Echo && seen[rxMsg{echoWriter, i}] == 0 {
					addp("message-lost-%MODE%", "the echo written by the callback of client message %d never arrived", i)
					break
				}
			}
		lostDone:
		}
		for i, pg := range wc.pongs {
			if pg != fmt.Sprintf("p%d", i) {
				addp("message-order-%MODE%", "pong %d carries %q", i, pg)
				break
			}
		}
		if len(wc.pongs) != npings {
			addp("message-lost-%MODE%", "%d pings sent before the last message, %d pongs before the end marker", npings, len(wc.pongs))
		}
	}

	// ---- the end of the connection ----
	holdMsg := func() bool {
		if err := c.sendMsg(msgPlan{Size: 20, Frags: 1}, nmsg, flagHold); err != nil {
			return false
		}
		nmsg++
		return wait(cs.holdIn, 10*time.Second)
	}
	released := false
	release := func() {
		if !released {
			released = true
			close(cs.hold)
		}
	}
	defer release()
	switch p.End {
	case "close-frame":
		c.sendControl(opClose, []byte{0x03, 0xe8})
		c.readUntil(wc, 5*time.Second, func(w *wireCheck) bool { return false })
		c.conn.Close()
	case "abort":
		c.conn.Close()
	case "abort-in-handler":
		if !holdMsg() {
			res.probs = append(res.probs, checkLog(cs, nmsg)...)
			return
		}
		c.conn.Close()
		time.Sleep(40 * time.Millisecond)
		release()
	case "server-close-in-handler":
		if !holdMsg() {
			res.probs = append(res.probs, checkLog(cs, nmsg)...)
			return
		}
		ws.Close()
		time.Sleep(40 * time.Millisecond)
		release()
	case "server-close-idle":
		ws.Close()
	case "engine-stop", "engine-stop-in-handler":
		cy.others.Wait()
		if p.End == "engine-stop-in-handler" && !holdMsg() {
			res.probs = append(res.probs, checkLog(cs, nmsg)...)
			return
		}
		parked = true
		cy.ready.Done()
		<-cy.stopCalled
		time.Sleep(40 * time.Millisecond)
		release()
	}
	if wait(cs.closeCh, 8*time.Second) {
		time.Sleep(60 * time.Millisecond) // a second close callback would come now
	}
	res.probs = append(res.probs, checkLog(cs, nmsg)...)
	return
}

func runCell(rep *hx.Report, r *rand.Rand, cfg cellCfg, nconn int) {
	sv, err := startServer(cfg)
	if err != nil {
		rep.Stat("infra.start-failed")
		return
	}
	cy := &cellSync{stopCalled: make(chan struct{})}
	results := make([]connResult, nconn)
	var wg sync.WaitGroup
	var states []*connState
	held := false
	for k := 0; k < nconn; k++ {
		pl := genPlan(r, cfg, k+1, k == 0)
		if cfg.QMax == 0 && (k == 1 || k == 2) {
			// two connections of every cell send their first frame(s) together with the handshake, or break off around the
			// hand-over; the first of them with a frame that fails Parse
			pl.Early = earlyKinds[r.Intn(len(earlyKinds))]
			if k == 1 {
				pl.Early = []string{"toolong", "rsv", "badop"}[r.Intn(3)]
			}
			pl.EarlyMore = r.Intn(3)
			pl.MsgLimit = 2000
			pl.Writers, pl.Msgs, pl.Pings, pl.End, pl.WritersFrom = nil, nil, 0, "early", "open"
		}
		if pl.End == "engine-stop-in-handler" {
			if held { // one held handler per cell: see cellSync
				pl.End = "engine-stop"
			}
			held = true
		}
		cs := newConnState(sv, pl)
		sv.conns.Store(cs.plan.Cid, cs)
		states = append(states, cs)
	}
	for k, cs := range states {
		wg.Add(1)
		if stopEnding(cs.plan.End) {
			cy.ready.Add(1)
		} else {
			cy.others.Add(1)
		}
		go func(k int, cs *connState) {
			defer wg.Done()
			if cs.plan.Early != "" {
				defer cy.others.Done()
				results[k] = runEarly(sv, cs)
				return
			}
			results[k] = runConn(sv, cs, cy)
		}(k, cs)
	}
	cy.others.Wait()
	cy.ready.Wait()
	close(cy.stopCalled)
	if !sv.stop() {
		rep.Stat("infra.stop-did-not-return-in-15s")
	}
	wg.Wait()
	for _, x := range results {
		if *verbose && x.took > 3*time.Second {
			fmt.Fprintf(os.Stderr, "SLOW %v %s conn %d end=%s took %v probs=%v infra=%q log=%s\n", cfg, x.mode, x.plan.Cid, x.plan.End, x.took, x.probs, x.infra, x.log)
		}
		key := fmt.Sprintf("%v/%v", cfg, x.plan)
		rep.Case(key, len(x.plan.Writers) > 1 || len(x.plan.Msgs) > 1)
		rep.Ops += x.frames + len(x.plan.Msgs)
		asyncName := "direct"
		if cfg.Async {
			asyncName = "queued-configured"
		}
		rep.Stat(fmt.Sprintf("cell.%s.%s.%s", cfg.Path, cfg.Epoll, asyncName))
		rep.Stat("end." + x.plan.End)
		for _, mp := range x.plan.Msgs {
			if mp.Panic {
				rep.Stat("handler-panics." + cfg.Path)
			}
		}
		if x.plan.Early != "" {
			opened := "no-open"
			if strings.HasPrefix(x.log, "O") {
				opened = "opened"
			}
			rep.Stat("early." + x.plan.Early + "." + cfg.Path + "." + opened)
		}
		if x.mode != "" {
			rep.Stat("write-mode." + x.mode)
		}
		rep.StatN("frames-checked", x.frames)
		rep.StatN("server-messages-checked", x.msgs)
		if x.infra != "" {
			rep.Stat("infra." + strings.SplitN(x.infra, ":", 2)[0])
			continue
		}
		for _, p := range x.probs {
			allFindings++
			if strings.HasPrefix(cfg.Path, "transfer") {
				// the transferred path has its own classes: a known finding there must not hide the same failure on the other paths
				p.Sig += "-transferred"
			} else {
				seriousFindings++
			}
			rep.Add(hx.Finding{Kind: "oracle", Property: "C14", Signature: p.Sig, What: fmt.Sprintf("[%s %s %s] connection %d: %s", cfg.Path, cfg.Epoll, x.mode, x.plan.Cid, p.What),
				Replay: map[string]interface{}{"harness": "wsconc", "cell": cfg, "write_mode": x.mode, "plan": x.plan, "callback_log": x.log, "last_frames": x.trail,
					"rerun": fmt.Sprintf("wsconc -seed <seed> -only %s/%s/%v", cfg.Path, cfg.Epoll, cfg.Async)}})
		}
	}
	if len(rep.Samples) < 4 && nconn > 1 {
		rep.Sample(map[string]interface{}{"cell": cfg, "plan": results[1].plan, "callback_log": results[1].log})
	}
}

func allCells() []cellCfg {
	var cs []cellCfg
	for _, e := range []string{"LT", "ET", "ET+ONESHOT"} {
		cs = append(cs, cellCfg{Path: "poller", Epoll: e})
		cs = append(cs, cellCfg{Path: "transfer", Epoll: e})
		cs = append(cs, cellCfg{Path: "transfer-std", Epoll: e})
	}
	for _, a := range []bool{false, true} {
		cs = append(cs, cellCfg{Path: "blocking-parser", Epoll: "LT", Async: a})
		cs = append(cs, cellCfg{Path: "own-loop", Epoll: "LT", Async: a})
		cs = append(cs, cellCfg{Path: "mixed", Epoll: "LT", Async: a})
	}
	return cs
}

func main() {
	seed := flag.Int64("seed", 1, "")
	n := flag.Int("n", 1, "rounds")
	model := flag.String("model", "", "extracted write-side model (build/ocaml/wsconc/model); empty: skip the correspondence part")
	qn := flag.Int("qn", 0, "schedules of the correspondence part (real websocket.Conn over a held socket vs. the model)")
	cn := flag.Int("cn", 0, "connections of the client-side tier (real websocket.Dialer against a greeting server)")
	out := flag.String("out", "-", "")
	full := flag.Bool("full", false, "every cell in every round instead of a rotating subset")
	only := flag.String("only", "", "run only the cell path/epoll/async")
	nconn := flag.Int("conns", 0, "connections per cell (0: 3..6)")
	flag.Parse()
	logging.SetLogger(quiet{})
	rep := hx.NewReport("wsconc", *seed)
	rep.Rule = "client tier: real websocket.Dialer (sync Dial / async Dial with result handler, client engine LT / ET / ET+ONESHOT) against a server greeting from its open handler " +
		"(1-3 messages, possibly a ping, right behind the 101 answer), a second batch of 1-3, then server close / client close / close frame; client open handler fast or 50-200 ms, message handlers 0-5 ms; " +
		"correspondence part (frame limit 16): half random schedules of 6-27 operations (WriteMessage of a pong or of a zeros / text / seeded-random payload of 0..66 bytes, the held socket " +
		"write returns ok or with an error, CloseAndClean) on a real websocket.Conn, direct and queued mode, queue bound 0 or 1-8, write compression off / on at levels -2..9; half points of the " +
		"admission grid of a bounded queue (bound 1-8 x compression off / 12 levels x payload class x lengths k*16-2..k*16+2 for k=1..4 and lengths whose deflated size sits at a frame multiple " +
		"x room left in the queue 0..needed+1; the whole grid in the thorough tier), replayed in lock step on the extracted model with the deflated length as oracle input, plus the wholeness " +
		"oracle on the frames handed to the socket; end-to-end part: per cell (upgrade path x epoll mode x BlockingModAsyncWrite, MaxWebsocketFramePayloadSize in {64,300,1024,4096}): 3-6 concurrent raw-TCP websocket clients; " +
		"per connection 1-10 server-side writer goroutines x 1-80 messages of 1 byte .. 8 frame payloads (the first connection of a cell: 6-10 writers x 40-80 multi-fragment messages), " +
		"WriteMessage and WriteFrame, started from the open handler or from a message callback; 1-10 client messages (0..70000 bytes, 1-4 fragments, random TCP segmentation, " +
		"slow handlers, echo replies), pings; endings: close frame, abrupt disconnect (idle / during a handler / during the writes), Close from another goroutine (idle / during a handler), " +
		"Engine.Stop (idle / during a handler / during the open handler); two connections of every cell send handshake request and first frame(s) in ONE write (a valid message, a frame that fails Parse: over a MessageLengthLimit of 2000, reserved bit, reserved opcode; an unmasked frame; a close frame; 0-2 valid messages behind) or break off around the hand-over (refused handshake: wrong version / no key; hang-up right after the request); non-trivial = more than one writer or more than one client message; distinct = distinct (cell, plan)"
	if *only == "" || *only == "queue" {
		queuePart(rep, *model, *seed, *qn, *full)
	}
	r := rand.New(rand.NewSource(*seed))
	frames := []int{64, 300, 1024, 4096}
	ep := []string{"LT", "ET", "ET+ONESHOT"}
	for round := 0; round < *n && !tooMany(); round++ {
		var cells []cellCfg
		if *full || *only != "" {
			cells = allCells()
		} else {
			// rotating subset: every upgrade path in every round, the epoll mode / write mode rotates with round and seed
			k := round + int(*seed)
			cells = []cellCfg{
				{Path: "poller", Epoll: ep[k%3]},
				{Path: "transfer", Epoll: ep[(k+1)%3]},
				{Path: "transfer-std", Epoll: ep[(k+2)%3]},
				{Path: "blocking-parser", Epoll: "LT", Async: k%2 == 0},
				{Path: "own-loop", Epoll: "LT", Async: k%2 == 1},
				{Path: "mixed", Epoll: ep[k%3], Async: (k/2)%2 == 0},
			}
		}
		for _, cfg := range cells {
			if *only != "" && *only != fmt.Sprintf("%s/%s/%v", cfg.Path, cfg.Epoll, cfg.Async) {
				continue
			}
			cfg.Frame = frames[r.Intn(len(frames))]
			nc := *nconn
			if nc <= 0 {
				nc = 3 + r.Intn(4)
			}
			runCell(rep, r, cfg, nc)
			if tooMany() {
				break
			}
		}
	}
	if *only == "" || *only == "client" {
		clientPart(rep, *seed, *cn)
	}
	if *only == "" || *only == "bounded" {
		// the bounded send queue (not the default): 3 connections, heavy writers, queue of 4..16 slots
		for k := 0; k < *n && !tooMany(); k++ {
			runCell(rep, r, cellCfg{Path: []string{"blocking-parser", "own-loop"}[k%2], Epoll: "LT", Async: true, Frame: 64, QMax: []int{8, 4, 16}[k%3]}, 3)
		}
	}
	rep.Write(*out)
}
