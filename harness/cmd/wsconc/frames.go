package main

// Raw RFC 6455 framing for the client side of the harness (independent of the library's codec) and the
// self-describing payloads both directions use.

import (
	"bufio"
	"encoding/binary"
	"fmt"
	"io"
	"math/rand"
	"strconv"
	"strings"
)

const (
	opCont  = 0
	opText  = 1
	opBin   = 2
	opClose = 8
	opPing  = 9
	opPong  = 10
)

// appendFrame appends one masked (client to server) frame.
func appendFrame(dst []byte, opcode byte, fin bool, payload []byte, key [4]byte) []byte {
	b0 := opcode
	if fin {
		b0 |= 0x80
	}
	dst = append(dst, b0)
	n := len(payload)
	switch {
	case n < 126:
		dst = append(dst, 0x80|byte(n))
	case n <= 65535:
		dst = append(dst, 0x80|126, byte(n>>8), byte(n))
	default:
		var l [8]byte
		binary.BigEndian.PutUint64(l[:], uint64(n))
		dst = append(dst, 0x80|127)
		dst = append(dst, l[:]...)
	}
	dst = append(dst, key[:]...)
	for i, b := range payload {
		dst = append(dst, b^key[i&3])
	}
	return dst
}

// clientMessage renders one data message as `frags` masked frames (first: opcode, rest: continuation).
func clientMessage(r *rand.Rand, opcode byte, payload []byte, frags int) []byte {
	var out []byte
	if frags < 1 {
		frags = 1
	}
	if frags > len(payload) && len(payload) > 0 {
		frags = len(payload)
	}
	if len(payload) == 0 {
		frags = 1
	}
	rest := payload
	for i := 0; i < frags; i++ {
		n := len(rest)
		if i < frags-1 {
			n = 1 + r.Intn(len(rest)-(frags-1-i))
		}
		var key [4]byte
		binary.LittleEndian.PutUint32(key[:], r.Uint32())
		op := opcode
		if i > 0 {
			op = opCont
		}
		out = appendFrame(out, op, i == frags-1, rest[:n], key)
		rest = rest[n:]
	}
	return out
}

type frame struct {
	Op      byte
	Fin     bool
	Rsv     byte
	Masked  bool
	Payload []byte
}

// readFrame reads one server-to-client frame.
func readFrame(br *bufio.Reader) (frame, error) {
	var f frame
	var h [2]byte
	if _, err := io.ReadFull(br, h[:]); err != nil {
		return f, err
	}
	f.Op = h[0] & 0x0F
	f.Fin = h[0]&0x80 != 0
	f.Rsv = h[0] & 0x70
	f.Masked = h[1]&0x80 != 0
	n := uint64(h[1] & 0x7F)
	switch n {
	case 126:
		var b [2]byte
		if _, err := io.ReadFull(br, b[:]); err != nil {
			return f, err
		}
		n = uint64(binary.BigEndian.Uint16(b[:]))
	case 127:
		var b [8]byte
		if _, err := io.ReadFull(br, b[:]); err != nil {
			return f, err
		}
		n = binary.BigEndian.Uint64(b[:])
	}
	if n > 64<<20 {
		return f, fmt.Errorf("frame of %d bytes announced", n)
	}
	var key [4]byte
	if f.Masked {
		if _, err := io.ReadFull(br, key[:]); err != nil {
			return f, err
		}
	}
	f.Payload = make([]byte, n)
	if _, err := io.ReadFull(br, f.Payload); err != nil {
		return f, err
	}
	if f.Masked {
		for i := range f.Payload {
			f.Payload[i] ^= key[i&3]
		}
	}
	return f, nil
}

// ---- payloads ----
// server -> client:  "S|<writer>|<seq>|<len>|" + filler, total length = len (len >= header length)
// client -> server:  "C|<seq>|<len>|<flags>|" + filler
// The filler is a function of (connection, writer, seq, position): a byte of another message is recognisable.

func filler(dst []byte, cid, w, seq int) {
	x := uint32(cid*7919+w*104729+seq*1299709) + 12345
	for k := range dst {
		x = x*1664525 + 1013904223
		dst[k] = 'a' + byte(x>>24)%26
	}
}

const echoWriter = 1000
const endWriter = 2000

func serverPayload(cid, w, seq, size int) []byte {
	h := fmt.Sprintf("S|%d|%d|", w, seq)
	// the length field is part of the header: fix the total first
	total := size
	for {
		hh := h + strconv.Itoa(total) + "|"
		if total >= len(hh) {
			b := make([]byte, total)
			filler(b, cid, w, seq)
			copy(b, hh)
			return b
		}
		total = len(hh)
	}
}

// parseServerHeader reads the header from the first bytes of a message; ok=false if they are not a header.
func parseServerHeader(p []byte) (w, seq, total int, ok bool) {
	if len(p) < 2 || p[0] != 'S' || p[1] != '|' {
		return
	}
	s := string(p)
	if len(s) > 40 {
		s = s[:40]
	}
	parts := strings.SplitN(s, "|", 5)
	if len(parts) < 5 {
		return
	}
	var e1, e2, e3 error
	w, e1 = strconv.Atoi(parts[1])
	seq, e2 = strconv.Atoi(parts[2])
	total, e3 = strconv.Atoi(parts[3])
	ok = e1 == nil && e2 == nil && e3 == nil
	return
}

const (
	flagEcho  = 1
	flagHold  = 2
	flagGo    = 4 // start the server-side writers from this message callback
	flagPanic = 8 // the message callback panics at its end
)

func clientPayload(cid, seq, size, flags, slowMs int) []byte {
	h := fmt.Sprintf("C|%d|%d|%d|", seq, flags, slowMs)
	if size < len(h) {
		size = len(h)
	}
	b := make([]byte, size)
	filler(b, cid, 5000, seq)
	copy(b, h)
	return b
}

func parseClientPayload(cid int, p []byte) (seq, flags, slowMs int, ok bool) {
	s := string(p)
	if len(s) > 40 {
		s = s[:40]
	}
	parts := strings.SplitN(s, "|", 5)
	if len(parts) < 5 || parts[0] != "C" {
		return
	}
	var e1, e2, e3 error
	seq, e1 = strconv.Atoi(parts[1])
	flags, e2 = strconv.Atoi(parts[2])
	slowMs, e3 = strconv.Atoi(parts[3])
	if e1 != nil || e2 != nil || e3 != nil {
		return
	}
	want := clientPayload(cid, seq, len(p), flags, slowMs)
	ok = string(want) == string(p)
	return
}
