package main

// Correspondence part: the real websocket.Conn (NewServerConn over a net.Conn whose Write is held by the harness)
// against the extracted write-side model (coq/wsconc/SendQueue.v), in lock step.
// The harness controls when every Conn.Write of the drainer (queued mode) or of WriteMessage itself (direct mode)
// returns and with what, so a schedule of  W k (a WriteMessage of k fragments) / D ok|err (the drainer's pending
// socket write returns; then its critical section) / C (CloseAndClean)  is replayed deterministically:
//   model:  W k = Begin fs; Frame x k      D = DWrite; DAdvance      C = CloseClean
// compared: the result of every WriteMessage (nil / closed / queue full / socket error), the identity of every frame
// handed to the socket and the moment it is handed over (a new drainer after the head, the next slot after a
// hand-over, nothing after the exit), the final wire, the close callback.

import (
	"errors"
	"fmt"
	"math/rand"
	"net"
	"runtime"
	"strconv"
	"strings"
	"sync/atomic"
	"time"

	"github.com/lesismal/nbio/nbhttp"
	"github.com/lesismal/nbio/nbhttp/websocket"
	"verifharness/hx"
)

const qFrame = 16 // MaxWebsocketFramePayloadSize of the queue part: every fragment is one 16 byte tag

type fakeConn struct {
	entered chan []byte
	verdict chan error
	closed  int32
}

func (f *fakeConn) Write(b []byte) (int, error) {
	f.entered <- append([]byte(nil), b...)
	if err := <-f.verdict; err != nil {
		return 0, err
	}
	return len(b), nil
}
func (f *fakeConn) Read(b []byte) (int, error)         { select {} }
func (f *fakeConn) Close() error                       { atomic.AddInt32(&f.closed, 1); return nil }
func (f *fakeConn) LocalAddr() net.Addr                { return &net.TCPAddr{} }
func (f *fakeConn) RemoteAddr() net.Addr               { return &net.TCPAddr{} }
func (f *fakeConn) SetDeadline(t time.Time) error      { return nil }
func (f *fakeConn) SetReadDeadline(t time.Time) error  { return nil }
func (f *fakeConn) SetWriteDeadline(t time.Time) error { return nil }

var errSock = errors.New("injected socket error")

func tagPayload(m, k int) []byte {
	var b []byte
	for j := 0; j < k; j++ {
		t := fmt.Sprintf("m%05d.%02d", m, j)
		for len(t) < qFrame {
			t += "."
		}
		b = append(b, t...)
	}
	return b
}

// frameID decodes the identity of a server frame written by the library: m*100 + fragment index; -1 if it is none
func frameID(b []byte) int {
	if len(b) != 2+qFrame || b[1] != qFrame || b[2] != 'm' {
		return -1
	}
	m, e1 := strconv.Atoi(string(b[3:8]))
	j, e2 := strconv.Atoi(string(b[9:11]))
	if e1 != nil || e2 != nil {
		return -1
	}
	return m*100 + j
}

type mstate struct {
	head   string // observation, e.g. "F ok 1"
	hand   int    // -1: nothing in the drainer's hand
	dr     string // - | W | L
	closed bool
	failed bool
}

func parseAns(s string) (mstate, error) {
	var st mstate
	parts := strings.SplitN(s, " | ", 2)
	if len(parts) != 2 {
		return st, fmt.Errorf("model answer %q", s)
	}
	st.head = parts[0]
	f := strings.Fields(parts[1])
	if len(f) != 7 {
		return st, fmt.Errorf("model answer %q", s)
	}
	st.hand = -1
	if f[0] != "-" {
		st.hand, _ = strconv.Atoi(f[0])
	}
	st.dr = f[1]
	st.closed = f[4] == "1"
	st.failed = f[5] == "1"
	return st, nil
}

var qEngine *nbhttp.Engine
var slept, asked time.Duration

type qcase struct {
	Mode  string   `json:"mode"`
	MaxQ  int      `json:"BlockingModSendQueueMaxSize"`
	Seed  int64    `json:"seed"`
	Ops   []string `json:"ops"`
	Slow  bool     `json:"slow_settle,omitempty"`
	Wire  []int    `json:"wire_of_the_implementation"`
	Model string   `json:"model_final,omitempty"`
}

// runQueueCase replays one generated schedule; returns a description of the first disagreement ("" if none).
func runQueueCase(m *hx.Model, seed int64, slow bool) (qc qcase, diff string) {
	r := rand.New(rand.NewSource(seed))
	queued := r.Intn(4) != 0
	maxq := 0
	if queued && r.Intn(3) == 0 {
		maxq = 2 + r.Intn(7)
	}
	var st mstate
	st0 := func() mstate { return st }
	qc = qcase{Mode: map[bool]string{true: "queued", false: "direct"}[queued], MaxQ: maxq, Seed: seed, Slow: slow}
	settle := func() {
		if !slow && (maxq == 0 || st0().closed) {
			// unbounded queue or closed connection: a late exit of the drainer cannot change any later observation
			// (the only thing that reads the queue length is the bound check of an open connection; a frame written
			// twice or out of turn shows up as a wrong frame identity or in the final wire)
			return
		}
		if slow {
			time.Sleep(20 * time.Millisecond)
			return
		}
		runtime.Gosched()
		time.Sleep(300 * time.Microsecond)
	}
	fc := &fakeConn{entered: make(chan []byte), verdict: make(chan error)}
	u := websocket.NewUpgrader()
	u.Engine = qEngine
	u.BlockingModSendQueueMaxSize = uint16(maxq)
	u.BlockingModAsyncCloseDelay = time.Millisecond
	var closes int32
	u.OnClose(func(c *websocket.Conn, err error) { atomic.AddInt32(&closes, 1) })
	c := websocket.NewServerConn(u, fc, "", false, queued)
	if m.Ask("init %s %d", map[bool]string{true: "q", false: "d"}[queued], maxq) != "OK" {
		hx.Fatal("model init")
	}
	var wire []int
	st = mstate{hand: -1, dr: "-"}
	ask := func(format string, a ...interface{}) mstate {
		t8 := time.Now()
		s := m.Ask(format, a...)
		asked += time.Since(t8)
		ns, err := parseAns(s)
		if err != nil {
			hx.Fatal("%v", err)
		}
		if ns.head == "X" {
			hx.Fatal("harness scheduled an action that is not enabled in the model: %s", fmt.Sprintf(format, a...))
		}
		st = ns
		return ns
	}
	// the drainer (or, in direct mode, the writer) must now be entering Conn.Write with exactly this frame
	expectWrite := func(want int, why string) (ok bool) {
		select {
		case b := <-fc.entered:
			if id := frameID(b); id != want {
				diff = fmt.Sprintf("%s: frame %d handed to the socket, the model says %d", why, id, want)
				// keep the goroutine going
				go func() { fc.verdict <- nil }()
				return false
			}
			return true
		case <-time.After(5 * time.Second):
			diff = fmt.Sprintf("%s: no Conn.Write within 5s, the model says frame %d is handed to the socket", why, want)
			return false
		}
	}
	noWrite := func(why string) bool {
		select {
		case b := <-fc.entered:
			diff = fmt.Sprintf("%s: unexpected Conn.Write of frame %d", why, frameID(b))
			go func() { fc.verdict <- nil }()
			return false
		default:
			return true
		}
	}
	resName := func(err error) string {
		switch {
		case err == nil:
			return "ok"
		case err == net.ErrClosed:
			return "closed"
		case err == websocket.ErrMessageSendQuqueIsFull:
			return "full"
		case err == errSock:
			return "err"
		}
		return "other:" + err.Error()
	}
	nmsg := 0
	closedOnce := false
	nops := 6 + r.Intn(22)
	for op := 0; op < nops && diff == ""; op++ {
		x := r.Intn(100)
		switch {
		case queued && st.dr == "W" && x < 50:
			// D: the pending socket write returns
			ok := x >= 4 || st.closed
			id := st.hand
			if ok {
				qc.Ops = append(qc.Ops, "D ok")
				fc.verdict <- nil
				wire = append(wire, id)
			} else {
				qc.Ops = append(qc.Ops, "D err")
				fc.verdict <- errSock
			}
			ask("w %d", b2i(ok))
			if !ok {
				settle()
				break
			}
			a := ask("a")
			if a.head == "A 0" {
				if !expectWrite(a.hand, "after a hand-over") {
					break
				}
			} else {
				settle()
				noWrite("after the drainer's exit")
			}
		case x < 92 || closedOnce && x < 97:
			// W k
			k := 1 + r.Intn(4)
			nmsg++
			var ids []string
			for j := 0; j < k; j++ {
				ids = append(ids, strconv.Itoa(nmsg*100+j))
			}
			if queued {
				qc.Ops = append(qc.Ops, fmt.Sprintf("W %d", k))
				err := c.WriteMessage(websocket.BinaryMessage, tagPayload(nmsg, k))
				b := ask("b %s", strings.Join(ids, ","))
				want, head := strings.TrimPrefix(b.head, "B "), false // refused as a whole: closed / full
				if b.head == "B -" {
					want = "-"
					for want == "-" {
						f := ask("f 1")
						fs := strings.Fields(f.head)
						want = fs[1]
						if fs[2] == "1" {
							head = true
						}
					}
				}
				if got := resName(err); got != want {
					diff = fmt.Sprintf("WriteMessage #%d (%d fragments) returned %s, the model says %s", nmsg, k, got, want)
					break
				}
				if head {
					expectWrite(st.hand, "a call that found the queue empty starts a drainer")
				} else if st.dr != "W" {
					settle()
					noWrite("after a call that started no drainer")
				}
			} else {
				failAt := -1
				if r.Intn(5) == 0 {
					failAt = r.Intn(k)
				}
				qc.Ops = append(qc.Ops, fmt.Sprintf("W %d fail-at %d", k, failAt))
				resc := make(chan error, 1)
				go func(n, k int) { resc <- c.WriteMessage(websocket.BinaryMessage, tagPayload(n, k)) }(nmsg, k)
				b := ask("b %s", strings.Join(ids, ","))
				want := strings.TrimPrefix(b.head, "B ")
				if b.head == "B -" {
					want = "-"
					for j := 0; want == "-"; j++ {
						if !expectWrite(nmsg*100+j, "direct write") {
							break
						}
						ok := j != failAt
						if ok {
							fc.verdict <- nil
							wire = append(wire, nmsg*100+j)
						} else {
							fc.verdict <- errSock
						}
						f := ask("f %d", b2i(ok))
						want = strings.Fields(f.head)[1]
					}
				}
				if diff != "" {
					break
				}
				select {
				case err := <-resc:
					if got := resName(err); got != want {
						diff = fmt.Sprintf("WriteMessage #%d (%d fragments) returned %s, the model says %s", nmsg, k, got, want)
					}
				case <-time.After(5 * time.Second):
					diff = fmt.Sprintf("WriteMessage #%d did not return, the model says %s", nmsg, want)
				}
			}
		default:
			// C
			qc.Ops = append(qc.Ops, "C")
			c.CloseAndClean(nil)
			a := ask("c")
			if a.head == "C 1" {
				closedOnce = true
			}
		}
	}
	// let the drainer finish
	for diff == "" && queued && st.dr == "W" {
		qc.Ops = append(qc.Ops, "D ok (drain)")
		id := st.hand
		fc.verdict <- nil
		wire = append(wire, id)
		ask("w 1")
		if a := ask("a"); a.head == "A 0" {
			if !expectWrite(a.hand, "after a hand-over (drain)") {
				break
			}
		}
	}
	qc.Wire = wire
	if diff != "" {
		return
	}
	t9 := time.Now()
	time.Sleep(500 * time.Microsecond)
	slept += time.Since(t9)
	if !noWrite("at the end") {
		return
	}
	q := m.Ask("q")
	qc.Model = q
	mw := strings.TrimSpace(strings.SplitN(strings.TrimPrefix(q, "Q "), ";", 2)[0])
	var ws []string
	for _, id := range wire {
		ws = append(ws, strconv.Itoa(id))
	}
	iw := strings.Join(ws, ",")
	if iw == "" {
		iw = "-"
	}
	if iw != mw {
		diff = fmt.Sprintf("frames written to the socket: %s, model: %s", iw, mw)
		return
	}
	want := int32(0)
	if closedOnce {
		want = 1
	}
	if got := atomic.LoadInt32(&closes); got != want {
		diff = fmt.Sprintf("%d close callbacks, expected %d", got, want)
	}
	return
}

func b2i(b bool) int {
	if b {
		return 1
	}
	return 0
}

// queuePart: n generated schedules; a disagreement is re-run with long settling times before it is reported.
func queuePart(rep *hx.Report, modelPath string, seed int64, n int) {
	if modelPath == "" || n <= 0 {
		return
	}
	qEngine = nbhttp.NewEngine(nbhttp.Config{MaxWebsocketFramePayloadSize: qFrame})
	m := hx.StartModel(modelPath)
	defer m.Close()
	r := rand.New(rand.NewSource(seed ^ 0x5eed))
	nbad := 0
	for i := 0; i < n && nbad < 5; i++ {
		cs := r.Int63()
		qc, diff := runQueueCase(m, cs, false)
		if diff != "" {
			rep.Stat("queue.rerun")
			qc2, diff2 := runQueueCase(m, cs, true)
			if diff2 == "" {
				diff = ""
			} else {
				qc, diff = qc2, diff2
			}
		}
		rep.Case(fmt.Sprintf("queue/%s/%d/%v", qc.Mode, qc.MaxQ, qc.Ops), len(qc.Ops) > 3)
		rep.Ops += len(qc.Ops)
		rep.Stat("queue.cases." + qc.Mode)
		if qc.MaxQ > 0 {
			rep.Stat("queue.cases.bounded")
		}
		for _, o := range qc.Ops {
			rep.Stat("queue.op." + strings.Fields(o)[0])
		}
		if diff != "" {
			nbad++
			rep.Add(hx.Finding{Kind: "mismatch", Property: "C14", Signature: "sendqueue-model",
				What:   "websocket.Conn write side vs. SendQueue.v: " + diff,
				Replay: map[string]interface{}{"harness": "wsconc", "part": "queue", "case": qc}})
			allFindings++
		}
		if i < 2 {
			rep.Sample(map[string]interface{}{"part": "queue", "case": qc})
		}
	}
}
