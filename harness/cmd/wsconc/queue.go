package main

// Correspondence part: the real websocket.Conn (NewServerConn over a net.Conn whose Write is held by the harness)
// against the extracted write-side model (coq/wsconc/SendQueue.v), in lock step, plus a wholeness oracle on the
// bytes handed to the socket.
// The harness controls when every Conn.Write of the drainer (queued mode) or of WriteMessage itself (direct mode)
// returns and with what, so a schedule of
//     W (a WriteMessage: data message of a payload class and length, or a pong)   D ok|err (the drainer's pending socket
//     write returns; then its critical section)   C (CloseAndClean)
// is replayed deterministically:
//   model:  W = begin_msg limit mid ctl raw z; Frame x k      D = DWrite; DAdvance      C = CloseClean
// z, the DEFLATED length of the payload when write compression applies, is an oracle input of the model; the harness
// computes it with compress/flate exactly as permessage-deflate prescribes (sync flush, last four bytes dropped) and
// checks it against the frames of every accepted message.
// compared: the result of every WriteMessage (nil / closed / queue full / socket error), the bytes of every frame
// handed to the socket and the moment it is handed over (a new drainer after the head, the next slot after a
// hand-over, nothing after the exit), the final wire, the close callback.
// Two kinds of schedules: random ones, and the ADMISSION GRID of a bounded queue: bound 1..8 x compression off / on
// (all levels) x payload zeros / text / seeded random x lengths k*limit-2..k*limit+2 (k = 1..4) and lengths whose deflated
// size is at a frame multiple x room left in the queue 0..needed+1.
// Wholeness oracle (implementation alone): a refused message leaves NOTHING on the wire; the frame stream never
// starts a message inside an unfinished one.

import (
	"bytes"
	"compress/flate"
	"errors"
	"fmt"
	"math/rand"
	"net"
	"runtime"
	"strconv"
	"strings"
	"sync/atomic"
	"time"

	"github.com/lesismal/nbio/nbhttp"
	"github.com/lesismal/nbio/nbhttp/websocket"
	"verifharness/hx"
)

const qFrame = 16 // MaxWebsocketFramePayloadSize of this part

type fakeConn struct {
	entered chan []byte
	verdict chan error
	closed  int32
}

func (f *fakeConn) Write(b []byte) (int, error) {
	f.entered <- append([]byte(nil), b...)
	if err := <-f.verdict; err != nil {
		return 0, err
	}
	return len(b), nil
}
func (f *fakeConn) Read(b []byte) (int, error)         { select {} }
func (f *fakeConn) Close() error                       { atomic.AddInt32(&f.closed, 1); return nil }
func (f *fakeConn) LocalAddr() net.Addr                { return &net.TCPAddr{} }
func (f *fakeConn) RemoteAddr() net.Addr               { return &net.TCPAddr{} }
func (f *fakeConn) SetDeadline(t time.Time) error      { return nil }
func (f *fakeConn) SetReadDeadline(t time.Time) error  { return nil }
func (f *fakeConn) SetWriteDeadline(t time.Time) error { return nil }

var errSock = errors.New("injected socket error")

// refDeflate: what permessage-deflate sends for one message (RFC 7692 7.2.1): deflate, sync flush, drop 00 00 ff ff
func refDeflate(level int, data []byte) []byte {
	var buf bytes.Buffer
	w := refWriters[level]
	if w == nil {
		var err error
		if w, err = flate.NewWriter(&buf, level); err != nil {
			hx.Fatal("flate level %d: %v", level, err)
		}
		refWriters[level] = w
	} else {
		w.Reset(&buf)
	}
	w.Write(data)
	w.Flush()
	b := buf.Bytes()
	if len(b) < 4 {
		return nil
	}
	return append([]byte(nil), b[:len(b)-4]...)
}

var refWriters = map[int]*flate.Writer{}
var zlenCache = map[string]int{}

func refZLen(class string, level, n int) int {
	k := fmt.Sprintf("%s/%d/%d", class, level, n)
	if z, ok := zlenCache[k]; ok {
		return z
	}
	z := len(refDeflate(level, genPayload(class, n, 1, 1)))
	zlenCache[k] = z
	return z
}

var payloadClasses = []string{"zeros", "text", "random"}

// genPayload: n bytes of the class; the first bytes carry the message id so that no two messages render to the same first frame
func genPayload(class string, n int, seed int64, mid int) []byte {
	b := genFill(class, n, seed)
	copy(b, fmt.Sprintf("#%03d", mid))
	return b
}

func genFill(class string, n int, seed int64) []byte {
	b := make([]byte, n)
	switch class {
	case "text":
		const t = "the quick brown fox jumps over the lazy dog; pack my box with five dozen liquor jugs. "
		for i := range b {
			b[i] = t[(i+int(seed%7))%len(t)]
		}
	case "random":
		rand.New(rand.NewSource(seed)).Read(b)
	}
	return b
}

type qmsg struct {
	Mid    int    `json:"id"`
	Ctl    bool   `json:"pong,omitempty"`
	Class  string `json:"payload,omitempty"`
	Raw    int    `json:"raw_len"`
	Z      int    `json:"deflated_len"` // -1: not compressed
	Frames int    `json:"frames"`
	Res    string `json:"result"`
	Room   string `json:"queue_len/bound_at_the_call,omitempty"`
	data   []byte
	wire   []byte // the bytes that go out: deflated or raw
}

func (m *qmsg) nframes() int {
	if m.Ctl || len(m.wire) == 0 {
		return 1
	}
	return (len(m.wire) + qFrame - 1) / qFrame
}

// frame j of the message as the library must render it (server role: unmasked; payloads < 126 bytes)
func (m *qmsg) frame(j int) []byte {
	lo, hi := j*qFrame, (j+1)*qFrame
	if m.Ctl {
		lo, hi = 0, len(m.wire)
	}
	if hi > len(m.wire) {
		hi = len(m.wire)
	}
	if lo > hi {
		lo = hi
	}
	var b0 byte
	if j == 0 {
		b0 = opBin
		if m.Ctl {
			b0 = opPong
		}
		if m.Z >= 0 {
			b0 |= 0x40
		}
	}
	if j == m.nframes()-1 {
		b0 |= 0x80
	}
	return append([]byte{b0, byte(hi - lo)}, m.wire[lo:hi]...)
}

type mstate struct {
	head   string // observation, e.g. "F ok 1"
	hand   int    // -1: nothing in the drainer's hand
	dr     string // - | W | L
	slots  int
	closed bool
	failed bool
}

func parseAns(s string) (mstate, error) {
	var st mstate
	parts := strings.SplitN(s, " | ", 2)
	if len(parts) != 2 {
		return st, fmt.Errorf("model answer %q", s)
	}
	st.head = parts[0]
	f := strings.Fields(parts[1])
	if len(f) != 7 {
		return st, fmt.Errorf("model answer %q", s)
	}
	st.hand = -1
	if f[0] != "-" {
		st.hand, _ = strconv.Atoi(f[0])
	}
	st.dr = f[1]
	st.slots, _ = strconv.Atoi(f[3])
	st.closed = f[4] == "1"
	st.failed = f[5] == "1"
	return st, nil
}

var qEngine *nbhttp.Engine

type qcase struct {
	Kind     string   `json:"kind"` // random | admission-grid
	Mode     string   `json:"mode"`
	MaxQ     int      `json:"BlockingModSendQueueMaxSize"`
	Compress bool     `json:"write_compression"`
	Level    int      `json:"compression_level"`
	Seed     int64    `json:"seed"`
	Ops      []string `json:"ops"`
	Msgs     []*qmsg  `json:"messages"`
	Slow     bool     `json:"slow_settle,omitempty"`
	Wire     []string `json:"frames_handed_to_the_socket"`
	Model    string   `json:"model_final,omitempty"`
}

type qproblem struct {
	kind, sig, what string
}

// one scripted operation of a schedule
type qop struct {
	op    string // W P D E C  (data message, pong, socket write ok, socket write error, CloseAndClean)
	class string
	n     int
}

type gridPoint struct {
	maxq, level, room int
	compress          bool
	class             string
	n                 int
}

// lengths of interest for one (class, level): around the frame multiples of the raw length, and those whose deflated
// length is at or next to a frame multiple
func gridLengths(class string, compress bool, level int, seed int64) []int {
	var ls []int
	for k := 1; k <= 4; k++ {
		for d := -2; d <= 2; d++ {
			ls = append(ls, k*qFrame+d)
		}
	}
	if compress {
		for n := 1; n <= 5*qFrame; n++ {
			z := refZLen(class, level, n)
			if r := z % qFrame; (r <= 1 || r == qFrame-1) && z > 0 && (z+qFrame-1)/qFrame != (n+qFrame-1)/qFrame {
				ls = append(ls, n)
			}
		}
	}
	return ls
}

// runQueueCase replays one schedule; returns the first disagreement / oracle failure, if any.
func runQueueCase(m *hx.Model, seed int64, slow bool, grid *gridPoint) (qc qcase, prob *qproblem) {
	r := rand.New(rand.NewSource(seed))
	queued := r.Intn(4) != 0
	maxq := 0
	if queued && r.Intn(2) == 0 {
		maxq = 1 + r.Intn(8)
	}
	compress := r.Intn(2) == 0
	level := []int{-2, -1, 0, 1, 1, 2, 5, 6, 9}[r.Intn(9)]
	kind := "random"
	if grid != nil {
		kind, queued, maxq, compress, level = "admission-grid", true, grid.maxq, grid.compress, grid.level
	}
	qc = qcase{Kind: kind, Mode: map[bool]string{true: "queued", false: "direct"}[queued], MaxQ: maxq, Compress: compress, Level: level, Seed: seed, Slow: slow}
	var st mstate
	st = mstate{hand: -1, dr: "-"}
	var diff string
	settle := func() {
		if !slow && (maxq == 0 || st.closed) {
			// unbounded queue or closed connection: a late exit of the drainer cannot change any later observation
			return
		}
		if slow {
			time.Sleep(20 * time.Millisecond)
			return
		}
		runtime.Gosched()
		time.Sleep(300 * time.Microsecond)
	}
	fc := &fakeConn{entered: make(chan []byte), verdict: make(chan error)}
	u := websocket.NewUpgrader()
	u.Engine = qEngine
	u.BlockingModSendQueueMaxSize = uint16(maxq)
	u.BlockingModAsyncCloseDelay = time.Millisecond
	if err := u.SetCompressionLevel(level); err != nil {
		hx.Fatal("level %d: %v", level, err)
	}
	var closes int32
	u.OnClose(func(c *websocket.Conn, err error) { atomic.AddInt32(&closes, 1) })
	c := websocket.NewServerConn(u, fc, "", compress, queued) // remoteCompressionEnabled = compress: write compression on
	if m.Ask("init %s %d", map[bool]string{true: "q", false: "d"}[queued], maxq) != "OK" {
		hx.Fatal("model init")
	}
	msgs := map[int]*qmsg{}
	var wire [][]byte // frames whose socket write succeeded
	injected := false
	ask := func(format string, a ...interface{}) mstate {
		s := m.Ask(format, a...)
		ns, err := parseAns(s)
		if err != nil {
			hx.Fatal("%v", err)
		}
		if ns.head == "X" {
			hx.Fatal("harness scheduled an action that is not enabled in the model: %s", fmt.Sprintf(format, a...))
		}
		st = ns
		return ns
	}
	describe := func(b []byte) string {
		for _, mm := range msgs {
			for j := 0; j < mm.nframes(); j++ {
				if bytes.Equal(mm.frame(j), b) {
					return fmt.Sprintf("frame %d of message %d", j, mm.Mid)
				}
			}
		}
		if len(b) >= 2 {
			return fmt.Sprintf("an unknown frame (byte0 %#x, %d payload bytes)", b[0], len(b)-2)
		}
		return "garbage"
	}
	// the drainer (or, in direct mode, the writer) must now be entering Conn.Write with exactly this frame
	var pending []byte
	held := false    // a Conn.Write is blocked on the harness's verdict; its frame is [pending]
	var stray []byte // a Conn.Write the model did not expect, not yet answered
	expectWrite := func(want int, why string) bool {
		mm := msgs[want/100]
		exp := mm.frame(want % 100)
		select {
		case b := <-fc.entered:
			if !bytes.Equal(b, exp) {
				diff = fmt.Sprintf("%s: %s handed to the socket, the model says frame %d of message %d (byte0 %#x, %d payload bytes)",
					why, describe(b), want%100, want/100, exp[0], len(exp)-2)
				stray = b
				return false
			}
			pending, held = b, true
			return true
		case <-time.After(5 * time.Second):
			diff = fmt.Sprintf("%s: no Conn.Write within 5s, the model says frame %d of message %d is handed to the socket", why, want%100, want/100)
			return false
		}
	}
	noWrite := func(why string) bool {
		select {
		case b := <-fc.entered:
			diff = fmt.Sprintf("%s: unexpected Conn.Write of %s", why, describe(b))
			stray = b
			return false
		default:
			return true
		}
	}
	resName := func(err error) string {
		switch {
		case err == nil:
			return "ok"
		case err == net.ErrClosed:
			return "closed"
		case err == websocket.ErrMessageSendQuqueIsFull:
			return "full"
		case err == errSock:
			return "err"
		}
		return "other:" + err.Error()
	}
	nmsg := 0
	closedOnce := false
	newMsg := func(ctl bool, class string, n int) *qmsg {
		nmsg++
		mm := &qmsg{Mid: nmsg, Ctl: ctl, Class: class, Raw: n, Z: -1}
		if ctl {
			mm.data = []byte(fmt.Sprintf("p%03d", nmsg))
			mm.Raw, mm.Class = len(mm.data), ""
		} else {
			ps := seed + int64(nmsg)
			if grid != nil {
				ps = 1 // the grid's lengths were chosen for this content
			}
			mm.data = genPayload(class, n, ps, nmsg)
		}
		mm.wire = mm.data
		if compress && !ctl {
			mm.wire = refDeflate(level, mm.data)
			mm.Z = len(mm.wire)
		}
		mm.Frames = mm.nframes()
		msgs[nmsg] = mm
		qc.Msgs = append(qc.Msgs, mm)
		return mm
	}
	// W: one WriteMessage and the model's begin_msg + Frames
	doWrite := func(mm *qmsg, failAt int) {
		mt := websocket.BinaryMessage
		ctl := 0
		if mm.Ctl {
			mt, ctl = websocket.PongMessage, 1
		}
		z := "-"
		if mm.Z >= 0 {
			z = strconv.Itoa(mm.Z)
		}
		mm.Room = fmt.Sprintf("%d/%d", st.slots, maxq)
		if queued {
			qc.Ops = append(qc.Ops, fmt.Sprintf("W%d", mm.Mid))
			err := c.WriteMessage(mt, mm.data)
			mm.Res = resName(err)
			b := ask("m %d %d %d %d %s", qFrame, mm.Mid, ctl, mm.Raw, z)
			want, head := strings.TrimPrefix(b.head, "B "), false // refused as a whole: closed / full
			if b.head == "B -" {
				want = "-"
				for want == "-" {
					f := ask("f 1")
					fs := strings.Fields(f.head)
					want = fs[1]
					if fs[2] == "1" {
						head = true
					}
				}
			}
			if mm.Res != want {
				diff = fmt.Sprintf("WriteMessage of message %d (%d bytes raw, %d on the wire = %d frames, queue %s) returned %s, the model says %s",
					mm.Mid, mm.Raw, len(mm.wire), mm.Frames, mm.Room, mm.Res, want)
				return
			}
			if head {
				expectWrite(st.hand, "a call that found the queue empty starts a drainer")
			} else if st.dr != "W" && want != "closed" {
				settle()
				noWrite("after a call that started no drainer")
			}
			return
		}
		qc.Ops = append(qc.Ops, fmt.Sprintf("W%d fail-at %d", mm.Mid, failAt))
		resc := make(chan error, 1)
		go func() { resc <- c.WriteMessage(mt, mm.data) }()
		b := ask("m %d %d %d %d %s", qFrame, mm.Mid, ctl, mm.Raw, z)
		want := strings.TrimPrefix(b.head, "B ")
		if b.head == "B -" {
			want = "-"
			for j := 0; want == "-"; j++ {
				if !expectWrite(mm.Mid*100+j, "direct write") {
					return
				}
				ok := j != failAt
				held = false
				if ok {
					fc.verdict <- nil
					wire = append(wire, pending)
				} else {
					injected = true
					fc.verdict <- errSock
				}
				f := ask("f %d", b2i(ok))
				want = strings.Fields(f.head)[1]
			}
		}
		select {
		case err := <-resc:
			mm.Res = resName(err)
			if mm.Res != want {
				diff = fmt.Sprintf("WriteMessage of message %d (%d frames) returned %s, the model says %s", mm.Mid, mm.Frames, mm.Res, want)
			}
		case <-time.After(5 * time.Second):
			diff = fmt.Sprintf("WriteMessage of message %d did not return, the model says %s", mm.Mid, want)
		}
	}
	doD := func(ok bool) {
		held = false
		if ok {
			qc.Ops = append(qc.Ops, "D")
			fc.verdict <- nil
			wire = append(wire, pending)
		} else {
			qc.Ops = append(qc.Ops, "E")
			injected = true
			fc.verdict <- errSock
		}
		ask("w %d", b2i(ok))
		if !ok {
			settle()
			return
		}
		a := ask("a")
		if a.head == "A 0" {
			expectWrite(a.hand, "after a hand-over")
		} else {
			settle()
			noWrite("after the drainer's exit")
		}
	}
	doC := func() {
		qc.Ops = append(qc.Ops, "C")
		c.CloseAndClean(nil)
		if a := ask("c"); a.head == "C 1" {
			closedOnce = true
		}
	}

	if grid != nil {
		// room left for the message under test: fill the queue behind a held drainer with single-frame pongs
		fill := maxq - grid.room
		for i := 0; i < fill && diff == ""; i++ {
			doWrite(newMsg(true, "", 0), -1)
		}
		if diff == "" {
			doWrite(newMsg(false, grid.class, grid.n), -1)
		}
		// the next message would start inside an unfinished one; give it room first in half of the cases
		if diff == "" && st.dr == "W" && r.Intn(2) == 0 {
			doD(true)
		}
		if diff == "" {
			doWrite(newMsg(false, "text", 5), -1)
		}
	} else {
		nops := 6 + r.Intn(22)
		for op := 0; op < nops && diff == ""; op++ {
			x := r.Intn(100)
			switch {
			case queued && st.dr == "W" && x < 45:
				doD(x >= 4 || st.closed)
			case x < 92 || closedOnce && x < 97:
				failAt := -1
				if !queued && r.Intn(5) == 0 {
					failAt = r.Intn(3)
				}
				if r.Intn(5) == 0 {
					doWrite(newMsg(true, "", 0), failAt)
				} else {
					n := r.Intn(4*qFrame + 3)
					if r.Intn(2) == 0 {
						n = (1+r.Intn(4))*qFrame - 2 + r.Intn(5)
					}
					doWrite(newMsg(false, payloadClasses[r.Intn(3)], n), failAt)
				}
			default:
				doC()
			}
		}
	}
	// let the drainer finish
	for diff == "" && queued && st.dr == "W" {
		doD(true)
	}
	if diff != "" {
		// The model and the implementation disagree. Go on with the implementation alone, so that the wholeness oracle
		// can still find a concrete failing input: answer every socket write with success until the connection is quiet,
		// write one more small message (it would start inside a message left unfinished), drain again.
		serve := func() {
			if held {
				held = false
				fc.verdict <- nil
				wire = append(wire, pending)
			}
			if stray != nil {
				fc.verdict <- nil
				wire = append(wire, stray)
				stray = nil
			}
			for {
				select {
				case b := <-fc.entered:
					fc.verdict <- nil
					wire = append(wire, b)
				case <-time.After(3 * time.Millisecond):
					return
				}
			}
		}
		serve()
		if !closedOnce {
			mm := newMsg(false, "text", 5)
			mm.Room = "?"
			resc := make(chan error, 1)
			go func() { resc <- c.WriteMessage(websocket.BinaryMessage, mm.data) }()
			serve()
			select {
			case err := <-resc:
				mm.Res = resName(err)
			case <-time.After(time.Second):
			}
			serve()
			qc.Ops = append(qc.Ops, fmt.Sprintf("(implementation only) W%d, every socket write succeeds", mm.Mid))
		}
	}
	for _, b := range wire {
		qc.Wire = append(qc.Wire, describe(b))
	}
	// ---- wholeness oracle on the implementation alone ----
	// The frames handed to the socket are cut into messages by their FIN bits; every complete message must be the wire
	// form of a WriteMessage that returned nil (each at most once), none may be cut short by the start of another, and
	// on a connection that stayed open every accepted message must be there.
	if !injected {
		type parsed struct {
			b0      byte
			payload []byte
			frames  int
			at      int
		}
		matched := map[int]bool{}
		sameMsg := func(p *parsed, mm *qmsg, prefix bool) bool {
			if p.b0&0x4f != mm.frame(0)[0]&0x4f {
				return false
			}
			if prefix {
				return bytes.HasPrefix(mm.wire, p.payload) && p.frames < mm.nframes()
			}
			return bytes.Equal(mm.wire, p.payload) && p.frames == mm.nframes()
		}
		info := func(mm *qmsg) string {
			return fmt.Sprintf("message %d (%s payload, %d bytes raw, %d on the wire = %d frames; queue length/bound at the call %s; WriteMessage returned %q)",
				mm.Mid, mm.Class, mm.Raw, len(mm.wire), mm.Frames, mm.Room, mm.Res)
		}
		var bad *qproblem
		complete := func(p *parsed) {
			for _, mm := range qc.Msgs {
				if mm.Res == "ok" && !matched[mm.Mid] && sameMsg(p, mm, false) {
					matched[mm.Mid] = true
					return
				}
			}
			for _, mm := range qc.Msgs {
				if mm.Res != "ok" && sameMsg(p, mm, false) {
					sig := "partial-message-queue-full"
					if mm.Res != "full" {
						sig = "interleaved-frames-" + qc.Mode
					}
					bad = &qproblem{"oracle", sig, fmt.Sprintf("frames %d..%d handed to the socket are %s: a refused message must leave nothing on the wire", p.at, p.at+p.frames-1, info(mm))}
					return
				}
			}
			bad = &qproblem{"oracle", "message-duplicated", fmt.Sprintf("frames %d..%d handed to the socket form a message (%d payload bytes) that is no accepted message, or one that was already there", p.at, p.at+p.frames-1, len(p.payload))}
		}
		interrupted := func(p *parsed, by int) {
			sig, who := "interleaved-frames-"+qc.Mode, "an unknown message"
			for _, mm := range qc.Msgs {
				if sameMsg(p, mm, true) {
					who = info(mm)
					if mm.Res == "full" {
						sig = "partial-message-queue-full"
						break
					}
				}
			}
			bad = &qproblem{"oracle", sig, fmt.Sprintf("frame %d handed to the socket (%s) starts a message inside an unfinished one: frames %d..%d are the first %d fragment(s) of %s",
				by, describe(wire[by]), p.at, p.at+p.frames-1, p.frames, who)}
		}
		var cur *parsed
		for i, b := range wire {
			if bad != nil || len(b) < 2 {
				break
			}
			op, fin := b[0]&0x0f, b[0]&0x80 != 0
			switch {
			case op >= 8:
				complete(&parsed{b0: b[0], payload: b[2:], frames: 1, at: i})
				continue
			case op != 0:
				if cur != nil {
					interrupted(cur, i)
				}
				cur = &parsed{b0: b[0], at: i}
			default:
				if cur == nil {
					bad = &qproblem{"oracle", "interleaved-frames-" + qc.Mode, fmt.Sprintf("frame %d handed to the socket is a continuation frame without a message in progress", i)}
					continue
				}
			}
			if bad != nil {
				break
			}
			cur.payload = append(cur.payload, b[2:]...)
			cur.frames++
			if fin {
				complete(cur)
				cur = nil
			}
		}
		if bad == nil && cur != nil && !closedOnce {
			interruptedAtEnd := *cur
			who := "an unknown message"
			sig := "interleaved-frames-" + qc.Mode
			for _, mm := range qc.Msgs {
				if sameMsg(&interruptedAtEnd, mm, true) {
					who = info(mm)
					if mm.Res == "full" {
						sig = "partial-message-queue-full"
						break
					}
				}
			}
			bad = &qproblem{"oracle", sig, fmt.Sprintf("the wire ends inside an unfinished message although the connection is open and the queue drained: frames %d..%d are the first %d fragment(s) of %s", cur.at, cur.at+cur.frames-1, cur.frames, who)}
		}
		if bad == nil && !closedOnce {
			for _, mm := range qc.Msgs {
				if mm.Res == "ok" && !matched[mm.Mid] {
					bad = &qproblem{"oracle", "message-lost-" + qc.Mode, fmt.Sprintf("%s is not on the wire as one complete frame sequence (deflated form computed with compress/flate level %d)", info(mm), level)}
					break
				}
			}
		}
		if bad != nil {
			return qc, bad
		}
	}
	if diff != "" {
		return qc, &qproblem{"mismatch", "sendqueue-model", "websocket.Conn write side vs. SendQueue.v: " + diff}
	}
	time.Sleep(300 * time.Microsecond)
	if !noWrite("at the end") {
		return qc, &qproblem{"mismatch", "sendqueue-model", "websocket.Conn write side vs. SendQueue.v: " + diff}
	}
	q := m.Ask("q")
	qc.Model = q
	mw := strings.TrimSpace(strings.SplitN(strings.TrimPrefix(q, "Q "), ";", 2)[0])
	var exp [][]byte
	if mw != "-" {
		for _, t := range strings.Split(mw, ",") {
			id, _ := strconv.Atoi(t)
			if mm := msgs[id/100]; mm != nil && id%100 < mm.nframes() {
				exp = append(exp, mm.frame(id%100))
			} else {
				exp = append(exp, nil)
			}
		}
	}
	same := len(exp) == len(wire)
	for i := 0; same && i < len(exp); i++ {
		same = bytes.Equal(exp[i], wire[i])
	}
	if !same {
		return qc, &qproblem{"mismatch", "sendqueue-model", fmt.Sprintf("websocket.Conn write side vs. SendQueue.v: frames written to the socket: %v, model: %s", qc.Wire, mw)}
	}
	want := int32(0)
	if closedOnce {
		want = 1
	}
	if got := atomic.LoadInt32(&closes); got != want {
		return qc, &qproblem{"mismatch", "sendqueue-model", fmt.Sprintf("%d close callbacks, expected %d", got, want)}
	}
	return qc, nil
}

func b2i(b bool) int {
	if b {
		return 1
	}
	return 0
}

// queuePart: n schedules (half random, half points of the admission grid, which is swept completely in the thorough
// tier); a failure is re-run with long settling times before it is reported.
func queuePart(rep *hx.Report, modelPath string, seed int64, n int, fullGrid bool) {
	if modelPath == "" || n <= 0 {
		return
	}
	qEngine = nbhttp.NewEngine(nbhttp.Config{MaxWebsocketFramePayloadSize: qFrame})
	m := hx.StartModel(modelPath)
	defer m.Close()
	r := rand.New(rand.NewSource(seed ^ 0x5eed))
	nbad, nmis := 0, 0
	run := func(cs int64, gp *gridPoint) {
		qc, p := runQueueCase(m, cs, false, gp)
		if p != nil {
			rep.Stat("queue.rerun")
			qc2, p2 := runQueueCase(m, cs, true, gp)
			if p2 == nil {
				p = nil
			} else {
				qc, p = qc2, p2
			}
		}
		rep.Case(fmt.Sprintf("queue/%s/%s/%d/%v/%d/%v/%v", qc.Kind, qc.Mode, qc.MaxQ, qc.Compress, qc.Level, qc.Ops, gp), len(qc.Ops) > 2)
		rep.Ops += len(qc.Ops)
		rep.Stat("queue.cases." + qc.Kind + "." + qc.Mode)
		if qc.MaxQ > 0 {
			rep.Stat("queue.cases.bounded")
		}
		if qc.Compress {
			rep.Stat("queue.cases.compressed")
		}
		for _, mm := range qc.Msgs {
			if mm.Res != "" {
				rep.Stat("queue.write." + mm.Res)
			}
			if mm.Z >= 0 && (mm.Z+qFrame-1)/qFrame > (mm.Raw+qFrame-1)/qFrame {
				rep.Stat("queue.write.deflated-needs-more-frames." + mm.Res)
			}
		}
		if p != nil {
			if p.kind == "oracle" {
				nbad++
			} else if nmis++; nmis >= 40 {
				nbad = 5
			}
			allFindings++
			seriousFindings++
			rep.Add(hx.Finding{Kind: p.kind, Property: "C14", Signature: p.sig, What: p.what,
				Replay: map[string]interface{}{"harness": "wsconc", "part": "queue", "case": qc, "grid_point": fmt.Sprintf("%+v", gp)}})
			if p.kind == "oracle" {
				// the same failure seen from the receiver's side is a C12 violation: a message whose WriteMessage succeeded is
				// not delivered exactly once and in order when the wire carries an unfinished or interleaved frame sequence
				rep.Add(hx.Finding{Kind: p.kind, Property: "C12", Signature: "send-queue-" + p.sig, What: p.what + " (a peer parsing this wire fails the connection or delivers a wrong message: written messages are not delivered exactly once and in order)",
					Replay: map[string]interface{}{"harness": "wsconc", "part": "queue", "case": qc, "grid_point": fmt.Sprintf("%+v", gp)}})
			}
		}
		if rep.Cases <= 2 {
			rep.Sample(map[string]interface{}{"part": "queue", "case": qc})
		}
	}
	// the admission grid
	var grid []gridPoint
	levels := []int{-2, -1, 0, 1, 2, 3, 4, 5, 6, 7, 8, 9}
	for maxq := 1; maxq <= 8; maxq++ {
		for ci := -1; ci < len(levels); ci++ {
			compress, level := ci >= 0, 1
			if compress {
				level = levels[ci]
			}
			for _, class := range payloadClasses {
				for _, n := range gridLengths(class, compress, level, 1) {
					wl := n
					if compress {
						wl = refZLen(class, level, n)
					}
					need := (wl + qFrame - 1) / qFrame
					for room := 0; room <= need+1 && room <= maxq; room++ {
						grid = append(grid, gridPoint{maxq: maxq, level: level, room: room, compress: compress, class: class, n: n})
					}
				}
			}
		}
	}
	rep.Extra["admission_grid_points"] = len(grid)
	if fullGrid {
		for i := 0; i < len(grid) && nbad < 5; i++ {
			run(int64(i)+seed*1000003, &grid[i])
		}
	} else {
		r.Shuffle(len(grid), func(i, j int) { grid[i], grid[j] = grid[j], grid[i] })
		for i := 0; i < n/2 && i < len(grid) && nbad < 5; i++ {
			run(r.Int63(), &grid[i])
		}
	}
	for i := 0; i < n-n/2 && nbad < 5; i++ {
		run(r.Int63(), nil)
	}
}
