package main

// Raw TCP websocket client: handshake, masked frames written in random segments, and a reader that checks the
// server's frame stream message by message.

import (
	"bufio"
	"bytes"
	"fmt"
	"math/rand"
	"net"
	"strings"
	"sync"
	"time"
)

type problem struct {
	Sig        string
	What       string
	Unfinished *rxMsg // for interleaving: the message that was cut short
}

type rxMsg struct {
	W, Seq int
}

// wireCheck consumes the server's frames in order and checks that every data message is one uninterrupted frame
// sequence carrying exactly the payload of one (writer, seq).
type wireCheck struct {
	cid     int
	mode    string
	inMsg   bool
	cur     rxMsg
	want    []byte
	off     int
	nframes int
	got     []rxMsg
	pongs   []string
	closeRx bool
	endRx   bool
	frames  int
	trail   []string // the last frames seen, for the replay
	cut     []rxMsg  // messages another message started inside of
	probs   []problem
}

func (wc *wireCheck) note(f frame) {
	s := fmt.Sprintf("op=%d fin=%v len=%d %q", f.Op, f.Fin, len(f.Payload), trunc(f.Payload, 28))
	wc.trail = append(wc.trail, s)
	if len(wc.trail) > 12 {
		wc.trail = wc.trail[1:]
	}
}

func (wc *wireCheck) bad(sig, format string, a ...interface{}) *problem {
	if len(wc.probs) < 4 {
		wc.probs = append(wc.probs, problem{Sig: sig, What: fmt.Sprintf(format, a...)})
		return &wc.probs[len(wc.probs)-1]
	}
	return nil
}

// cutShort: the message in progress was interrupted by a frame of something else
func (wc *wireCheck) cutShort(pr *problem) {
	if pr != nil {
		u := wc.cur
		pr.Unfinished = &u
	}
	wc.cut = append(wc.cut, wc.cur)
}

func (wc *wireCheck) feed(f frame) {
	wc.frames++
	wc.note(f)
	il := "interleaved-frames-" + wc.mode
	if f.Rsv != 0 || f.Masked {
		wc.bad(il, "frame %d from the server has rsv=%#x masked=%v", wc.frames, f.Rsv, f.Masked)
	}
	switch f.Op {
	case opPing:
		return
	case opPong, opClose:
		if wc.inMsg {
			wc.cutShort(wc.bad(il, "control frame (opcode %d) inside the unfinished message of writer %d seq %d (after %d of its bytes): every write call holds the connection for all its frames",
				f.Op, wc.cur.W, wc.cur.Seq, wc.off))
		}
		if !f.Fin {
			wc.bad(il, "fragmented control frame, opcode %d", f.Op)
		}
		if f.Op == opPong {
			wc.pongs = append(wc.pongs, string(f.Payload))
		} else {
			wc.closeRx = true
		}
		return
	case opText, opBin:
		if wc.inMsg {
			w2, s2, _, _ := parseServerHeader(f.Payload)
			wc.cutShort(wc.bad(il, "a new message (writer %d seq %d) starts inside the unfinished message of writer %d seq %d (%d of %d bytes, %d frames received)",
				w2, s2, wc.cur.W, wc.cur.Seq, wc.off, len(wc.want), wc.nframes))
			wc.inMsg = false
		}
		w, seq, total, ok := parseServerHeader(f.Payload)
		if !ok || total < len(f.Payload) || total > 64<<20 {
			wc.bad(il, "first frame of a message does not start with a message header: %q", trunc(f.Payload, 40))
			if !f.Fin {
				wc.inMsg, wc.cur, wc.want, wc.off, wc.nframes = true, rxMsg{-1, -1}, nil, len(f.Payload), 1
			}
			return
		}
		wc.cur = rxMsg{w, seq}
		wc.want = serverPayload(wc.cid, w, seq, total)
		wc.off, wc.nframes, wc.inMsg = 0, 0, true
	case opCont:
		if !wc.inMsg {
			wc.bad(il, "continuation frame (%d bytes, %q) without a message in progress", len(f.Payload), trunc(f.Payload, 24))
			return
		}
	default:
		wc.bad(il, "frame with reserved opcode %d", f.Op)
		return
	}
	// a frame of the message in progress
	wc.nframes++
	if wc.want != nil {
		end := wc.off + len(f.Payload)
		if end > len(wc.want) || !bytes.Equal(f.Payload, wc.want[wc.off:end]) {
			wc.bad(il, "frame %d of the message of writer %d seq %d carries bytes that are not bytes %d.. of that message: %q",
				wc.nframes, wc.cur.W, wc.cur.Seq, wc.off, trunc(f.Payload, 40))
			wc.want = nil
		}
		wc.off = end
	}
	if f.Fin {
		if wc.want != nil && wc.off != len(wc.want) {
			wc.bad(il, "message of writer %d seq %d ends after %d of %d bytes", wc.cur.W, wc.cur.Seq, wc.off, len(wc.want))
		} else if wc.want != nil {
			if wc.cur.W == endWriter {
				wc.endRx = true
			} else {
				wc.got = append(wc.got, wc.cur)
			}
		}
		wc.inMsg = false
	}
}

type client struct {
	cid  int
	conn net.Conn
	br   *bufio.Reader
	r    *rand.Rand
	wmu  sync.Mutex
}

func dialWS(addr string, cid int, r *rand.Rand) (*client, error) {
	conn, err := net.DialTimeout("tcp", addr, 5*time.Second)
	if err != nil {
		return nil, err
	}
	req := fmt.Sprintf("GET /ws?c=%d HTTP/1.1\r\nHost: %s\r\nUpgrade: websocket\r\nConnection: Upgrade\r\n"+
		"Sec-WebSocket-Key: dGhlIHNhbXBsZSBub25jZQ==\r\nSec-WebSocket-Version: 13\r\n\r\n", cid, addr)
	conn.SetDeadline(time.Now().Add(10 * time.Second))
	if _, err = conn.Write([]byte(req)); err != nil {
		conn.Close()
		return nil, err
	}
	br := bufio.NewReaderSize(conn, 1<<16)
	status, err := br.ReadString('\n')
	if err != nil || !strings.Contains(status, " 101 ") {
		conn.Close()
		return nil, fmt.Errorf("handshake answer %q, %v", strings.TrimSpace(status), err)
	}
	for {
		line, err := br.ReadString('\n')
		if err != nil {
			conn.Close()
			return nil, err
		}
		if line == "\r\n" {
			break
		}
	}
	conn.SetDeadline(time.Time{})
	return &client{cid: cid, conn: conn, br: br, r: r}, nil
}

// send writes the bytes in one piece or in random segments
func (c *client) send(b []byte) error {
	c.wmu.Lock()
	defer c.wmu.Unlock()
	c.conn.SetWriteDeadline(time.Now().Add(10 * time.Second))
	if c.r.Intn(2) == 0 {
		_, err := c.conn.Write(b)
		return err
	}
	for len(b) > 0 {
		k := 1 + c.r.Intn(len(b))
		if _, err := c.conn.Write(b[:k]); err != nil {
			return err
		}
		b = b[k:]
	}
	return nil
}

func (c *client) sendMsg(m msgPlan, seq, flags int) error {
	op := byte(opBin)
	if m.Text {
		op = opText
	}
	if m.Echo {
		flags |= flagEcho
	}
	if m.Go {
		flags |= flagGo
	}
	if m.Panic {
		flags |= flagPanic
	}
	return c.send(clientMessage(c.r, op, clientPayload(c.cid, seq, m.Size, flags, m.SlowMs), m.Frags))
}

func (c *client) sendControl(op byte, payload []byte) error {
	var key [4]byte
	k := c.r.Uint32()
	key[0], key[1], key[2], key[3] = byte(k), byte(k>>8), byte(k>>16), byte(k>>24)
	return c.send(appendFrame(nil, op, true, payload, key))
}

// readUntil feeds frames to wc until stop(wc) holds, the peer closes, or the deadline passes. Returns the read error, if any.
func (c *client) readUntil(wc *wireCheck, d time.Duration, stop func(*wireCheck) bool) error {
	deadline := time.Now().Add(d)
	for !stop(wc) {
		c.conn.SetReadDeadline(deadline)
		f, err := readFrame(c.br)
		if err != nil {
			return err
		}
		wc.feed(f)
	}
	return nil
}
