package main

// Server side of the harness: real nbhttp engines / net/http servers with the real websocket.Upgrader in every
// upgrade path, one Upgrader per connection whose callbacks append to that connection's event log.

import (
	"fmt"
	"net"
	"net/http"
	"strconv"
	"sync"
	"sync/atomic"
	"time"

	"github.com/lesismal/nbio"
	"github.com/lesismal/nbio/nbhttp"
	"github.com/lesismal/nbio/nbhttp/websocket"
)

type cellCfg struct {
	Path  string `json:"upgrade_path"` // poller | blocking-parser | own-loop | transfer | transfer-std | mixed
	Epoll string `json:"epoll"`        // LT | ET | ET+ONESHOT
	Async bool   `json:"BlockingModAsyncWrite"`
	Frame int    `json:"MaxWebsocketFramePayloadSize"`
	QMax  int    `json:"BlockingModSendQueueMaxSize,omitempty"` // 0: unbounded (the default)
}

func epollCfg(name string) (uint32, uint32) {
	switch name {
	case "ET":
		return nbio.EPOLLET, 0
	case "ET+ONESHOT":
		return nbio.EPOLLET, nbio.EPOLLONESHOT
	}
	return nbio.EPOLLLT, 0
}

// one event of a connection's callback log; appended under connState.mu, so the log is a linearisation of the
// callbacks' begin / end points that respects real time
type ev struct {
	K   byte // 'O' open begins, 'o' open ends, 'M' message callback begins, 'm' ends, 'C' close callback
	Seq int
}

func (e ev) String() string {
	switch e.K {
	case 'M', 'm':
		return fmt.Sprintf("%c%d", e.K, e.Seq)
	}
	return string(e.K)
}

type writerPlan struct {
	UseFrame bool  `json:"write_frame,omitempty"` // WriteFrame(type, true, true, data): one whole single-frame message per call
	Text     bool  `json:"text,omitempty"`
	Sizes    []int `json:"sizes"`
}

type msgPlan struct {
	Size   int  `json:"size"`
	Frags  int  `json:"fragments"`
	SlowMs int  `json:"handler_ms,omitempty"`
	Echo   bool `json:"echo,omitempty"`
	Go     bool `json:"starts_writers,omitempty"`
	Panic  bool `json:"handler_panics,omitempty"`
	Text   bool `json:"text,omitempty"`
}

type connPlan struct {
	Cid         int          `json:"connection"`
	Writers     []writerPlan `json:"writers"`
	WritersFrom string       `json:"writers_started_from"` // open | message
	OpenMs      int          `json:"open_handler_ms"`
	Msgs        []msgPlan    `json:"client_messages"`
	Pings       int          `json:"pings"`
	ReaderPause int          `json:"client_reader_pause_ms,omitempty"` // the client starts reading late: the server's queue / socket buffer fills
	Early       string       `json:"early,omitempty"`                  // handshake and first frame(s) in one write / break-offs around the hand-over, see early.go
	EarlyMore   int          `json:"early_more_frames,omitempty"`      // valid messages behind the first frame, same write
	MsgLimit    int          `json:"MessageLengthLimit,omitempty"`
	End         string       `json:"end"` // close-frame | abort | abort-in-handler | server-close-in-handler | engine-stop | engine-stop-in-handler
	Seed        int64        `json:"seed"`
}

type connState struct {
	plan connPlan
	sv   *server

	mu       sync.Mutex
	log      []ev
	inMsg    int
	inOpen   bool
	nclose   int
	handled  int
	badMsg   []string
	ws       *websocket.Conn
	queued   bool
	upErr    error
	wErrs    []string
	fullErrs map[rxMsg]bool // calls that returned ErrMessageSendQuqueIsFull (bounded queue only)
	started  bool
	wg       sync.WaitGroup
	openDone chan struct{}
	closeCh  chan struct{}
	handledC chan struct{}
	holdIn   chan struct{}
	hold     chan struct{}
}

func newConnState(sv *server, p connPlan) *connState {
	return &connState{plan: p, sv: sv, fullErrs: map[rxMsg]bool{}, openDone: make(chan struct{}), closeCh: make(chan struct{}, 16),
		handledC: make(chan struct{}, 1024), holdIn: make(chan struct{}, 4), hold: make(chan struct{})}
}

func (cs *connState) add(k byte, seq int) {
	cs.log = append(cs.log, ev{k, seq})
}

func (cs *connState) startWriters(c *websocket.Conn) {
	cs.mu.Lock()
	if cs.started {
		cs.mu.Unlock()
		return
	}
	cs.started = true
	cs.mu.Unlock()
	for w, wp := range cs.plan.Writers {
		cs.wg.Add(1)
		go func(w int, wp writerPlan) {
			defer cs.wg.Done()
			mt := websocket.BinaryMessage
			if wp.Text {
				mt = websocket.TextMessage
			}
			for seq, size := range wp.Sizes {
				p := serverPayload(cs.plan.Cid, w, seq, size)
				var err error
				if wp.UseFrame {
					err = c.WriteFrame(mt, true, true, p)
				} else {
					err = c.WriteMessage(mt, p)
				}
				if err == websocket.ErrMessageSendQuqueIsFull && cs.sv.cfg.QMax > 0 {
					// a bounded queue may refuse a call; the caller goes on with its next message
					cs.mu.Lock()
					cs.fullErrs[rxMsg{w, seq}] = true
					cs.mu.Unlock()
					time.Sleep(time.Duration(50+seq%7*40) * time.Microsecond)
					continue
				}
				if err != nil {
					cs.mu.Lock()
					cs.wErrs = append(cs.wErrs, fmt.Sprintf("writer %d message %d (%d bytes): %v", w, seq, len(p), err))
					cs.mu.Unlock()
					return
				}
				if cs.sv.cfg.QMax > 0 {
					time.Sleep(time.Duration(20+seq%5*30) * time.Microsecond)
				}
			}
		}(w, wp)
	}
}

func (cs *connState) onOpen(c *websocket.Conn) {
	cs.mu.Lock()
	cs.ws = c
	cs.queued = c.IsAsyncWrite()
	cs.inOpen = true
	cs.add('O', 0)
	cs.mu.Unlock()
	if cs.plan.WritersFrom == "open" {
		cs.startWriters(c)
	}
	if cs.plan.OpenMs > 0 {
		time.Sleep(time.Duration(cs.plan.OpenMs) * time.Millisecond)
	}
	cs.mu.Lock()
	cs.inOpen = false
	cs.add('o', 0)
	cs.mu.Unlock()
	close(cs.openDone)
}

func (cs *connState) onMessage(c *websocket.Conn, mt websocket.MessageType, data []byte) {
	seq, flags, slow, ok := parseClientPayload(cs.plan.Cid, data)
	cs.mu.Lock()
	if !ok {
		cs.badMsg = append(cs.badMsg, fmt.Sprintf("%d bytes starting %q", len(data), trunc(data, 24)))
		seq = -1
	}
	cs.inMsg++
	cs.add('M', seq)
	cs.mu.Unlock()
	// the end of the callback is logged however it ends: a panicking callback counts as entered and ended
	defer func() {
		cs.mu.Lock()
		cs.inMsg--
		cs.handled++
		cs.add('m', seq)
		cs.mu.Unlock()
		select {
		case cs.handledC <- struct{}{}:
		default:
		}
	}()
	if ok {
		if flags&flagGo != 0 {
			cs.startWriters(c)
		}
		if slow > 0 {
			time.Sleep(time.Duration(slow) * time.Millisecond)
		}
		if flags&flagEcho != 0 {
			p := serverPayload(cs.plan.Cid, echoWriter, seq, 2*cs.sv.cfg.Frame+3)
			if err := c.WriteMessage(websocket.BinaryMessage, p); err != nil {
				cs.mu.Lock()
				cs.wErrs = append(cs.wErrs, fmt.Sprintf("echo of message %d: %v", seq, err))
				cs.mu.Unlock()
			}
		}
		if flags&flagHold != 0 {
			cs.holdIn <- struct{}{}
			select {
			case <-cs.hold:
			case <-time.After(8 * time.Second):
			}
		}
		if flags&flagPanic != 0 {
			panic(fmt.Sprintf("harness: the handler of client message %d of connection %d panics (recovered per job by the connection's executor)", seq, cs.plan.Cid))
		}
	}
}

func (cs *connState) onClose(err error) {
	cs.mu.Lock()
	cs.nclose++
	cs.add('C', 0)
	cs.mu.Unlock()
	select {
	case cs.closeCh <- struct{}{}:
	default:
	}
}

func trunc(b []byte, n int) []byte {
	if len(b) > n {
		return b[:n]
	}
	return b
}

type server struct {
	cfg   cellCfg
	eng   *nbhttp.Engine
	std   *http.Server
	stdLn net.Listener
	addr  string
	conns sync.Map // cid -> *connState
	upN   int32
}

func (sv *server) upgrader(cs *connState) *websocket.Upgrader {
	u := websocket.NewUpgrader()
	u.Engine = sv.eng
	u.CheckOrigin = func(*http.Request) bool { return true }
	u.BlockingModAsyncWrite = sv.cfg.Async
	u.BlockingModAsyncCloseDelay = 20 * time.Millisecond
	u.BlockingModSendQueueMaxSize = uint16(sv.cfg.QMax)
	if cs.plan.MsgLimit > 0 {
		u.MessageLengthLimit = cs.plan.MsgLimit
	}
	u.BlockingModTrasferConnToPoller = sv.cfg.Path == "transfer" || sv.cfg.Path == "transfer-std"
	u.OnOpen(cs.onOpen)
	u.OnMessage(cs.onMessage)
	u.OnClose(func(c *websocket.Conn, err error) { cs.onClose(err) })
	return u
}

func (sv *server) handle(w http.ResponseWriter, r *http.Request) {
	cid, _ := strconv.Atoi(r.URL.Query().Get("c"))
	v, ok := sv.conns.Load(cid)
	if !ok {
		http.Error(w, "unknown connection", 400)
		return
	}
	cs := v.(*connState)
	atomic.AddInt32(&sv.upN, 1)
	if _, err := sv.upgrader(cs).Upgrade(w, r, nil); err != nil {
		cs.mu.Lock()
		cs.upErr = err
		cs.mu.Unlock()
	}
}

func startServer(cfg cellCfg) (*server, error) {
	sv := &server{cfg: cfg}
	em, os1 := epollCfg(cfg.Epoll)
	mux := http.NewServeMux()
	mux.HandleFunc("/ws", sv.handle)
	conf := nbhttp.Config{Network: "tcp", NPoller: 2, EpollMod: em, EPOLLONESHOT: os1, Handler: mux,
		MaxWebsocketFramePayloadSize: cfg.Frame}
	switch cfg.Path {
	case "poller":
		conf.IOMod = nbhttp.IOModNonBlocking
		conf.Addrs = []string{"127.0.0.1:0"}
	case "blocking-parser", "transfer":
		conf.IOMod = nbhttp.IOModBlocking
		conf.Addrs = []string{"127.0.0.1:0"}
	case "mixed":
		conf.IOMod = nbhttp.IOModMixed
		conf.MaxBlockingOnline = 2
		conf.Addrs = []string{"127.0.0.1:0"}
	case "own-loop", "transfer-std":
		// net/http serves the handshake; the engine only lends its allocator / executor (own-loop) or its pollers (transfer-std)
	default:
		return nil, fmt.Errorf("unknown path %q", cfg.Path)
	}
	sv.eng = nbhttp.NewEngine(conf)
	if cfg.Path != "own-loop" {
		if err := sv.eng.Start(); err != nil {
			return nil, err
		}
	}
	if len(conf.Addrs) > 0 {
		sv.addr = sv.eng.Addrs[0]
		return sv, nil
	}
	ln, err := net.Listen("tcp", "127.0.0.1:0")
	if err != nil {
		return nil, err
	}
	sv.stdLn = ln
	sv.addr = ln.Addr().String()
	sv.std = &http.Server{Handler: mux}
	go sv.std.Serve(ln)
	return sv, nil
}

// stop: Engine.Stop under a watchdog (termination of Stop is property C18's business; here it only must not block the harness)
func (sv *server) stop() bool {
	done := make(chan struct{})
	go func() {
		if sv.std != nil {
			sv.std.Close()
		}
		if sv.cfg.Path != "own-loop" {
			sv.eng.Stop()
		}
		close(done)
	}()
	select {
	case <-done:
		return true
	case <-time.After(15 * time.Second):
		return false
	}
}
