package main

// Part 15e: the size limits END TO END over real upgrades.  Real nbhttp engines (and net/http servers) on loopback with
// the real websocket.Upgrader in every upgrade path that can be reached: poller-driven plain and TLS (llib tls over
// nbio.Conn), blocking plain and TLS with and without transfer to the poller, IOModMixed (blocking and poller part),
// net/http plain and TLS with the Conn's own read loop, net/http plain transferred to the poller.
// The serving engine is configured with a small ReadLimit; the Upgrader is a plain NewUpgrader() whose Engine is left at
// its default, or has u.Engine set to the serving engine.  Raw clients (crypto/tls on the TLS listeners):
//   trickle   an incomplete frame larger than the read limit (within the message limit), in small writes
//   oneframe  a frame that declares one byte more than MessageLengthLimit (header and a few bytes only)
//   fragments two fragments whose sum exceeds the limit
//   bomb      a small compressed frame that inflates far beyond the limit
//   valid     a message within all limits (the path works at all)
// Oracle (Property C15): trickle -> the endpoint fails the connection and never holds more unparsed input than
// ReadLimit + one read; oneframe/fragments/bomb -> close frame with code 1009, connection closed, nothing above the
// limit reaches OnMessage; valid -> delivered.
// Which ReadLimit: a connection served by an nbhttp engine is bounded by THAT engine's ReadLimit, whatever the
// Upgrader's Engine field says; behind net/http (the engine serves nothing) it is the Upgrader's engine.

import (
	"bufio"
	"bytes"
	"crypto/ecdsa"
	"crypto/elliptic"
	crand "crypto/rand"
	stls "crypto/tls"
	"crypto/x509"
	"crypto/x509/pkix"
	"fmt"
	"io"
	"log"
	"math/big"
	"net"
	"net/http"
	"strconv"
	"strings"
	"sync"
	"time"

	"github.com/lesismal/nbio/nbhttp"
	"github.com/lesismal/nbio/nbhttp/websocket"
)

const (
	e2eReadLimit = 4096
	e2eReadBuf   = 2048
	e2eSmallML   = 3000   // message limit of the oneframe / fragments / bomb / valid connections
	e2eBigML     = 200000 // message limit of the trickle connection: the frame is within it
	e2eTrickle   = 60000  // declared length of the trickled frame
	e2eSent      = 48000  // how much of it the client tries to send
	// unparsed input a correct endpoint can hold: the limit plus one read (a TLS record may carry 16 KiB)
	e2eCacheBound = e2eReadLimit + 17*1024
)

type e2eCell struct {
	Path    string `json:"upgrade_path"`
	UEngine bool   `json:"upgrader_engine_set"` // u.Engine = serving engine; false: left at websocket.DefaultEngine
}

var e2ePaths = []string{"nb-plain", "nb-tls", "blocking-plain", "blocking-tls", "blocking-plain-transfer", "blocking-tls-transfer",
	"mixed-plain", "mixed-tls", "std-plain", "std-tls", "std-plain-transfer"}

type e2eConn struct {
	mu        sync.Mutex
	c         *websocket.Conn
	msgs      []int
	maxCached int
	blocking  bool
	upErr     error
}

func (r *e2eConn) sample() {
	r.mu.Lock()
	c := r.c
	r.mu.Unlock()
	if c == nil {
		return
	}
	st := websocket.VerifGetState(c)
	r.mu.Lock()
	if st.Cached > r.maxCached {
		r.maxCached = st.Cached
	}
	r.mu.Unlock()
}

type e2eServer struct {
	cell    e2eCell
	eng     *nbhttp.Engine
	std     *http.Server
	addr    string
	tls     bool
	started bool
	conns   sync.Map // cid -> *e2eConn
	limit   sync.Map // cid -> MessageLengthLimit
}

var (
	e2eOnce    sync.Once
	e2eLibTLS  = nbhttp.VerifServerTLS(nil, nil)
	e2eStdCert stls.Certificate
)

func e2eInitTLS() {
	e2eOnce.Do(func() {
		key, err := ecdsa.GenerateKey(elliptic.P256(), crand.Reader)
		if err != nil {
			panic(err)
		}
		tmpl := &x509.Certificate{SerialNumber: big.NewInt(15), Subject: pkix.Name{CommonName: "verif-c15"},
			NotBefore: time.Now().Add(-time.Hour), NotAfter: time.Now().Add(24 * time.Hour),
			KeyUsage: x509.KeyUsageDigitalSignature, ExtKeyUsage: []x509.ExtKeyUsage{x509.ExtKeyUsageServerAuth},
			BasicConstraintsValid: true, IPAddresses: []net.IP{net.IPv4(127, 0, 0, 1)}, DNSNames: []string{"localhost"}}
		der, err := x509.CreateCertificate(crand.Reader, tmpl, tmpl, &key.PublicKey, key)
		if err != nil {
			panic(err)
		}
		e2eLibTLS = nbhttp.VerifServerTLS(der, key)
		e2eStdCert = stls.Certificate{Certificate: [][]byte{der}, PrivateKey: key}
	})
}

func (sv *e2eServer) handle(w http.ResponseWriter, r *http.Request) {
	cid, _ := strconv.Atoi(r.URL.Query().Get("c"))
	v, ok := sv.conns.Load(cid)
	if !ok {
		http.Error(w, "unknown connection", 400)
		return
	}
	rec := v.(*e2eConn)
	ml := e2eSmallML
	if l, ok := sv.limit.Load(cid); ok {
		ml = l.(int)
	}
	u := websocket.NewUpgrader() // Engine: websocket.DefaultEngine
	if sv.cell.UEngine {
		u.Engine = sv.eng
	}
	u.CheckOrigin = func(*http.Request) bool { return true }
	u.MessageLengthLimit = ml
	u.EnableCompression(true)
	u.BlockingModReadBufferSize = e2eReadBuf
	u.BlockingModAsyncCloseDelay = 20 * time.Millisecond
	u.BlockingModTrasferConnToPoller = strings.HasSuffix(sv.cell.Path, "-transfer")
	u.OnOpen(func(c *websocket.Conn) {
		rec.mu.Lock()
		rec.c = c
		rec.blocking = c.IsBlockingMod()
		rec.mu.Unlock()
	})
	u.OnMessage(func(c *websocket.Conn, mt websocket.MessageType, data []byte) {
		rec.mu.Lock()
		rec.msgs = append(rec.msgs, len(data))
		rec.mu.Unlock()
	})
	if _, err := u.Upgrade(w, r, nil); err != nil {
		rec.mu.Lock()
		rec.upErr = err
		rec.mu.Unlock()
	}
}

func startE2E(cell e2eCell) (*e2eServer, error) {
	e2eInitTLS()
	sv := &e2eServer{cell: cell, tls: strings.Contains(cell.Path, "-tls")}
	mux := http.NewServeMux()
	mux.HandleFunc("/ws", sv.handle)
	conf := nbhttp.Config{Network: "tcp", NPoller: 2, Handler: mux, ReadLimit: e2eReadLimit, ReadBufferSize: e2eReadBuf,
		BlockingReadBufferSize: e2eReadBuf, MaxWebsocketFramePayloadSize: 512, TLSConfig: e2eLibTLS}
	served := true
	switch {
	case strings.HasPrefix(cell.Path, "nb-"):
		conf.IOMod = nbhttp.IOModNonBlocking
	case strings.HasPrefix(cell.Path, "blocking-"):
		conf.IOMod = nbhttp.IOModBlocking
	case strings.HasPrefix(cell.Path, "mixed-"):
		conf.IOMod = nbhttp.IOModMixed
		conf.MaxBlockingOnline = 2
	default:
		served = false
	}
	if served {
		if sv.tls {
			conf.AddrsTLS = []string{"127.0.0.1:0"}
		} else {
			conf.Addrs = []string{"127.0.0.1:0"}
		}
	}
	sv.eng = nbhttp.NewEngine(conf)
	if served || strings.HasSuffix(cell.Path, "-transfer") {
		if err := sv.eng.Start(); err != nil {
			return nil, err
		}
		sv.started = true
	}
	if served {
		if sv.tls {
			sv.addr = sv.eng.AddrsTLS[0]
		} else {
			sv.addr = sv.eng.Addrs[0]
		}
		return sv, nil
	}
	ln, err := net.Listen("tcp", "127.0.0.1:0")
	if err != nil {
		return nil, err
	}
	sv.addr = ln.Addr().String()
	if sv.tls {
		ln = stls.NewListener(ln, &stls.Config{Certificates: []stls.Certificate{e2eStdCert}})
	}
	sv.std = &http.Server{Handler: mux}
	if !verbose {
		sv.std.ErrorLog = log.New(io.Discard, "", 0)
	}
	go sv.std.Serve(ln)
	return sv, nil
}

func (sv *e2eServer) stop() {
	done := make(chan struct{})
	go func() {
		if sv.std != nil {
			sv.std.Close()
		}
		if sv.started {
			sv.eng.Stop()
		}
		close(done)
	}()
	select {
	case <-done:
	case <-time.After(10 * time.Second):
	}
}

// ---- the raw client
type e2eClient struct {
	conn net.Conn
	br   *bufio.Reader
}

func e2eDial(sv *e2eServer, cid int, deflate bool) (*e2eClient, error) {
	nc, err := net.DialTimeout("tcp", sv.addr, 5*time.Second)
	if err != nil {
		return nil, err
	}
	var conn net.Conn = nc
	nc.SetDeadline(time.Now().Add(10 * time.Second))
	if sv.tls {
		tc := stls.Client(nc, &stls.Config{InsecureSkipVerify: true})
		if err := tc.Handshake(); err != nil {
			nc.Close()
			return nil, fmt.Errorf("TLS handshake: %v", err)
		}
		conn = tc
	}
	ext := ""
	if deflate {
		ext = "Sec-WebSocket-Extensions: permessage-deflate\r\n"
	}
	req := fmt.Sprintf("GET /ws?c=%d HTTP/1.1\r\nHost: %s\r\nUpgrade: websocket\r\nConnection: Upgrade\r\n"+
		"Sec-WebSocket-Key: dGhlIHNhbXBsZSBub25jZQ==\r\nSec-WebSocket-Version: 13\r\n%s\r\n", cid, sv.addr, ext)
	if _, err = conn.Write([]byte(req)); err != nil {
		conn.Close()
		return nil, err
	}
	br := bufio.NewReaderSize(conn, 1<<16)
	status, err := br.ReadString('\n')
	if err != nil || !strings.Contains(status, " 101 ") {
		conn.Close()
		return nil, fmt.Errorf("handshake answer %q, %v", strings.TrimSpace(status), err)
	}
	for {
		line, err := br.ReadString('\n')
		if err != nil {
			conn.Close()
			return nil, err
		}
		if line == "\r\n" {
			break
		}
	}
	nc.SetDeadline(time.Time{})
	return &e2eClient{conn: conn, br: br}, nil
}

// read what the server sends until it closes the connection (or the deadline passes): the close code seen, whether closed
func (c *e2eClient) drain(wait time.Duration) (closeCode int, closedByPeer bool) {
	c.conn.SetReadDeadline(time.Now().Add(wait))
	var buf []byte
	tmp := make([]byte, 4096)
	for {
		n, err := c.br.Read(tmp)
		buf = append(buf, tmp[:n]...)
		if err != nil {
			ne, isNet := err.(net.Error)
			closedByPeer = !(isNet && ne.Timeout())
			break
		}
	}
	for len(buf) > 0 {
		f, used, ok := decodeOne(buf)
		if !ok {
			break
		}
		if f.Op == 8 && len(f.Payload) >= 2 {
			closeCode = int(f.Payload[0])<<8 | int(f.Payload[1])
		}
		buf = buf[used:]
	}
	return
}

type e2eOutcome struct {
	Cell     e2eCell `json:"cell"`
	Scenario string  `json:"scenario"`
	Kind     string  `json:"connection_kind"` // blocking / poller, as the server-side Conn reports
	Sig      string  `json:"-"`
	What     string  `json:"what"`
	Sent     int     `json:"bytes_accepted_by_the_socket"`
	Cached   int     `json:"max_unparsed_bytes_observed"`
	Code     int     `json:"close_code_received"`
	Closed   bool    `json:"closed_by_server"`
	Infra    string  `json:"-"`
}

func maskedFrame(fin bool, rsv1 bool, op int, payload []byte, declare int) []byte {
	f := rawFrame{Fin: fin, R1: rsv1, Op: op, Masked: true, Key: []byte{0x37, 0xfa, 0x21, 0x3d}, Payload: payload}
	if declare > 0 {
		f.Declare = uint64(declare)
	}
	return f.encode()
}

func e2eScenario(sv *e2eServer, cid int, name string) (out e2eOutcome) {
	out = e2eOutcome{Cell: sv.cell, Scenario: name}
	rec := &e2eConn{}
	sv.conns.Store(cid, rec)
	ml := e2eSmallML
	if name == "trickle" {
		ml = e2eBigML
	}
	sv.limit.Store(cid, ml)
	cl, err := e2eDial(sv, cid, name == "bomb")
	if err != nil {
		out.Infra = "dial/handshake: " + err.Error()
		return
	}
	defer cl.conn.Close()
	kind := func() string {
		rec.mu.Lock()
		defer rec.mu.Unlock()
		if rec.c == nil {
			return "unknown"
		}
		if rec.blocking {
			return "blocking"
		}
		return "poller"
	}
	cl.conn.SetWriteDeadline(time.Now().Add(20 * time.Second))
	switch name {
	case "trickle":
		hdr := maskedFrame(true, false, 2, nil, e2eTrickle)
		if _, err := cl.conn.Write(hdr); err != nil {
			out.Infra = "write: " + err.Error()
			return
		}
		piece := bytes.Repeat([]byte{0x55}, 1000)
		for out.Sent < e2eSent {
			if _, err := cl.conn.Write(piece); err != nil {
				break // the server went away: what is wanted
			}
			out.Sent += len(piece)
			time.Sleep(700 * time.Microsecond)
			rec.sample()
		}
		out.Code, out.Closed = cl.drain(1200 * time.Millisecond)
		rec.sample()
		rec.mu.Lock()
		out.Cached = rec.maxCached
		rec.mu.Unlock()
		out.Kind = kind()
		// which limit applies: the serving engine's; behind net/http the Upgrader's engine (DefaultEngine: 64 MiB, nothing to see)
		if strings.HasPrefix(sv.cell.Path, "std-") && !sv.cell.UEngine {
			return
		}
		if out.Cached > e2eCacheBound {
			out.Sig = "e2e-read-limit-not-applied"
			out.What = fmt.Sprintf("serving engine ReadLimit=%d: an incomplete frame of %d bytes was trickled in 1000-byte writes; %d unparsed bytes were seen in the Conn's cache (limit + one read <= %d); %d bytes were taken, connection closed by the server: %v",
				e2eReadLimit, e2eTrickle, out.Cached, e2eCacheBound, out.Sent, out.Closed)
			return
		}
		if !out.Closed && out.Sent >= e2eSent {
			out.Sig = "e2e-read-limit-hit-connection-left-open"
			out.What = fmt.Sprintf("serving engine ReadLimit=%d: an incomplete frame of %d bytes was trickled in 1000-byte writes; the cache stayed within the limit (max %d bytes seen) but the connection was not failed: all %d bytes were taken and it is still open",
				e2eReadLimit, e2eTrickle, out.Cached, out.Sent)
		}
		return
	case "oneframe":
		cl.conn.Write(maskedFrame(true, false, 2, []byte("0123456789"), e2eSmallML+1))
	case "fragments":
		cl.conn.Write(maskedFrame(false, false, 2, bytes.Repeat([]byte("a"), 2000), 0))
		time.Sleep(2 * time.Millisecond)
		cl.conn.Write(maskedFrame(true, false, 0, bytes.Repeat([]byte("b"), 1500), 0))
	case "bomb":
		z := deflateSync(bytes.Repeat([]byte{0}, 60*e2eSmallML), 6, false)
		cl.conn.Write(maskedFrame(true, true, 2, z, 0))
	case "valid":
		cl.conn.Write(maskedFrame(true, false, 1, bytes.Repeat([]byte("v"), 1000), 0))
		deadline := time.Now().Add(3 * time.Second)
		for time.Now().Before(deadline) {
			rec.mu.Lock()
			n := len(rec.msgs)
			rec.mu.Unlock()
			if n > 0 {
				break
			}
			time.Sleep(time.Millisecond)
		}
		out.Kind = kind()
		rec.mu.Lock()
		defer rec.mu.Unlock()
		if len(rec.msgs) != 1 || rec.msgs[0] != 1000 {
			out.Sig = "e2e-valid-message-not-delivered"
			out.What = fmt.Sprintf("a 1000-byte text message within every limit was not delivered (OnMessage calls: %v, upgrade error: %v)", rec.msgs, rec.upErr)
		}
		return
	}
	out.Code, out.Closed = cl.drain(1200 * time.Millisecond)
	out.Kind = kind()
	rec.mu.Lock()
	defer rec.mu.Unlock()
	for _, l := range rec.msgs {
		if l > e2eSmallML {
			out.Sig = "e2e-oversize-message-delivered"
			out.What = fmt.Sprintf("MessageLengthLimit=%d: a message of %d bytes reached OnMessage", e2eSmallML, l)
			return
		}
	}
	if !out.Closed {
		out.Sig = "e2e-oversize-connection-left-open"
		out.What = fmt.Sprintf("MessageLengthLimit=%d, scenario %s: the connection was not failed, it is still open (close code seen: %d)", e2eSmallML, name, out.Code)
		return
	}
	if out.Code != 1009 {
		out.Sig = "e2e-1009-not-received"
		out.What = fmt.Sprintf("MessageLengthLimit=%d, scenario %s: the connection was closed without a close frame carrying 1009 (code seen: %d)", e2eSmallML, name, out.Code)
	}
	return
}

var e2eScenarios = []string{"valid", "oneframe", "fragments", "bomb", "trickle", "valid"}

func runE2ECell(cell e2eCell) (outs []e2eOutcome, infra string) {
	sv, err := startE2E(cell)
	if err != nil {
		return nil, "server start: " + err.Error()
	}
	defer sv.stop()
	outs = make([]e2eOutcome, len(e2eScenarios))
	if strings.HasPrefix(cell.Path, "mixed-") {
		// the first MaxBlockingOnline connections are served by blocking goroutines, the following by the poller:
		// one after the other, so that both kinds see every scenario over the cells (two connections are kept open first
		// when UEngine is set, so that the scenarios run on the poller part there)
		var hold []*e2eClient
		if cell.UEngine {
			for i := 0; i < 2; i++ {
				sv.conns.Store(900+i, &e2eConn{})
				if c, err := e2eDial(sv, 900+i, false); err == nil {
					hold = append(hold, c)
				}
			}
		}
		for i, sc := range e2eScenarios {
			outs[i] = e2eScenario(sv, i, sc)
		}
		for _, c := range hold {
			c.conn.Close()
		}
		return outs, ""
	}
	var wg sync.WaitGroup
	for i, sc := range e2eScenarios {
		wg.Add(1)
		go func(i int, sc string) {
			defer wg.Done()
			outs[i] = e2eScenario(sv, i, sc)
		}(i, sc)
	}
	wg.Wait()
	return outs, ""
}

func part15e() {
	var cells []e2eCell
	for _, p := range e2ePaths {
		if only != "" && !strings.HasPrefix(p, only) {
			continue // -only <path prefix>: replay of single cells
		}
		for _, ue := range []bool{false, true} {
			if !ue && strings.HasSuffix(p, "-transfer") {
				continue // transferring needs a STARTED engine in u.Engine: with the default engine Upgrade cannot work at all
			}
			cells = append(cells, e2eCell{p, ue})
		}
	}
	type cellRes struct {
		outs  []e2eOutcome
		infra string
	}
	results := make([]cellRes, len(cells))
	runAll := func(idx []int) {
		sem := make(chan struct{}, 8)
		var wg sync.WaitGroup
		for _, i := range idx {
			wg.Add(1)
			sem <- struct{}{}
			go func(i int) {
				defer wg.Done()
				defer func() { <-sem }()
				o, inf := runE2ECell(cells[i])
				results[i] = cellRes{o, inf}
			}(i)
		}
		wg.Wait()
	}
	all := make([]int, len(cells))
	for i := range all {
		all[i] = i
	}
	runAll(all)
	// real sockets: whatever looks wrong is run a second time before it is reported
	first := make([]cellRes, len(cells))
	copy(first, results)
	var again []int
	for i, r := range results {
		bad := r.infra != ""
		for _, o := range r.outs {
			if o.Sig != "" || o.Infra != "" {
				bad = true
			}
		}
		if bad {
			again = append(again, i)
		}
	}
	if len(again) > 0 {
		runAll(again)
	}
	for i, cell := range cells {
		r := results[i]
		if r.infra != "" && first[i].infra != "" {
			finding("oracle", "C15", "e2e-infrastructure", fmt.Sprintf("%s: %s", cell.Path, r.infra), cell)
			continue
		}
		for j, o := range r.outs {
			rep.Case(fmt.Sprintf("15e/%s/uengine=%v/%s", cell.Path, cell.UEngine, o.Scenario), true)
			rep.Stat("15e:" + o.Scenario)
			f := first[i].outs
			if o.Infra != "" && j < len(f) && f[j].Infra != "" {
				finding("oracle", "C15", "e2e-infrastructure", fmt.Sprintf("%s %s: %s", cell.Path, o.Scenario, o.Infra), cell)
				continue
			}
			if o.Sig != "" && j < len(f) && f[j].Sig == o.Sig {
				ue := "upgrader-engine-default"
				if cell.UEngine {
					ue = "upgrader-engine-set"
				}
				sig := o.Sig + "/" + cell.Path
				if strings.HasPrefix(cell.Path, "mixed-") {
					sig += "/" + o.Kind
				}
				finding("oracle", "C15", sig,
					fmt.Sprintf("upgrade path %s (%s connection), %s: %s", cell.Path, o.Kind, ue, o.What),
					map[string]interface{}{"outcome": o, "serving_engine": map[string]int{"ReadLimit": e2eReadLimit, "ReadBufferSize": e2eReadBuf},
						"how_to_run": "build/bin/wscodec -parts 15e (every cell starts its own server on loopback; a failing cell is run twice before it is reported)"})
			}
		}
	}
	rep.Extra["part15e"] = fmt.Sprintf("%d upgrade paths x upgrader engine default/set x %d connections", len(e2ePaths), len(e2eScenarios))
	_ = io.EOF
}
