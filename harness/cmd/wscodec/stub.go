package main

func part13(n int) {}
func part15(n int) {}
func genWsV() string { return "" }
