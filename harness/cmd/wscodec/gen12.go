package main

// Part 12: message round trip through the real sender and the real receiver.

import (
	"bytes"
	"compress/flate"
	"fmt"
	"io"

	"github.com/lesismal/nbio/nbhttp/websocket"
	"verifharness/hx"
)

type call struct {
	T     int    `json:"type"`
	P     []byte `json:"-"`
	Class string `json:"class"`
	Len   int    `json:"len"`
	Hex   string `json:"payload_hex,omitempty"`
}

func (c call) forReplay() call {
	c.Len = len(c.P)
	if len(c.P) <= 300 {
		c.Hex = hx.Hex(c.P)
	}
	return c
}

type replay12 struct {
	Seed     int64  `json:"seed"`
	Case     int    `json:"case"`
	Sender   cfg    `json:"sender"`
	Receiver cfg    `json:"receiver"`
	Calls    []call `json:"calls"`
	Spliced  string `json:"spliced_control_frames,omitempty"`
	SegKind  string `json:"segmentation,omitempty"`
	Cuts     string `json:"cuts,omitempty"`
	WireLen  int    `json:"wire_len"`
	WireHex  string `json:"wire_hex,omitempty"`
	HowToRun string `json:"how_to_run"`
}

func contentFor(t int, n int) ([]byte, string) {
	if t == 1 {
		return utf8Text(n), "utf8"
	}
	switch rng.Intn(3) {
	case 0:
		return randBytes(n), "random"
	case 1:
		return compressible(n), "compressible"
	}
	return bytes.Repeat([]byte{byte(rng.Intn(256))}, n), "constant"
}

func genLength(flimit int, caseNo int) int {
	classes := []int{0, 1, 2, 124, 125, 126, 127, 128, 65535, 65536, 65537,
		flimit - 1, flimit, flimit + 1, 2*flimit - 1, 2 * flimit, 2*flimit + 1, 3*flimit + 7}
	switch r := rng.Intn(10); {
	case r < 6:
		l := classes[rng.Intn(len(classes))]
		if l < 0 {
			l = 0
		}
		return l
	case r < 9:
		return rng.Intn(300)
	default:
		return rng.Intn(70000)
	}
}

func inflateAll(payload []byte) ([]byte, error) {
	r := flate.NewReader(io.MultiReader(bytes.NewReader(payload), bytes.NewReader([]byte(websocket.VerifFlateTail()))))
	return io.ReadAll(r)
}

func part12(n int) {
	caseNo := 0
	wireNo := 0
	start := rep.Cases
	for rep.Cases-start < n && !tooMany() {
		wireNo++
		senderClient := rng.Intn(2) == 0
		comp := rng.Intn(2) == 0
		level := pick(-2, -1, 0, 1, 2, 3, 4, 5, 6, 7, 8, 9)
		flimit := pick(1, 2, 3, 7, 125, 126, 127, 1000, 4096, 32768, 65535, 65536, 1<<20)
		hooks := rng.Intn(4) != 0
		decomp := pick(1, 1, 2, 0)
		big := false
		if (thorough && wireNo%40 == 0) || (!thorough && wireNo == 7) {
			big = true
			flimit = pick(32768, 65536, 1<<20, 1<<22)
		}
		scfg := cfg{Client: senderClient, EnComp: comp, WComp: comp, FrameLimit: flimit, Level: level, Decomp: 1, Hooks: hooks,
			Alloc: allocKinds[rng.Intn(len(allocKinds))]}
		rcfg := cfg{Client: !senderClient, EnComp: comp, WComp: comp, FrameLimit: flimit, Level: level, Decomp: decomp, Hooks: true,
			Alloc: allocKinds[rng.Intn(len(allocKinds))]}
		// the calls
		var calls []call
		nmsg := 1 + rng.Intn(4)
		maxLen := 0
		for i := 0; i < nmsg; i++ {
			if rng.Intn(4) == 0 {
				t := pick(9, 9, 10)
				calls = append(calls, call{T: t, P: randBytes(pick(0, 1, 5, 124, 125)), Class: "control"})
			}
			t := 1 + rng.Intn(2)
			l := genLength(flimit, caseNo)
			if !big && l > 200000 {
				l = 65538 + rng.Intn(130000)
			}
			for l > 300 && l/flimit*l > 3000000 {
				l /= 2 // (number of frames) x (message length) is what the model's list appends cost
			}
			if big && i == 0 {
				l = (1 << 20) + rng.Intn(3<<20)
			}
			p, cl := contentFor(t, l)
			calls = append(calls, call{T: t, P: p, Class: cl})
			if l > maxLen {
				maxLen = l
			}
		}
		if rng.Intn(5) == 0 {
			calls = append(calls, call{T: 9, P: randBytes(rng.Intn(126)), Class: "control"})
		}
		// receiver limits: unlimited, exactly the longest message, or comfortably above
		rcfg.Limit = pick(0, 0, maxLen, maxLen+1, 2*maxLen+100)
		if comp && rcfg.Limit != 0 {
			// the limit also applies to the compressed payload, which may be a few bytes longer than the message
			rcfg.Limit = 2*maxLen + 100
		}
		if rcfg.Limit == 0 && maxLen == 0 {
			rcfg.Limit = pick(0, 1)
		}
		rcfg.ReadLimit = pick(0, 1<<30)
		rp := replay12{Seed: rep.Seed, Case: wireNo, Sender: scfg, Receiver: rcfg,
			HowToRun: "build/bin/wscodec -parts 12 -seed <seed> -n <n> [-model build/ocaml/ws/model]; the case is wire number <case> of that run"}
		for _, c := range calls {
			rp.Calls = append(rp.Calls, c.forReplay())
		}

		// ---- sender
		sep := newEndpoint(scfg, func(max int) int { return 1 + rng.Intn(max) })
		var sres []opRes
		sendOK := true
		perCall := make([][]rawFrame, len(calls))
		for i, c := range calls {
			w0 := len(sep.writes)
			r, err := sep.write(c.T, c.P)
			sres = append(sres, r)
			if err != nil {
				sendOK = false
				finding("oracle", "C12", "send-error", fmt.Sprintf("WriteMessage(type %d, %d bytes) failed: %v", c.T, len(c.P), err), rp)
				break
			}
			for _, w := range sep.writes[w0:] {
				f, used, ok := decodeOne(w)
				if !ok || used != len(w) {
					sendOK = false
					finding("oracle", "C12", "wire-not-one-frame-per-write", fmt.Sprintf("call %d: a conn.Write of %d bytes is not exactly one frame", i, len(w)), rp)
					break
				}
				perCall[i] = append(perCall[i], f)
			}
		}
		if !big && modelable(scfg) && (thorough || maxLen <= 70000 || wireNo%3 == 0) {
			if d := compareModel(model, sep, sres); d != "" {
				finding("mismatch", "C12", "ws-sender-model", "sender: "+d, rp)
			}
		}
		if !sendOK {
			rep.Case("send-failed", false)
			continue
		}
		// ---- the wire alone, with an independent decoder
		if checkSenderWire(scfg, calls, perCall, rp) {
			// the wire itself is not RFC 6455: what the receiver makes of it is not a round-trip question
			rep.Case("sender-wire-broken", false)
			rep.Stat("12:wire:broken-by-sender")
			continue
		}
		var wire []byte
		for _, w := range sep.writes {
			wire = append(wire, w...)
		}
		// ---- optionally splice control frames between the frames (an intermediary / another implementation may)
		var wantPongs [][]byte
		spliced := ""
		if rng.Intn(3) == 0 && !big {
			var w2 []byte
			for i, c := range calls {
				for j := range perCall[i] {
					if j > 0 && rng.Intn(2) == 0 {
						pf := rawFrame{Fin: true, Op: pick(9, 9, 10), Masked: senderClient, Key: randBytes(4), Payload: randBytes(pick(0, 3, 125))}
						w2 = append(w2, pf.encode()...)
						if pf.Op == 9 {
							wantPongs = append(wantPongs, pf.Payload)
						}
						spliced += fmt.Sprintf("[call %d before fragment %d: %s] ", i, j, pf.String())
					}
					w2 = append(w2, sep.writes[frameIndex(perCall, i, j)]...)
				}
				if c.T == 9 {
					wantPongs = append(wantPongs, c.P)
				}
			}
			wire = w2
		} else {
			for _, c := range calls {
				if c.T == 9 {
					wantPongs = append(wantPongs, c.P)
				}
			}
		}
		rp.Spliced = spliced
		rp.WireLen = len(wire)
		if len(wire) <= 600 {
			rp.WireHex = hx.Hex(wire)
		}
		var want []msg
		for _, c := range calls {
			if c.T == 1 || c.T == 2 {
				want = append(want, msg{c.T, c.P})
			}
		}
		// ---- receiver, every segmentation
		segs := segmentations(len(wire), 2)
		if big {
			segs = []segmentation{{Kind: "whole"}, {Kind: "random-cuts", Cuts: randomCuts(len(wire), 40)}}
		}
		if len(wire) > 20000 && len(segs) > 3 {
			segs = segs[:3]
		}
		for si, sg := range segs {
			if rep.Cases-start >= n+200 {
				break
			}
			caseNo++
			rp.SegKind = sg.Kind
			rep.Ops += len(sg.Cuts) + 1
			rep_ := rp
			rep_.Cuts = fmt.Sprint(sg.Cuts)
			if len(sg.Cuts) > 200 {
				rep_.Cuts = sprintCuts(sg.Cuts)
			}
			rep1 := newEndpoint(rcfg, func(max int) int { return 1 + rng.Intn(max) })
			res := rep1.feed(cutAt(wire, sg.Cuts), 0)
			key := fmt.Sprintf("12/%s/comp=%v/client=%v/fl=%d/seg=%s/n=%d/sp=%v", classOfCalls(calls), comp, senderClient, flimit, sg.Kind, len(calls), spliced != "")
			rep.Case(key, len(wire) >= 2)
			rep.Stat("12:seg:" + sg.Kind)
			if !big && modelable(rcfg) && (thorough || len(wire) <= 8192 || (si == 0 && (len(wire) <= 70000 || wireNo%3 == 0))) {
				rep.Stat("12:model-runs")
				if d := compareModel(model, rep1, res); d != "" {
					finding("mismatch", "C12", "ws-receiver-model", "receiver: "+d, rep_)
				}
			}
			oracle12(rep1, res, want, wantPongs, spliced != "", rep_)
		}
		rep.Stat("12:alloc:sender=" + scfg.Alloc)
		rep.Stat("12:alloc:receiver=" + rcfg.Alloc)
		rep.Stat(fmt.Sprintf("12:wire:comp=%v", comp))
		rep.Stat(fmt.Sprintf("12:wire:senderClient=%v", senderClient))
		rep.Stat(fmt.Sprintf("12:wire:framelimit=%d", flimit))
		if big {
			rep.Stat("12:wire:MiB")
		}
		for _, c := range calls {
			rep.Stat("12:len:" + lenClass(len(c.P), flimit))
		}
		if wireNo <= 3 {
			rep.Sample(map[string]interface{}{"part": 12, "sender": scfg, "receiver": rcfg, "calls": rp.Calls, "wire_len": len(wire), "segmentations": len(segs), "delivered_ok": true})
		}
	}
}

func frameIndex(perCall [][]rawFrame, i, j int) int {
	k := 0
	for a := 0; a < i; a++ {
		k += len(perCall[a])
	}
	return k + j
}

func lenClass(l, fl int) string {
	switch {
	case l == 0:
		return "0"
	case l < 125:
		return "1..124"
	case l <= 127:
		return fmt.Sprint(l)
	case l == fl-1 || l == fl || l == fl+1:
		return "framelimit+-1"
	case l < 65535:
		return "128..65534"
	case l <= 65537:
		return fmt.Sprint(l)
	case l < 1<<20:
		return "64Ki..1Mi"
	}
	return ">=1Mi"
}

func classOfCalls(cs []call) string {
	s := ""
	for _, c := range cs {
		s += fmt.Sprintf("%d:%s,", c.T, lenClass(len(c.P), -5))
	}
	return s
}

// what WriteMessage put on the wire, checked without any nbio code
func checkSenderWire(sc cfg, calls []call, perCall [][]rawFrame, rp replay12) (wireBroken bool) {
	for i, c := range calls {
		fs := perCall[i]
		bad := func(sig, what string) {
			finding("oracle", "C12", sig, fmt.Sprintf("call %d (type %d, %d bytes): %s", i, c.T, len(c.P), what), rp)
		}
		if len(fs) == 0 {
			bad("wire-no-frame", "nothing was written")
			continue
		}
		compressed := fs[0].R1
		if compressed && !(sc.WComp && (c.T == 1 || c.T == 2)) {
			bad("wire-rsv1-unexpected", "RSV1 set on a message that must not be compressed")
		}
		if !compressed && sc.WComp && (c.T == 1 || c.T == 2) {
			bad("wire-not-compressed", "compression negotiated but the message was sent uncompressed")
		}
		if c.T >= 8 && len(fs) != 1 {
			bad("control-frame-fragmented", fmt.Sprintf("a control message of %d bytes was written as %d frames (MaxWebsocketFramePayloadSize=%d): RFC 6455 5.5 forbids fragmented control frames, the peer fails the connection", len(c.P), len(fs), sc.FrameLimit))
			wireBroken = true
			continue
		}
		var body []byte
		for j, f := range fs {
			if f.Masked != sc.Client {
				bad("wire-mask-direction", fmt.Sprintf("frame %d: mask bit %v for client=%v", j, f.Masked, sc.Client))
			}
			if f.R2 || f.R3 || (j > 0 && f.R1) {
				bad("wire-rsv-bits", fmt.Sprintf("frame %d: reserved bits set", j))
			}
			wantOp := c.T
			if j > 0 {
				wantOp = 0
			}
			if f.Op != wantOp {
				bad("wire-opcode", fmt.Sprintf("frame %d: opcode %d, want %d", j, f.Op, wantOp))
			}
			if f.Fin != (j == len(fs)-1) {
				bad("wire-fin", fmt.Sprintf("frame %d of %d: FIN=%v", j, len(fs), f.Fin))
			}
			if len(f.Payload) > sc.FrameLimit && c.T < 8 {
				bad("wire-frame-over-limit", fmt.Sprintf("frame %d carries %d bytes, MaxWebsocketFramePayloadSize=%d", j, len(f.Payload), sc.FrameLimit))
			}
			if len(f.Payload) == 0 && len(fs) > 1 {
				bad("wire-empty-fragment", fmt.Sprintf("frame %d of a fragmented message is empty", j))
			}
			body = append(body, f.Payload...)
		}
		if compressed {
			out, err := inflateAll(body)
			if err != nil || !bytes.Equal(out, c.P) {
				bad("wire-deflate-payload", fmt.Sprintf("the compressed payload (%d bytes) does not inflate to the message (err=%v, got %d bytes)", len(body), err, len(out)))
			}
		} else if !bytes.Equal(body, c.P) {
			bad("wire-payload", "the concatenated frame payloads differ from the message")
		}
	}
	return
}

func oracle12(ep *endpoint, res []opRes, want []msg, wantPongs [][]byte, spliced bool, rp replay12) {
	fail := func(sig, what string) { finding("oracle", "C12", sig, what, rp) }
	for i, r := range res {
		if r.Err != "-" {
			sig := "roundtrip-parse-error"
			if spliced && r.Err == "toolarge" {
				sig = "control-frame-counted-against-message-limit"
			}
			fail(sig, fmt.Sprintf("Parse of segment %d failed with %s; delivered %d of %d messages", i, r.Err, len(ep.msgs), len(want)))
			return
		}
	}
	if ep.mc.closed {
		fail("roundtrip-conn-closed", fmt.Sprintf("the receiver closed the connection; delivered %d of %d messages", len(ep.msgs), len(want)))
		return
	}
	if len(ep.msgs) != len(want) {
		sig := "roundtrip-count"
		if len(ep.msgs) < len(want) {
			sig = "roundtrip-message-lost"
		} else {
			sig = "roundtrip-message-duplicated"
		}
		fail(sig, fmt.Sprintf("delivered %d messages, sent %d", len(ep.msgs), len(want)))
		return
	}
	for i, m := range ep.msgs {
		if m.T != want[i].T {
			fail("roundtrip-type", fmt.Sprintf("message %d delivered with type %d, sent %d", i, m.T, want[i].T))
			return
		}
		if !bytes.Equal(m.P, want[i].P) {
			fail("roundtrip-payload", fmt.Sprintf("message %d: payload differs (got %d bytes, sent %d bytes)", i, len(m.P), len(want[i].P)))
			return
		}
	}
	// pongs
	var got [][]byte
	for _, w := range ep.writes {
		f, _, ok := decodeOne(w)
		if ok && ((f.Op >= 8 && !f.Fin) || f.Op == 0) {
			fail("control-frame-fragmented", fmt.Sprintf("the receiver's reply was written as a fragmented control frame (MaxWebsocketFramePayloadSize=%d): %s", ep.cfg.FrameLimit, hx.Hex(w)))
			return
		}
		if !ok || f.Op != 10 || !f.Fin || f.Masked != ep.cfg.Client {
			fail("roundtrip-unexpected-reply", fmt.Sprintf("the receiver wrote something that is not a well-formed pong: %s", hx.Hex(w)))
			return
		}
		got = append(got, f.Payload)
	}
	if len(got) != len(wantPongs) {
		fail("roundtrip-pong-count", fmt.Sprintf("%d pings, %d pongs", len(wantPongs), len(got)))
		return
	}
	for i := range got {
		if !bytes.Equal(got[i], wantPongs[i]) {
			fail("roundtrip-pong-payload", fmt.Sprintf("pong %d carries %s, ping carried %s", i, hx.Hex(got[i]), hx.Hex(wantPongs[i])))
			return
		}
	}
	if st := websocket.VerifGetState(ep.c); st.Cached != 0 || !st.MessageNil || st.Expecting {
		fail("roundtrip-residue", fmt.Sprintf("after the whole wire: %d bytes cached, message under assembly=%v, expectingFragments=%v", st.Cached, !st.MessageNil, st.Expecting))
	}
}
