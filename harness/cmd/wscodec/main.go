// Harness for C12 (WebSocket message round trip), C13 (frame validation per RFC 6455) and C15 (size limits).
//
//	-parts 12   round trip: real sender (WriteMessage) -> wire -> real receiver (Parse), both roles, compression,
//	            frame limits, interleaved control frames, segmentations.
//	            M: sender's wire bytes and receiver's events/state vs. the Coq model (coq/ws/WsModel.v)
//	            O12: delivered == sent (type, payload, once, in order); the wire decodes with an independent decoder
//	-parts 13   conformance: an independent hand-written frame generator over the header space x payload classes,
//	            an RFC 6455 reference written here (not the model), M as above, O13: verdict / deliveries / replies
//	-parts 15   limits: message limit around every generated size (one frame, fragments, after inflation),
//	            control frames > 125 on send and receive, ReadLimit; M as above, O15
//	-gen FILE   write coq/ws/GenWs.v: the table of the REAL validFrame and validCloseCode
package main

import (
	"flag"
	"fmt"
	"math/rand"
	"os"
	"strings"

	"github.com/lesismal/nbio/logging"
	"verifharness/hx"
)

var (
	rep         *hx.Report
	model       *hx.Model
	rng         *rand.Rand
	thorough    bool
	strictAfter bool
	only        string
	verbose     bool
)

func main() {
	seed := flag.Int64("seed", 1, "PRNG seed")
	n := flag.Int("n", 2000, "number of cases (receiver runs) per part")
	modelPath := flag.String("model", "", "extracted model executable")
	out := flag.String("out", "", "report file")
	parts := flag.String("parts", "12,13,15", "which parts to run")
	gen := flag.String("gen", "", "write GenWs.v (table of the real validFrame / validCloseCode) and exit")
	flag.BoolVar(&thorough, "thorough", false, "all cuts for longer wires, all close codes, MiB sizes")
	flag.BoolVar(&strictAfter, "strict-after-fail", false,
		"also report data delivered after the endpoint failed/closed the connection within the same read (RFC 6455 7.1.7)")
	flag.StringVar(&only, "only", "", "part 13/15: run only the systematic cases whose class starts with this prefix (debugging, replay)")
	flag.BoolVar(&verbose, "v", false, "print every case of -only runs")
	flag.Parse()
	logging.SetLevel(logging.LevelNone)
	if *gen != "" {
		if err := os.WriteFile(*gen, []byte(genWsV()), 0o644); err != nil {
			hx.Fatal("gen: %v", err)
		}
		return
	}
	rep = hx.NewReport("wscodec", *seed)
	rng = rand.New(rand.NewSource(*seed))
	if *modelPath != "" {
		// the extracted list functions are not tail recursive: give the model a large stack
		model = hx.StartModel("/bin/sh", "-c", "ulimit -s 4000000 2>/dev/null || ulimit -s unlimited 2>/dev/null; exec "+*modelPath)
		defer model.Close()
	}
	rep.Rule = "one case = one run of a real receiving websocket.Conn over one (wire, segmentation); wires come from the real sender " +
		"(part 12), from an independent frame generator (part 13) or from limit-straddling constructions (part 15); " +
		"non-trivial = at least one frame was parsed; key = class of the wire + configuration + segmentation kind"
	for _, p := range strings.Split(*parts, ",") {
		switch strings.TrimSpace(p) {
		case "12":
			part12(*n)
			limitSeqFamily("C12")
			concurrentPairs()
			dialerTier()
		case "12d":
			dialerTier()
		case "12l":
			limitSeqFamily("C12")
		case "12c":
			concurrentPairs()
		case "13":
			limitSeqFamily("C13")
			part13(*n)
		case "15":
			part15(*n)
		case "15e":
			part15e()
		case "":
		default:
			hx.Fatal("unknown part %q", p)
		}
	}
	dumpModelTime()
	rep.Write(*out)
}

func finding(kind, prop, sig, what string, replay interface{}) {
	rep.Add(hx.Finding{Kind: kind, Property: prop, Signature: sig, What: what, Replay: replay})
}

// ---- small generators shared by the parts
func pick(xs ...int) int { return xs[rng.Intn(len(xs))] }

func randBytes(n int) []byte {
	b := make([]byte, n)
	rng.Read(b)
	return b
}

// compressible content: runs and a small alphabet
func compressible(n int) []byte {
	b := make([]byte, n)
	i := 0
	for i < n {
		run := 1 + rng.Intn(40)
		c := byte("abcdefgh \n"[rng.Intn(10)])
		for j := 0; j < run && i < n; j++ {
			b[i] = c
			i++
		}
	}
	return b
}

var utf8Pieces = []string{"a", "z", " ", "\u00e9", "\u00ff", "\u0800", "\u20ac", "\ud7ff", "\ue000", "\ufffd", "\U00010000", "\U0001F600", "\U0010FFFF", "\x00", "\x7f", "\u0080", "\u07ff"}

// valid UTF-8 text of exactly n bytes
func utf8Text(n int) []byte {
	var b []byte
	for len(b) < n {
		p := utf8Pieces[rng.Intn(len(utf8Pieces))]
		if len(b)+len(p) > n {
			p = "x"
		}
		b = append(b, p...)
	}
	return b
}

// cut a wire into segments at the given positions (strictly increasing, inside the wire)
func cutAt(w []byte, cuts []int) [][]byte {
	var segs [][]byte
	prev := 0
	for _, c := range cuts {
		if c <= prev || c >= len(w) {
			continue
		}
		segs = append(segs, w[prev:c])
		prev = c
	}
	if prev < len(w) {
		segs = append(segs, w[prev:])
	}
	return segs
}

func randomCuts(n, k int) []int {
	if n < 2 {
		return nil
	}
	m := map[int]bool{}
	for i := 0; i < k; i++ {
		m[1+rng.Intn(n-1)] = true
	}
	var cs []int
	for i := 1; i < n; i++ {
		if m[i] {
			cs = append(cs, i)
		}
	}
	return cs
}

type segmentation struct {
	Kind string
	Cuts []int
}

// the segmentations tried for one wire: whole, byte-wise (short wires), every single cut (short wires),
// every composition (very short wires), random multi-cuts
func segmentations(n int, budget int) []segmentation {
	out := []segmentation{{Kind: "whole"}}
	if n < 2 {
		return out
	}
	if n <= 7 || (thorough && n <= 9) {
		for mask := 1; mask < 1<<uint(n-1); mask++ {
			var cs []int
			for i := 1; i < n; i++ {
				if mask&(1<<uint(i-1)) != 0 {
					cs = append(cs, i)
				}
			}
			out = append(out, segmentation{"composition", cs})
		}
		return out
	}
	lim1, limB := 48, 600
	if thorough {
		lim1, limB = 400, 6000
	}
	if n <= limB {
		var cs []int
		for i := 1; i < n; i++ {
			cs = append(cs, i)
		}
		out = append(out, segmentation{"bytewise", cs})
	}
	if n <= lim1 {
		for i := 1; i < n; i++ {
			out = append(out, segmentation{"single-cut", []int{i}})
		}
	} else {
		for i := 0; i < budget; i++ {
			out = append(out, segmentation{"single-cut", []int{1 + rng.Intn(n-1)}})
		}
	}
	for i := 0; i < budget; i++ {
		out = append(out, segmentation{"random-cuts", randomCuts(n, 2+rng.Intn(6))})
	}
	return out
}

func sprintCuts(cs []int) string {
	if len(cs) > 24 {
		return fmt.Sprintf("%v...(%d cuts)", cs[:24], len(cs))
	}
	return fmt.Sprint(cs)
}
