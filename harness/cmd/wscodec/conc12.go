package main

// Part 12, concurrent tier: N independent connections (pairs of real websocket.Conn) run in parallel goroutines.
// Nothing is shared between the pairs except what the LIBRARY shares at package level: the flate reader pool, the
// flate writer pools (one per compression level), the engine's default BodyAllocator (mempool.DefaultMemPool) and the
// buffers the upgrader/engine keep.  Every pair sends messages in both directions (server->client and client->server,
// so both roles write and both roles parse) and checks after every message that it was delivered exactly once, with
// its type and payload.  A defect in one of the shared pools (an object handed out twice, a buffer given back twice,
// a writer returned to the pool of another level) shows up as a wrong payload, a lost message or a failed connection
// on SOME pair; a single connection alone would round-trip correctly.
//
// Contents and configurations are functions of (-seed, round, pair): deterministic.  The interleaving of the goroutines
// is not, but on a correct library the outcome does not depend on it.

import (
	"bytes"
	"fmt"
	"io"
	"math/rand"
	"net"
	"reflect"
	"runtime"
	"sync"
	"sync/atomic"
	"time"
	"unsafe"

	"github.com/lesismal/nbio/nbhttp"
	"github.com/lesismal/nbio/nbhttp/websocket"
	"verifharness/hx"
)

type pairCfg struct {
	Round      int    `json:"round"`
	Pair       int    `json:"pair"`
	Seed       int64  `json:"content_seed"`
	Comp       bool   `json:"compression"`
	LevelA     int    `json:"level_server_side"`
	LevelB     int    `json:"level_client_side"`
	FrameLimit int    `json:"frame_limit"`
	Release    bool   `json:"release_payload"`
	Hooked     bool   `json:"decompressor_through_hook"`
	Alloc      string `json:"body_allocator"` // "" the engines' default pool, else see cfg.Alloc
	Msgs       int    `json:"messages"`
}

// a net.Conn that keeps what was written since the last take()
type wireConn struct {
	buf    bytes.Buffer
	closed bool
}

func (w *wireConn) take() []byte {
	b := append([]byte{}, w.buf.Bytes()...)
	w.buf.Reset()
	return b
}

type lightEnd struct {
	c    *websocket.Conn
	w    *wireConn
	got  []msg
	name string
}

func newLightEnd(pc pairCfg, client bool, eng *nbhttp.Engine) *lightEnd {
	le := &lightEnd{w: &wireConn{}, name: "server"}
	if client {
		le.name = "client"
	}
	u := websocket.NewUpgrader()
	u.Engine = eng
	u.KeepaliveTime = 0
	u.EnableCompression(pc.Comp)
	lvl := pc.LevelA
	if client {
		lvl = pc.LevelB
	}
	_ = u.SetCompressionLevel(lvl)
	u.OnMessage(func(_ *websocket.Conn, mt websocket.MessageType, data []byte) {
		le.got = append(le.got, msg{int(mt), append([]byte{}, data...)})
	})
	if pc.Hooked {
		// the library's own reader behind the public hook (what an application installing a wrapper would do)
		u.WebsocketDecompressor = func(_ *websocket.Conn, r io.Reader) io.ReadCloser { return websocket.VerifDecompressReader(r) }
	}
	mc := &lightConn{w: le.w}
	if client {
		le.c = websocket.NewClientConn(u, mc, "", pc.Comp, false)
	} else {
		le.c = websocket.NewServerConn(u, mc, "", pc.Comp, false)
	}
	le.c.Execute = nbhttp.SyncExecutor
	if pc.Release {
		setBoolField(le.c, "releasePayload", true)
	}
	return le
}

// set an unexported bool field of the Conn by name (ReleasePayload is only copied into the Conn by Upgrade)
func setBoolField(c *websocket.Conn, name string, v bool) bool {
	f := reflect.ValueOf(c).Elem().FieldByName(name)
	if !f.IsValid() || f.Kind() != reflect.Bool {
		return false
	}
	reflect.NewAt(f.Type(), unsafe.Pointer(f.UnsafeAddr())).Elem().SetBool(v)
	return true
}

// message i of a pair: type and payload are a function of the pair's PRNG only
func concMessage(r *rand.Rand, frameLimit int) (int, []byte, string) {
	t := 1 + r.Intn(2)
	var n int
	class := ""
	switch k := r.Intn(10); {
	case k < 3: // large and compressible: inflation takes several reads of the decompressor
		n, class = 40000+r.Intn(24000), "50K-compressible"
	case k < 4:
		n, class = 8000+r.Intn(30000), "incompressible"
	case k < 6:
		n, class = pick2(r, 0, 1, 125, 126, 127, frameLimit-1, frameLimit, frameLimit+1), "boundary"
	default:
		n, class = r.Intn(3000), "small"
	}
	if n < 0 {
		n = 0
	}
	p := make([]byte, n)
	switch class {
	case "incompressible":
		r.Read(p)
		if t == 1 {
			for i := range p {
				p[i] = 'A' + p[i]%58 // ASCII: valid UTF-8, still poorly compressible
			}
		}
	default:
		// runs over a small alphabet, different for every message
		i := 0
		for i < n {
			run := 1 + r.Intn(60)
			c := byte("abcdefghijklmnopqrstuvwxyz 0123456789\n"[r.Intn(38)])
			for j := 0; j < run && i < n; j++ {
				p[i] = c
				i++
			}
		}
	}
	return t, p, class
}

func pick2(r *rand.Rand, xs ...int) int { return xs[r.Intn(len(xs))] }

type pairOutcome struct {
	Sig      string
	What     string
	Sent     int
	Class    map[string]int
	Cfg      pairCfg
	MsgIndex int
}

func runPair(pc pairCfg, engA, engB *nbhttp.Engine, stop *int32) (out pairOutcome) {
	out = pairOutcome{Cfg: pc, Class: map[string]int{}}
	defer func() {
		if e := recover(); e != nil {
			out.Sig, out.What = "concurrent-pairs-panic", fmt.Sprintf("pair %d: panic: %v", pc.Pair, e)
		}
	}()
	r := rand.New(rand.NewSource(pc.Seed))
	a := newLightEnd(pc, false, engA) // server role
	b := newLightEnd(pc, true, engB)  // client role
	for i := 0; i < pc.Msgs; i++ {
		if atomic.LoadInt32(stop) != 0 {
			return
		}
		from, to := a, b
		if r.Intn(2) == 0 {
			from, to = b, a
		}
		t, p, class := concMessage(r, pc.FrameLimit)
		out.Class[class]++
		out.MsgIndex = i
		if r.Intn(12) == 0 { // a ping in front; the pong goes into the receiver's own wire and is dropped
			if err := from.c.WriteMessage(websocket.PingMessage, p[:minInt(len(p), 40)]); err != nil {
				out.Sig, out.What = "concurrent-pairs-send-error", fmt.Sprintf("pair %d message %d: WriteMessage(ping): %v", pc.Pair, i, err)
				return
			}
		}
		if err := from.c.WriteMessage(websocket.MessageType(t), p); err != nil {
			out.Sig, out.What = "concurrent-pairs-send-error", fmt.Sprintf("pair %d message %d (%s, %d bytes): WriteMessage: %v", pc.Pair, i, class, len(p), err)
			return
		}
		wire := from.w.take()
		before := len(to.got)
		// several reads; yield between them so that other pairs run in the middle of this message
		pos := 0
		for pos < len(wire) {
			n := 1 + r.Intn(len(wire)/3+1)
			if pos+n > len(wire) {
				n = len(wire) - pos
			}
			if err := to.c.Parse(wire[pos : pos+n]); err != nil {
				out.Sig = "concurrent-pairs-lost"
				out.What = fmt.Sprintf("pair %d message %d (%s->%s, type %d, %s, %d bytes): Parse failed: %v; the message was not delivered",
					pc.Pair, i, from.name, to.name, t, class, len(p), err)
				return
			}
			pos += n
			runtime.Gosched()
		}
		to.w.take()
		out.Sent++
		switch d := len(to.got) - before; {
		case d == 0:
			out.Sig = "concurrent-pairs-lost"
			out.What = fmt.Sprintf("pair %d message %d (%s->%s, type %d, %s, %d bytes): not delivered (connection closed by the receiver: %v)",
				pc.Pair, i, from.name, to.name, t, class, len(p), to.c.UnderlayerConn().(*lightConn).closed)
			return
		case d > 1:
			out.Sig = "concurrent-pairs-duplicated"
			out.What = fmt.Sprintf("pair %d message %d: delivered %d times", pc.Pair, i, d)
			return
		}
		g := to.got[len(to.got)-1]
		if g.T != t {
			out.Sig, out.What = "concurrent-pairs-type", fmt.Sprintf("pair %d message %d: sent type %d, delivered type %d", pc.Pair, i, t, g.T)
			return
		}
		if !bytes.Equal(g.P, p) {
			out.Sig = "concurrent-pairs-payload"
			out.What = fmt.Sprintf("pair %d message %d (%s->%s, type %d, %s): payload differs: sent %d bytes, delivered %d bytes, first difference at %d",
				pc.Pair, i, from.name, to.name, t, class, len(p), len(g.P), firstDiff(g.P, p))
			return
		}
		to.got = to.got[:0]
	}
	return
}

func firstDiff(a, b []byte) int {
	n := minInt(len(a), len(b))
	for i := 0; i < n; i++ {
		if a[i] != b[i] {
			return i
		}
	}
	return n
}

func concurrentPairs() {
	pairs, msgs, rounds := 8, 70, 2
	if thorough {
		pairs, msgs, rounds = 10, 200, 6
	}
	if runtime.GOMAXPROCS(0) < 8 {
		defer runtime.GOMAXPROCS(runtime.GOMAXPROCS(8))
	}
	levels := []int{-2, -1, 0, 1, 3, 6, 9, 1, 6, 1}
	for round := 0; round < rounds && !tooMany(); round++ {
		cfgs := make([]pairCfg, pairs)
		engs := make([][2]*nbhttp.Engine, pairs)
		for p := range cfgs {
			cfgs[p] = pairCfg{Round: round, Pair: p, Seed: rep.Seed*1000003 + int64(round)*1009 + int64(p),
				Comp:       p%4 != 3, // most pairs compress; the others share the allocator with them
				LevelA:     levels[(p+round)%len(levels)],
				LevelB:     levels[(p+round+3)%len(levels)],
				FrameLimit: []int{32768, 4096, 65536, 1000, 32768}[(p+round)%5],
				Release:    p%2 == 1,
				Hooked:     p%5 == 4,
				Alloc:      allocKinds[(p+round)%len(allocKinds)],
				Msgs:       msgs}
			// engines are made here, one after the other: NewEngine is not part of what is tested concurrently
			engs[p] = [2]*nbhttp.Engine{newEngine(), newEngine()}
			for _, e := range engs[p] {
				e.MaxWebsocketFramePayloadSize = cfgs[p].FrameLimit
				e.ReadLimit = 0
				if cfgs[p].Alloc != "" {
					e.BodyAllocator = newMeterOf(cfgs[p].Alloc) // locked wrapper; "aligned" is one instance shared by all pairs
				}
			}
		}
		outs := make([]pairOutcome, pairs)
		var stop int32
		var wg sync.WaitGroup
		for p := range cfgs {
			wg.Add(1)
			go func(p int) {
				defer wg.Done()
				outs[p] = runPair(cfgs[p], engs[p][0], engs[p][1], &stop)
				if outs[p].Sig != "" {
					atomic.StoreInt32(&stop, 1)
				}
			}(p)
		}
		done := make(chan struct{})
		go func() { wg.Wait(); close(done) }()
		stuck := false
		select {
		case <-done:
		case <-time.After(90 * time.Second):
			stuck = true
			atomic.StoreInt32(&stop, 1)
		}
		if stuck {
			finding("oracle", "C12", "concurrent-pairs-stuck", fmt.Sprintf("round %d: %d connections running in parallel did not finish within 90 s", round, pairs),
				map[string]interface{}{"seed": rep.Seed, "round": round, "pairs": cfgs})
			return
		}
		for p, o := range outs {
			rep.Case(fmt.Sprintf("12c/pair=%d/comp=%v/levels=%d,%d/fl=%d/release=%v/hook=%v", p, cfgs[p].Comp, cfgs[p].LevelA, cfgs[p].LevelB, cfgs[p].FrameLimit, cfgs[p].Release, cfgs[p].Hooked), true)
			rep.Stat("12c:pairs")
			if o.Sig != "" {
				finding("oracle", "C12", o.Sig, fmt.Sprintf("%d connections in parallel, round %d: %s", pairs, round, o.What),
					map[string]interface{}{"seed": rep.Seed, "pair": o.Cfg, "message_index": o.MsgIndex, "all_pairs_of_the_round": cfgs,
						"how_to_run": "build/bin/wscodec -parts 12c -seed <seed> [-thorough]; contents are a function of the seed, the goroutine interleaving is not: rerun a few times"})
				continue
			}
			if atomic.LoadInt32(&stop) == 0 {
				rep.Ops += o.Sent
				for k, v := range o.Class {
					rep.StatN("12c:msg:"+k, v)
				}
			}
		}
	}
	rep.Extra["part12_concurrent"] = fmt.Sprintf("%d rounds x %d pairs x %d messages, both directions per pair", rounds, pairs, msgs)
}

// ---- a minimal net.Conn for the light endpoints
type lightConn struct {
	w      *wireConn
	closed bool
}

func (c *lightConn) Read(b []byte) (int, error) { return 0, io.ErrClosedPipe }
func (c *lightConn) Write(b []byte) (int, error) {
	if c.closed {
		return 0, io.ErrClosedPipe
	}
	return c.w.buf.Write(b)
}
func (c *lightConn) Close() error                       { c.closed = true; return nil }
func (c *lightConn) LocalAddr() net.Addr                { return &net.TCPAddr{} }
func (c *lightConn) RemoteAddr() net.Addr               { return &net.TCPAddr{} }
func (c *lightConn) SetDeadline(t time.Time) error      { return nil }
func (c *lightConn) SetReadDeadline(t time.Time) error  { return nil }
func (c *lightConn) SetWriteDeadline(t time.Time) error { return nil }

var _ = hx.Hex
