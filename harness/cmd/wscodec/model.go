package main

// Talking to the extracted Coq model (ocaml/ws/main.ml) and comparing its answer with what the endpoint did.

import (
	"fmt"
	"os"
	"strings"
	"time"

	"verifharness/hx"
)

type modelProg struct {
	C    cfg
	Keys [][]byte
	Infl [][]string
	Defl [][]byte
	Ops  []string
}

func joinOr(xs []string, sep string) string {
	if len(xs) == 0 {
		return "-"
	}
	return strings.Join(xs, sep)
}

func (p modelProg) line() string {
	var ks, is, ds []string
	for _, k := range p.Keys {
		ks = append(ks, hx.Hex(k))
	}
	for _, s := range p.Infl {
		if len(s) == 0 {
			is = append(is, "f") // an empty script cannot be written down; no real reader produces it
		} else {
			is = append(is, strings.Join(s, "."))
		}
	}
	for _, d := range p.Defl {
		if d == nil {
			ds = append(ds, "!")
		} else {
			ds = append(ds, hx.Hex(d))
		}
	}
	return fmt.Sprintf("run %s K=%s I=%s D=%s %s", p.C.modelArgs(), joinOr(ks, ","), joinOr(is, ";"), joinOr(ds, ","), strings.Join(p.Ops, " "))
}

type modelRes struct {
	Err, Ev, St string
}

func askModel(m *hx.Model, p modelProg) []modelRes {
	if len(p.Ops) == 0 {
		return nil
	}
	ans := m.Ask("%s", p.line())
	var out []modelRes
	for _, part := range strings.Split(ans, " | ") {
		var r modelRes
		for _, f := range strings.Fields(part) {
			switch {
			case strings.HasPrefix(f, "E="):
				r.Err = f[2:]
			case strings.HasPrefix(f, "EV="):
				r.Ev = f[3:]
			case strings.HasPrefix(f, "ST="):
				r.St = f[3:]
			}
		}
		out = append(out, r)
	}
	return out
}

func short(s string) string {
	if len(s) > 400 {
		return s[:200] + fmt.Sprintf("...(%d chars)...", len(s)-400) + s[len(s)-200:]
	}
	return s
}

// keys of the frames an endpoint wrote (client role only)
func keysOf(writes [][]byte) [][]byte {
	var ks [][]byte
	for _, w := range writes {
		f, _, ok := decodeOne(w)
		if ok && f.Masked {
			ks = append(ks, f.Key)
		}
	}
	return ks
}

// compare one endpoint's operations with the model; returns "" or a description of the first difference.
// cmpState=false for sender programs (the sender's receive state is not exercised).
func compareModel(m *hx.Model, ep *endpoint, res []opRes) string {
	if m == nil || len(res) == 0 {
		return ""
	}
	p := modelProg{C: ep.cfg, Infl: ep.infl, Defl: ep.defl}
	if ep.cfg.Client {
		p.Keys = keysOf(ep.writes)
	}
	for _, r := range res {
		p.Ops = append(p.Ops, r.Op)
	}
	t0 := time.Now()
	ans := askModel(m, p)
	modelTime[bucket(len(p.line()))] += time.Since(t0)
	modelRuns[bucket(len(p.line()))]++
	if d := time.Since(t0); d > 2*time.Second {
		fmt.Fprintf(os.Stderr, "slow model answer %.1fs: cfg=%+v ops=%d line=%d bytes\n", d.Seconds(), ep.cfg, len(p.Ops), len(p.line()))
	}
	if len(ans) != len(res) {
		return fmt.Sprintf("model answered %d operations, implementation ran %d", len(ans), len(res))
	}
	for i, r := range res {
		a := ans[i]
		if a.Err != r.Err {
			return fmt.Sprintf("op %d (%s): error class: implementation %s, model %s", i, short(r.Op), r.Err, a.Err)
		}
		if ev := joinOr(r.Ev, ","); a.Ev != ev {
			return fmt.Sprintf("op %d (%s): events: implementation %s, model %s", i, short(r.Op), short(ev), short(a.Ev))
		}
		if a.St != r.St {
			return fmt.Sprintf("op %d (%s): state (cached,message,msgType,compress,expecting,closed,connClosed): implementation %s, model %s", i, short(r.Op), r.St, a.St)
		}
	}
	return ""
}

// can the model follow this endpoint? (it needs the reader scripts for compressed input and the deflate output
// for compressed output)
func modelable(c cfg) bool {
	if c.Handlers != "" {
		return false // the model covers the OnMessage-only configuration
	}
	if c.EnComp && c.Decomp == 0 {
		return false
	}
	if c.WComp && !c.Hooks {
		return false
	}
	return true
}

var modelTime = map[int]time.Duration{}
var modelRuns = map[int]int{}

func bucket(n int) int {
	b := 1
	for b < n {
		b *= 4
	}
	return b
}

func dumpModelTime() {
	if os.Getenv("WS_MODEL_TIMING") == "" {
		return
	}
	for b, d := range modelTime {
		fmt.Fprintf(os.Stderr, "model lines <= %d bytes: %d runs, %.1fs\n", b, modelRuns[b], d.Seconds())
	}
}
